(* Base/VarintProofs.v — slicing lemmas and the uvarint round trip. *)
From GL Require Import Base.Bytes Base.BytesProofs Base.Varint.
From Coq Require Import Arith ZArith Lia ZifyN ZifyNat ZifyBool.

(* ---------------- slices ---------------- *)
Lemma lenN_nil {A} : lenN (@nil A) = 0.
Proof. reflexivity. Qed.

Lemma lenN_cons {A} (x : A) l : lenN (x :: l) = 1 + lenN l.
Proof. unfold lenN. cbn [length]. lia. Qed.

Lemma lenN_app {A} (a b : list A) : lenN (a ++ b) = lenN a + lenN b.
Proof. unfold lenN. rewrite app_length. lia. Qed.

Lemma lenN_0 {A} (l : list A) : lenN l = 0 -> l = [].
Proof. unfold lenN. destruct l; cbn [length]; [reflexivity | lia]. Qed.

Lemma dropN_0 {A} (l : list A) : dropN 0 l = l.
Proof. reflexivity. Qed.

Lemma takeN_0 {A} (l : list A) : takeN 0 l = [].
Proof. reflexivity. Qed.

Lemma dropN_app {A} (a b : list A) : dropN (lenN a) (a ++ b) = b.
Proof.
  unfold dropN, lenN. rewrite Nat2N.id, skipn_app, skipn_all, Nat.sub_diag. reflexivity.
Qed.

Lemma dropN_app_ge {A} n (a b : list A) : lenN a <= n -> dropN n (a ++ b) = dropN (n - lenN a) b.
Proof.
  unfold dropN, lenN. intros H. rewrite skipn_app.
  rewrite (skipn_all2 a) by lia. cbn [app]. f_equal. lia.
Qed.

Lemma dropN_app_le {A} n (a b : list A) : n <= lenN a -> dropN n (a ++ b) = dropN n a ++ b.
Proof.
  unfold dropN, lenN. intros H. rewrite skipn_app.
  replace (N.to_nat n - length a)%nat with 0%nat by lia. reflexivity.
Qed.

Lemma takeN_app {A} (a b : list A) : takeN (lenN a) (a ++ b) = a.
Proof.
  unfold takeN, lenN. rewrite Nat2N.id, firstn_app, firstn_all, Nat.sub_diag. cbn. apply app_nil_r.
Qed.

Lemma takeN_app_le {A} n (a b : list A) : n <= lenN a -> takeN n (a ++ b) = takeN n a.
Proof.
  unfold takeN, lenN. intros H. rewrite firstn_app.
  replace (N.to_nat n - length a)%nat with 0%nat by lia. cbn. apply app_nil_r.
Qed.

Lemma takeN_all {A} n (l : list A) : lenN l <= n -> takeN n l = l.
Proof. unfold takeN, lenN. intros H. apply firstn_all2. lia. Qed.

Lemma dropN_all {A} n (l : list A) : lenN l <= n -> dropN n l = [].
Proof. unfold dropN, lenN. intros H. apply skipn_all2. lia. Qed.

Lemma takeN_dropN {A} n (l : list A) : takeN n l ++ dropN n l = l.
Proof. apply firstn_skipn. Qed.

Lemma lenN_takeN {A} n (l : list A) : n <= lenN l -> lenN (takeN n l) = n.
Proof. unfold takeN, lenN. intros H. rewrite firstn_length. lia. Qed.

Lemma lenN_dropN {A} n (l : list A) : lenN (dropN n l) = lenN l - n.
Proof. unfold dropN, lenN. rewrite skipn_length. lia. Qed.

Lemma skipn_skipn' {A} (x y : nat) (l : list A) : skipn x (skipn y l) = skipn (y + x) l.
Proof.
  revert l. induction y as [|y IH]; intros l; [reflexivity|].
  destruct l as [|a l]; cbn [skipn plus]; [destruct x; reflexivity | apply IH].
Qed.

Lemma dropN_dropN {A} n m (l : list A) : dropN n (dropN m l) = dropN (m + n) l.
Proof. unfold dropN. rewrite skipn_skipn'. f_equal. lia. Qed.

Lemma sliceN_app3 {A} (a b d : list A) : sliceN (lenN a) (lenN a + lenN b) (a ++ b ++ d) = b.
Proof.
  unfold sliceN. rewrite dropN_app. replace (lenN a + lenN b - lenN a) with (lenN b) by lia.
  apply takeN_app.
Qed.

Lemma lenN_le32 x : lenN (le32 x) = 4.
Proof. unfold lenN, le32. rewrite le_encode_length. reflexivity. Qed.

(* ---------------- bit facts ---------------- *)
Lemma land_low_shifted a b s : a < 2 ^ s -> N.land a (b * 2 ^ s) = 0.
Proof.
  intros H. apply N.bits_inj. intros n. rewrite N.land_spec, N.bits_0.
  destruct (N.ltb_spec n s) as [L|L].
  - rewrite N.mul_pow2_bits_low by exact L. apply andb_false_r.
  - destruct (N.eq_dec a 0) as [->|Na]; [rewrite N.bits_0; reflexivity|].
    rewrite (N.bits_above_log2 a n); [reflexivity|].
    apply N.log2_lt_pow2; [lia|].
    eapply N.lt_le_trans; [exact H|]. apply N.pow_le_mono_r; lia.
Qed.

Lemma lor_shifted a b s : a < 2 ^ s -> N.lor a (N.shiftl b s) = a + b * 2 ^ s.
Proof.
  intros H. rewrite N.shiftl_mul_pow2.
  rewrite <- N.lxor_lor by (apply land_low_shifted; exact H).
  symmetry. apply N.add_nocarry_lxor. apply land_low_shifted; exact H.
Qed.

Lemma lor_128 y : y < 256 -> N.lor y 128 = y mod 128 + 128.
Proof.
  intros H.
  assert (E : y = y mod 128 + (y / 128) * 2 ^ 7) by (change (2 ^ 7) with 128; pose proof (N.div_mod' y 128); lia).
  assert (R : y mod 128 < 2 ^ 7) by (change (2 ^ 7) with 128; apply N.mod_lt; lia).
  assert (Q : y / 128 = 0 \/ y / 128 = 1).
  { assert (y / 128 < 2) by (apply N.div_lt_upper_bound; lia). lia. }
  assert (L : N.lor (y mod 128) 128 = y mod 128 + 128).
  { change 128 with (N.shiftl 1 7) at 2. rewrite lor_shifted by exact R. reflexivity. }
  destruct Q as [Q|Q]; rewrite Q in E.
  - rewrite N.mul_0_l, N.add_0_r in E. rewrite E at 1. exact L.
  - change (1 * 2 ^ 7) with 128 in E. rewrite <- L in E.
    rewrite E at 1. rewrite <- N.lor_assoc. rewrite N.lor_diag. exact L.
Qed.

Lemma cont_byte_bounds x : 128 <= N.lor (x mod 256) 128 < 256.
Proof.
  rewrite lor_128 by (apply N.mod_lt; lia).
  assert ((x mod 256) mod 128 < 128) by (apply N.mod_lt; lia). lia.
Qed.

Lemma cont_byte_low x : N.land (N.lor (x mod 256) 128) 127 = x mod 128.
Proof.
  rewrite lor_128 by (apply N.mod_lt; lia).
  change 127 with (N.ones 7). rewrite N.land_ones. change (2 ^ 7) with 128.
  rewrite <- (N.mul_1_l 128) at 2. rewrite N.mod_add by lia.
  rewrite N.mod_mod by lia.
  change 256 with (128 * 2). rewrite N.mod_mul_r by lia.
  rewrite N.mul_comm, N.mod_add by lia. apply N.mod_mod. lia.
Qed.

(* ---------------- PutUvarint ---------------- *)
Lemma put_uvarint_f_length fuel x :
  1 <= lenN (put_uvarint_f fuel x) <= N.of_nat fuel + 1.
Proof.
  revert x. induction fuel as [|f IH]; intros x; cbn [put_uvarint_f].
  - rewrite lenN_cons, lenN_nil. lia.
  - destruct (128 <=? x).
    + rewrite lenN_cons. specialize (IH (N.shiftr x 7)). lia.
    + rewrite lenN_cons, lenN_nil. lia.
Qed.

Lemma put_uvarint_length x : 1 <= lenN (put_uvarint x) <= 10.
Proof. unfold put_uvarint. pose proof (put_uvarint_f_length 9 x). lia. Qed.

Lemma put_uvarint_f_wf fuel x : wf_bytes (put_uvarint_f fuel x).
Proof.
  revert x. induction fuel as [|f IH]; intros x; cbn [put_uvarint_f].
  - constructor; [|constructor]. unfold wf_byte. apply N.mod_lt. lia.
  - destruct (128 <=? x).
    + constructor; [|apply IH]. unfold wf_byte. apply cont_byte_bounds.
    + constructor; [|constructor]. unfold wf_byte. apply N.mod_lt. lia.
Qed.

Lemma put_uvarint_wf x : wf_bytes (put_uvarint x).
Proof. apply put_uvarint_f_wf. Qed.

(* the decoding loop undoes the encoding loop; [i] bytes already consumed, value so far [acc] *)
Lemma uvarint_f_put fuel : forall i acc x rest,
  N.of_nat fuel + i = 9 -> acc < 2 ^ (7 * i) -> x * 2 ^ (7 * i) < 2 ^ 64 ->
  uvarint_f (put_uvarint_f fuel x ++ rest) i acc (7 * i)
  = UvOk (acc + x * 2 ^ (7 * i)) (i + lenN (put_uvarint_f fuel x)).
Proof.
  induction fuel as [|f IH]; intros i acc x rest Hi Hacc Hx.
  - assert (i = 9) by lia. subst i. cbn [put_uvarint_f app uvarint_f].
    change (7 * 9) with 63 in *. change (2 ^ 64) with (2 * 2 ^ 63) in Hx.
    assert (x < 2) by nia.
    rewrite N.mod_small by lia.
    change (9 =? 10) with false. change (9 =? 9) with true. cbn [andb].
    replace (x <? 128) with true by lia. replace (1 <? x) with false by lia.
    rewrite lor_shifted by exact Hacc. rewrite lenN_cons, lenN_nil. reflexivity.
  - cbn [put_uvarint_f].
    assert (Hi10 : (i =? 10) = false) by lia.
    assert (Hi9 : (i =? 9) = false) by lia.
    destruct (N.leb_spec 128 x) as [Hge|Hlt].
    + cbn [app uvarint_f]. rewrite Hi10.
      pose proof (cont_byte_bounds x) as Hb.
      replace (N.lor (x mod 256) 128 <? 128) with false by lia.
      rewrite cont_byte_low.
      rewrite lor_shifted by exact Hacc.
      replace (7 * i + 7) with (7 * (i + 1)) by lia.
      assert (P : 2 ^ (7 * (i + 1)) = 128 * 2 ^ (7 * i)).
      { replace (7 * (i + 1)) with (7 + 7 * i) by lia. rewrite N.pow_add_r. reflexivity. }
      assert (Hm : x mod 128 < 128) by (apply N.mod_lt; lia).
      assert (Hd : x = 128 * (x / 128) + x mod 128) by (apply N.div_mod'; lia).
      rewrite N.shiftr_div_pow2. change (2 ^ 7) with 128.
      rewrite IH.
      * f_equal; [|rewrite lenN_cons; lia]. rewrite P. nia.
      * lia.
      * rewrite P. nia.
      * rewrite P. nia.
    + cbn [app uvarint_f]. rewrite Hi10, Hi9. cbn [andb].
      rewrite N.mod_small by lia.
      replace (x <? 128) with true by lia.
      rewrite lor_shifted by exact Hacc. rewrite lenN_cons, lenN_nil. reflexivity.
Qed.

Theorem uvarint_put x rest : x < 2 ^ 64 ->
  uvarint (put_uvarint x ++ rest) = UvOk x (lenN (put_uvarint x)).
Proof.
  intros H. unfold uvarint, put_uvarint.
  pose proof (uvarint_f_put 9 0 0 x rest) as E. change (7 * 0) with 0 in E.
  rewrite N.pow_0_r, N.mul_1_r in E. rewrite E by (try reflexivity; lia). f_equal.
Qed.

(* a decoded varint consumed a non-empty prefix of the buffer *)
Lemma uvarint_f_ok_bounds buf : forall i x s v n,
  uvarint_f buf i x s = UvOk v n -> i < n /\ n <= i + lenN buf.
Proof.
  induction buf as [|b rest IH]; intros i x s v n H; cbn [uvarint_f] in H; [discriminate|].
  destruct (i =? 10) eqn:E10; [discriminate|].
  destruct (b <? 128).
  - destruct ((i =? 9) && (1 <? b)) eqn:E9; [discriminate|]. injection H as _ <-.
    rewrite lenN_cons. lia.
  - apply IH in H. rewrite lenN_cons. lia.
Qed.
