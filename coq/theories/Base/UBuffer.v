(* Base/UBuffer.v — executable model of leveldb/util/buffer.go (util.Buffer), leveldb/util/buffer_pool.go
   (util.BufferPool), leveldb/util/range.go (BytesPrefix) and the releaser helpers of leveldb/util/util.go.
   Model file: definitions only (proofs in Base/UBufferProofs.v, theorems in Props/C13U.v).

   util.Buffer.  The state is what the code has: the BACKING ARRAY of b.buf ([u_arr], all cap(b.buf) cells of it, also
   the cells above len(b.buf): Alloc hands them out unmodified), len(b.buf) ([u_len]), b.off ([u_off]) and whether
   b.buf is nil ([u_nil]).  Aliasing matters (Bytes, Next, Alloc, readSlice return slices of the array), therefore the
   arrays the buffer abandoned when it reallocated are kept too ([u_old], in order of creation); the current array has
   the identity [length u_old].  A slice held by a caller is a [view]: (array identity, start, length).  Callers may
   read and write through views ([OVRead], [OVWrite]).
   Modelled branch by branch: Bytes, String, Len, Truncate, Reset, tryGrowByReslice, grow (empty-reset, reslice, the
   small first allocation, slide down, the two ErrTooLarge tests, reallocation), Alloc, Grow, Write, WriteByte,
   ReadFrom (the MinRead loop; the reader is a script of answers), makeSlice, WriteTo (the writer is one answer),
   Read, Next, ReadByte, ReadBytes / readSlice, NewBuffer.
   Go ints: arguments that may be negative are [Z]; sizes are [N].  No intermediate value of the code can leave the
   int range when the arguments are ints and cap <= maxInt (grow tests c > maxInt-c-n before computing 2*c+n), so
   the arithmetic is written unbounded.  make([]byte, n) panics for n > [mx] (runtime maxAlloc: "len out of range",
   turned into bytes.ErrTooLarge by makeSlice); running out of memory below that bound is a fatal error of the Go
   runtime, not a panic, and is outside the model.
   NOT modelled: a writer handed to WriteTo that answers a negative count (io.Writer forbids it; the code would
   lower b.off); a reader that scribbles on its argument beyond the count it returns. *)
From GL Require Export Base.Bytes Base.NIdx.
From Coq Require Export ZArith.
Open Scope N_scope.

(* ================================================================ 1. util.Buffer *)

Definition maxInt : N := 9223372036854775807.
Definition smallBufferSize : N := 64.
Definition MinRead : N := 512.

Inductive uerr := UNil | UEOF | UShortWrite | UOther (c : N).

Definition uerr_eqb (a b : uerr) : bool :=
  match a, b with
  | UNil, UNil | UEOF, UEOF | UShortWrite, UShortWrite => true
  | UOther x, UOther y => x =? y
  | _, _ => false
  end.

Inductive upanic :=
| PTruncate        (* "leveldb/util.Buffer: truncation out of range" *)
| PAllocNeg        (* "leveldb/util.Buffer.Alloc: negative count" *)
| PGrowNeg         (* "leveldb/util.Buffer.Grow: negative count" *)
| PTooLarge        (* bytes.ErrTooLarge *)
| PNegRead         (* "leveldb/util.Buffer.ReadFrom: reader returned negative count from Read" *)
| PBadWriteCount   (* "leveldb/util.Buffer.WriteTo: invalid Write count" *)
| PBounds.         (* runtime error: slice bounds out of range *)

Definition upanic_code (p : upanic) : N :=
  match p with
  | PTruncate => 1 | PAllocNeg => 2 | PGrowNeg => 3 | PTooLarge => 4 | PNegRead => 5 | PBadWriteCount => 6 | PBounds => 7
  end.

(* a slice held by a caller: array identity, first cell, length *)
Definition view := (nat * N * N)%type.

(* one answer of the io.Reader handed to ReadFrom: it stores [d] at the start of its argument and returns
   (len d, e); a reader that claims more than its argument holds is [Rd d e] with d longer than the argument;
   [RdNeg]: it returns a negative count *)
Inductive rd := Rd (d : bytes) (e : uerr) | RdNeg.
(* what the reader answers once the script is used up: (0, io.EOF), or (0, nil) for ever *)
Inductive rdtail := TEof | TZeros.

Inductive uop :=
| OBytes | OString | OLen
| OTruncate (n : Z) | OReset
| OAlloc (n : Z) | OGrow (n : Z) | OWrite (p : bytes) | OWriteByte (c : N)
| OReadFrom (sc : list rd) (tl : rdtail)
| OWriteTo (m : N) (e : uerr)        (* the io.Writer answers (m, e) when it is called *)
| ORead (k : N)                      (* Read(p) with len(p) = k *)
| ONext (n : Z) | OReadByte | OReadBytes (delim : N)
| OVWrite (v : view) (pos : N) (d : bytes)   (* copy(s[pos:], d) through a held slice s *)
| OVRead (v : view).                         (* the caller looks at a held slice *)

Inductive ures :=
| RUnit
| RNum (n : N)
| RData (d : bytes)
| RView (v : view) (d : bytes)            (* a returned slice: where it lives, what it holds *)
| RNErr (n : N) (e : uerr) (d : bytes)    (* (n, err); d: the bytes copied out / handed to the writer *)
| RByte (c : N) (e : uerr)
| RPanic (p : upanic)
| RDiverge.                               (* the call never returns *)

Record ubuf := UB { u_old : list bytes; u_arr : bytes; u_nil : bool; u_len : N; u_off : N }.

Definition u_cap (s : ubuf) : N := lenN (u_arr s).
Definition u_aid (s : ubuf) : nat := length (u_old s).

(* arr[lo : lo+len d] = d  (copy into the array; the caller guarantees lo + len d <= len arr) *)
Definition splice (arr : bytes) (lo : N) (d : bytes) : bytes :=
  takeN arr lo ++ d ++ dropN arr (lo + lenN d).

(* the unread portion b.buf[b.off:] *)
Definition u_contents (s : ubuf) : bytes := slice (u_arr s) (u_off s) (u_len s).

(* the zero value; NewBuffer(buf) for a slice with the given backing array and length *)
Definition u_zero : ubuf := UB [] [] true 0 0.
Definition u_new (arr : bytes) (len : N) : ubuf := UB [] arr false len 0.

Definition u_reset (s : ubuf) : ubuf := UB (u_old s) (u_arr s) (u_nil s) 0 0.

(* tryGrowByReslice *)
Definition try_reslice (s : ubuf) (n : N) : option (ubuf * N) :=
  if n <=? u_cap s - u_len s
  then Some (UB (u_old s) (u_arr s) (u_nil s) (u_len s + n) (u_off s), u_len s)
  else None.

Inductive gres := GOk (s : ubuf) (i : N) | GPanic (s : ubuf) (p : upanic).

Section Buffer.
  Variable mx : N.                     (* largest n for which make([]byte, n) does not panic *)

  (* grow *)
  Definition u_grow (s : ubuf) (n : N) : gres :=
    let m := u_len s - u_off s in
    let s1 := if (m =? 0) && negb (u_off s =? 0) then u_reset s else s in
    match try_reslice s1 n with
    | Some (s2, i) => GOk s2 i
    | None =>
        if u_nil s1 && (n <=? smallBufferSize)
        then GOk (UB (u_old s1) (zeros smallBufferSize) false n 0) 0
        else
          let c := u_cap s1 in
          if (Z.of_N n <=? Z.of_N (c / 2) - Z.of_N m)%Z
          then (* slide down: copy(b.buf, b.buf[b.off:]) *)
            GOk (UB (u_old s1) (splice (u_arr s1) 0 (slice (u_arr s1) (u_off s1) (u_len s1))) (u_nil s1) (m + n) 0) m
          else if (Z.of_N maxInt - Z.of_N c - Z.of_N n <? Z.of_N c)%Z then GPanic s1 PTooLarge
          else if mx <? 2 * c + n then GPanic s1 PTooLarge
          else
            GOk (UB (if u_nil s1 then u_old s1 else u_old s1 ++ [u_arr s1])
                    (splice (zeros (2 * c + n)) 0 (slice (u_arr s1) (u_off s1) (u_len s1)))
                    false (m + n) 0) m
    end.

  (* the common head of Alloc / Write / WriteByte: tryGrowByReslice, else grow *)
  Definition u_extend (s : ubuf) (n : N) : gres :=
    match try_reslice s n with
    | Some (s1, i) => GOk s1 i
    | None => u_grow s n
    end.

  Definition set_len (s : ubuf) (l : N) : ubuf := UB (u_old s) (u_arr s) (u_nil s) l (u_off s).
  Definition set_off (s : ubuf) (o : N) : ubuf := UB (u_old s) (u_arr s) (u_nil s) (u_len s) o.
  Definition set_arr (s : ubuf) (a : bytes) : ubuf := UB (u_old s) a (u_nil s) (u_len s) (u_off s).

  (* the ReadFrom loop; fuel = number of answers left + 1 *)
  Fixpoint u_readfrom (fuel : nat) (s : ubuf) (sc : list rd) (tl : rdtail) (n : N) : ubuf * ures :=
    match fuel with
    | O => (s, RDiverge)
    | S f =>
        match u_grow s MinRead with
        | GPanic s1 p => (s1, RPanic p)
        | GOk s1 i =>
            let s2 := set_len s1 i in
            match sc with
            | [] => match tl with
                    | TEof => (s2, RNErr n UNil [])
                    | TZeros => (s2, RDiverge)
                    end
            | RdNeg :: _ => (s2, RPanic PNegRead)
            | Rd d e :: sc' =>
                if u_cap s2 - i <? lenN d then
                  (* the reader filled its whole argument and claims more: b.buf[:i+m] is out of range *)
                  (set_arr s2 (splice (u_arr s2) i (takeN d (u_cap s2 - i))), RPanic PBounds)
                else
                  let s3 := set_len (set_arr s2 (splice (u_arr s2) i d)) (i + lenN d) in
                  let n' := n + lenN d in
                  match e with
                  | UEOF => (s3, RNErr n' UNil [])
                  | UNil => u_readfrom f s3 sc' tl n'
                  | _ => (s3, RNErr n' e [])
                  end
            end
        end
    end.

  (* bytes.IndexByte *)
  Fixpoint index_byte (l : bytes) (c : N) : option N :=
    match l with
    | [] => None
    | x :: l' => if x =? c then Some 0 else option_map N.succ (index_byte l' c)
    end.

  Fixpoint set_nth_arr (l : list bytes) (i : nat) (x : bytes) : list bytes :=
    match l, i with
    | [], _ => []
    | _ :: l', O => x :: l'
    | y :: l', S i' => y :: set_nth_arr l' i' x
    end.

  (* the array with identity a *)
  Definition u_array (s : ubuf) (a : nat) : bytes := nth a (u_old s ++ [u_arr s]) [].
  Definition view_read (s : ubuf) (v : view) : bytes :=
    let '(a, lo, n) := v in slice (u_array s a) lo (lo + n).

  Definition u_step (s : ubuf) (o : uop) : ubuf * ures :=
    match o with
    | OBytes => (s, RView (u_aid s, u_off s, u_len s - u_off s) (u_contents s))
    | OString => (s, RData (u_contents s))
    | OLen => (s, RNum (u_len s - u_off s))
    | OTruncate n =>
        if (n =? 0)%Z then (u_reset s, RUnit)
        else if (n <? 0)%Z || (Z.of_N (u_len s - u_off s) <? n)%Z then (s, RPanic PTruncate)
        else (set_len s (u_off s + Z.to_N n), RUnit)
    | OReset => (u_reset s, RUnit)
    | OAlloc n =>
        if (n <? 0)%Z then (s, RPanic PAllocNeg)
        else match u_extend s (Z.to_N n) with
             | GPanic s1 p => (s1, RPanic p)
             | GOk s1 m => (s1, RView (u_aid s1, m, u_len s1 - m) (slice (u_arr s1) m (u_len s1)))
             end
    | OGrow n =>
        if (n <? 0)%Z then (s, RPanic PGrowNeg)
        else match u_grow s (Z.to_N n) with
             | GPanic s1 p => (s1, RPanic p)
             | GOk s1 m => (set_len s1 m, RUnit)
             end
    | OWrite p =>
        match u_extend s (lenN p) with
        | GPanic s1 q => (s1, RPanic q)
        | GOk s1 m => (set_arr s1 (splice (u_arr s1) m p), RNErr (lenN p) UNil [])
        end
    | OWriteByte c =>
        match u_extend s 1 with
        | GPanic s1 q => (s1, RPanic q)
        | GOk s1 m => (set_arr s1 (splice (u_arr s1) m [c]), RUnit)
        end
    | OReadFrom sc tl => u_readfrom (S (length sc)) s sc tl 0
    | OWriteTo m e =>
        if u_off s <? u_len s then
          let nb := u_len s - u_off s in
          let d := u_contents s in
          if nb <? m then (s, RPanic PBadWriteCount)
          else
            let s1 := set_off s (u_off s + m) in
            match e with
            | UNil => if m =? nb then (u_reset s1, RNErr m UNil d) else (s1, RNErr m UShortWrite d)
            | _ => (s1, RNErr m e d)
            end
        else (u_reset s, RNErr 0 UNil [])
    | ORead k =>
        if u_len s <=? u_off s then (u_reset s, RNErr 0 (if k =? 0 then UNil else UEOF) [])
        else
          let n := N.min k (u_len s - u_off s) in
          (set_off s (u_off s + n), RNErr n UNil (slice (u_arr s) (u_off s) (u_off s + n)))
    | ONext n =>
        let m := u_len s - u_off s in
        let n' := if (Z.of_N m <? n)%Z then Z.of_N m else n in
        if (n' <? 0)%Z then (s, RPanic PBounds)
        else
          let k := Z.to_N n' in
          (set_off s (u_off s + k), RView (u_aid s, u_off s, k) (slice (u_arr s) (u_off s) (u_off s + k)))
    | OReadByte =>
        if u_len s <=? u_off s then (u_reset s, RByte 0 UEOF)
        else (set_off s (u_off s + 1), RByte (get_at (u_arr s) (u_off s)) UNil)
    | OReadBytes delim =>
        match index_byte (u_contents s) delim with
        | Some i =>
            let e := u_off s + i + 1 in
            (set_off s e, RNErr (i + 1) UNil (slice (u_arr s) (u_off s) e))
        | None =>
            (set_off s (u_len s), RNErr (u_len s - u_off s) UEOF (u_contents s))
        end
    | OVWrite (a, lo, n) pos d =>
        if n <? pos then (s, RPanic PBounds)
        else
          let d' := takeN d (n - pos) in
          if Nat.eqb a (u_aid s) then (set_arr s (splice (u_arr s) (lo + pos) d'), RNum (lenN d'))
          else (UB (set_nth_arr (u_old s) a (splice (nth a (u_old s) []) (lo + pos) d'))
                   (u_arr s) (u_nil s) (u_len s) (u_off s), RNum (lenN d'))
    | OVRead v => (s, RData (view_read s v))
    end.

  Definition is_stop (r : ures) : bool :=
    match r with RPanic _ | RDiverge => true | _ => false end.

  (* a sequence of calls; nothing is executed after a panic or a call that does not return *)
  Fixpoint u_run (s : ubuf) (ops : list uop) : ubuf * list ures :=
    match ops with
    | [] => (s, [])
    | o :: ops' =>
        let '(s1, r) := u_step s o in
        if is_stop r then (s1, [r])
        else let '(s2, rs) := u_run s1 ops' in (s2, r :: rs)
    end.
End Buffer.

(* the state invariant: b.off <= len(b.buf) <= cap(b.buf) <= maxInt; a nil b.buf has no cells *)
Definition u_wf (s : ubuf) : Prop :=
  u_off s <= u_len s /\ u_len s <= u_cap s /\ u_cap s <= maxInt /\ (u_nil s = true -> u_arr s = []).

Definition u_wfb (s : ubuf) : bool :=
  (u_off s <=? u_len s) && (u_len s <=? u_cap s) && (u_cap s <=? maxInt)
  && (negb (u_nil s) || match u_arr s with [] => true | _ => false end).

(* ---------------------------------------------------------------- the byte queue the buffer stands for *)

Definition rd_data (x : rd) : bytes := match x with Rd d _ => d | RdNeg => [] end.

(* the answers ReadFrom consumes: data appended, and the call's result when no growth fails *)
Fixpoint rf_abs (sc : list rd) (tl : rdtail) (acc : bytes) : bytes * ures :=
  match sc with
  | [] => (acc, match tl with TEof => RNErr (lenN acc) UNil [] | TZeros => RDiverge end)
  | RdNeg :: _ => (acc, RPanic PNegRead)
  | Rd d e :: sc' =>
      match e with
      | UNil => rf_abs sc' tl (acc ++ d)
      | UEOF => (acc ++ d, RNErr (lenN (acc ++ d)) UNil [])
      | _ => (acc ++ d, RNErr (lenN (acc ++ d)) e [])
      end
  end.

Definition rd_small (x : rd) : Prop := lenN (rd_data x) <= MinRead.

Definition split_at_byte (q : bytes) (c : N) : option (bytes * bytes) :=
  match index_byte q c with
  | Some i => Some (takeN q (i + 1), dropN q (i + 1))
  | None => None
  end.

(* [q_spec q o r q']: the call [o] on a buffer standing for the queue [q] may answer [r] and leave [q'].
   Writes append, reads consume from the front, Truncate keeps a prefix.  The only panics: Truncate out of range,
   negative Alloc / Grow, negative Next (a run-time slice error, not documented; bytes.Buffer has it too), a
   writer that claims more than it was given, a reader that claims a negative count or more than it was given
   (possible only for answers longer than MinRead), and bytes.ErrTooLarge from the growing calls. *)
Definition q_spec (q : bytes) (o : uop) (r : ures) (q' : bytes) : Prop :=
  match o with
  | OBytes => q' = q /\ exists v, r = RView v q
  | OString => q' = q /\ r = RData q
  | OLen => q' = q /\ r = RNum (lenN q)
  | OTruncate n =>
      if ((n <? 0) || (Z.of_N (lenN q) <? n))%Z then r = RPanic PTruncate /\ q' = q
      else r = RUnit /\ q' = takeN q (Z.to_N n)
  | OReset => r = RUnit /\ q' = []
  | OAlloc n =>
      if (n <? 0)%Z then r = RPanic PAllocNeg /\ q' = q
      else (r = RPanic PTooLarge /\ q' = q)
           \/ exists v d, r = RView v d /\ lenN d = Z.to_N n /\ q' = q ++ d
  | OGrow n =>
      if (n <? 0)%Z then r = RPanic PGrowNeg /\ q' = q
      else (r = RPanic PTooLarge \/ r = RUnit) /\ q' = q
  | OWrite p => (r = RPanic PTooLarge /\ q' = q) \/ (r = RNErr (lenN p) UNil [] /\ q' = q ++ p)
  | OWriteByte c => (r = RPanic PTooLarge /\ q' = q) \/ (r = RUnit /\ q' = q ++ [c])
  | OReadFrom sc tl =>
      (r = RPanic PTooLarge /\ exists k, q' = q ++ concat (map rd_data (firstn k sc)))
      \/ (r = RPanic PBounds /\ ~ Forall rd_small sc)
      \/ (r = snd (rf_abs sc tl []) /\ q' = q ++ fst (rf_abs sc tl []))
  | OWriteTo m e =>
      match q with
      | [] => r = RNErr 0 UNil [] /\ q' = []
      | _ => if lenN q <? m then r = RPanic PBadWriteCount /\ q' = q
             else q' = dropN q m
                  /\ r = RNErr m (match e with UNil => if m =? lenN q then UNil else UShortWrite | _ => e end) q
      end
  | ORead k =>
      match q with
      | [] => q' = [] /\ r = RNErr 0 (if k =? 0 then UNil else UEOF) []
      | _ => let n := N.min k (lenN q) in q' = dropN q n /\ r = RNErr n UNil (takeN q n)
      end
  | ONext n =>
      let n' := if (Z.of_N (lenN q) <? n)%Z then Z.of_N (lenN q) else n in
      if (n' <? 0)%Z then r = RPanic PBounds /\ q' = q
      else q' = dropN q (Z.to_N n') /\ exists v, r = RView v (takeN q (Z.to_N n'))
  | OReadByte =>
      match q with
      | [] => q' = [] /\ r = RByte 0 UEOF
      | c :: t => q' = t /\ r = RByte c UNil
      end
  | OReadBytes delim =>
      match split_at_byte q delim with
      | Some (a, b) => q' = b /\ r = RNErr (lenN a) UNil a
      | None => q' = [] /\ r = RNErr (lenN q) UEOF q
      end
  | OVWrite _ _ _ => True
  | OVRead _ => q' = q
  end.

Definition queue_op (o : uop) : Prop := match o with OVWrite _ _ _ => False | _ => True end.

Fixpoint q_chain (q : bytes) (ops : list uop) (rs : list ures) (q' : bytes) : Prop :=
  match ops, rs with
  | _, [] => q' = q /\ ops = []
  | [], _ :: _ => False
  | o :: ops', r :: rs' =>
      exists q1, q_spec q o r q1 /\
                 (if is_stop r then rs' = [] /\ q' = q1 else q_chain q1 ops' rs' q')
  end.

(* ---------------------------------------------------------------- classes of calls, for the aliasing rules *)

(* calls that may store into an array: the growing calls and a caller's own store through a held slice *)
Definition write_op (o : uop) : bool :=
  match o with
  | OAlloc _ | OGrow _ | OWrite _ | OWriteByte _ | OReadFrom _ _ | OVWrite _ _ _ => true
  | _ => false
  end.

(* number of bytes the call asks the buffer to make room for in ONE growth step (ReadFrom: MinRead per round) *)
Definition op_need (o : uop) : N :=
  match o with
  | OAlloc n | OGrow n => Z.to_N n
  | OWrite p => lenN p
  | OWriteByte _ => 1
  | _ => 0
  end.

(* only appending calls: the buffer was never read, truncated or reset *)
Definition append_op (o : uop) : bool :=
  match o with
  | OBytes | OString | OLen | OAlloc _ | OGrow _ | OWrite _ | OWriteByte _ => true
  | _ => false
  end.

Definition view_in (s : ubuf) (v : view) : Prop :=
  let '(a, lo, n) := v in (a <= u_aid s)%nat /\ lo + n <= lenN (nth a (u_old s ++ [u_arr s]) []).

Definition all_zero (l : bytes) : Prop := Forall (fun b => b = 0) l.

(* every cell of the current array at or above len(b.buf) is zero *)
Definition tail_zero (s : ubuf) : Prop := all_zero (dropN (u_arr s) (u_len s)).

(* ================================================================ 2. BytesPrefix (range.go) *)

(* the loop "for i := len(prefix)-1; i >= 0; i--" with i = j-1 *)
Fixpoint bp_loop (p : bytes) (j : nat) : option bytes :=
  match j with
  | O => None
  | S i => let c := nth i p 0 in
           if c <? 255 then Some (firstn i p ++ [c + 1]) else bp_loop p i
  end.

(* util.Range{Start, Limit}; Limit = None is the nil slice (no upper bound) *)
Definition bytes_prefix (p : bytes) : bytes * option bytes := (p, bp_loop p (length p)).

Fixpoint is_prefix_of (p k : bytes) : bool :=
  match p, k with
  | [], _ => true
  | x :: p', y :: k' => (x =? y) && is_prefix_of p' k'
  | _ :: _, [] => false
  end.

(* bytes.Compare *)
Fixpoint bcmp (a b : bytes) : comparison :=
  match a, b with
  | [], [] => Eq
  | [], _ :: _ => Lt
  | _ :: _, [] => Gt
  | x :: a', y :: b' => match x ?= y with Eq => bcmp a' b' | r => r end
  end.

(* Start <= k < Limit under the standard bytes comparer, as the iterators slice (a nil Limit is open) *)
Definition in_range (r : bytes * option bytes) (k : bytes) : bool :=
  (match bcmp (fst r) k with Gt => false | _ => true end)
  && match snd r with
     | None => true
     | Some l => match bcmp k l with Lt => true | _ => false end
     end.

(* ================================================================ 3. util.BufferPool *)

(* a pooled slice: the identity of its array, its capacity *)
Definition pbuf := (nat * N)%type.

Record bpool := BP { bp_base : list N; bp_cls : list (list pbuf) }.

(* NewBufferPool(baseline): [baseline/4, baseline/2, baseline, baseline*2, baseline*4], six empty pools *)
Definition bp_new (b : N) : bpool := BP [b / 4; b / 2; b; b * 2; b * 4] [[]; []; []; []; []; []].

(* poolNum *)
Fixpoint pool_num_from (bl : list N) (n : N) (i : nat) : nat :=
  match bl with
  | [] => i
  | x :: bl' => if n <=? x then i else pool_num_from bl' n (S i)
  end.
Definition pool_num (bl : list N) (n : N) : nat := pool_num_from bl n 0.

Fixpoint remove_nth {A} (l : list A) (i : nat) : list A :=
  match l, i with
  | [], _ => []
  | _ :: l', O => l'
  | x :: l', S i' => x :: remove_nth l' i'
  end.

Fixpoint set_nth_cls (l : list (list pbuf)) (i : nat) (x : list pbuf) : list (list pbuf) :=
  match l, i with
  | [], _ => []
  | _ :: l', O => x :: l'
  | y :: l', S i' => y :: set_nth_cls l' i' x
  end.

(* the slice Get returns: array identity, len, cap, and whether it is a pooled one (false: freshly made) *)
Record pgot := PG { pg_id : nat; pg_len : N; pg_cap : N; pg_reused : bool }.

(* Get(n).  sync.Pool.Get may return any item put earlier or none: [pick] is its choice (an index into the class's
   items; None: the pool's New, an empty slice).  [fresh] names a newly made array. *)
Definition bp_get (p : bpool) (n : N) (pick : option nat) (fresh : nat) : bpool * pgot :=
  let c := pool_num (bp_base p) n in
  let items := nth c (bp_cls p) [] in
  let made := PG fresh n (if Nat.eqb c (length (bp_base p)) then n else nth c (bp_base p) 0) false in
  match pick with
  | None => (p, made)
  | Some i =>
      match nth_error items i with
      | None => (p, made)
      | Some (id, cp) =>
          let p' := BP (bp_base p) (set_nth_cls (bp_cls p) c (remove_nth items i)) in
          if cp =? 0 then (p', made)                  (* "grabbed nothing" *)
          else if n <=? cp then (p', PG id n cp true)    (* less / equal *)
          else (p', made)                              (* greater: the pooled slice is dropped *)
      end
  end.

(* Put(b): class of cap(b) *)
Definition bp_put (p : bpool) (b : pbuf) : bpool :=
  let c := pool_num (bp_base p) (snd b) in
  BP (bp_base p) (set_nth_cls (bp_cls p) c (b :: nth c (bp_cls p) [])).

(* how many pooled entries name the array [id] *)
Definition bp_count (p : bpool) (id : nat) : nat :=
  length (filter (fun b => Nat.eqb (fst b) id) (concat (bp_cls p))).

(* ================================================================ 4. util.go: BasicReleaser *)

Record releaser := RL { rl_has : bool; rl_released : bool }.
Inductive rl_op := RLRelease | RLSet (nonnil : bool) | RLReleased.
Inductive rl_res := RLUnit (called : bool) | RLBool (b : bool) | RLPanicReleased | RLPanicHas.

(* Release calls the attached releaser once and latches; SetReleaser panics on a released resource and when
   a releaser is present and the new one is not nil *)
Definition rl_step (r : releaser) (o : rl_op) : releaser * rl_res :=
  match o with
  | RLRelease => if rl_released r then (r, RLUnit false) else (RL false true, RLUnit (rl_has r))
  | RLSet nn => if rl_released r then (r, RLPanicReleased)
                else if rl_has r && nn then (r, RLPanicHas)
                else (RL nn false, RLUnit false)
  | RLReleased => (r, RLBool (rl_released r))
  end.
