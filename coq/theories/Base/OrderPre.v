(* Base/OrderPre.v — the WEAKER comparer contract: a total PREORDER on byte strings.
   LevelDB's Comparer only has to define a total order in which keys that compare equal ARE the same user key; it
   need not be injective (ASCII-case-insensitive order, numeric order with several spellings of one number —
   goleveldb's own test suite has numberComparer).  [comparer_ok] (Base/Order.v) additionally demands
   cmp a b = Eq <-> a = b (field cmp_eq); [comparer_pre_ok] replaces that field by reflexivity and by compatibility
   of Eq with the order.  Every comparer_ok comparer is comparer_pre_ok (comparer_ok_pre). *)
From GL Require Export Base.Order.

Record comparer_pre_ok (c : comparer) : Prop := {
  pre_refl  : forall a, cmp c a a = Eq;
  pre_opp   : forall a b, cmp c b a = CompOpp (cmp c a b);
  pre_trans : forall a b d, cmp c a b = Lt -> cmp c b d = Lt -> cmp c a d = Lt;
  (* keys that compare equal are interchangeable in every comparison *)
  pre_eq_l  : forall a b d, cmp c a b = Eq -> cmp c a d = cmp c b d;
  pre_sep_ok  : forall a b x, sep c a b = Some x -> cmp c a x <> Gt /\ cmp c x b = Lt;
  pre_succ_ok : forall b x, succ c b = Some x -> cmp c b x <> Gt
}.

(* the equivalence "is the same user key" *)
Definition keq (c : comparer) (a b : bytes) : Prop := cmp c a b = Eq.

Lemma comparer_ok_pre c : comparer_ok c -> comparer_pre_ok c.
Proof.
  intros ok. constructor.
  - intros a. apply (cmp_eq c ok). reflexivity.
  - apply (cmp_opp c ok).
  - apply (cmp_trans c ok).
  - intros a b d H. apply (cmp_eq c ok) in H. subst. reflexivity.
  - apply (sep_ok c ok).
  - apply (succ_ok c ok).
Qed.

Section PreLaws.
  Variable c : comparer.
  Hypothesis ok : comparer_pre_ok c.

  Lemma pcmp_refl a : cmp c a a = Eq.
  Proof. apply (pre_refl c ok). Qed.

  Lemma pcmp_eq_sym a b : cmp c a b = Eq -> cmp c b a = Eq.
  Proof. intros H. rewrite (pre_opp c ok a b), H. reflexivity. Qed.

  Lemma pcmp_eq_l a b d : cmp c a b = Eq -> cmp c a d = cmp c b d.
  Proof. apply (pre_eq_l c ok). Qed.

  Lemma pcmp_eq_r a b d : cmp c a b = Eq -> cmp c d a = cmp c d b.
  Proof.
    intros H. rewrite (pre_opp c ok a d), (pre_opp c ok b d), (pcmp_eq_l a b d H). reflexivity.
  Qed.

  Lemma pcmp_eq_trans a b d : cmp c a b = Eq -> cmp c b d = Eq -> cmp c a d = Eq.
  Proof. intros H1 H2. rewrite (pcmp_eq_l a b d H1). exact H2. Qed.

  Lemma pcmp_gt_lt a b : cmp c a b = Gt <-> cmp c b a = Lt.
  Proof. rewrite (pre_opp c ok a b). destruct (cmp c a b); cbn; split; congruence. Qed.

  Lemma pcmp_lt_gt a b : cmp c a b = Lt <-> cmp c b a = Gt.
  Proof. rewrite (pre_opp c ok a b). destruct (cmp c a b); cbn; split; congruence. Qed.

  Lemma plt_irrefl a : ~ lt c a a.
  Proof. unfold lt. rewrite pcmp_refl. discriminate. Qed.

  Lemma plt_trans a b d : lt c a b -> lt c b d -> lt c a d.
  Proof. apply (pre_trans c ok). Qed.

  Lemma ple_lt_trans a b d : le c a b -> lt c b d -> lt c a d.
  Proof.
    unfold le, lt. intros H1 H2. destruct (cmp c a b) eqn:E.
    - rewrite (pcmp_eq_l a b d E). exact H2.
    - eapply (pre_trans c ok); eauto.
    - congruence.
  Qed.

  Lemma plt_le_trans a b d : lt c a b -> le c b d -> lt c a d.
  Proof.
    unfold le, lt. intros H1 H2. destruct (cmp c b d) eqn:E.
    - rewrite <- (pcmp_eq_r b d a E). exact H1.
    - eapply (pre_trans c ok); eauto.
    - congruence.
  Qed.

  Lemma ple_trans a b d : le c a b -> le c b d -> le c a d.
  Proof.
    intros H1 H2. destruct (cmp c b d) eqn:E.
    - unfold le. rewrite <- (pcmp_eq_r b d a E). exact H1.
    - unfold le. rewrite (ple_lt_trans a b d H1 E). discriminate.
    - unfold le in H2. congruence.
  Qed.

  Lemma ple_refl a : le c a a.
  Proof. unfold le. rewrite pcmp_refl. discriminate. Qed.

  Lemma pnot_lt_le a b : ~ lt c a b <-> le c b a.
  Proof.
    unfold lt, le. rewrite (pre_opp c ok a b). destruct (cmp c a b); cbn; split; intros H; congruence.
  Qed.

  (* antisymmetry up to the equivalence *)
  Lemma ple_antisym a b : le c a b -> le c b a -> cmp c a b = Eq.
  Proof.
    unfold le. intros H1 H2. rewrite (pre_opp c ok a b) in H2. destruct (cmp c a b); cbn in *; congruence.
  Qed.

  Lemma plt_total a b : lt c a b \/ cmp c a b = Eq \/ lt c b a.
  Proof.
    unfold lt. destruct (cmp c a b) eqn:E.
    - right; left. reflexivity.
    - left; reflexivity.
    - right; right. apply pcmp_gt_lt. exact E.
  Qed.

  (* a comparer built by first mapping the keys through any function inherits the preorder laws *)
End PreLaws.

Definition mapped_cmp (c : comparer) (f : bytes -> bytes) : comparer :=
  {| cmp := fun a b => cmp c (f a) (f b); sep := fun _ _ => None; succ := fun _ => None |}.

Lemma mapped_cmp_pre_ok c f : comparer_ok c -> comparer_pre_ok (mapped_cmp c f).
Proof.
  intros ok. constructor; cbn.
  - intros a. apply (cmp_eq c ok). reflexivity.
  - intros a b. apply (cmp_opp c ok).
  - intros a b d. apply (cmp_trans c ok).
  - intros a b d H. apply (cmp_eq c ok) in H. rewrite H. reflexivity.
  - discriminate.
  - discriminate.
Qed.
