(* Base/UBufferProofs.v — proofs about the model of util.Buffer (Base/UBuffer.v), part 1: the array algebra,
   the growth step, the state invariant, the byte-queue refinement. *)
From GL Require Import Base.Bytes Base.BytesProofs Base.NIdx Base.NIdxProofs Base.UBuffer.
From Coq Require Import Lia Arith PeanoNat ZArith.

Local Arguments N.mul : simpl never.
Local Arguments N.add : simpl never.
Local Arguments N.sub : simpl never.
Local Arguments N.div : simpl never.
Local Arguments N.modulo : simpl never.
Local Arguments N.pow : simpl never.
Local Arguments N.min : simpl never.
Local Arguments zeros : simpl never.

(* ================================================================ array algebra *)

Lemma lenN_takeN l i : lenN (takeN l i) = N.min i (lenN l).
Proof. rewrite takeN_firstn. unfold lenN. rewrite firstn_length. lia. Qed.

Lemma lenN_dropN l i : lenN (dropN l i) = lenN l - i.
Proof. rewrite dropN_skipn. unfold lenN. rewrite skipn_length. lia. Qed.

Lemma take_drop l i : takeN l i ++ dropN l i = l.
Proof. rewrite takeN_firstn, dropN_skipn. apply firstn_skipn. Qed.

Lemma takeN_all l i : lenN l <= i -> takeN l i = l.
Proof. intros H. rewrite takeN_firstn. apply firstn_all2. unfold lenN in H. lia. Qed.

Lemma dropN_all l i : lenN l <= i -> dropN l i = [].
Proof. intros H. rewrite dropN_skipn. apply skipn_all2. unfold lenN in H. lia. Qed.

Lemma takeN_zero l i : i = 0 -> takeN l i = [].
Proof. intros ->. destruct l; reflexivity. Qed.

Lemma dropN_zero l i : i = 0 -> dropN l i = l.
Proof. intros ->. destruct l; reflexivity. Qed.

Lemma takeN_app_ge (a b : bytes) i : lenN a <= i -> takeN (a ++ b) i = a ++ takeN b (i - lenN a).
Proof.
  intros H. rewrite !takeN_firstn. unfold lenN in *. rewrite firstn_app.
  rewrite firstn_all2 by lia. f_equal. f_equal. lia.
Qed.

Lemma dropN_app_le (a b : bytes) i : i <= lenN a -> dropN (a ++ b) i = dropN a i ++ b.
Proof.
  intros H. rewrite !dropN_skipn. unfold lenN in *. rewrite skipn_app.
  replace (N.to_nat i - length a)%nat with O by lia. reflexivity.
Qed.

Lemma skipn_skipn' {A} (x y : nat) : forall l : list A, skipn x (skipn y l) = skipn (y + x) l.
Proof.
  induction y as [|y IH]; intros l; [reflexivity|].
  destruct l; cbn [skipn Nat.add]; [now rewrite skipn_nil | apply IH].
Qed.

Lemma dropN_dropN l a b : dropN (dropN l a) b = dropN l (a + b).
Proof. rewrite !dropN_skipn, skipn_skipn'. f_equal. lia. Qed.

Lemma takeN_takeN l a b : takeN (takeN l a) b = takeN l (N.min a b).
Proof. rewrite !takeN_firstn, firstn_firstn. f_equal. lia. Qed.

Lemma cut2 (l : bytes) a : a <= lenN l -> exists A B, l = A ++ B /\ lenN A = a.
Proof.
  intros H. exists (takeN l a), (dropN l a). split; [symmetry; apply take_drop|].
  rewrite lenN_takeN. lia.
Qed.

Lemma cut3 (l : bytes) a b : a <= b -> b <= lenN l ->
  exists A B C, l = A ++ B ++ C /\ lenN A = a /\ lenN B = b - a.
Proof.
  intros H1 H2. destruct (cut2 l a) as (A & R & -> & HA); [lia|].
  rewrite lenN_app in H2. destruct (cut2 R (b - a)) as (B & C & -> & HB); [lia|].
  now exists A, B, C.
Qed.

Lemma cut4 (l : bytes) a b c : a <= b -> b <= c -> c <= lenN l ->
  exists A B C D, l = A ++ B ++ C ++ D /\ lenN A = a /\ lenN B = b - a /\ lenN C = c - b.
Proof.
  intros H1 H2 H3. destruct (cut3 l a b) as (A & B & R & -> & HA & HB); [lia|lia|].
  rewrite !lenN_app in H3. destruct (cut2 R (c - b)) as (C & D & -> & HC); [lia|].
  now exists A, B, C, D.
Qed.

#[export] Hint Rewrite @lenN_app @lenN_nil lenN_dropN lenN_takeN zeros_length : lenN.

Ltac lenlia := autorewrite with lenN in *; lia.

Ltac seg1 :=
  first
    [ rewrite takeN_zero by lenlia
    | rewrite dropN_zero by lenlia
    | rewrite takeN_all by lenlia
    | rewrite dropN_all by lenlia
    | rewrite takeN_app_ge by lenlia
    | rewrite dropN_app_ge by lenlia
    | rewrite takeN_app_le by lenlia
    | rewrite dropN_app_le by lenlia ].
Ltac seg := repeat seg1; rewrite ?app_nil_r; cbn [app].

Lemma lenN_slice l a b : a <= b -> b <= lenN l -> lenN (slice l a b) = b - a.
Proof. intros. unfold slice. lenlia. Qed.

Lemma lenN_slice_le l a b : lenN (slice l a b) <= b - a.
Proof. unfold slice. lenlia. Qed.

Lemma lenN_splice arr lo d : lo + lenN d <= lenN arr -> lenN (splice arr lo d) = lenN arr.
Proof. intros H. unfold splice. lenlia. Qed.

(* cells below the store are unchanged *)
Lemma slice_splice_below arr pos d a b :
  b <= pos -> pos <= lenN arr -> slice (splice arr pos d) a b = slice arr a b.
Proof.
  intros H Hp. unfold splice, slice.
  destruct (cut2 arr pos Hp) as (X & Y & -> & HX).
  rewrite (takeN_app_le X Y) by lia. rewrite (takeN_all X) by lia.
  destruct (N.le_gt_cases a (lenN X)) as [Ha|Ha].
  - rewrite (dropN_app_le X Y a) by lia. rewrite (dropN_app_le X (d ++ _) a) by lia.
    rewrite !takeN_app_le by lenlia. reflexivity.
  - rewrite (takeN_zero (dropN (X ++ Y) a)) by lia. apply takeN_zero. lia.
Qed.

(* cells above the store are unchanged *)
Lemma slice_splice_above arr pos d a b :
  pos + lenN d <= a -> pos + lenN d <= lenN arr -> slice (splice arr pos d) a b = slice arr a b.
Proof.
  intros H Hl. unfold splice, slice.
  destruct (cut3 arr pos (pos + lenN d)) as (X & Y & Z & -> & HX & HY); [lia|lia|].
  rewrite (takeN_app_le X) by lia. rewrite (takeN_all X) by lia.
  rewrite (dropN_app_ge X (Y ++ Z)) by lia. rewrite (dropN_app_ge Y Z) by lia.
  replace (pos + lenN d - lenN X - lenN Y) with 0 by lia. rewrite (dropN_zero Z) by reflexivity.
  rewrite !(dropN_app_ge X) by lia. rewrite (dropN_app_ge d) by lia. rewrite (dropN_app_ge Y) by lia.
  do 2 f_equal. lia.
Qed.

(* the stored cells, preceded by what was below them *)
Lemma slice_splice_end arr lo hi d :
  lo <= hi -> hi + lenN d <= lenN arr ->
  slice (splice arr hi d) lo (hi + lenN d) = slice arr lo hi ++ d.
Proof.
  intros H Hl. unfold splice, slice.
  destruct (cut3 arr hi (hi + lenN d)) as (X & Y & Z & -> & HX & HY); [lia|lia|].
  rewrite (takeN_app_le X) by lia. rewrite (takeN_all X) by lia.
  rewrite (dropN_app_ge X (Y ++ Z)) by lia. rewrite (dropN_app_ge Y Z) by lia.
  rewrite (dropN_zero Z) by lia.
  rewrite !(dropN_app_le X) by lia.
  rewrite (takeN_app_ge (dropN X lo)) by lenlia. rewrite (takeN_app_ge d) by lenlia.
  rewrite (takeN_zero Z) by lenlia. rewrite app_nil_r.
  rewrite (takeN_app_le (dropN X lo)) by lenlia. rewrite (takeN_all (dropN X lo)) by lenlia. reflexivity.
Qed.

Lemma slice_splice_exact arr pos d :
  pos + lenN d <= lenN arr -> slice (splice arr pos d) pos (pos + lenN d) = d.
Proof.
  intros H. rewrite slice_splice_end by lia. unfold slice. rewrite takeN_zero by lia. reflexivity.
Qed.

Lemma slice_empty l a b : b <= a -> slice l a b = [].
Proof. intros. unfold slice. apply takeN_zero. lia. Qed.

Lemma slice_slice l a b c : a <= b -> b <= c -> c <= lenN l -> slice l a b ++ slice l b c = slice l a c.
Proof.
  intros H1 H2 H3. destruct (cut4 l a b c) as (A & B & C & D & -> & HA & HB & HC); try lia.
  unfold slice. rewrite !(dropN_app_ge A) by lia.
  rewrite (dropN_app_ge B (C ++ D) (b - lenN A)) by lia.
  rewrite (dropN_zero (B ++ C ++ D)) by lia. rewrite (dropN_zero (C ++ D)) by lia.
  rewrite (takeN_app_le C D) by lia. rewrite (takeN_all C) by lia.
  rewrite (takeN_app_le B (C ++ D) (b - a)) by lia. rewrite (takeN_all B (b - a)) by lia.
  rewrite (takeN_app_ge B (C ++ D)) by lia. rewrite (takeN_app_le C D) by lia. rewrite (takeN_all C) by lia.
  reflexivity.
Qed.

Lemma takeN_slice l a b k : a <= b -> b <= lenN l -> k <= b - a -> takeN (slice l a b) k = slice l a (a + k).
Proof.
  intros. unfold slice. rewrite takeN_takeN. f_equal. lia.
Qed.

Lemma dropN_slice l a b k : dropN (slice l a b) k = slice l (a + k) b.
Proof.
  unfold slice. rewrite !dropN_skipn, !takeN_firstn.
  rewrite skipn_firstn_comm, skipn_skipn'. f_equal; [lia|]. f_equal. lia.
Qed.

Lemma slice_full l : slice l 0 (lenN l) = l.
Proof. unfold slice. rewrite dropN_zero by reflexivity. apply takeN_all. lia. Qed.

(* ================================================================ growth *)

Ltac proj := unfold u_cap, u_aid, u_reset, set_len, set_off, set_arr, u_contents in *; cbn [u_old u_arr u_nil u_len u_off] in *.

Lemma contents_len s : u_wf s -> lenN (u_contents s) = u_len s - u_off s.
Proof. intros (H1 & H2 & _). unfold u_contents. apply lenN_slice; assumption. Qed.

Lemma reslice_some s n s' i :
  try_reslice s n = Some (s', i) ->
  s' = UB (u_old s) (u_arr s) (u_nil s) (u_len s + n) (u_off s) /\ i = u_len s /\ n <= u_cap s - u_len s.
Proof.
  unfold try_reslice. destruct (N.leb_spec n (u_cap s - u_len s)); [|discriminate].
  intros [= <- <-]. auto.
Qed.

Lemma reslice_none s n : try_reslice s n = None -> u_cap s - u_len s < n.
Proof. unfold try_reslice. destruct (N.leb_spec n (u_cap s - u_len s)); [discriminate|auto]. Qed.

Lemma reset_wf s : u_wf s -> u_wf (u_reset s).
Proof. intros (H1 & H2 & H3 & H4). unfold u_wf. proj. repeat split; try lia; auto. Qed.

(* what a successful growth step guarantees *)
Definition grow_post (s : ubuf) (n : N) (s' : ubuf) (i : N) : Prop :=
  u_wf s' /\ u_off s' <= i /\ u_len s' = i + n /\ i - u_off s' = u_len s - u_off s
  /\ slice (u_arr s') (u_off s') i = u_contents s
  /\ (u_old s' = u_old s \/ (u_nil s = false /\ u_old s' = u_old s ++ [u_arr s])).

Section Grow.
  Variable mx : N.

  Lemma reslice_post s n s' i : u_wf s -> try_reslice s n = Some (s', i) -> grow_post s n s' i.
  Proof.
    intros Hwf H. apply reslice_some in H. destruct H as (-> & -> & Hn).
    destruct Hwf as (H1 & H2 & H3 & H4). unfold grow_post, u_wf. proj.
    repeat split; try lia; auto.
  Qed.

  Lemma grow_ok s n s' i : u_wf s -> u_grow mx s n = GOk s' i -> grow_post s n s' i.
  Proof.
    intros Hwf. unfold u_grow.
    set (m := u_len s - u_off s).
    set (s1 := if (m =? 0) && negb (u_off s =? 0) then u_reset s else s).
    assert (Hwf1 : u_wf s1) by (subst s1; destruct ((m =? 0) && negb (u_off s =? 0)); auto using reset_wf).
    assert (Hc1 : u_contents s1 = u_contents s /\ u_len s1 - u_off s1 = m /\ u_old s1 = u_old s
                  /\ u_arr s1 = u_arr s /\ u_nil s1 = u_nil s).
    { subst s1. destruct (N.eqb_spec m 0) as [Hm|Hm]; cbn [andb]; [|auto].
      destruct (u_off s =? 0); cbn [negb]; [auto|].
      destruct Hwf as (H1 & H2 & _). unfold u_contents. proj.
      rewrite !slice_empty by (subst m; lia). repeat split; auto; lia. }
    destruct Hc1 as (Hc & Hm1 & Ho1 & Ha1 & Hn1).
    destruct (try_reslice s1 n) as [[s2 j]|] eqn:Hr.
    - intros [= <- <-]. pose proof (reslice_post _ _ _ _ Hwf1 Hr) as P.
      unfold grow_post in *. rewrite <- Hc, <- Ho1. destruct P as (P1 & P2 & P3 & P4 & P5 & P6).
      refine (conj P1 (conj P2 (conj P3 (conj _ (conj P5 _))))); [lia|].
      destruct P6 as [P6|(P6 & P7)]; [left; auto|right; split; congruence].
    - apply reslice_none in Hr.
      destruct Hwf1 as (W1 & W2 & W3 & W4).
      destruct (u_nil s1 && (n <=? smallBufferSize)) eqn:Hsmall.
      + intros [= <- <-]. apply andb_prop in Hsmall. destruct Hsmall as (Hnil & Hle).
        apply N.leb_le in Hle. specialize (W4 Hnil).
        assert (u_len s1 = 0 /\ u_off s1 = 0) as (L0 & O0).
        { unfold u_cap in *. rewrite W4 in *. cbn [lenN length] in *. unfold lenN in *. cbn in *. lia. }
        unfold grow_post, u_wf. proj. unfold smallBufferSize in *. rewrite zeros_length.
        unfold u_contents in Hc. rewrite <- Hc, W4.
        repeat split; try lia; try discriminate; auto.
      + set (c := u_cap s1) in *.
        destruct (Z.leb_spec (Z.of_N n) (Z.of_N (c / 2) - Z.of_N m)) as [Hs|Hs].
        * (* slide *)
          intros [= <- <-].
          assert (Hc2 : c / 2 <= c) by (apply N.div_le_upper_bound; lia).
          assert (Hl : lenN (slice (u_arr s1) (u_off s1) (u_len s1)) = m)
            by (rewrite lenN_slice by (unfold u_cap in *; lia); lia).
          assert (Hcap : lenN (splice (u_arr s1) 0 (slice (u_arr s1) (u_off s1) (u_len s1))) = c)
            by (rewrite lenN_splice by (rewrite Hl; unfold u_cap in *; lia); reflexivity).
          unfold grow_post.
          refine (conj _ (conj _ (conj _ (conj _ (conj _ _))))); proj.
          -- unfold u_wf. proj. rewrite Hcap. repeat split; try lia.
             intros Hn. rewrite (W4 Hn). reflexivity.
          -- lia.
          -- reflexivity.
          -- lia.
          -- rewrite <- Hc.
             replace m with (0 + lenN (slice (u_arr s1) (u_off s1) (u_len s1))) by lia.
             apply slice_splice_exact. rewrite Hl. unfold u_cap in *. lia.
          -- left. exact Ho1.
        * destruct (Z.ltb_spec (Z.of_N maxInt - Z.of_N c - Z.of_N n) (Z.of_N c)) as [Hbig|Hbig]; [discriminate|].
          destruct (N.ltb_spec mx (2 * c + n)) as [Hmx|Hmx]; [discriminate|].
          intros [= <- <-].
          assert (Hl : lenN (slice (u_arr s1) (u_off s1) (u_len s1)) = m)
            by (rewrite lenN_slice by (unfold u_cap in *; lia); lia).
          assert (Hcap : lenN (splice (zeros (2 * c + n)) 0 (slice (u_arr s1) (u_off s1) (u_len s1))) = 2 * c + n)
            by (rewrite lenN_splice by (rewrite Hl, zeros_length; unfold u_cap in *; lia); apply zeros_length).
          unfold grow_post.
          refine (conj _ (conj _ (conj _ (conj _ (conj _ _))))); proj.
          -- unfold u_wf. proj. rewrite Hcap. repeat split; try lia; discriminate.
          -- lia.
          -- reflexivity.
          -- lia.
          -- rewrite <- Hc.
             replace m with (0 + lenN (slice (u_arr s1) (u_off s1) (u_len s1))) by lia.
             apply slice_splice_exact. rewrite Hl, zeros_length. unfold u_cap in *. lia.
          -- rewrite Ho1, Ha1, Hn1. destruct (u_nil s); [left|right]; auto.
  Qed.

  Lemma grow_panic s n s' p :
    u_wf s -> u_grow mx s n = GPanic s' p ->
    p = PTooLarge /\ u_wf s' /\ u_contents s' = u_contents s
    /\ (maxInt < 2 * u_cap s + n \/ mx < 2 * u_cap s + n).
  Proof.
    intros Hwf. unfold u_grow.
    set (m := u_len s - u_off s).
    set (s1 := if (m =? 0) && negb (u_off s =? 0) then u_reset s else s).
    assert (Hwf1 : u_wf s1) by (subst s1; destruct ((m =? 0) && negb (u_off s =? 0)); auto using reset_wf).
    assert (Hc1 : u_contents s1 = u_contents s /\ u_cap s1 = u_cap s).
    { subst s1. destruct (N.eqb_spec m 0) as [Hm|Hm]; cbn [andb]; [|auto].
      destruct (u_off s =? 0); cbn [negb]; [auto|].
      destruct Hwf as (H1 & H2 & _). unfold u_contents. proj.
      rewrite !slice_empty by (subst m; lia). auto. }
    destruct Hc1 as (Hc & Hcap).
    destruct (try_reslice s1 n) as [[s2 j]|]; [discriminate|].
    destruct (u_nil s1 && (n <=? smallBufferSize)); [discriminate|].
    destruct (Z.leb_spec (Z.of_N n) (Z.of_N (u_cap s1 / 2) - Z.of_N m)); [discriminate|].
    destruct (Z.ltb_spec (Z.of_N maxInt - Z.of_N (u_cap s1) - Z.of_N n) (Z.of_N (u_cap s1))) as [Hbig|Hbig].
    - intros [= <- <-]. refine (conj eq_refl (conj Hwf1 (conj Hc _))). left. rewrite <- Hcap. lia.
    - destruct (N.ltb_spec mx (2 * u_cap s1 + n)) as [Hmx|Hmx]; [|discriminate].
      intros [= <- <-]. refine (conj eq_refl (conj Hwf1 (conj Hc _))). right. rewrite <- Hcap. lia.
  Qed.

  Lemma extend_ok s n s' i : u_wf s -> u_extend mx s n = GOk s' i -> grow_post s n s' i.
  Proof.
    intros Hwf. unfold u_extend. destruct (try_reslice s n) as [[s1 j]|] eqn:Hr.
    - intros [= <- <-]. eapply reslice_post; eauto.
    - apply grow_ok; auto.
  Qed.

  Lemma extend_panic s n s' p :
    u_wf s -> u_extend mx s n = GPanic s' p ->
    p = PTooLarge /\ u_wf s' /\ u_contents s' = u_contents s
    /\ (maxInt < 2 * u_cap s + n \/ mx < 2 * u_cap s + n).
  Proof.
    intros Hwf. unfold u_extend. destruct (try_reslice s n) as [[s1 j]|]; [discriminate|].
    apply grow_panic; auto.
  Qed.
End Grow.

(* ================================================================ the step: invariant and queue refinement *)

Lemma slice_cons arr a b :
  a < b -> b <= lenN arr -> slice arr a b = get_at arr a :: slice arr (a + 1) b.
Proof.
  intros H1 H2. destruct (cut3 arr a (a + 1)) as (A & B & C & -> & HA & HB); [lia|lia|].
  destruct B as [|y [|z B]]; unfold lenN in HB; cbn [length] in HB; try lia.
  unfold slice. rewrite (dropN_app_ge A) by lia. rewrite (dropN_zero ([y] ++ C)) by lia.
  rewrite (get_at_app_ge A) by lia. replace (a - lenN A) with 0 by lia.
  rewrite (dropN_app_ge A) by lia. cbn [app get_at takeN dropN].
  replace (0 =? 0) with true by reflexivity.
  destruct (N.eqb_spec (b - a) 0); [lia|].
  destruct (N.eqb_spec (a + 1 - lenN A) 0); [lia|].
  rewrite (dropN_zero C) by lia. do 2 f_equal. lia.
Qed.

Lemma index_byte_lt q c i : index_byte q c = Some i -> i < lenN q.
Proof.
  revert i. induction q as [|x q IH]; intros i; cbn [index_byte]; [discriminate|].
  destruct (x =? c).
  - intros [= <-]. rewrite lenN_cons. lia.
  - destruct (index_byte q c) as [j|]; cbn [option_map]; [|discriminate].
    intros [= <-]. specialize (IH j eq_refl). rewrite lenN_cons. lia.
Qed.

Lemma lenN_pos_cons (q : bytes) : 0 < lenN q -> exists c t, q = c :: t.
Proof. destruct q as [|c t]; [cbn; lia|eauto]. Qed.

Lemma lenN_zero_nil (q : bytes) : lenN q = 0 -> q = [].
Proof. apply lenN_0. Qed.

Section Step.
  Variable mx : N.

  (* ReadFrom, generalised over the data already taken *)
  Lemma readfrom_spec tl : forall sc fuel s n acc q0 s' r,
    u_wf s -> fuel = S (length sc) -> n = lenN acc -> u_contents s = q0 ++ acc ->
    u_readfrom mx fuel s sc tl n = (s', r) ->
    u_wf s' /\
    ((r = RPanic PTooLarge /\ exists k, u_contents s' = q0 ++ acc ++ concat (map rd_data (firstn k sc)))
     \/ (r = RPanic PBounds /\ ~ Forall rd_small sc)
     \/ (r = snd (rf_abs sc tl acc) /\ u_contents s' = q0 ++ fst (rf_abs sc tl acc))).
  Proof.
    induction sc as [|x sc IH]; intros fuel s n acc q0 s' r Hwf -> -> Hq; cbn [length u_readfrom].
    - destruct (u_grow mx s MinRead) as [s1 i|s1 p] eqn:Hg.
      + apply grow_ok in Hg; auto. destruct Hg as (G1 & G2 & G3 & G4 & G5 & G6).
        assert (Hwf2 : u_wf (set_len s1 i)).
        { destruct G1 as (A1 & A2 & A3 & A4). unfold u_wf. proj. repeat split; try lia; auto. }
        assert (Hc2 : u_contents (set_len s1 i) = q0 ++ acc) by (rewrite <- Hq, <- G5; reflexivity).
        destruct tl; intros [= <- <-]; (split; [exact Hwf2|]); right; right; cbn [rf_abs fst snd]; auto.
      + apply grow_panic in Hg; auto. destruct Hg as (-> & G1 & G2 & _).
        intros [= <- <-]. split; [exact G1|]. left. split; [reflexivity|]. exists 0%nat.
        cbn [firstn map concat]. rewrite app_nil_r, G2. exact Hq.
    - destruct (u_grow mx s MinRead) as [s1 i|s1 p] eqn:Hg.
      + apply grow_ok in Hg; auto. destruct Hg as (G1 & G2 & G3 & G4 & G5 & G6).
        assert (Hwf2 : u_wf (set_len s1 i)).
        { destruct G1 as (A1 & A2 & A3 & A4). unfold u_wf. proj. repeat split; try lia; auto. }
        assert (Hc2 : u_contents (set_len s1 i) = q0 ++ acc) by (rewrite <- Hq, <- G5; reflexivity).
        assert (Hsp : MinRead <= u_cap s1 - i) by (destruct G1 as (A1 & A2 & _); lia).
        destruct x as [d e|].
        * replace (u_cap (set_len s1 i)) with (u_cap s1) by reflexivity.
          destruct (N.ltb_spec (u_cap s1 - i) (lenN d)) as [Hbig|Hfit].
          -- intros [= <- <-]. split.
             ++ destruct G1 as (A1 & A2 & A3 & A4). unfold u_wf. proj.
                rewrite lenN_splice by (rewrite lenN_takeN; lia).
                repeat split; try lia. intros Hn. rewrite (A4 Hn) in *. cbn in Hsp. unfold MinRead in Hsp. lia.
             ++ right; left. split; [reflexivity|]. intros HF. inversion HF as [|? ? Hs _]. subst.
                unfold rd_small in Hs. cbn [rd_data] in Hs. lia.
          -- set (s3 := set_len (set_arr (set_len s1 i) (splice (u_arr (set_len s1 i)) i d)) (i + lenN d)).
             assert (Hwf3 : u_wf s3).
             { destruct G1 as (A1 & A2 & A3 & A4). subst s3. unfold u_wf. proj.
               rewrite lenN_splice by lia. repeat split; try lia.
               intros Hn. rewrite (A4 Hn) in *. cbn in Hsp. unfold MinRead in Hsp. lia. }
             assert (Hc3 : u_contents s3 = q0 ++ (acc ++ d)).
             { subst s3. proj. destruct G1 as (A1 & A2 & A3 & A4). proj.
               rewrite slice_splice_end by lia. rewrite app_assoc, <- Hq, <- G5. reflexivity. }
             assert (Hn3 : lenN acc + lenN d = lenN (acc ++ d)) by (rewrite lenN_app; reflexivity).
             destruct e.
             ++ (* UNil: next round *)
                intros Hrun. cbn [rf_abs].
                specialize (IH (S (length sc)) s3 (lenN acc + lenN d) (acc ++ d) q0 s' r Hwf3 eq_refl Hn3 Hc3 Hrun).
                destruct IH as (I1 & [(-> & k & Hk)|[(-> & Hk)|(Hr & Hk)]]); split; auto.
                ** left. split; [reflexivity|]. exists (S k). cbn [firstn map concat rd_data].
                   rewrite Hk. rewrite <- !app_assoc. reflexivity.
                ** right; left. split; [reflexivity|]. intros HF. inversion HF; auto.
             ++ intros [= <- <-]. split; [exact Hwf3|]. right; right. cbn [rf_abs fst snd].
                rewrite <- Hn3. auto.
             ++ intros [= <- <-]. split; [exact Hwf3|]. right; right. cbn [rf_abs fst snd].
                rewrite <- Hn3. auto.
             ++ intros [= <- <-]. split; [exact Hwf3|]. right; right. cbn [rf_abs fst snd].
                rewrite <- Hn3. auto.
        * intros [= <- <-]. split; [exact Hwf2|]. right; right. cbn [rf_abs fst snd]. auto.
      + apply grow_panic in Hg; auto. destruct Hg as (-> & G1 & G2 & _).
        intros [= <- <-]. split; [exact G1|]. left. split; [reflexivity|]. exists 0%nat.
        cbn [firstn map concat]. rewrite app_nil_r, G2. exact Hq.
  Qed.

  Lemma step_spec s o s' r :
    u_wf s -> queue_op o -> u_step mx s o = (s', r) ->
    u_wf s' /\ q_spec (u_contents s) o r (u_contents s').
  Proof.
    intros Hwf Hq. pose proof (contents_len s Hwf) as HL.
    pose proof Hwf as (W1 & W2 & W3 & W4).
    destruct o; cbn [u_step q_spec]; try contradiction.
    - (* Bytes *) intros [= <- <-]. split; [auto|]. split; [auto|]. eexists; reflexivity.
    - (* String *) intros [= <- <-]. auto.
    - (* Len *) intros [= <- <-]. rewrite HL. auto.
    - (* Truncate *)
      destruct (Z.eqb_spec n 0) as [->|Hn0].
      + intros [= <- <-]. split; [auto using reset_wf|].
        replace ((0 <? 0)%Z || (Z.of_N (lenN (u_contents s)) <? 0)%Z) with false
          by (symmetry; apply orb_false_intro; [reflexivity|apply Z.ltb_ge; lia]).
        split; [reflexivity|]. rewrite takeN_zero by reflexivity. proj. apply slice_empty. lia.
      + rewrite HL.
        destruct ((n <? 0)%Z || (Z.of_N (u_len s - u_off s) <? n)%Z) eqn:Hc.
        * intros [= <- <-]. auto.
        * apply orb_false_elim in Hc. destruct Hc as (C1 & C2).
          apply Z.ltb_ge in C1. apply Z.ltb_ge in C2.
          intros [= <- <-]. split.
          -- unfold u_wf. proj. repeat split; try lia; auto.
          -- split; [reflexivity|]. proj. symmetry. apply takeN_slice; lia.
    - (* Reset *) intros [= <- <-]. split; [auto using reset_wf|]. split; [reflexivity|]. proj. apply slice_empty. lia.
    - (* Alloc *)
      destruct (Z.ltb_spec n 0) as [Hn|Hn]; [intros [= <- <-]; auto|].
      destruct (u_extend mx s (Z.to_N n)) as [s1 m|s1 p] eqn:He.
      + apply extend_ok in He; auto. destruct He as (G1 & G2 & G3 & G4 & G5 & G6).
        intros [= <- <-]. split; [exact G1|]. right.
        destruct G1 as (A1 & A2 & A3 & A4).
        eexists _, _. split; [reflexivity|]. split.
        * rewrite lenN_slice by (proj; lia). lia.
        * rewrite <- G5. proj. symmetry. apply slice_slice; lia.
      + apply extend_panic in He; auto. destruct He as (-> & G1 & G2 & _).
        intros [= <- <-]. split; [exact G1|]. left. auto.
    - (* Grow *)
      destruct (Z.ltb_spec n 0) as [Hn|Hn]; [intros [= <- <-]; auto|].
      destruct (u_grow mx s (Z.to_N n)) as [s1 m|s1 p] eqn:He.
      + apply grow_ok in He; auto. destruct He as (G1 & G2 & G3 & G4 & G5 & G6).
        intros [= <- <-]. destruct G1 as (A1 & A2 & A3 & A4). split.
        * unfold u_wf. proj. repeat split; try lia; auto.
        * split; [auto|]. rewrite <- G5. reflexivity.
      + apply grow_panic in He; auto. destruct He as (-> & G1 & G2 & _).
        intros [= <- <-]. split; [exact G1|]. auto.
    - (* Write *)
      destruct (u_extend mx s (lenN p)) as [s1 m|s1 q] eqn:He.
      + apply extend_ok in He; auto. destruct He as (G1 & G2 & G3 & G4 & G5 & G6).
        intros [= <- <-]. destruct G1 as (A1 & A2 & A3 & A4). split.
        * unfold u_wf. proj. rewrite lenN_splice by lia. repeat split; try lia.
          intros Hn. rewrite (A4 Hn) in *. cbn in A2. assert (lenN p = 0) by lia.
          rewrite (lenN_zero_nil p) by assumption. reflexivity.
        * right. split; [reflexivity|]. rewrite <- G5. proj. rewrite G3. apply slice_splice_end; lia.
      + apply extend_panic in He; auto. destruct He as (-> & G1 & G2 & _).
        intros [= <- <-]. split; [exact G1|]. left. auto.
    - (* WriteByte *)
      destruct (u_extend mx s 1) as [s1 m|s1 q] eqn:He.
      + apply extend_ok in He; auto. destruct He as (G1 & G2 & G3 & G4 & G5 & G6).
        intros [= <- <-]. destruct G1 as (A1 & A2 & A3 & A4).
        assert (Hl1 : lenN [c] = 1) by reflexivity. split.
        * unfold u_wf. proj. rewrite lenN_splice by lia. repeat split; try lia.
          intros Hn. rewrite (A4 Hn) in *. cbn in A2. lia.
        * right. split; [reflexivity|]. rewrite <- G5. proj. rewrite G3, <- Hl1. apply slice_splice_end; lia.
      + apply extend_panic in He; auto. destruct He as (-> & G1 & G2 & _).
        intros [= <- <-]. split; [exact G1|]. left. auto.
    - (* ReadFrom *)
      intros Hrun.
      destruct (readfrom_spec tl sc (S (length sc)) s 0 [] (u_contents s) s' r Hwf eq_refl eq_refl
                  (eq_sym (app_nil_r _)) Hrun) as (I1 & I2).
      split; [exact I1|]. cbn [app] in I2. exact I2.
    - (* WriteTo *)
      destruct (N.ltb_spec (u_off s) (u_len s)) as [Hne|He].
      + destruct (lenN_pos_cons (u_contents s)) as (c & t & Hct); [lia|].
        rewrite Hct. rewrite <- Hct. rewrite HL.
        destruct (N.ltb_spec (u_len s - u_off s) m) as [Hm|Hm]; [intros [= <- <-]; auto|].
        assert (Hd : slice (u_arr s) (u_off s + m) (u_len s) = dropN (u_contents s) m)
          by (proj; symmetry; apply dropN_slice).
        assert (Hwf1 : u_wf (set_off s (u_off s + m))) by (unfold u_wf; proj; repeat split; try lia; auto).
        destruct e.
        * destruct (N.eqb_spec m (u_len s - u_off s)) as [Hmm|Hmm].
          -- intros [= <- <-]. split; [apply reset_wf; exact Hwf1|]. split; [|reflexivity].
             rewrite dropN_all by lia. proj. apply slice_empty. lia.
          -- intros [= <- <-]. split; [exact Hwf1|]. split; [exact Hd|reflexivity].
        * intros [= <- <-]. split; [exact Hwf1|]. split; [exact Hd|reflexivity].
        * intros [= <- <-]. split; [exact Hwf1|]. split; [exact Hd|reflexivity].
        * intros [= <- <-]. split; [exact Hwf1|]. split; [exact Hd|reflexivity].
      + rewrite (lenN_zero_nil (u_contents s)) by lia.
        intros [= <- <-]. split; [auto using reset_wf|]. split; [reflexivity|]. proj. apply slice_empty. lia.
    - (* Read *)
      destruct (N.leb_spec (u_len s) (u_off s)) as [He|Hne].
      + rewrite (lenN_zero_nil (u_contents s)) by lia.
        intros [= <- <-]. split; [auto using reset_wf|]. split; [|reflexivity]. proj. apply slice_empty. lia.
      + destruct (lenN_pos_cons (u_contents s)) as (c & t & Hct); [lia|].
        rewrite Hct. rewrite <- Hct. rewrite HL.
        intros [= <- <-]. split; [unfold u_wf; proj; repeat split; try lia; auto|].
        split; proj; [symmetry; apply dropN_slice|f_equal; symmetry; apply takeN_slice; lia].
    - (* Next *)
      rewrite HL.
      set (n' := if (Z.of_N (u_len s - u_off s) <? n)%Z then Z.of_N (u_len s - u_off s) else n).
      assert (Hn' : (n' <= Z.of_N (u_len s - u_off s))%Z)
        by (subst n'; destruct (Z.ltb_spec (Z.of_N (u_len s - u_off s)) n); lia).
      destruct (Z.ltb_spec n' 0) as [Hneg|Hpos]; [intros [= <- <-]; auto|].
      intros [= <- <-]. split; [unfold u_wf; proj; repeat split; try lia; auto|].
      split; [proj; symmetry; apply dropN_slice|].
      eexists. f_equal. proj. symmetry. apply takeN_slice; lia.
    - (* ReadByte *)
      destruct (N.leb_spec (u_len s) (u_off s)) as [He|Hne].
      + rewrite (lenN_zero_nil (u_contents s)) by lia.
        intros [= <- <-]. split; [auto using reset_wf|]. split; [|reflexivity]. proj. apply slice_empty. lia.
      + assert (Hc : u_contents s = get_at (u_arr s) (u_off s) :: slice (u_arr s) (u_off s + 1) (u_len s))
          by (proj; apply slice_cons; lia).
        rewrite Hc. intros [= <- <-]. split; [unfold u_wf; proj; repeat split; try lia; auto|].
        split; reflexivity.
    - (* ReadBytes *)
      unfold split_at_byte.
      destruct (index_byte (u_contents s) delim) as [i|] eqn:Hi.
      + apply index_byte_lt in Hi. rewrite HL in Hi.
        intros [= <- <-]. split; [unfold u_wf; proj; repeat split; try lia; auto|].
        split.
        * proj. rewrite <- N.add_assoc. symmetry. apply dropN_slice.
        * rewrite lenN_takeN, HL. replace (N.min (i + 1) (u_len s - u_off s)) with (i + 1) by lia.
          f_equal. proj. rewrite <- N.add_assoc. symmetry. apply takeN_slice; lia.
      + intros [= <- <-]. split; [unfold u_wf; proj; repeat split; try lia; auto|].
        split; [proj; apply slice_empty; lia|]. rewrite HL. reflexivity.
    - (* a caller looks at a held slice *)
      intros [= <- <-]. auto.
  Qed.
End Step.

(* ================================================================ sequences *)

Section Run.
  Variable mx : N.

  Lemma run_refines : forall ops s s' rs,
    u_wf s -> Forall queue_op ops -> u_run mx s ops = (s', rs) ->
    u_wf s' /\ q_chain (u_contents s) ops rs (u_contents s').
  Proof.
    induction ops as [|o ops IH]; intros s s' rs Hwf Hq; cbn [u_run].
    - intros [= <- <-]. cbn [q_chain]. auto.
    - inversion Hq as [|? ? Ho Hops]; subst.
      destruct (u_step mx s o) as [s1 r] eqn:Hs.
      destruct (step_spec mx s o s1 r Hwf Ho Hs) as (W1 & Q1).
      destruct (is_stop r) eqn:Hstop.
      + intros [= <- <-]. split; [exact W1|]. cbn [q_chain]. exists (u_contents s1).
        rewrite Hstop. auto.
      + destruct (u_run mx s1 ops) as [s2 rs'] eqn:Hr. intros [= <- <-].
        destruct (IH s1 s2 rs' W1 Hops Hr) as (W2 & Q2). split; [exact W2|].
        cbn [q_chain]. exists (u_contents s1). rewrite Hstop. auto.
  Qed.

  (* bytes.ErrTooLarge needs a request that would take the array beyond maxInt or beyond what make accepts *)
  Lemma toolarge_needs s o s' :
    u_wf s -> u_step mx s o = (s', RPanic PTooLarge) ->
    match o with OReadFrom _ _ => True | _ => maxInt < 2 * u_cap s + op_need o \/ mx < 2 * u_cap s + op_need o end.
  Proof.
    intros Hwf. destruct o; cbn [u_step op_need]; try exact (fun _ => I); try discriminate.
    - destruct (n =? 0)%Z; [discriminate|]. destruct ((n <? 0)%Z || _); discriminate.
    - destruct (n <? 0)%Z; [discriminate|].
      destruct (u_extend mx s (Z.to_N n)) as [s1 m|s1 p] eqn:He; [discriminate|].
      apply extend_panic in He; auto. intros _. apply He.
    - destruct (n <? 0)%Z; [discriminate|].
      destruct (u_grow mx s (Z.to_N n)) as [s1 m|s1 p] eqn:He; [discriminate|].
      apply grow_panic in He; auto. intros _. apply He.
    - destruct (u_extend mx s (lenN p)) as [s1 m|s1 q] eqn:He; [discriminate|].
      apply extend_panic in He; auto. intros _. apply He.
    - destruct (u_extend mx s 1) as [s1 m|s1 q] eqn:He; [discriminate|].
      apply extend_panic in He; auto. intros _. apply He.
    - destruct (u_off s <? u_len s); [|discriminate].
      destruct (u_len s - u_off s <? m); [discriminate|]. destruct e; [destruct (m =? _)|..]; discriminate.
    - destruct (u_len s <=? u_off s); discriminate.
    - destruct (_ <? 0)%Z; discriminate.
    - destruct (u_len s <=? u_off s); discriminate.
    - destruct (index_byte _ _); discriminate.
    - destruct v as [[a lo] n]. destruct (n <? pos); [discriminate|]. destruct (Nat.eqb a (u_aid s)); discriminate.
  Qed.
End Run.

(* ================================================================ ReadFrom: totality, the io.EOF convention *)

Lemma rf_abs_teof_returns : forall sc acc, snd (rf_abs sc TEof acc) <> RDiverge.
Proof.
  induction sc as [|x sc IH]; intros acc; cbn [rf_abs snd]; [discriminate|].
  destruct x as [d e|]; [|cbn; discriminate]. destruct e; cbn [snd]; try discriminate. apply IH.
Qed.

(* the call never reports io.EOF: a reader's io.EOF is the success path *)
Lemma rf_abs_never_eof tl : forall sc acc n d, snd (rf_abs sc tl acc) <> RNErr n UEOF d.
Proof.
  induction sc as [|x sc IH]; intros acc n d; cbn [rf_abs snd].
  - destruct tl; discriminate.
  - destruct x as [dd e|]; [|cbn; discriminate]. destruct e; cbn [snd]; try discriminate. apply IH.
Qed.

(* a read of nothing with a nil error is not the end of the input *)
Lemma rf_abs_zero_read tl sc acc : rf_abs (Rd [] UNil :: sc) tl acc = rf_abs sc tl acc.
Proof. cbn [rf_abs]. now rewrite app_nil_r. Qed.

Definition rd_nonneg (x : rd) : Prop := match x with RdNeg => False | _ => True end.

(* a lawful reader (never a negative count) is read until its first io.EOF or error; the count is the number
   of bytes appended *)
Lemma rf_abs_lawful tl : forall sc acc,
  Forall rd_nonneg sc ->
  snd (rf_abs sc tl acc) = RDiverge \/ exists e, snd (rf_abs sc tl acc) = RNErr (lenN (fst (rf_abs sc tl acc))) e [] /\ e <> UEOF.
Proof.
  induction sc as [|x sc IH]; intros acc HF; cbn [rf_abs].
  - destruct tl; cbn [fst snd]; [right; exists UNil; split; [reflexivity|discriminate] | left; reflexivity].
  - inversion HF as [|? ? Hx Hsc]; subst. destruct x as [d e|]; [|contradiction].
    destruct e; cbn [fst snd]; auto.
    + right. exists UNil. split; [reflexivity|discriminate].
    + right. exists UShortWrite. split; [reflexivity|discriminate].
    + right. exists (UOther c). split; [reflexivity|discriminate].
Qed.
