(* Base/Order.v — the abstract user-key comparer and its contract
   (leveldb/comparer/comparer.go: Compare / Separator / Successor). *)
From GL Require Export Base.Bytes.

Record comparer := {
  cmp  : bytes -> bytes -> comparison;
  sep  : bytes -> bytes -> option bytes;   (* None = Go nil: "no shortening" *)
  succ : bytes -> option bytes
}.

(* The documented contract: a strict total order whose equality is equality of
   contents; Separator(a,b) = x  =>  a <= x < b  (read literally: whenever a non-nil x is
   returned, so for a >= b — the table writer does call it with equal user keys — the
   answer must be nil);  Successor(b) = x => b <= x. *)
Record comparer_ok (c : comparer) : Prop := {
  cmp_eq   : forall a b, cmp c a b = Eq <-> a = b;
  cmp_opp  : forall a b, cmp c b a = CompOpp (cmp c a b);
  cmp_trans: forall a b d, cmp c a b = Lt -> cmp c b d = Lt -> cmp c a d = Lt;
  sep_ok   : forall a b x, sep c a b = Some x ->
                           cmp c a x <> Gt /\ cmp c x b = Lt;
  succ_ok  : forall b x, succ c b = Some x -> cmp c b x <> Gt
}.

Definition lt (c : comparer) a b : Prop := cmp c a b = Lt.
Definition le (c : comparer) a b : Prop := cmp c a b <> Gt.
Definition ltb (c : comparer) a b : bool := match cmp c a b with Lt => true | _ => false end.
Definition leb (c : comparer) a b : bool := match cmp c a b with Gt => false | _ => true end.
