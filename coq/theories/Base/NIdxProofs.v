(* Base/NIdxProofs.v — facts about the N-indexed byte-array operations of NIdx.v *)
From GL Require Import Base.Bytes Base.BytesProofs Base.NIdx.
From Coq Require Import Lia Arith PeanoNat.

Local Arguments N.mul : simpl never.
Local Arguments N.add : simpl never.
Local Arguments N.sub : simpl never.
Local Arguments N.div : simpl never.
Local Arguments N.modulo : simpl never.
Local Arguments N.pow : simpl never.

Lemma lenN_nil {A} : lenN (@nil A) = 0.
Proof. reflexivity. Qed.

Lemma lenN_cons {A} (a : A) l : lenN (a :: l) = lenN l + 1.
Proof. unfold lenN. cbn [length]. lia. Qed.

Lemma lenN_app {A} (a b : list A) : lenN (a ++ b) = lenN a + lenN b.
Proof. unfold lenN. rewrite app_length. lia. Qed.

Lemma lenN_0 {A} (l : list A) : lenN l = 0 -> l = [].
Proof. destruct l; [reflexivity|]. rewrite lenN_cons. lia. Qed.

(* ---- relation to the nat-indexed list functions ---- *)

Lemma get_at_nth l : forall i, get_at l i = nth (N.to_nat i) l 0.
Proof.
  induction l as [|b l IH]; intros i; cbn [get_at].
  - destruct (N.to_nat i); reflexivity.
  - destruct (N.eqb_spec i 0) as [->|Hi]; [reflexivity|].
    rewrite IH. replace (N.to_nat i) with (S (N.to_nat (i - 1))) by lia. reflexivity.
Qed.

Lemma dropN_skipn l : forall i, dropN l i = skipn (N.to_nat i) l.
Proof.
  induction l as [|b l IH]; intros i; cbn [dropN].
  - destruct (N.to_nat i); reflexivity.
  - destruct (N.eqb_spec i 0) as [->|Hi]; [reflexivity|].
    rewrite IH. replace (N.to_nat i) with (S (N.to_nat (i - 1))) by lia. reflexivity.
Qed.

Lemma takeN_firstn l : forall i, takeN l i = firstn (N.to_nat i) l.
Proof.
  induction l as [|b l IH]; intros i; cbn [takeN].
  - destruct (N.to_nat i); reflexivity.
  - destruct (N.eqb_spec i 0) as [->|Hi]; [reflexivity|].
    rewrite IH. replace (N.to_nat i) with (S (N.to_nat (i - 1))) by lia. reflexivity.
Qed.

(* ---- or_at / set_at ---- *)

Lemma or_at_length l : forall i m, length (or_at l i m) = length l.
Proof.
  induction l as [|b l IH]; intros i m; cbn [or_at]; [reflexivity|].
  destruct (i =? 0); cbn [length]; [reflexivity|]. now rewrite IH.
Qed.

Lemma set_at_length l : forall i v, length (set_at l i v) = length l.
Proof.
  induction l as [|b l IH]; intros i v; cbn [set_at]; [reflexivity|].
  destruct (i =? 0); cbn [length]; [reflexivity|]. now rewrite IH.
Qed.

Lemma lenN_or_at l i m : lenN (or_at l i m) = lenN l.
Proof. unfold lenN. now rewrite or_at_length. Qed.

Lemma lenN_set_at l i v : lenN (set_at l i v) = lenN l.
Proof. unfold lenN. now rewrite set_at_length. Qed.

Lemma get_or_at_same l : forall i m, i < lenN l -> get_at (or_at l i m) i = N.lor (get_at l i) m.
Proof.
  induction l as [|b l IH]; intros i m Hi.
  - rewrite lenN_nil in Hi. lia.
  - rewrite lenN_cons in Hi. cbn [or_at get_at].
    destruct (N.eqb_spec i 0) as [->|Hn]; cbn [get_at].
    + reflexivity.
    + destruct (N.eqb_spec i 0); [lia|]. apply IH. lia.
Qed.

Lemma get_or_at_other l : forall i j m, i <> j -> get_at (or_at l i m) j = get_at l j.
Proof.
  induction l as [|b l IH]; intros i j m Hij; cbn [or_at]; [reflexivity|].
  destruct (N.eqb_spec i 0) as [->|Hn]; cbn [get_at].
  - destruct (N.eqb_spec j 0); [lia|reflexivity].
  - destruct (N.eqb_spec j 0); [reflexivity|]. apply IH. lia.
Qed.

Lemma get_set_at_same l : forall i v, i < lenN l -> get_at (set_at l i v) i = v.
Proof.
  induction l as [|b l IH]; intros i v Hi.
  - rewrite lenN_nil in Hi. lia.
  - rewrite lenN_cons in Hi. cbn [set_at get_at].
    destruct (N.eqb_spec i 0) as [->|Hn]; cbn [get_at].
    + reflexivity.
    + destruct (N.eqb_spec i 0); [lia|]. apply IH. lia.
Qed.

Lemma get_set_at_other l : forall i j v, i <> j -> get_at (set_at l i v) j = get_at l j.
Proof.
  induction l as [|b l IH]; intros i j v Hij; cbn [set_at]; [reflexivity|].
  destruct (N.eqb_spec i 0) as [->|Hn]; cbn [get_at].
  - destruct (N.eqb_spec j 0); [lia|reflexivity].
  - destruct (N.eqb_spec j 0); [reflexivity|]. apply IH. lia.
Qed.

(* ---- zeros ---- *)

Lemma zeros_pos_length p : lenN (zeros_pos p) = Npos p.
Proof.
  induction p as [p IH|p IH|]; cbn [zeros_pos].
  - rewrite lenN_cons, lenN_app, IH. lia.
  - rewrite lenN_app, IH. lia.
  - reflexivity.
Qed.

Lemma zeros_length n : lenN (zeros n) = n.
Proof. destruct n; [reflexivity|apply zeros_pos_length]. Qed.

(* ---- slicing over concatenations ---- *)

Lemma dropN_app_exact (a b : bytes) : dropN (a ++ b) (lenN a) = b.
Proof.
  rewrite dropN_skipn. unfold lenN. rewrite Nat2N.id.
  rewrite skipn_app, skipn_all, Nat.sub_diag. reflexivity.
Qed.

Lemma dropN_app_ge (a b : bytes) i : lenN a <= i -> dropN (a ++ b) i = dropN b (i - lenN a).
Proof.
  intros H. rewrite !dropN_skipn. unfold lenN in *. rewrite skipn_app.
  rewrite skipn_all2 by lia. cbn [app]. f_equal. lia.
Qed.

Lemma takeN_app_exact (a b : bytes) : takeN (a ++ b) (lenN a) = a.
Proof.
  rewrite takeN_firstn. unfold lenN. rewrite Nat2N.id.
  rewrite firstn_app, Nat.sub_diag, firstn_all. cbn [firstn]. now rewrite app_nil_r.
Qed.

Lemma takeN_app_le (a b : bytes) i : i <= lenN a -> takeN (a ++ b) i = takeN a i.
Proof.
  intros H. rewrite !takeN_firstn. unfold lenN in *. rewrite firstn_app.
  replace (N.to_nat i - length a)%nat with O by lia. cbn [firstn]. now rewrite app_nil_r.
Qed.

Lemma slice_app3 (a b c : bytes) : slice (a ++ b ++ c) (lenN a) (lenN a + lenN b) = b.
Proof.
  unfold slice. rewrite dropN_app_exact. replace (lenN a + lenN b - lenN a) with (lenN b) by lia.
  apply takeN_app_exact.
Qed.

Lemma get_at_app_ge (a b : bytes) i : lenN a <= i -> get_at (a ++ b) i = get_at b (i - lenN a).
Proof.
  intros H. rewrite !get_at_nth. unfold lenN in *. rewrite app_nth2 by lia. f_equal. lia.
Qed.

Lemma get_at_app_lt (a b : bytes) i : i < lenN a -> get_at (a ++ b) i = get_at a i.
Proof.
  intros H. rewrite !get_at_nth. unfold lenN in *. rewrite app_nth1 by lia. reflexivity.
Qed.

(* ---- u32 ---- *)

Lemma u32_at_le32 (a c : bytes) x : x < 2 ^ 32 -> u32_at (a ++ le32 x ++ c) (lenN a) = x.
Proof.
  intros Hx. unfold u32_at. rewrite dropN_app_exact.
  replace 4 with (lenN (le32 x)) by (unfold lenN, le32; now rewrite le_encode_length).
  rewrite takeN_app_exact. unfold le32. rewrite le_decode_encode.
  change (256 ^ N.of_nat 4) with (2 ^ 32). now apply N.mod_small.
Qed.

Lemma w32_small x : x < 2 ^ 32 -> w32 x = x.
Proof. intros. unfold w32. now apply N.mod_small. Qed.

Lemma w32_lt x : w32 x < 2 ^ 32.
Proof. unfold w32. apply N.mod_lt. discriminate. Qed.
