(* Base/UBufferMiscProofs.v — proofs about the models of BytesPrefix, util.BufferPool and BasicReleaser
   (Base/UBuffer.v sections 2-4). *)
From GL Require Import Base.Bytes Base.BytesProofs Base.NIdx Base.NIdxProofs Base.UBuffer.
From Coq Require Import Lia Arith PeanoNat.

Local Arguments N.add : simpl never.

(* ================================================================ BytesPrefix *)

(* the same function by recursion from the left: the limit of the tail if it has one, else bump this byte *)
Fixpoint plimit (p : bytes) : option bytes :=
  match p with
  | [] => None
  | c :: r => match plimit r with
              | Some l => Some (c :: l)
              | None => if c <? 255 then Some [c + 1] else None
              end
  end.

Lemma bp_loop_cons c r : forall j, (j <= length r)%nat ->
  bp_loop (c :: r) (S j) =
  match bp_loop r j with Some l => Some (c :: l) | None => if c <? 255 then Some [c + 1] else None end.
Proof.
  induction j as [|i IH]; intros Hj.
  - cbn [bp_loop nth firstn app]. destruct (c <? 255); reflexivity.
  - change (bp_loop (c :: r) (S (S i))) with
      (let x := nth (S i) (c :: r) 0 in
       if x <? 255 then Some (firstn (S i) (c :: r) ++ [x + 1]) else bp_loop (c :: r) (S i)).
    cbn [nth firstn app bp_loop]. destruct (nth i r 0 <? 255); [reflexivity|]. apply IH. lia.
Qed.

Lemma bp_loop_plimit : forall p, bp_loop p (length p) = plimit p.
Proof.
  induction p as [|c r IH]; [reflexivity|].
  cbn [length plimit]. rewrite bp_loop_cons by lia. rewrite IH. reflexivity.
Qed.

Lemma wf_cons_inv b l : wf_bytes (b :: l) -> b < 256 /\ wf_bytes l.
Proof. intros H. inversion H; subst. split; assumption. Qed.

Lemma bcmp_nil_not_lt k : bcmp k [] <> Lt.
Proof. destruct k; cbn; discriminate. Qed.

Lemma in_range_plimit : forall p k, wf_bytes p -> wf_bytes k ->
  in_range (p, plimit p) k = is_prefix_of p k.
Proof.
  induction p as [|c r IH]; intros k Hp Hk.
  - unfold in_range. cbn [fst snd plimit is_prefix_of]. destruct k; reflexivity.
  - apply wf_cons_inv in Hp. destruct Hp as (Hc & Hr).
    destruct k as [|y k']; [reflexivity|].
    apply wf_cons_inv in Hk. destruct Hk as (Hy & Hk').
    specialize (IH k' Hr Hk'). unfold in_range in *. cbn [fst snd plimit is_prefix_of bcmp] in *.
    destruct (N.compare_spec c y) as [->|Hlt|Hgt].
    + rewrite N.eqb_refl. cbn [andb].
      destruct (plimit r) as [l|].
      * cbn [bcmp]. rewrite N.compare_refl. exact IH.
      * destruct (N.ltb_spec y 255) as [H5|H5].
        -- cbn [bcmp]. replace (y ?= y + 1) with Lt by (symmetry; apply N.compare_lt_iff; lia). exact IH.
        -- exact IH.
    + replace (c =? y) with false by (symmetry; apply N.eqb_neq; lia). cbn [andb].
      destruct (plimit r) as [l|].
      * cbn [bcmp]. replace (y ?= c) with Gt by (symmetry; apply N.compare_gt_iff; lia). reflexivity.
      * destruct (N.ltb_spec c 255) as [H5|H5]; [|lia].
        cbn [bcmp]. destruct (N.compare_spec y (c + 1)) as [E|L|G]; try lia; try reflexivity.
        pose proof (bcmp_nil_not_lt k'). destruct (bcmp k' []); congruence.
    + replace (c =? y) with false by (symmetry; apply N.eqb_neq; lia). reflexivity.
Qed.

Lemma plimit_none_iff : forall p, wf_bytes p -> (plimit p = None <-> Forall (fun c => c = 255) p).
Proof.
  induction p as [|c r IH]; intros Hp.
  - split; [constructor|reflexivity].
  - apply wf_cons_inv in Hp. destruct Hp as (Hc & Hr). specialize (IH Hr). cbn [plimit].
    destruct (plimit r) as [l|].
    + split; [discriminate|]. intros H. inversion H; subst. destruct IH as (_ & I). discriminate I. assumption.
    + destruct (N.ltb_spec c 255).
      * split; [discriminate|]. intros H'. inversion H'; subst. lia.
      * split; [|reflexivity]. intros _. constructor; [lia|]. apply IH. reflexivity.
Qed.

(* ================================================================ BufferPool *)

Lemma pool_num_from_ge bl n : forall i, (i <= pool_num_from bl n i)%nat.
Proof.
  induction bl as [|x bl IH]; intros i; cbn [pool_num_from]; [lia|].
  destruct (n <=? x); [lia|]. specialize (IH (S i)). lia.
Qed.

Lemma pool_num_from_le bl n : forall i, (pool_num_from bl n i <= i + length bl)%nat.
Proof.
  induction bl as [|x bl IH]; intros i; cbn [pool_num_from length]; [lia|].
  destruct (n <=? x); [lia|]. specialize (IH (S i)). lia.
Qed.

Lemma pool_num_from_shift bl n : forall i, pool_num_from bl n i = (pool_num_from bl n 0 + i)%nat.
Proof.
  induction bl as [|x bl IH]; intros i; cbn [pool_num_from]; [lia|].
  destruct (n <=? x); [lia|]. rewrite (IH (S i)), (IH 1%nat). lia.
Qed.

Lemma pool_num_from_mono bl : forall n n' i, n <= n' -> (pool_num_from bl n i <= pool_num_from bl n' i)%nat.
Proof.
  induction bl as [|x bl IH]; intros n n' i H; cbn [pool_num_from]; [lia|].
  destruct (N.leb_spec n x); destruct (N.leb_spec n' x); try lia.
  - pose proof (pool_num_from_ge bl n' (S i)). lia.
  - apply IH; assumption.
Qed.

(* the class of a size: within the class's bound, above every smaller class's bound *)
Lemma pool_num_bound bl n :
  let c := pool_num bl n in
  (c <= length bl)%nat /\ ((c < length bl)%nat -> n <= nth c bl 0) /\ forall i, (i < c)%nat -> nth i bl 0 < n.
Proof.
  unfold pool_num. induction bl as [|x bl IH]; cbn [pool_num_from length].
  - repeat split; intros; lia.
  - destruct (N.leb_spec n x) as [Hle|Hgt].
    + cbn [nth]. repeat split; intros; lia.
    + rewrite pool_num_from_shift. destruct IH as (I1 & I2 & I3).
      replace (pool_num_from bl n 0 + 1)%nat with (S (pool_num_from bl n 0)) by lia.
      repeat split; try lia.
      * intros Hc. cbn [nth]. apply I2. lia.
      * intros i Hi. destruct i as [|i]; cbn [nth]; [exact Hgt|]. apply I3. lia.
Qed.

Lemma bp_get_len_cap p n pick fresh :
  let g := snd (bp_get p n pick fresh) in pg_len g = n /\ n <= pg_cap g.
Proof.
  unfold bp_get.
  set (c := pool_num (bp_base p) n).
  assert (Hmade : n <= (if Nat.eqb c (length (bp_base p)) then n else nth c (bp_base p) 0)).
  { destruct (Nat.eqb_spec c (length (bp_base p))); [lia|].
    pose proof (pool_num_bound (bp_base p) n) as (B1 & B2 & _). fold c in B1, B2. apply B2. lia. }
  destruct pick as [i|]; [|cbn [snd pg_len pg_cap]; auto].
  destruct (nth_error (nth c (bp_cls p) []) i) as [[id cp]|]; [|cbn [snd pg_len pg_cap]; auto].
  destruct (cp =? 0); [cbn [snd pg_len pg_cap]; auto|].
  destruct (N.leb_spec n cp); cbn [snd pg_len pg_cap]; auto.
Qed.

(* Put files a slice under the class of its capacity *)
Lemma nth_set_nth_cls : forall (l : list (list pbuf)) i j x,
  nth j (set_nth_cls l i x) [] = if Nat.eqb i j then (if Nat.ltb i (length l) then x else []) else nth j l [].
Proof.
  induction l as [|y l IH]; intros i j x; cbn [set_nth_cls].
  - destruct (Nat.eqb i j); destruct j; reflexivity.
  - destruct i as [|i]; destruct j as [|j]; cbn [nth Nat.eqb length]; try reflexivity.
    rewrite IH. destruct (Nat.eqb i j); [|reflexivity].
    change (Nat.ltb (S i) (S (length l))) with (Nat.ltb i (length l)). reflexivity.
Qed.

(* every pooled slice sits in the class of its capacity *)
Definition pool_ok (p : bpool) : Prop :=
  forall c b, In b (nth c (bp_cls p) []) -> pool_num (bp_base p) (snd b) = c.

Lemma pool_ok_new b : pool_ok (bp_new b).
Proof. intros c x. cbn. destruct c as [|[|[|[|[|[|[|c]]]]]]]; cbn; intros []. Qed.

Lemma In_remove_nth {A} (l : list A) : forall i x, In x (remove_nth l i) -> In x l.
Proof.
  induction l as [|y l IH]; intros i x; cbn [remove_nth]; [intros []|].
  destruct i; cbn [In]; [auto|]. intros [E|H]; [auto|right; eapply IH; eauto].
Qed.

Lemma pool_ok_put p b : pool_ok p -> pool_ok (bp_put p b).
Proof.
  intros H c x. unfold bp_put. cbn [bp_cls bp_base]. rewrite nth_set_nth_cls.
  destruct (Nat.eqb_spec (pool_num (bp_base p) (snd b)) c) as [E|E]; [|apply H].
  destruct (Nat.ltb _ _); [|intros []]. intros [<-|Hin]; [exact E|]. apply H. rewrite <- E. exact Hin.
Qed.

Lemma pool_ok_get p n pick fresh : pool_ok p -> pool_ok (fst (bp_get p n pick fresh)).
Proof.
  intros H. unfold bp_get. destruct pick as [i|]; [|exact H].
  destruct (nth_error _ i) as [[id cp]|] eqn:Hn; [|exact H].
  assert (Hok : pool_ok (BP (bp_base p) (set_nth_cls (bp_cls p) (pool_num (bp_base p) n)
                          (remove_nth (nth (pool_num (bp_base p) n) (bp_cls p) []) i)))).
  { intros c x. cbn [bp_cls bp_base]. rewrite nth_set_nth_cls.
    destruct (Nat.eqb_spec (pool_num (bp_base p) n) c) as [E|E]; [|apply H].
    destruct (Nat.ltb _ _); [|intros []]. intros Hin. apply In_remove_nth in Hin. rewrite <- E. apply H. exact Hin. }
  destruct (cp =? 0); [exact Hok|]. destruct (n <=? cp); exact Hok.
Qed.

(* a reused slice comes from the class of the request: its capacity is in the same class as n *)
Lemma bp_get_reused_class p n i fresh :
  pool_ok p -> pg_reused (snd (bp_get p n (Some i) fresh)) = true ->
  pool_num (bp_base p) (pg_cap (snd (bp_get p n (Some i) fresh))) = pool_num (bp_base p) n.
Proof.
  intros H. unfold bp_get.
  destruct (nth_error _ i) as [[id cp]|] eqn:Hn; [|cbn; discriminate].
  destruct (cp =? 0); [cbn; discriminate|]. destruct (n <=? cp); [|cbn; discriminate].
  cbn [snd pg_reused pg_cap]. intros _. apply nth_error_In in Hn. apply (H _ (id, cp)). exact Hn.
Qed.

(* ---- ownership: how many pooled entries name an array *)
Lemma filter_remove_nth {A} (f : A -> bool) (l : list A) : forall i b,
  nth_error l i = Some b ->
  length (filter f l) = (length (filter f (remove_nth l i)) + (if f b then 1 else 0))%nat.
Proof.
  induction l as [|y l IH]; intros i b; destruct i; cbn [nth_error remove_nth filter]; try discriminate.
  - intros [= ->]. destruct (f b); cbn [length]; lia.
  - intros Hn. specialize (IH i b Hn). destruct (f y); cbn [length]; lia.
Qed.

Lemma count_set_nth_cls (f : pbuf -> bool) : forall (cls : list (list pbuf)) c x,
  (c < length cls)%nat ->
  (length (filter f (concat (set_nth_cls cls c x))) + length (filter f (nth c cls [])) =
   length (filter f (concat cls)) + length (filter f x))%nat.
Proof.
  induction cls as [|y cls IH]; intros c x Hc; cbn [length] in Hc; [lia|].
  destruct c as [|c]; cbn [set_nth_cls concat nth].
  - rewrite !filter_app, !app_length. lia.
  - rewrite !filter_app, !app_length. specialize (IH c x). lia.
Qed.

Lemma nth_error_nth_nil {A} (l : list (list A)) c i b :
  nth_error (nth c l []) i = Some b -> (c < length l)%nat.
Proof.
  intros H. destruct (Nat.lt_ge_cases c (length l)); [assumption|].
  rewrite nth_overflow in H by assumption. destruct i; discriminate.
Qed.

(* Get takes the slice it returns out of the pool *)
Lemma bp_get_takes_out p n i fresh :
  let r := bp_get p n (Some i) fresh in
  pg_reused (snd r) = true -> S (bp_count (fst r) (pg_id (snd r))) = bp_count p (pg_id (snd r)).
Proof.
  unfold bp_get. destruct (nth_error _ i) as [[id cp]|] eqn:Hn; [|cbn; discriminate].
  destruct (cp =? 0); [cbn; discriminate|]. destruct (n <=? cp); [|cbn; discriminate].
  cbn [fst snd pg_reused pg_id]. intros _. unfold bp_count. cbn [bp_cls].
  pose proof (nth_error_nth_nil _ _ _ _ Hn) as Hc.
  pose proof (count_set_nth_cls (fun b => Nat.eqb (fst b) id) (bp_cls p) _
                (remove_nth (nth (pool_num (bp_base p) n) (bp_cls p) []) i) Hc) as E.
  pose proof (filter_remove_nth (fun b => Nat.eqb (fst b) id) _ _ _ Hn) as F.
  cbn [fst] in F. rewrite Nat.eqb_refl in F. unfold pbuf in *. lia.
Qed.

(* a slice that is in the pool at most once cannot be handed out twice without a Put in between *)
Lemma bp_get_no_second_owner p n i fresh n' i' fresh' :
  let r := bp_get p n (Some i) fresh in
  let r' := bp_get (fst r) n' (Some i') fresh' in
  (bp_count p (pg_id (snd r)) <= 1)%nat ->
  pg_reused (snd r) = true -> pg_reused (snd r') = true -> pg_id (snd r') <> pg_id (snd r).
Proof.
  intros r r' Hc Hr Hr' E.
  pose proof (bp_get_takes_out p n i fresh Hr) as T. fold r in T.
  pose proof (bp_get_takes_out (fst r) n' i' fresh' Hr') as T'. fold r' in T'.
  rewrite E in T'. lia.
Qed.

(* ================================================================ BasicReleaser *)

(* the attached releaser is called by the first Release only, and Release latches *)
Lemma rl_release_latches r :
  let '(r1, res1) := rl_step r RLRelease in
  rl_released r1 = true /\ rl_step r1 RLRelease = (r1, RLUnit false).
Proof. unfold rl_step. destruct (rl_released r) eqn:E; cbn; rewrite ?E; auto. Qed.

Lemma rl_set_after_release_panics r nn :
  rl_released r = true -> rl_step r (RLSet nn) = (r, RLPanicReleased).
Proof. intros H. unfold rl_step. now rewrite H. Qed.

(* ================================================================ statements used by Props/C13U.v *)

Lemma bytes_prefix_correct p k : wf_bytes p -> wf_bytes k ->
  fst (bytes_prefix p) = p /\ in_range (bytes_prefix p) k = is_prefix_of p k.
Proof.
  intros Hp Hk. split; [reflexivity|]. unfold bytes_prefix. rewrite bp_loop_plimit. apply in_range_plimit; assumption.
Qed.

Lemma bytes_prefix_open_limit p : wf_bytes p ->
  (snd (bytes_prefix p) = None <-> Forall (fun c => c = 255) p).
Proof. intros Hp. unfold bytes_prefix. cbn [snd]. rewrite bp_loop_plimit. apply plimit_none_iff. exact Hp. Qed.

Lemma pool_num_mono bl n n' : n <= n' -> (pool_num bl n <= pool_num bl n')%nat.
Proof. apply pool_num_from_mono. Qed.
