(* Base/CursorProofs.v — laws of the reference cursor (Base/Cursor.v). *)
From GL Require Import Base.Bytes Base.Order Base.OrderProofs Base.Cursor.
From Coq Require Import Arith Lia.

Section Laws.
  Context {V : Type}.
  Variable c : comparer.
  Hypothesis c_ok : comparer_ok c.

  (* ---- sortedness by position ---- *)
  Lemma sorted_from_nth (l : list (bytes * V)) : forall k0 j k v,
    sorted_from c k0 l -> nth_error l j = Some (k, v) -> cmp c k0 k = Lt.
  Proof.
    induction l as [|[k1 v1] r IH]; intros k0 j k v Hs Hj.
    - destruct j; discriminate.
    - destruct Hs as [H1 H2]. destruct j as [|j]; cbn [nth_error] in Hj.
      + injection Hj as <- _. exact H1.
      + eapply (cmp_trans c c_ok); [exact H1|]. eapply IH; eauto.
  Qed.

  Lemma sorted_nth (l : list (bytes * V)) : forall i j ki vi kj vj,
    sorted c l -> (i < j)%nat ->
    nth_error l i = Some (ki, vi) -> nth_error l j = Some (kj, vj) -> cmp c ki kj = Lt.
  Proof.
    induction l as [|[k1 v1] r IH]; intros i j ki vi kj vj Hs Hij Hi Hj.
    - destruct i; discriminate.
    - destruct j as [|j]; [lia|]. cbn [nth_error] in Hj.
      destruct i as [|i]; cbn [nth_error] in Hi.
      + injection Hi as <- _. cbn [sorted] in Hs. eapply sorted_from_nth; eauto.
      + apply (IH i j ki vi kj vj); try assumption; try lia.
        cbn [sorted] in Hs. destruct r as [|[k2 v2] r']; [exact I|]. cbn [sorted]. apply Hs.
  Qed.

  Lemma sorted_tail (kv : bytes * V) l : sorted c (kv :: l) -> sorted c l.
  Proof.
    destruct kv as [k v]. cbn [sorted]. destruct l as [|[k2 v2] r]; [trivial|]. cbn [sorted sorted_from]. tauto.
  Qed.

  (* ---- first_ge: introduction forms ---- *)
  Lemma first_ge_some_intro (l : list (bytes * V)) : forall k s j kj vj,
    nth_error l j = Some (kj, vj) -> cmp c kj k <> Lt ->
    (forall j' k' v', (j' < j)%nat -> nth_error l j' = Some (k', v') -> cmp c k' k = Lt) ->
    first_ge c k l s = Some (s + j)%nat.
  Proof.
    induction l as [|[k1 v1] r IH]; intros k s j kj vj Hj Hge Hlt.
    - destruct j; discriminate.
    - cbn [first_ge]. destruct j as [|j]; cbn [nth_error] in Hj.
      + injection Hj as -> _. rewrite Nat.add_0_r. destruct (cmp c kj k); congruence.
      + rewrite (Hlt 0%nat k1 v1) by (try lia; reflexivity).
        rewrite (IH k (S s) j kj vj Hj Hge).
        * f_equal. lia.
        * intros j' k' v' Hj' Hn. apply (Hlt (S j') k' v'); [lia | exact Hn].
  Qed.

  Lemma first_ge_none_intro (l : list (bytes * V)) : forall k s,
    (forall j k' v', nth_error l j = Some (k', v') -> cmp c k' k = Lt) ->
    first_ge c k l s = None.
  Proof.
    induction l as [|[k1 v1] r IH]; intros k s H; cbn [first_ge]; [reflexivity|].
    rewrite (H 0%nat k1 v1) by reflexivity.
    apply IH. intros j k' v' Hn. apply (H (S j) k' v'). exact Hn.
  Qed.

  (* ---- first_ge: elimination forms ---- *)
  Lemma first_ge_some_elim (l : list (bytes * V)) : forall k s i,
    first_ge c k l s = Some i ->
    (s <= i)%nat /\
    (exists ki vi, nth_error l (i - s) = Some (ki, vi) /\ cmp c ki k <> Lt) /\
    (forall j' k' v', (j' < i - s)%nat -> nth_error l j' = Some (k', v') -> cmp c k' k = Lt).
  Proof.
    induction l as [|[k1 v1] r IH]; intros k s i H; cbn [first_ge] in H; [discriminate|].
    destruct (cmp c k1 k) eqn:E.
    - injection H as <-. rewrite Nat.sub_diag. split; [lia|]. split.
      + exists k1, v1. split; [reflexivity | congruence].
      + intros; lia.
    - apply IH in H as (H1 & (ki & vi & H2 & H3) & H4). split; [lia|]. split.
      + exists ki, vi. split; [|exact H3]. replace (i - s)%nat with (S (i - S s)) by lia. exact H2.
      + intros j' k' v' Hj Hn. destruct j' as [|j']; cbn [nth_error] in Hn.
        * injection Hn as <- _. exact E.
        * apply (H4 j' k' v'); [lia | exact Hn].
    - injection H as <-. rewrite Nat.sub_diag. split; [lia|]. split.
      + exists k1, v1. split; [reflexivity | congruence].
      + intros; lia.
  Qed.

  Lemma first_ge_none_elim (l : list (bytes * V)) : forall k s,
    first_ge c k l s = None -> forall j k' v', nth_error l j = Some (k', v') -> cmp c k' k = Lt.
  Proof.
    induction l as [|[k1 v1] r IH]; intros k s H j k' v' Hn; [destruct j; discriminate|].
    cbn [first_ge] in H. destruct (cmp c k1 k) eqn:E; try discriminate.
    destruct j as [|j]; cbn [nth_error] in Hn.
    - injection Hn as <- _. exact E.
    - eapply IH; eauto.
  Qed.
End Laws.
