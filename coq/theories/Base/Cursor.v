(* Base/Cursor.v — the reference cursor over a sorted list of (key * value) pairs: the
   one-screen specification every iterator model (block, table, memdb, merged, DB) is compared
   with.  Positions: before the first entry (SOI), at entry i, after the last entry (EOI).
   Next from SOI = First, Prev from EOI = Last, stepping off either end parks the cursor there
   and the opposite step comes back.  Generic over the element types and the comparer.
   Model file: definitions only, laws in CursorProofs.v. *)
From GL Require Export Base.Bytes Base.Order.

Inductive cpos := CSOI | CAt (i : nat) | CEOI.

Inductive cop := OpFirst | OpLast | OpSeek (k : bytes) | OpNext | OpPrev.

Section Cursor.
  Context {V : Type}.
  Variable c : comparer.
  Variable l : list (bytes * V).

  Definition c_first : cpos := match l with [] => CEOI | _ => CAt 0 end.
  Definition c_last : cpos := match l with [] => CSOI | _ => CAt (length l - 1) end.

  Definition c_next (p : cpos) : cpos :=
    match p with
    | CSOI => c_first
    | CAt i => if Nat.ltb (S i) (length l) then CAt (S i) else CEOI
    | CEOI => CEOI
    end.

  Definition c_prev (p : cpos) : cpos :=
    match p with
    | CEOI => c_last
    | CAt i => match i with O => CSOI | S j => CAt j end
    | CSOI => CSOI
    end.

  (* index of the first entry whose key is >= k *)
  Fixpoint first_ge (k : bytes) (l' : list (bytes * V)) (i : nat) : option nat :=
    match l' with
    | [] => None
    | (k', _) :: r => match cmp c k' k with Lt => first_ge k r (S i) | _ => Some i end
    end.

  Definition c_seek (k : bytes) : cpos :=
    match first_ge k l 0 with Some i => CAt i | None => CEOI end.

  Definition c_step (p : cpos) (o : cop) : cpos :=
    match o with
    | OpFirst => c_first
    | OpLast => c_last
    | OpSeek k => c_seek k
    | OpNext => c_next p
    | OpPrev => c_prev p
    end.

  (* what a caller observes after an operation: the boolean result (= the cursor is on an
     entry) and that entry *)
  Definition c_get (p : cpos) : option (bytes * V) :=
    match p with CAt i => nth_error l i | _ => None end.

  Fixpoint c_run (p : cpos) (ops : list cop) : list (option (bytes * V)) :=
    match ops with
    | [] => []
    | o :: r => let p' := c_step p o in c_get p' :: c_run p' r
    end.
End Cursor.

(* the sub-list an iterator restricted to [start, limit) ranges over; None = unbounded *)
Definition in_range {V} (c : comparer) (start limit : option bytes) (kv : bytes * V) : bool :=
  (match start with Some s => leb c s (fst kv) | None => true end) &&
  (match limit with Some e => ltb c (fst kv) e | None => true end).

Definition restrict {V} (c : comparer) (start limit : option bytes) (l : list (bytes * V)) :=
  filter (in_range c start limit) l.

(* strictly increasing keys *)
Fixpoint sorted_from {V} (c : comparer) (k : bytes) (l : list (bytes * V)) : Prop :=
  match l with
  | [] => True
  | (k', _) :: r => cmp c k k' = Lt /\ sorted_from c k' r
  end.
Definition sorted {V} (c : comparer) (l : list (bytes * V)) : Prop :=
  match l with [] => True | (k, _) :: r => sorted_from c k r end.
