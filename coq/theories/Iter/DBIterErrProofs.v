(* Iter/DBIterErrProofs.v — dbIter (the repaired code, Iter/IterErr.v, the de_ machine) over a raw iterator that behaves
   like a cursor until it FAILS (a fuse: its n-th call returns false with an error and it stays failed):
   for every call sequence - forward, backward, mixed - the outputs are exactly those of the cursor over the
   live pairs up to the call during which the raw iterator fails, and (false, nil, nil) with an error recorded
   from that call on.  It stops, and it never shows a pair that is not the live pair of its key.
   Shape: the error-aware machine over the fused raw iterator runs in lock step with the error-free machine
   (Iter/DBIter.v) over the ideal raw iterator as long as the fuse holds; every loop of dbIter tests the raw
   iterator after each of its calls, so the call during which the fuse burns ends in a result whose raw
   iterator is failed, which de_post turns into setErr / false - also on the exit of prev() below its loop
   (the repair 35e2053).  Then C02's dbiter_refines for the ideal run. *)
From GL Require Import Base.Order Base.OrderProofs Codec.IKey Iter.Cursor Iter.CursorProofs Iter.DBIter Iter.DBIterProofs
  Iter.DBIterCong Iter.IterErr Iter.IterErrProofs.
From Coq Require Import Lia Arith.
Close Scope N_scope.

Section DBPrefix.
  Variable c : comparer.
  Variable p : kparams.
  Variable C : Type.
  Variable chstep : C -> move ikey -> C.
  Variable chobs : C -> option entry.
  Variable seq : N.
  Variable strict : bool.

  Notation F := (fchild C).
  Notation fstep := (f_step chstep).
  Notation fobs := (f_obs chobs).

  Lemma fstep_cases (x : F) m : fc_dead x = false ->
    (fc_dead (fstep x m) = false /\ fc_in (fstep x m) = chstep (fc_in x) m) \/ fc_dead (fstep x m) = true.
  Proof. intros H. unfold f_step. rewrite H. destruct (fc_fuse x) as [[|n]|]; cbn; auto. Qed.

  Lemma fobs_live (x : F) : fc_dead x = false -> fobs x = chobs (fc_in x).
  Proof. intros H. unfold f_obs. rewrite H. reflexivity. Qed.
  Lemma fobs_dead (x : F) : fc_dead x = true -> fobs x = None.
  Proof. intros H. unfold f_obs. rewrite H. reflexivity. Qed.

  (* states side by side: the fused raw iterator is alive and wraps the ideal one *)
  Definition srelA (sF : dbstate F) (sC : dbstate C) : Prop :=
    fc_dead (d_child sF) = false /\ fc_in (d_child sF) = d_child sC /\ d_dir sF = d_dir sC /\
    d_key sF = d_key sC /\ d_value sF = d_value sC /\ d_err sF = d_err sC.

  (* results side by side: in lock step, or the fused side ended with its raw iterator failed *)
  Definition rrelA (rF : res F) (rC : res C) : Prop :=
    (exists sF sC b, rF = Ok sF b /\ rC = Ok sC b /\ srelA sF sC) \/
    (exists sF b, rF = Ok sF b /\ fc_dead (d_child sF) = true) \/
    (rF = OutOfFuel /\ rC = OutOfFuel) \/ (rF = Panic /\ rC = Panic).

  Ltac lock := left; eexists _, _, _; split; [reflexivity|]; split; [reflexivity|].
  Ltac dead := right; left; eexists _, _; split; [reflexivity|].

  Ltac srel_tac := unfold srelA, set_child, set_dir, set_key, set_kv, set_err in *;
    cbn [d_child d_dir d_key d_value d_err] in *; intuition congruence.

  Lemma srelA_child sF sC (x : F) : srelA sF sC -> fc_dead x = false -> srelA (set_child F sF x) (set_child C sC (fc_in x)).
  Proof. intros; srel_tac. Qed.
  Lemma srelA_dir sF sC d : srelA sF sC -> srelA (set_dir F sF d) (set_dir C sC d).
  Proof. intros; srel_tac. Qed.
  Lemma srelA_key sF sC k : srelA sF sC -> srelA (set_key F sF k) (set_key C sC k).
  Proof. intros; srel_tac. Qed.
  Lemma srelA_kv sF sC k v : srelA sF sC -> srelA (set_kv F sF k v) (set_kv C sC k v).
  Proof. intros; srel_tac. Qed.
  Lemma srelA_err sF sC : srelA sF sC -> srelA (set_err F sF) (set_err C sC).
  Proof. intros; srel_tac. Qed.

  Lemma parse_A sF sC : srelA sF sC -> parse_cur p F fobs (d_child sF) = parse_cur p C chobs (d_child sC).
  Proof. intros (H1 & H2 & _). unfold parse_cur. rewrite (fobs_live _ H1), H2. reflexivity. Qed.

  Notation NLF := (next_loop c p F fstep fobs seq strict).
  Notation NLC := (next_loop c p C chstep chobs seq strict).
  Notation PLF := (prev_loop c p F fstep fobs seq strict).
  Notation PLC := (prev_loop c p C chstep chobs seq strict).

  (* one call on the raw iterator: still in lock step with the same answer, or failed (then it shows nothing) *)
  Lemma child_step sF sC m : srelA sF sC ->
    (fc_dead (fstep (d_child sF) m) = false /\ fc_in (fstep (d_child sF) m) = chstep (d_child sC) m /\
     fobs (fstep (d_child sF) m) = chobs (chstep (d_child sC) m)) \/
    (fc_dead (fstep (d_child sF) m) = true /\ fobs (fstep (d_child sF) m) = None).
  Proof.
    intros (H1 & H2 & _). destruct (fstep_cases (d_child sF) m H1) as [[A B]|A].
    - left. rewrite (fobs_live _ A), B, H2. auto.
    - right. split; [exact A|apply fobs_dead; exact A].
  Qed.

  Lemma next_A : forall f sF sC, srelA sF sC -> rrelA (NLF f sF) (NLC f sC).
  Proof.
    induction f as [|f IH]; intros sF sC H; [right; right; left; auto|].
    assert (A : forall tF tC, srelA tF tC ->
              rrelA (adv_ c p F fstep fobs seq strict f tF) (adv_ c p C chstep chobs seq strict f tC)).
    { intros tF tC Ht. unfold adv_. cbv zeta.
      destruct (child_step tF tC MNext Ht) as [(A1 & A2 & A3)|(A1 & A3)]; rewrite A3.
      - destruct (is_some (chobs (chstep (d_child tC) MNext))).
        + rewrite <- A2. apply IH. apply srelA_child; assumption.
        + lock. rewrite <- A2. apply srelA_dir. apply srelA_child; assumption.
      - cbn [is_some]. dead. exact A1. }
    rewrite !next_unfold. rewrite (parse_A _ _ H).
    destruct (parse_cur p C chobs (d_child sC)) as [[[[ukey seq'] kt] v]|].
    - destruct (seq' <=? seq)%N; [|apply A; exact H].
      destruct (kt =? keyTypeDel p)%N; [apply A; apply srelA_dir; apply srelA_key; exact H|].
      destruct (kt =? keyTypeVal p)%N; [|apply A; exact H].
      pose proof H as (H1 & H2 & H3 & H4 & H5 & H6). rewrite H3, H4.
      destruct (is_dir_soi (d_dir sC) || is_gt (cmp c ukey (d_key sC))).
      + lock. apply srelA_dir. apply srelA_kv. exact H.
      + apply A. exact H.
    - destruct strict; [lock; apply srelA_err; exact H|apply A; exact H].
  Qed.

  Lemma finish_A sF sC del : srelA sF sC -> rrelA (prev_finish F sF del) (prev_finish C sC del).
  Proof. intros H. unfold prev_finish. destruct del; lock; [apply srelA_dir|]; exact H. Qed.

  Lemma prevl_A : forall f sF sC del, srelA sF sC -> rrelA (PLF f sF del) (PLC f sC del).
  Proof.
    induction f as [|f IH]; intros sF sC del H; [right; right; left; auto|].
    assert (B : forall tF tC dl, srelA tF tC ->
              rrelA (back_ c p F fstep fobs seq strict f tF dl) (back_ c p C chstep chobs seq strict f tC dl)).
    { intros tF tC dl Ht. unfold back_. cbv zeta.
      destruct (child_step tF tC MPrev Ht) as [(A1 & A2 & A3)|(A1 & A3)]; rewrite A3.
      - destruct (is_some (chobs (chstep (d_child tC) MPrev))).
        + rewrite <- A2. apply IH. apply srelA_child; assumption.
        + rewrite <- A2. apply finish_A. apply srelA_child; assumption.
      - cbn [is_some]. unfold prev_finish. destruct dl; dead; exact A1. }
    rewrite !prev_unfold. rewrite (parse_A _ _ H).
    destruct (parse_cur p C chobs (d_child sC)) as [[[[ukey seq'] kt] v]|].
    - destruct (seq' <=? seq)%N; [|apply B; exact H].
      assert (Ek : d_key sF = d_key sC) by apply H. rewrite Ek.
      destruct (negb del && is_lt (cmp c ukey (d_key sC))); [lock; exact H|].
      cbv zeta. destruct (kt =? keyTypeDel p)%N; apply B; [exact H|apply srelA_kv; exact H].
    - destruct strict; [lock; apply srelA_err; exact H|apply B; exact H].
  Qed.

  Lemma prev__A f sF sC : srelA sF sC ->
    rrelA (prev_ c p F fstep fobs seq strict f sF) (prev_ c p C chstep chobs seq strict f sC).
  Proof.
    intros H. unfold prev_.
    assert (H' : srelA (set_dir F sF DirBackward) (set_dir C sC DirBackward)) by (apply srelA_dir; exact H).
    assert (E : fobs (d_child (set_dir F sF DirBackward)) = chobs (d_child (set_dir C sC DirBackward))).
    { destruct H' as (A1 & A2 & _). rewrite (fobs_live _ A1), A2. reflexivity. }
    rewrite E. destruct (is_some _); [apply prevl_A|apply finish_A]; exact H'.
  Qed.

  Lemma rewind_A : forall f sF sC, srelA sF sC ->
    rrelA (rewind c p F fstep fobs seq strict f sF) (rewind c p C chstep chobs seq strict f sC).
  Proof.
    induction f as [|f IH]; intros sF sC H; [right; right; left; auto|].
    rewrite !rewind_unfold'. cbv zeta.
    destruct (child_step sF sC MPrev H) as [(A1 & A2 & A3)|(A1 & A3)]; rewrite A3.
    - assert (H' : srelA (set_child F sF (fstep (d_child sF) MPrev)) (set_child C sC (chstep (d_child sC) MPrev)))
        by (rewrite <- A2; apply srelA_child; assumption).
      destruct (is_some (chobs (chstep (d_child sC) MPrev))).
      + assert (Ep : parse_cur p F fobs (fstep (d_child sF) MPrev) = parse_cur p C chobs (chstep (d_child sC) MPrev))
          by (unfold parse_cur; rewrite A3; reflexivity).
        rewrite Ep. destruct (parse_cur p C chobs (chstep (d_child sC) MPrev)) as [[[[ukey seq'] kt] v]|].
        * assert (Ek : d_key sF = d_key sC) by apply H. rewrite Ek.
          destruct (is_lt (cmp c ukey (d_key sC))); [apply prev__A|apply IH]; exact H'.
        * destruct strict; [lock; apply srelA_err; exact H'|apply IH; exact H'].
      + lock. apply srelA_dir. exact H'.
    - cbn [is_some]. dead. exact A1.
  Qed.

  Lemma first_A f sF sC : srelA sF sC ->
    rrelA (db_first c p F fstep fobs seq strict f sF) (db_first c p C chstep chobs seq strict f sC).
  Proof.
    intros H. unfold db_first. assert (Ee : d_err sF = d_err sC) by apply H. rewrite Ee.
    destruct (d_err sC); [lock; exact H|].
    destruct (child_step sF sC MFirst H) as [(A1 & A2 & A3)|(A1 & A3)]; rewrite A3.
    - destruct (is_some _); rewrite <- A2.
      + apply next_A. apply srelA_dir. apply srelA_child; assumption.
      + lock. apply srelA_dir. apply srelA_child; assumption.
    - cbn [is_some]. dead. exact A1.
  Qed.

  Lemma last_A f sF sC : srelA sF sC ->
    rrelA (db_last c p F fstep fobs seq strict f sF) (db_last c p C chstep chobs seq strict f sC).
  Proof.
    intros H. unfold db_last. assert (Ee : d_err sF = d_err sC) by apply H. rewrite Ee.
    destruct (d_err sC); [lock; exact H|].
    destruct (child_step sF sC MLast H) as [(A1 & A2 & A3)|(A1 & A3)]; rewrite A3.
    - destruct (is_some _); rewrite <- A2.
      + apply prev__A. apply srelA_child; assumption.
      + lock. apply srelA_dir. apply srelA_child; assumption.
    - cbn [is_some]. dead. exact A1.
  Qed.

  Lemma seek_A f sF sC k : srelA sF sC ->
    rrelA (db_seek c p F fstep fobs seq strict f sF k) (db_seek c p C chstep chobs seq strict f sC k).
  Proof.
    intros H. unfold db_seek. assert (Ee : d_err sF = d_err sC) by apply H. rewrite Ee.
    destruct (d_err sC); [lock; exact H|].
    destruct (make_ikey p k seq (keyTypeSeek p)) as [ik|]; [|right; right; right; auto].
    destruct (child_step sF sC (MSeek ik) H) as [(A1 & A2 & A3)|(A1 & A3)]; rewrite A3.
    - destruct (is_some _); rewrite <- A2.
      + apply next_A. apply srelA_dir. apply srelA_child; assumption.
      + lock. apply srelA_dir. apply srelA_child; assumption.
    - cbn [is_some]. dead. exact A1.
  Qed.

  Lemma dbnext_A f sF sC : srelA sF sC ->
    rrelA (db_next c p F fstep fobs seq strict f sF) (db_next c p C chstep chobs seq strict f sC).
  Proof.
    intros H. unfold db_next. assert (Ed : d_dir sF = d_dir sC) by apply H.
    assert (Ee : d_err sF = d_err sC) by apply H. rewrite Ed, Ee.
    destruct (d_dir sC) eqn:Edir; try (lock; exact H);
      (destruct (d_err sC); [lock; exact H|]);
      (destruct (child_step sF sC MNext H) as [(A1 & A2 & A3)|(A1 & A3)]; rewrite A3;
       [|cbn [is_some negb]; dead; exact A1]);
      (destruct (is_some (chobs (chstep (d_child sC) MNext))) eqn:E1; cbn [negb];
       [|lock; rewrite <- A2; apply srelA_dir; apply srelA_child; assumption]).
    - apply next_A. rewrite <- A2. apply srelA_child; assumption.
    - (* dirBackward: the second iter.Next() *)
      assert (H1 : srelA (set_child F sF (fstep (d_child sF) MNext)) (set_child C sC (chstep (d_child sC) MNext)))
        by (rewrite <- A2; apply srelA_child; assumption).
      destruct (child_step _ _ MNext H1) as [(B1 & B2 & B3)|(B1 & B3)]; cbn [set_child d_child] in *; rewrite B3.
      + destruct (is_some (chobs (chstep (chstep (d_child sC) MNext) MNext))); cbn [negb].
        * apply next_A. rewrite <- B2. apply srelA_child; assumption.
        * lock. rewrite <- B2. apply srelA_dir. apply srelA_child; assumption.
      + cbn [is_some negb]. dead. exact B1.
    - apply next_A. rewrite <- A2. apply srelA_child; assumption.
  Qed.

  Lemma dbprev_A f sF sC : srelA sF sC ->
    rrelA (db_prev c p F fstep fobs seq strict f sF) (db_prev c p C chstep chobs seq strict f sC).
  Proof.
    intros H. unfold db_prev. assert (Ed : d_dir sF = d_dir sC) by apply H.
    assert (Ee : d_err sF = d_err sC) by apply H. rewrite Ed, Ee.
    destruct (d_dir sC); [lock; exact H| | |]; (destruct (d_err sC); [lock; exact H|]).
    - apply last_A. exact H.
    - apply prev__A. exact H.
    - apply rewind_A. exact H.
  Qed.

  Lemma step_A f sF sC m : srelA sF sC ->
    rrelA (db_step c p F fstep fobs seq strict f sF m) (db_step c p C chstep chobs seq strict f sC m).
  Proof.
    intros H. destruct m; cbn [db_step].
    - apply first_A; exact H.
    - apply last_A; exact H.
    - apply seek_A; exact H.
    - apply dbnext_A; exact H.
    - apply dbprev_A; exact H.
  Qed.

  (* ---- one call of the error-aware machine ---- *)
  Notation DE := (destate F).
  Notation demove := (de_move c p F fstep fobs f_err seq strict).

  Definition R (se : DE) (sC : dbstate C) : Prop :=
    de_err se = None /\ de_released se = false /\ srelA (de_base se) sC.

  Lemma de_step_sim f se sC m sC' ret : R se sC -> db_step c p C chstep chobs seq strict f sC m = Ok sC' ret ->
    (exists se', demove f se m = DEOk se' ret /\ R se' sC' /\ de_kv se' = db_kv sC') \/
    (exists se' e, demove f se m = DEOk se' false /\ de_err se' = Some e).
  Proof.
    intros (He & Hr & HA) Hm. unfold de_move, de_move_with. rewrite He, Hr.
    assert (Ed : d_dir (de_base se) = d_dir sC) by apply HA.
    assert (G : (exists se', de_post fobs f_err se (db_step c p F fstep fobs seq strict f (de_base se) m) = DEOk se' ret /\
                             R se' sC' /\ de_kv se' = db_kv sC') \/
                (exists se' e, de_post fobs f_err se (db_step c p F fstep fobs seq strict f (de_base se) m) = DEOk se' false /\
                               de_err se' = Some e)).
    { destruct (step_A f (de_base se) sC m HA) as [(sF & sC0 & b & EF & EC & HA')|[(sF & b & EF & Hd)|[[EF EC]|[EF EC]]]];
        rewrite EF; try (rewrite EC in Hm; discriminate).
      - rewrite EC in Hm. injection Hm as <- <-.
        pose proof HA' as (A1 & A2 & A3 & A4 & A5 & A6).
        assert (Ekv : db_kv sF = db_kv sC0) by (unfold db_kv, db_valid; rewrite A3, A4, A5, A6; reflexivity).
        unfold de_post. destruct b.
        + assert (Ece : f_err (d_child sF) = None) by (unfold f_err; rewrite A1; reflexivity).
          rewrite Ece.
          assert (Eif : forall (X : Type) (a : X), (if is_some (fobs (d_child sF)) then a else a) = a)
            by (intros X a; destruct (is_some (fobs (d_child sF))); reflexivity).
          rewrite Eif. left.
          eexists; split; [reflexivity|]; split; [split; [exact He|split; [reflexivity|exact HA']]|].
          unfold de_kv, de_dead; cbn [de_err de_released de_base]; rewrite He; exact Ekv.
        + destruct (d_err sF) eqn:Eerr.
          * right. eexists _, ECorrupt. split; reflexivity.
          * assert (Ece : f_err (d_child sF) = None) by (unfold f_err; rewrite A1; reflexivity).
            rewrite Ece. left. eexists. split; [reflexivity|]. split; [split; [reflexivity|split; [reflexivity|exact HA']]|].
            unfold de_kv, de_dead. cbn. exact Ekv.
      - (* the raw iterator failed during this call *)
        right. unfold de_post.
        assert (Eo : fobs (d_child sF) = None) by (apply fobs_dead; exact Hd).
        assert (Ece : f_err (d_child sF) = Some (fc_kind (d_child sF))) by (unfold f_err; rewrite Hd; reflexivity).
        destruct b.
        + rewrite Eo, Ece. cbn [is_some]. eexists _, _. split; reflexivity.
        + destruct (d_err sF); [eexists _, ECorrupt; split; reflexivity|].
          rewrite Ece. eexists _, _. split; reflexivity. }
    destruct m; try exact G.
    - (* Next at dirEOI: the guard *)
      rewrite Ed. destruct (d_dir sC) eqn:E; try exact G.
      cbn [db_step] in Hm. unfold db_next in Hm. rewrite E in Hm. injection Hm as <- <-.
      left. exists se. split; [reflexivity|]. split; [split; [exact He|split; [exact Hr|exact HA]]|].
      unfold de_kv, de_dead. rewrite He, Hr. cbn. destruct HA as (A1 & A2 & A3 & A4 & A5 & A6).
      unfold db_kv, db_valid. rewrite A3, A4, A5, A6. reflexivity.
    - rewrite Ed. destruct (d_dir sC) eqn:E; try exact G.
      cbn [db_step] in Hm. unfold db_prev in Hm. rewrite E in Hm. injection Hm as <- <-.
      left. exists se. split; [reflexivity|]. split; [split; [exact He|split; [exact Hr|exact HA]]|].
      unfold de_kv, de_dead. rewrite He, Hr. cbn. destruct HA as (A1 & A2 & A3 & A4 & A5 & A6).
      unfold db_kv, db_valid. rewrite A3, A4, A5, A6. reflexivity.
  Qed.

  (* ---- a whole walk ---- *)
  Notation derun := (de_run c p F fstep fobs f_err seq strict).

  Lemma de_run_sim f : forall ms se sC outs, R se sC -> db_run c p C chstep chobs seq strict f sC ms = Some outs ->
    exists eouts j e, derun f se (map CMove ms) = Some eouts /\ degraded bytes bytes (length ms) outs eouts j e.
  Proof.
    induction ms as [|m ms IH]; intros se sC outs HR Hm.
    - cbn in Hm. injection Hm as <-. exists [], 0, EOther. split; [reflexivity|].
      unfold degraded. cbn. repeat split; auto.
    - cbn [db_run] in Hm. destruct (db_step c p C chstep chobs seq strict f sC m) as [sC' ret| |] eqn:Es; try discriminate.
      destruct (db_run c p C chstep chobs seq strict f sC' ms) as [o|] eqn:Er; [|discriminate]. injection Hm as <-.
      destruct (de_step_sim f se sC m sC' ret HR Es) as [(se' & E & HR' & Ekv)|(se' & e & E & Ee)].
      + destruct (IH se' sC' o HR' Er) as (eouts & j & e & Erun & Hj & Hmap & Hok & Hbad).
        exists (de_out se' ret :: eouts), (S j), e. split.
        * unfold de_run in *. cbn [map de_run_with]. fold (de_move c p F fstep fobs f_err seq strict). rewrite E, Erun. reflexivity.
        * unfold degraded. cbn [length firstn skipn map app]. split; [lia|]. split; [|split].
          -- rewrite Hmap. replace (S (length ms) - S j) with (length ms - j) by lia. f_equal.
             unfold proj, de_out. cbn [eo_ret eo_kv]. rewrite Ekv. reflexivity.
          -- constructor; [|exact Hok]. unfold de_out. cbn. apply HR'.
          -- exact Hbad.
      + exists (de_out se' false :: map (fun _ => ddead_out e) ms), 0, e. split.
        * unfold de_run. cbn [map de_run_with]. fold (de_move c p F fstep fobs f_err seq strict). rewrite E.
          fold (de_run c p F fstep fobs f_err seq strict).
          rewrite (de_error_stops c p F fstep fobs f_err seq strict f se' e ms Ee). reflexivity.
        * unfold degraded. cbn [firstn skipn app]. split; [lia|]. split; [|split; [constructor|]].
          -- rewrite Nat.sub_0_r. cbn [length repeat map]. f_equal.
             ++ unfold proj, de_out, de_kv, de_dead. rewrite Ee. reflexivity.
             ++ rewrite map_map. clear. induction ms as [|x ms IH]; [reflexivity|]. cbn. f_equal. exact IH.
          -- constructor.
             ++ unfold de_out, de_valid, de_dead. cbn. rewrite Ee. auto.
             ++ rewrite Forall_forall. intros x Hx. apply in_map_iff in Hx as (y & <- & _). cbn. auto.
  Qed.
End DBPrefix.

(* packaged: the raw iterator behaves like a cursor over the strictly icmp-sorted, well-formed internal entries l
   until its fuse burns; whatever the kind of its error (dbIter records every error of its raw iterator) *)
Theorem dbiter_error_prefix (c : comparer) (p : kparams) (C : Type) (chstep : C -> move ikey -> C)
  (chobs : C -> option entry) (seq : N) (strict : bool) (l : list entry) (fuel : nat) (raw : fchild C) :
  comparer_ok c -> dbparams_ok p -> (seq <= keyMaxSeq p)%N ->
  sorted_kv (icmp c) l -> Forall (entry_wf p) l -> length l < fuel ->
  refines (icmp c) chstep chobs (fc_in raw) l -> fc_dead raw = false ->
  forall ms, exists eouts j e,
    de_run c p (fchild C) (f_step chstep) (f_obs chobs) f_err seq strict fuel (de_init raw) (map CMove ms) = Some eouts /\
    degraded bytes bytes (length ms) (run_cursor (cmp c) (live_pairs c p seq l) ms) eouts j e.
Proof.
  intros ok dpok Hseq Hs Hwf Hf Href Hal ms.
  apply (de_run_sim c p C chstep chobs seq strict fuel ms (de_init raw) (db_init (fc_in raw))).
  - split; [reflexivity|]. split; [reflexivity|]. unfold srelA. cbn. repeat split; auto.
  - apply (dbiter_refines c p C chstep chobs seq strict l fuel (fc_in raw)); assumption.
Qed.
