(* Iter/CursorProofs.v — facts about the reference cursor: order laws for an abstract order function,
   characterisation of every cursor move on a strictly sorted list by order properties (least
   element above / greatest element below), black-box refinement lemmas, and the generic
   simulation-to-refinement theorem used by all machine proofs. *)
From GL Require Import Iter.Cursor.
From Coq Require Import Lia Arith.

Section Ord.
  Context {K : Type} (f : K -> K -> comparison) (ok : ord_ok f).

  Lemma f_refl a : f a a = Eq.
  Proof. apply (o_eq f ok). reflexivity. Qed.

  Lemma f_gt_lt a b : f a b = Gt <-> f b a = Lt.
  Proof. rewrite (o_opp f ok a b). destruct (f a b); cbn; split; congruence. Qed.

  Lemma f_lt_gt a b : f a b = Lt <-> f b a = Gt.
  Proof. rewrite (o_opp f ok a b). destruct (f a b); cbn; split; congruence. Qed.

  Lemma f_lt_irrefl a : f a a <> Lt.
  Proof. rewrite f_refl. discriminate. Qed.

  Lemma f_lt_asym a b : f a b = Lt -> f b a <> Lt.
  Proof. intros H. apply f_lt_gt in H. congruence. Qed.

  Lemma f_lt_neq a b : f a b = Lt -> a <> b.
  Proof. intros H ->. apply (f_lt_irrefl b H). Qed.

  Lemma f_le_lt_trans a b d : f a b <> Gt -> f b d = Lt -> f a d = Lt.
  Proof.
    intros H1 H2. destruct (f a b) eqn:E.
    - apply (o_eq f ok) in E. subst. exact H2.
    - eapply (o_trans f ok); eauto.
    - congruence.
  Qed.

  Lemma f_lt_le_trans a b d : f a b = Lt -> f b d <> Gt -> f a d = Lt.
  Proof.
    intros H1 H2. destruct (f b d) eqn:E.
    - apply (o_eq f ok) in E. subst. exact H1.
    - eapply (o_trans f ok); eauto.
    - congruence.
  Qed.

  Lemma f_le_trans a b d : f a b <> Gt -> f b d <> Gt -> f a d <> Gt.
  Proof.
    intros H1 H2. destruct (f b d) eqn:E.
    - apply (o_eq f ok) in E. subst. exact H1.
    - rewrite (f_le_lt_trans a b d H1 E). discriminate.
    - congruence.
  Qed.

  Lemma f_total a b : f a b = Lt \/ a = b \/ f b a = Lt.
  Proof.
    destruct (f a b) eqn:E.
    - right; left. apply (o_eq f ok). exact E.
    - left; reflexivity.
    - right; right. apply f_gt_lt. exact E.
  Qed.

  Lemma f_not_lt_le a b : f a b <> Lt <-> f b a <> Gt.
  Proof. rewrite (o_opp f ok a b). destruct (f a b); cbn; split; congruence. Qed.

  Lemma f_le_antisym a b : f a b <> Gt -> f b a <> Gt -> a = b.
  Proof.
    intros H1 H2. apply (o_eq f ok). rewrite (o_opp f ok a b) in H2.
    destruct (f a b); cbn in *; congruence.
  Qed.

  Lemma f_lt_le a b : f a b = Lt -> f a b <> Gt.
  Proof. intros ->. discriminate. Qed.

  Lemma f_ge_cases a b : f a b <> Lt -> a = b \/ f b a = Lt.
  Proof. intros H. destruct (f_total a b) as [|[|]]; auto. congruence. Qed.
End Ord.

Lemma nth_error_Some_lt {A} (l : list A) i x : nth_error l i = Some x -> i < length l.
Proof. intros H. apply nth_error_Some. congruence. Qed.

Section SortedFacts.
  Context {K V : Type} (f : K -> K -> comparison) (ok : ord_ok f).
  Notation kv := (K * V)%type.
  Notation sorted := (sorted_kv f).
  Notation klt a b := (f (fst a) (fst b) = Lt).

  Lemma sorted_cons_inv (x : kv) l : sorted (x :: l) -> sorted l /\ Forall (kv_lt f x) l.
  Proof. intros H. inversion H; subst. split; assumption. Qed.

  Lemma sorted_app_inv (l1 l2 : list kv) : sorted (l1 ++ l2) ->
    sorted l1 /\ sorted l2 /\ forall a b, In a l1 -> In b l2 -> klt a b.
  Proof.
    induction l1 as [|x l1 IH]; cbn; intros H.
    - split; [constructor|]. split; [exact H|]. intros a b [].
    - apply sorted_cons_inv in H as [Hs Hf]. destruct (IH Hs) as (S1 & S2 & S3).
      rewrite Forall_app in Hf. destruct Hf as [F1 F2].
      split; [constructor; assumption|]. split; [assumption|].
      intros a b [<-|Ha] Hb.
      + rewrite Forall_forall in F2. apply F2. exact Hb.
      + apply S3; assumption.
  Qed.

  Lemma sorted_app (l1 l2 : list kv) : sorted l1 -> sorted l2 ->
    (forall a b, In a l1 -> In b l2 -> klt a b) -> sorted (l1 ++ l2).
  Proof.
    induction l1 as [|x l1 IH]; cbn; intros S1 S2 H; [exact S2|].
    apply sorted_cons_inv in S1 as [S1 F1]. constructor.
    - apply IH; auto.
    - rewrite Forall_app. split; [exact F1|]. rewrite Forall_forall. intros b Hb. apply H; auto.
  Qed.

  Lemma sorted_nth_lt (l : list kv) : sorted l -> forall i j a b, i < j ->
    nth_error l i = Some a -> nth_error l j = Some b -> klt a b.
  Proof.
    induction l as [|x l IH]; intros Hs i j a b Hij Ha Hb.
    - destruct i; discriminate.
    - apply sorted_cons_inv in Hs as [Hs F]. destruct j as [|j]; [lia|]. cbn in Hb.
      destruct i as [|i]; cbn in Ha.
      + injection Ha as <-. rewrite Forall_forall in F. apply F. eapply nth_error_In; eauto.
      + apply (IH Hs i j a b); [lia|exact Ha|exact Hb].
  Qed.

  Lemma sorted_nth_key_inj (l : list kv) : sorted l -> forall i j a b,
    nth_error l i = Some a -> nth_error l j = Some b -> fst a = fst b -> i = j.
  Proof.
    intros Hs i j a b Ha Hb E.
    destruct (Nat.lt_trichotomy i j) as [H|[H|H]]; auto; exfalso.
    - pose proof (sorted_nth_lt l Hs i j a b H Ha Hb) as L. rewrite E in L. apply (f_lt_irrefl f ok _ L).
    - pose proof (sorted_nth_lt l Hs j i b a H Hb Ha) as L. rewrite E in L. apply (f_lt_irrefl f ok _ L).
  Qed.

  (* order between two elements of a sorted list decides the order of their indexes *)
  Lemma sorted_lt_index (l : list kv) : sorted l -> forall i j a b,
    nth_error l i = Some a -> nth_error l j = Some b -> klt a b -> i < j.
  Proof.
    intros Hs i j a b Ha Hb L.
    destruct (Nat.lt_trichotomy i j) as [H|[H|H]]; auto; exfalso.
    - subst. rewrite Ha in Hb. injection Hb as <-. apply (f_lt_irrefl f ok _ L).
    - pose proof (sorted_nth_lt l Hs j i b a H Hb Ha) as L2. apply (f_lt_asym f ok _ _ L L2).
  Qed.

  (* ---- the moves, characterised by order ---- *)

  (* the least element above e sits right after e *)
  Lemma succ_char (l : list kv) i e e' : sorted l -> nth_error l i = Some e -> In e' l -> klt e e' ->
    (forall y, In y l -> klt e y -> f (fst e') (fst y) <> Gt) -> nth_error l (S i) = Some e'.
  Proof.
    intros Hs He Hin L Hmin. apply In_nth_error in Hin as [j Hj].
    pose proof (sorted_lt_index l Hs i j e e' He Hj L) as Hij.
    destruct (Nat.eq_dec j (S i)) as [->|N]; [exact Hj|]. exfalso.
    assert (Hlen : S i < length l). { apply nth_error_Some_lt in Hj. lia. }
    destruct (nth_error l (S i)) as [y|] eqn:Hy; [|apply nth_error_None in Hy; lia].
    assert (L1 : klt e y) by (eapply sorted_nth_lt; [exact Hs| |exact He|exact Hy]; lia).
    assert (L2 : klt y e') by (eapply sorted_nth_lt; [exact Hs| |exact Hy|exact Hj]; lia).
    apply (Hmin y); [eapply nth_error_In; eauto|exact L1|]. apply (f_lt_gt f ok). exact L2.
  Qed.

  Lemma last_char (l : list kv) i e : sorted l -> nth_error l i = Some e ->
    (forall y, In y l -> ~ klt e y) -> S i = length l.
  Proof.
    intros Hs He Hmax. assert (i < length l) by (apply nth_error_Some; congruence).
    destruct (nth_error l (S i)) as [y|] eqn:Hy.
    - exfalso. apply (Hmax y); [eapply nth_error_In; eauto|].
      eapply sorted_nth_lt; [exact Hs| |exact He|exact Hy]. lia.
    - apply nth_error_None in Hy. lia.
  Qed.

  Lemma pred_char (l : list kv) i e e' : sorted l -> nth_error l (S i) = Some e -> In e' l -> klt e' e ->
    (forall y, In y l -> klt y e -> f (fst y) (fst e') <> Gt) -> nth_error l i = Some e'.
  Proof.
    intros Hs He Hin L Hmax. apply In_nth_error in Hin as [j Hj].
    pose proof (sorted_lt_index l Hs j (S i) e' e Hj He L) as Hij.
    destruct (Nat.eq_dec j i) as [->|N]; [exact Hj|]. exfalso.
    destruct (nth_error l i) as [y|] eqn:Hy.
    2:{ apply nth_error_None in Hy. apply nth_error_Some_lt in He. lia. }
    assert (L1 : klt y e) by (eapply sorted_nth_lt; [exact Hs| |exact Hy|exact He]; lia).
    assert (L2 : klt e' y) by (eapply sorted_nth_lt; [exact Hs| |exact Hj|exact Hy]; lia).
    apply (Hmax y); [eapply nth_error_In; eauto|exact L1|]. apply (f_lt_gt f ok). exact L2.
  Qed.

  Lemma first_char_zero (l : list kv) i e : sorted l -> nth_error l i = Some e ->
    (forall y, In y l -> ~ klt y e) -> i = 0.
  Proof.
    intros Hs He Hmin. destruct i as [|i]; auto. exfalso.
    destruct l as [|y l]; [discriminate|].
    apply (Hmin y); [left; reflexivity|].
    apply (sorted_nth_lt (y :: l) Hs 0 (S i) y e); [lia|reflexivity|exact He].
  Qed.

  (* find_ge *)
  Lemma find_ge_spec k (l : list kv) : forall i0,
    match find_ge f k l i0 with
    | At j => exists x, i0 <= j /\ nth_error l (j - i0) = Some x /\ f (fst x) k <> Lt /\
                        forall m y, m < j - i0 -> nth_error l m = Some y -> f (fst y) k = Lt
    | EOI => forall y, In y l -> f (fst y) k = Lt
    | SOI => False
    end.
  Proof.
    induction l as [|x l IH]; intros i0; cbn.
    - intros y [].
    - destruct (f (fst x) k) eqn:E.
      + exists x. replace (i0 - i0) with 0 by lia. repeat split; auto; try congruence. intros; lia.
      + specialize (IH (S i0)). destruct (find_ge f k l (S i0)) as [|j|].
        * exact IH.
        * destruct IH as (y & Hle & Hn & Hge & Hlt). exists y.
          replace (j - i0) with (S (j - S i0)) by lia. cbn. repeat split; auto; try lia.
          intros m z Hm Hz. destruct m as [|m]; cbn in Hz.
          -- injection Hz as <-. exact E.
          -- apply (Hlt m z); auto. lia.
        * intros y [<-|Hy]; auto.
      + exists x. replace (i0 - i0) with 0 by lia. repeat split; auto; try congruence. intros; lia.
  Qed.

  Lemma find_ge_at k (l : list kv) j : find_ge f k l 0 = At j ->
    exists x, nth_error l j = Some x /\ f (fst x) k <> Lt /\
              forall m y, m < j -> nth_error l m = Some y -> f (fst y) k = Lt.
  Proof.
    intros H. pose proof (find_ge_spec k l 0) as Sp. rewrite H in Sp.
    destruct Sp as (x & _ & Hn & Hge & Hlt). rewrite Nat.sub_0_r in *. eauto.
  Qed.

  Lemma find_ge_eoi k (l : list kv) : find_ge f k l 0 = EOI -> forall y, In y l -> f (fst y) k = Lt.
  Proof. intros H. pose proof (find_ge_spec k l 0) as Sp. rewrite H in Sp. exact Sp. Qed.

  Lemma find_ge_not_soi k (l : list kv) i0 : find_ge f k l i0 <> SOI.
  Proof. intros H. pose proof (find_ge_spec k l i0) as Sp. rewrite H in Sp. exact Sp. Qed.

  (* Seek lands on x iff x is the least element with key >= k *)
  Lemma seek_char (l : list kv) k x : sorted l -> In x l -> f (fst x) k <> Lt ->
    (forall y, In y l -> f (fst y) k <> Lt -> f (fst x) (fst y) <> Gt) ->
    exists j, find_ge f k l 0 = At j /\ nth_error l j = Some x.
  Proof.
    intros Hs Hin Hge Hmin.
    destruct (find_ge f k l 0) as [|j|] eqn:E.
    - exfalso. eapply find_ge_not_soi; eauto.
    - exists j. split; auto. apply find_ge_at in E as (z & Hz & Hzge & Hlt).
      apply In_nth_error in Hin as [i Hi].
      destruct (Nat.lt_trichotomy i j) as [H|[H|H]].
      + exfalso. apply Hge. eapply Hlt; eauto.
      + subst. congruence.
      + exfalso. pose proof (sorted_nth_lt l Hs j i z x H Hz Hi) as L.
        apply (Hmin z); [eapply nth_error_In; eauto|exact Hzge|]. apply (f_lt_gt f ok). exact L.
    - exfalso. apply Hge. eapply find_ge_eoi; eauto.
  Qed.

  Lemma find_ge_app_lt k (l1 l2 : list kv) : forall i0, (forall y, In y l1 -> f (fst y) k = Lt) ->
    find_ge f k (l1 ++ l2) i0 = find_ge f k l2 (i0 + length l1).
  Proof.
    induction l1 as [|x l1 IH]; intros i0 H; cbn.
    - rewrite Nat.add_0_r. reflexivity.
    - rewrite (H x (or_introl eq_refl)). rewrite IH by (intros y Hy; apply H; right; exact Hy).
      f_equal. lia.
  Qed.

  Lemma find_ge_head k (x : kv) l i0 : f (fst x) k <> Lt -> find_ge f k (x :: l) i0 = At i0.
  Proof. cbn. destruct (f (fst x) k); congruence. Qed.

  Lemma seek_char_eoi (l : list kv) k : (forall y, In y l -> f (fst y) k = Lt) -> find_ge f k l 0 = EOI.
  Proof.
    intros H. destruct (find_ge f k l 0) as [|j|] eqn:E; auto.
    - exfalso. eapply find_ge_not_soi; eauto.
    - apply find_ge_at in E as (z & Hz & Hzge & _). exfalso. apply Hzge. apply H. eapply nth_error_In; eauto.
  Qed.
End SortedFacts.

(* ---- positions stay inside the list ---- *)
Section PosOk.
  Context {K V : Type} (f : K -> K -> comparison).

  Definition pos_ok (l : list (K * V)) (p : pos) : Prop :=
    match p with At i => i < length l | _ => True end.

  Lemma find_ge_ok k (l : list (K * V)) : forall i0 j, find_ge f k l i0 = At j -> i0 <= j < i0 + length l.
  Proof.
    induction l as [|x l IH]; cbn; intros i0 j H; [discriminate|].
    destruct (f (fst x) k).
    - injection H as <-. lia.
    - apply IH in H. lia.
    - injection H as <-. lia.
  Qed.

  Lemma cstep_ok l p m : pos_ok l p -> pos_ok l (cstep f l p m).
  Proof.
    intros Hp. destruct m; cbn -[Nat.ltb].
    - destruct l; cbn; auto. lia.
    - unfold clast. destruct (length l) eqn:E; cbn; auto. lia.
    - destruct (find_ge f k l 0) eqn:E; cbn; auto. apply find_ge_ok in E. lia.
    - destruct p; cbn -[Nat.ltb]; auto.
      + destruct l; cbn; auto. lia.
      + destruct (Nat.ltb (S i) (length l)) eqn:E; cbn -[Nat.ltb]; auto. apply Nat.ltb_lt in E. exact E.
    - destruct p as [|[|i]|]; cbn in *; auto; try lia.
      unfold clast. destruct (length l) eqn:E; cbn; auto. lia.
  Qed.

  Lemma cobs_some_ok (l : list (K * V)) p x : cobs l p = Some x -> exists i, p = At i /\ nth_error l i = Some x.
  Proof. destruct p; cbn; try discriminate. eauto. Qed.
End PosOk.

Lemma cstep_next_lt {K V} (f : K -> K -> comparison) (l : list (K * V)) i :
  S i < length l -> cstep f l (At i) MNext = At (S i).
Proof. intros H. cbn -[Nat.ltb]. apply Nat.ltb_lt in H. rewrite H. reflexivity. Qed.

Lemma cstep_next_ge {K V} (f : K -> K -> comparison) (l : list (K * V)) i :
  length l <= S i -> cstep f l (At i) MNext = EOI.
Proof. intros H. cbn -[Nat.ltb]. apply Nat.ltb_ge in H. rewrite H. reflexivity. Qed.

(* ---- black boxes ---- *)
Section BlackBoxFacts.
  Context {K V C : Type} (f : K -> K -> comparison) (step : C -> move K -> C) (obs : C -> option (K * V)).

  Lemma refines_from_obs x l p : refines_from f step obs x l p -> obs x = cobs l p.
  Proof. intros H. exact (H []). Qed.

  Lemma refines_from_step x l p m : refines_from f step obs x l p ->
    refines_from f step obs (step x m) l (cstep f l p m).
  Proof. intros H ms. exact (H (m :: ms)). Qed.

  Lemma refines_from_step_obs x l p m : refines_from f step obs x l p ->
    obs (step x m) = cobs l (cstep f l p m).
  Proof. intros H. exact (H [m]). Qed.
End BlackBoxFacts.

Lemma cursor_refines_itself {K V} (f : K -> K -> comparison) (l : list (K * V)) p :
  refines_from f (cur_step f) cur_obs (l, p) l p.
Proof.
  intros ms. revert p. induction ms as [|m ms IH]; intros p; cbn; [reflexivity|].
  apply (IH (cstep f l p m)).
Qed.

(* ---- simulation => equality of all outputs, for every call sequence ---- *)
Section Simulation.
  Context {K V St : Type} (f : K -> K -> comparison).
  Variable mstep : St -> move K -> St * output K V.
  Variable l : list (K * V).
  Variable R : St -> pos -> Prop.
  Hypothesis sim : forall s p m, R s p ->
    R (fst (mstep s m)) (cstep f l p m) /\ snd (mstep s m) = out_of (cobs l (cstep f l p m)).

  Lemma simulation_run_from s p ms : R s p -> run_machine mstep s ms = run_from f l p ms.
  Proof.
    revert s p. induction ms as [|m ms IH]; intros s p HR; cbn; [reflexivity|].
    destruct (sim s p m HR) as [HR' Ho]. destruct (mstep s m) as [s' o]; cbn in *.
    rewrite Ho. f_equal. apply IH. exact HR'.
  Qed.

  Theorem simulation_refines s ms : R s SOI -> run_machine mstep s ms = run_cursor f l ms.
  Proof. apply simulation_run_from. Qed.
End Simulation.

(* outputs of the spec: valid exactly when a pair is shown *)
Lemma run_from_valid_iff {K V} (f : K -> K -> comparison) (l : list (K * V)) p ms :
  Forall (fun o => fst o = is_some (snd o)) (run_from f l p ms).
Proof.
  revert p. induction ms as [|m ms IH]; intros p; cbn; constructor; auto.
Qed.

(* every output of a walk is "not valid, nothing" or a pair of the list, valid iff a pair is shown *)
Lemma run_from_outputs {K V} (f : K -> K -> comparison) (l : list (K * V)) p ms :
  Forall (fun o => fst o = is_some (snd o) /\ forall x, snd o = Some x -> In x l) (run_from f l p ms).
Proof.
  revert p. induction ms as [|m ms IH]; intros p; cbn; constructor; auto.
  split; [reflexivity|]. cbn. intros x H. destruct (cstep f l p m); cbn in H; try discriminate.
  eapply nth_error_In; eauto.
Qed.

Lemma run_cursor_outputs {K V} (f : K -> K -> comparison) (l : list (K * V)) ms :
  Forall (fun o => fst o = is_some (snd o) /\ forall x, snd o = Some x -> In x l) (run_cursor f l ms).
Proof. apply run_from_outputs. Qed.

(* Seek(k) lands on the first key >= k *)
Lemma seek_lands_first_ge {K V} (f : K -> K -> comparison) (ok : ord_ok f) (l : list (K * V)) p k :
  sorted_kv f l ->
  match cobs l (cstep f l p (MSeek k)) with
  | Some x => In x l /\ f (fst x) k <> Lt /\ forall y, In y l -> f (fst y) k <> Lt -> f (fst x) (fst y) <> Gt
  | None => forall y, In y l -> f (fst y) k = Lt
  end.
Proof.
  intros Hs. cbn [cstep]. destruct (find_ge f k l 0) as [|i|] eqn:E.
  - exfalso. eapply find_ge_not_soi; eauto.
  - destruct (find_ge_at f k l i E) as (x & Hx & Hge & Hlt). cbn [cobs]. rewrite Hx.
    split; [eapply nth_error_In; eauto|]. split; [exact Hge|]. intros y Hy Hyge.
    apply In_nth_error in Hy as [j Hj].
    destruct (Nat.lt_trichotomy j i) as [H|[H|H]].
    + exfalso. apply Hyge. eapply Hlt; eauto.
    + subst. assert (y = x) by congruence. subst. rewrite (f_refl f ok). discriminate.
    + pose proof (sorted_nth_lt f l Hs i j x y H Hx Hj) as L. rewrite L. discriminate.
  - cbn [cobs]. apply (find_ge_eoi f k l E).
Qed.

(* ---- a black-box child as a cursor over a split list ---- *)
Section ChildFacts.
  Context {K V C : Type} (f : K -> K -> comparison) (step : C -> move K -> C) (obs : C -> option (K * V)).
  Variable l : list (K * V).
  Notation at_ x q := (refines_from f step obs x l q).

  Lemma nth_error_middle {A} (a : list A) e b : nth_error (a ++ e :: b) (length a) = Some e.
  Proof. rewrite nth_error_app2 by lia. rewrite Nat.sub_diag. reflexivity. Qed.

  Lemma rf_obs_mid x A e B : l = A ++ e :: B -> at_ x (At (length A)) -> obs x = Some e.
  Proof. intros Hl H. rewrite (refines_from_obs f step obs _ _ _ H). cbn. rewrite Hl. apply nth_error_middle. Qed.

  Lemma rf_none x q : at_ x q -> q = SOI \/ q = EOI -> obs x = None.
  Proof. intros H [-> | ->]; rewrite (refines_from_obs f step obs _ _ _ H); reflexivity. Qed.

  Lemma rf_next_some x A e e' B : l = A ++ e :: e' :: B -> at_ x (At (length A)) ->
    at_ (step x MNext) (At (S (length A))).
  Proof.
    intros Hl H. pose proof (refines_from_step f step obs _ _ _ MNext H) as H'.
    rewrite cstep_next_lt in H' by (rewrite Hl, app_length; cbn; lia). exact H'.
  Qed.

  Lemma rf_next_none x A e : l = A ++ [e] -> at_ x (At (length A)) -> at_ (step x MNext) EOI.
  Proof.
    intros Hl H. pose proof (refines_from_step f step obs _ _ _ MNext H) as H'.
    rewrite cstep_next_ge in H' by (rewrite Hl, app_length; cbn; lia). exact H'.
  Qed.

  Lemma rf_prev_some x i : at_ x (At (S i)) -> at_ (step x MPrev) (At i).
  Proof. intros H. exact (refines_from_step f step obs _ _ _ MPrev H). Qed.

  Lemma rf_prev_none x : at_ x (At 0) -> at_ (step x MPrev) SOI.
  Proof. intros H. exact (refines_from_step f step obs _ _ _ MPrev H). Qed.
End ChildFacts.

Lemma find_ge_shift {K V} (f : K -> K -> comparison) k (l : list (K * V)) : forall i0,
  find_ge f k l i0 = match find_ge f k l 0 with At j => At (i0 + j) | q => q end.
Proof.
  induction l as [|x l IH]; intros i0; cbn; [reflexivity|].
  destruct (f (fst x) k); try (rewrite Nat.add_0_r; reflexivity).
  rewrite (IH (S i0)), (IH 1). destruct (find_ge f k l 0); auto. f_equal. lia.
Qed.

Lemma find_ge_app_found {K V} (f : K -> K -> comparison) k (l1 l2 : list (K * V)) : forall i0 j,
  find_ge f k l1 i0 = At j -> find_ge f k (l1 ++ l2) i0 = At j.
Proof.
  induction l1 as [|x l1 IH]; intros i0 j; cbn; [discriminate|].
  destruct (f (fst x) k); auto.
Qed.
