(* Iter/LiveProofs.v — facts about the SPEC list live_pairs (Iter/DBIter.v): decomposition over
   splits of the entry list, keys strictly increasing, declarative characterisation of membership
   (the newest visible entry of the user key is a value), range restriction. *)
From GL Require Import Base.Order Base.OrderProofs Codec.IKey Codec.IKeyProofs Iter.Cursor Iter.CursorProofs Iter.DBIter.
From Coq Require Import Lia Arith.
Close Scope N_scope.

Section Live.
  Variable c : comparer.
  Hypothesis ok : comparer_ok c.
  Variable p : kparams.
  Variable s : N.

  Notation ukey e := (uk (fst e)).
  Notation vis := (visible s).
  Notation isval := (is_val p).
  Notation lf := (live_from c p s).
  Notation esorted := (sorted_kv (icmp c)).

  Lemma cmp_ord_ok : ord_ok (cmp c).
  Proof. constructor; [apply (cmp_eq c ok)|apply (cmp_opp c ok)|apply (cmp_trans c ok)]. Qed.

  Lemma icmp_ord_ok : ord_ok (icmp c).
  Proof. constructor; [apply (icmp_eq c ok)|apply (icmp_opp c ok)|apply (icmp_trans c ok)]. Qed.

  Lemma icmp_lt_ukey_le a b : icmp c a b = Lt -> cmp c (uk a) (uk b) <> Gt.
  Proof. unfold icmp. destruct (cmp c (uk a) (uk b)); congruence. Qed.

  (* entries of a sorted list: earlier entries have user keys <= later ones *)
  Lemma esorted_cons_ukey (e : entry) l : esorted (e :: l) -> forall x, In x l -> cmp c (ukey e) (ukey x) <> Gt.
  Proof.
    intros H x Hx. apply (sorted_cons_inv (icmp c)) in H as [_ F].
    rewrite Forall_forall in F. apply icmp_lt_ukey_le. apply F. exact Hx.
  Qed.

  Lemma esorted_app_ukey (l1 l2 : list entry) : esorted (l1 ++ l2) ->
    forall a b, In a l1 -> In b l2 -> cmp c (ukey a) (ukey b) <> Gt.
  Proof.
    intros H a b Ha Hb. apply (sorted_app_inv (icmp c)) in H as (_ & _ & H).
    apply icmp_lt_ukey_le. apply H; assumption.
  Qed.

  Lemma same_ukey_true sk u : same_ukey c sk u = true <-> sk = Some u.
  Proof.
    unfold same_ukey. destruct sk as [k|]; [|split; discriminate].
    destruct (cmp c u k) eqn:E.
    - split; [intros _; apply (cmp_eq c ok) in E; congruence|reflexivity].
    - split; [discriminate|]. intros H. injection H as H. subst k. rewrite (cmp_refl c ok) in E. discriminate.
    - split; [discriminate|]. intros H. injection H as H. subst k. rewrite (cmp_refl c ok) in E. discriminate.
  Qed.

  Lemma same_ukey_false sk u : same_ukey c sk u = false <-> sk <> Some u.
  Proof.
    rewrite <- same_ukey_true. destruct (same_ukey c sk u); split; congruence.
  Qed.

  (* the scan state after a prefix: user key of the last visible entry *)
  Definition skip_after (sk : option bytes) (l : list entry) : option bytes :=
    fold_left (fun sk e => if vis e then Some (ukey e) else sk) l sk.

  Lemma skip_after_app sk l1 l2 : skip_after sk (l1 ++ l2) = skip_after (skip_after sk l1) l2.
  Proof. apply fold_left_app. Qed.

  Lemma skip_after_cases sk l : skip_after sk l = sk \/ exists x, In x l /\ vis x = true /\ skip_after sk l = Some (ukey x).
  Proof.
    revert sk. induction l as [|e l IH]; intros sk; cbn; [left; reflexivity|].
    destruct (vis e) eqn:Ev.
    - destruct (IH (Some (ukey e))) as [H|(x & Hx & Hv & H)].
      + right. exists e. split; [left; reflexivity|]. split; assumption.
      + right. exists x. split; [right; assumption|]. split; assumption.
    - destruct (IH sk) as [H|(x & Hx & Hv & H)]; [left; assumption|].
      right. exists x. split; [right; assumption|]. split; assumption.
  Qed.

  Lemma live_app sk l1 l2 : lf sk (l1 ++ l2) = lf sk l1 ++ lf (skip_after sk l1) l2.
  Proof.
    revert sk. induction l1 as [|e l1 IH]; intros sk; cbn; [reflexivity|].
    destruct (vis e) eqn:Ev.
    - destruct (same_ukey c sk (ukey e)) eqn:Es.
      + apply same_ukey_true in Es. rewrite <- Es. apply IH.
      + destruct (isval e); cbn; rewrite IH; reflexivity.
    - apply IH.
  Qed.

  (* two scan states that treat every visible entry of l alike give the same list *)
  Lemma live_indep sk sk' l :
    (forall e, In e l -> vis e = true -> same_ukey c sk (ukey e) = same_ukey c sk' (ukey e)) ->
    lf sk l = lf sk' l.
  Proof.
    revert sk sk'. induction l as [|e l IH]; intros sk sk' H; cbn; [reflexivity|].
    destruct (vis e) eqn:Ev.
    - rewrite <- (H e (or_introl eq_refl) Ev).
      destruct (same_ukey c sk (ukey e)) eqn:Es.
      + apply IH. intros x Hx Hv. apply H; [right; assumption|assumption].
      + reflexivity.
    - apply IH. intros x Hx Hv. apply H; [right; assumption|assumption].
  Qed.

  (* a split between different visible user keys splits the scan *)
  Lemma lf_split l1 l2 :
    (forall x y, In x l1 -> In y l2 -> vis x = true -> vis y = true -> cmp c (ukey x) (ukey y) = Lt) ->
    lf None (l1 ++ l2) = lf None l1 ++ lf None l2.
  Proof.
    intros H. rewrite live_app. f_equal. apply live_indep. intros e He Hv. cbn.
    destruct (skip_after_cases None l1) as [->|(x & Hx & Hvx & ->)]; [reflexivity|].
    apply same_ukey_false. intros E. injection E as E.
    specialize (H x e Hx He Hvx Hv). rewrite E, (cmp_refl c ok) in H. discriminate.
  Qed.

  Lemma live_invisible sk l : (forall e, In e l -> vis e = false) -> lf sk l = [].
  Proof.
    revert sk. induction l as [|e l IH]; intros sk H; cbn; [reflexivity|].
    rewrite (H e (or_introl eq_refl)). apply IH. intros x Hx. apply H. right. exact Hx.
  Qed.

  Lemma skip_after_invisible sk l : (forall e, In e l -> vis e = false) -> skip_after sk l = sk.
  Proof.
    revert sk. induction l as [|e l IH]; intros sk H; cbn; [reflexivity|].
    rewrite (H e (or_introl eq_refl)). apply IH. intros x Hx. apply H. right. exact Hx.
  Qed.

  (* every pair comes from a visible value entry *)
  Lemma live_in sk l k v : In (k, v) (lf sk l) ->
    exists e, In e l /\ vis e = true /\ isval e = true /\ k = ukey e /\ v = snd e.
  Proof.
    revert sk. induction l as [|e l IH]; intros sk; cbn; [intros []|].
    destruct (vis e) eqn:Ev.
    - destruct (same_ukey c sk (ukey e)).
      + intros H. destruct (IH _ H) as (x & Hx & R). exists x. split; [right; assumption|assumption].
      + destruct (isval e) eqn:Evl.
        * intros [H|H].
          -- injection H as <- <-. exists e. split; [left; reflexivity|]. repeat split; auto.
          -- destruct (IH _ H) as (x & Hx & R). exists x. split; [right; assumption|assumption].
        * intros H. destruct (IH _ H) as (x & Hx & R). exists x. split; [right; assumption|assumption].
    - intros H. destruct (IH _ H) as (x & Hx & R). exists x. split; [right; assumption|assumption].
  Qed.

  (* a scan started "inside" user key u differs from a fresh one by at most the head pair *)
  Lemma live_prefix sk l : exists pre, lf None l = pre ++ lf sk l /\ length pre <= 1.
  Proof.
    revert sk. induction l as [|e l IH]; intros sk; cbn.
    - exists []. split; [reflexivity|cbn; lia].
    - destruct (vis e) eqn:Ev.
      + destruct (same_ukey c sk (ukey e)) eqn:Es.
        * apply same_ukey_true in Es. subst sk.
          destruct (isval e).
          -- exists [(ukey e, snd e)]. split; [reflexivity|cbn; lia].
          -- exists []. split; [reflexivity|cbn; lia].
        * exists []. split; [reflexivity|cbn; lia].
      + apply IH.
  Qed.

  (* lower bound of a scan state: every visible entry has user key >= the state's key *)
  Definition lower_ok (sk : option bytes) (l : list entry) : Prop :=
    forall k, sk = Some k -> forall e, In e l -> vis e = true -> cmp c (ukey e) k <> Lt.

  Lemma lower_ok_tail sk e l : lower_ok sk (e :: l) -> lower_ok sk l.
  Proof. intros H k Hk x Hx. apply (H k Hk). right. exact Hx. Qed.

  Lemma lower_ok_sorted e l : esorted (e :: l) -> lower_ok (Some (ukey e)) l.
  Proof.
    intros Hs k Hk x Hx _. injection Hk as <-.
    apply (f_not_lt_le (cmp c) cmp_ord_ok). apply (esorted_cons_ukey e l Hs x Hx).
  Qed.

  (* keys produced by a scan started at state (Some u) are strictly greater than u *)
  Lemma live_keys_gt l : forall u, esorted l -> lower_ok (Some u) l ->
    forall k v, In (k, v) (lf (Some u) l) -> cmp c u k = Lt.
  Proof.
    induction l as [|e l IH]; intros u Hs Hl k v; cbn; [intros []|].
    pose proof (sorted_cons_inv (icmp c) e l Hs) as [Hs' _].
    destruct (vis e) eqn:Ev.
    - assert (Hge : cmp c (ukey e) u <> Lt) by (apply (Hl u eq_refl e (or_introl eq_refl) Ev)).
      destruct (match cmp c (ukey e) u with Eq => true | _ => false end) eqn:Es.
      + apply IH; auto. eapply lower_ok_tail; eauto.
      + assert (Hgt : cmp c u (ukey e) = Lt).
        { destruct (f_ge_cases (cmp c) cmp_ord_ok _ _ Hge) as [E|E]; auto.
          rewrite E, (cmp_refl c ok) in Es. discriminate. }
        assert (Hrec : forall k v, In (k, v) (lf (Some (ukey e)) l) -> cmp c u k = Lt).
        { intros k' v' H. eapply (cmp_trans c ok); [exact Hgt|].
          eapply IH; eauto. apply lower_ok_sorted. exact Hs. }
        destruct (isval e).
        * intros [H|H]; [injection H as <- <-; exact Hgt|eapply Hrec; eauto].
        * intros H. eapply Hrec; eauto.
    - apply IH; auto. eapply lower_ok_tail; eauto.
  Qed.

  (* keys strictly increasing *)
  Lemma live_sorted l : forall sk, esorted l -> lower_ok sk l -> sorted_kv (cmp c) (lf sk l).
  Proof.
    induction l as [|e l IH]; intros sk Hs Hl; cbn; [constructor|].
    pose proof (sorted_cons_inv (icmp c) e l Hs) as [Hs' _].
    destruct (vis e) eqn:Ev.
    - destruct (same_ukey c sk (ukey e)) eqn:Es.
      + apply IH; auto. intros k Hk x Hx. apply (Hl k Hk). right; exact Hx.
      + destruct (isval e).
        * constructor; [apply IH; auto; apply lower_ok_sorted; exact Hs|].
          rewrite Forall_forall. intros [k v] H. unfold kv_lt; cbn.
          eapply live_keys_gt; eauto. apply lower_ok_sorted; exact Hs.
        * apply IH; auto. apply lower_ok_sorted; exact Hs.
    - apply IH; auto. intros k Hk x Hx. apply (Hl k Hk). right; exact Hx.
  Qed.

  Lemma lower_ok_none l : lower_ok None l.
  Proof. intros k Hk. discriminate. Qed.

  Theorem live_pairs_sorted l : esorted l -> sorted_kv (cmp c) (live_pairs c p s l).
  Proof. intros H. apply live_sorted; [exact H|apply lower_ok_none]. Qed.

  (* all keys of a scan are user keys >= the first entry's *)
  Lemma live_keys_ge_head sk e l k v : esorted (e :: l) -> In (k, v) (lf sk (e :: l)) -> cmp c (ukey e) k <> Gt.
  Proof.
    intros Hs H. apply live_in in H as (x & [<-|Hx] & _ & _ & -> & _).
    - rewrite (cmp_refl c ok). discriminate.
    - apply (esorted_cons_ukey e l Hs x Hx).
  Qed.

  (* ---- declarative characterisation ---- *)
  Notation newest := (newest_visible c s).

  Lemma find_none_intro {A} (f : A -> bool) l : (forall x, In x l -> f x = false) -> find f l = None.
  Proof.
    induction l as [|x l IH]; cbn; intros H; [reflexivity|].
    rewrite (H x (or_introl eq_refl)). apply IH. intros y Hy. apply H. right. exact Hy.
  Qed.

  Lemma find_app_none {A} (f : A -> bool) l1 l2 : find f l1 = None -> find f (l1 ++ l2) = find f l2.
  Proof. induction l1 as [|x l1 IH]; cbn; auto. destruct (f x); [discriminate|auto]. Qed.

  (* pairs of a scan in state sk: the user keys other than sk's whose newest visible entry is a value *)
  Lemma live_from_spec l : forall sk, esorted l -> lower_ok sk l -> forall u v,
    In (u, v) (lf sk l) <->
    (sk <> Some u /\ exists e, newest l u = Some e /\ isval e = true /\ v = snd e).
  Proof.
    induction l as [|e l IH]; intros sk Hs Hl u v; cbn.
    - split; [intros []|]. intros (_ & e & H & _). discriminate.
    - pose proof (sorted_cons_inv (icmp c) e l Hs) as [Hs' _].
      assert (Hl' : lower_ok sk l) by (eapply lower_ok_tail; eauto).
      assert (Hle : lower_ok (Some (ukey e)) l) by (apply lower_ok_sorted; exact Hs).
      destruct (vis e) eqn:Ev; cbn.
      + destruct (cmp c (ukey e) u) eqn:Eu.
        * (* e is the newest visible entry of u *)
          apply (cmp_eq c ok) in Eu. subst u.
          destruct (same_ukey c sk (ukey e)) eqn:Es.
          -- apply same_ukey_true in Es. rewrite IH by auto. split; [intros [H _]; congruence|intros [H _]; congruence].
          -- apply same_ukey_false in Es.
             assert (Hno : forall v', ~ In (ukey e, v') (lf (Some (ukey e)) l)).
             { intros v' H. apply (live_keys_gt l (ukey e) Hs' Hle) in H. rewrite (cmp_refl c ok) in H. discriminate. }
             destruct (isval e) eqn:Evl.
             ++ split.
                ** intros [H|H]; [injection H as <-|exfalso; eapply Hno; eauto].
                   split; [exact Es|]. exists e. auto.
                ** intros (_ & x & Hx & _ & ->). injection Hx as <-. left. reflexivity.
             ++ split; [intros H; exfalso; eapply Hno; eauto|].
                intros (_ & x & Hx & Hv & _). injection Hx as <-. congruence.
        * (* ukey e < u: e does not matter for u *)
          assert (Hne : Some (ukey e) <> Some u).
          { intros H. injection H as H. rewrite H, (cmp_refl c ok) in Eu. discriminate. }
          destruct (same_ukey c sk (ukey e)) eqn:Es.
          -- apply same_ukey_true in Es. rewrite IH by auto. subst sk. tauto.
          -- assert (Hsk : sk <> Some u).
             { intros ->. specialize (Hl u eq_refl e (or_introl eq_refl) Ev). congruence. }
             destruct (isval e).
             ++ cbn. rewrite IH by auto. split.
                ** intros [H|H]; [injection H as H _; rewrite H, (cmp_refl c ok) in Eu; discriminate|].
                   split; [exact Hsk|tauto].
                ** intros [_ H]. right. split; [exact Hne|exact H].
             ++ rewrite IH by auto. split; [intros [_ H]; split; [exact Hsk|exact H]|intros [_ H]; split; [exact Hne|exact H]].
        * (* ukey e > u: u has no entry at all from here on *)
          assert (Hnone : newest l u = None).
          { unfold newest_visible. apply find_none_intro. intros x Hx.
            pose proof (esorted_cons_ukey e l Hs x Hx) as Hex.
            destruct (cmp c (ukey x) u) eqn:Exu; try (rewrite andb_false_r; reflexivity).
            apply (cmp_eq c ok) in Exu. subst u. congruence. }
          unfold newest_visible in Hnone. rewrite Hnone.
          assert (Hnot : forall sk', lower_ok sk' (e :: l) -> ~ In (u, v) (lf sk' (e :: l))).
          { intros sk' _ H. apply (live_keys_ge_head sk' e l u v Hs) in H.
            apply (cmp_gt_lt c ok) in Eu. apply (cmp_lt_gt c ok) in Eu. congruence. }
          specialize (Hnot sk Hl). cbn in Hnot. rewrite Ev in Hnot.
          split; [intros H; exfalso; apply Hnot; exact H|]. intros (_ & x & Hx & _). discriminate.
      + rewrite IH by auto. reflexivity.
  Qed.

  (* (u, v) is live iff the newest entry of u with seq <= s is a value carrying v *)
  Theorem live_pairs_spec l : esorted l -> forall u v,
    In (u, v) (live_pairs c p s l) <-> exists e, newest l u = Some e /\ isval e = true /\ v = snd e.
  Proof.
    intros Hs u v. unfold live_pairs. rewrite (live_from_spec l None Hs (lower_ok_none l)).
    split; [intros [_ H]; exact H|intros H; split; [discriminate|exact H]].
  Qed.
End Live.
