(* Iter/Cursor.v — the reference cursor over a sorted list of (key, value) pairs: the SPEC of every
   goleveldb iterator (iterator.Iterator: First / Last / Seek / Next / Prev, Valid / Key / Value), i.e.
   the cursor of testutil.IteratorTesting made explicit.  Also: the five movement calls, outputs, the
   generic "black-box child iterator" interface the model machines of Iter/*.v are parameterised by.
   Model file: definitions only (proofs in CursorProofs.v). *)
From Coq Require Export List NArith Bool Sorted.
Export ListNotations.

(* what an order function must satisfy (instances: [cmp c] for a lawful comparer, [icmp c]) *)
Record ord_ok {K : Type} (f : K -> K -> comparison) : Prop := {
  o_eq    : forall a b, f a b = Eq <-> a = b;
  o_opp   : forall a b, f b a = CompOpp (f a b);
  o_trans : forall a b d, f a b = Lt -> f b d = Lt -> f a d = Lt
}.

Inductive move (K : Type) := MFirst | MLast | MSeek (k : K) | MNext | MPrev.
Arguments MFirst {K}. Arguments MLast {K}. Arguments MSeek {K} k. Arguments MNext {K}. Arguments MPrev {K}.

(* cursor positions: before the first pair, on pair number i, after the last pair *)
Inductive pos := SOI | At (i : nat) | EOI.

(* what a caller observes after a movement call: the returned bool and (Key(), Value()) —
   None stands for the nil slices returned when the iterator is not on a pair *)
Definition output (K V : Type) := (bool * option (K * V))%type.

Definition is_some {A} (o : option A) : bool := match o with Some _ => true | None => false end.
Definition out_of {K V} (o : option (K * V)) : output K V := (is_some o, o).

Section Cursor.
  Variables K V : Type.
  Variable kcmp : K -> K -> comparison.
  Notation kv := (K * V)%type.

  (* strictly increasing keys *)
  Definition kv_lt (a b : kv) : Prop := kcmp (fst a) (fst b) = Lt.
  Definition sorted_kv (l : list kv) : Prop := StronglySorted kv_lt l.

  (* index of the first pair whose key is >= k *)
  Fixpoint find_ge (k : K) (l : list kv) (i : nat) : pos :=
    match l with
    | [] => EOI
    | x :: r => match kcmp (fst x) k with
                | Lt => find_ge k r (S i)
                | _ => At i
                end
    end.

  Definition cfirst (l : list kv) : pos := match l with [] => EOI | _ => At 0 end.
  Definition clast (l : list kv) : pos := match length l with O => SOI | S n => At n end.

  Definition cstep (l : list kv) (p : pos) (m : move K) : pos :=
    match m with
    | MFirst => cfirst l
    | MLast => clast l
    | MSeek k => find_ge k l 0
    | MNext => match p with
               | SOI => cfirst l
               | At i => if Nat.ltb (S i) (length l) then At (S i) else EOI
               | EOI => EOI
               end
    | MPrev => match p with
               | EOI => clast l
               | At (S i) => At i
               | At O => SOI
               | SOI => SOI
               end
    end.

  (* the pair under the cursor *)
  Definition cobs (l : list kv) (p : pos) : option kv :=
    match p with At i => nth_error l i | _ => None end.

  Definition crun (l : list kv) (p : pos) (ms : list (move K)) : pos := fold_left (cstep l) ms p.

  Fixpoint run_from (l : list kv) (p : pos) (ms : list (move K)) : list (output K V) :=
    match ms with
    | [] => []
    | m :: r => let p' := cstep l p m in out_of (cobs l p') :: run_from l p' r
    end.

  (* THE SPEC: outputs of any sequence of calls on a fresh iterator over l *)
  Definition run_cursor (l : list kv) (ms : list (move K)) : list (output K V) := run_from l SOI ms.
End Cursor.

Arguments kv_lt {K V}. Arguments sorted_kv {K V}. Arguments find_ge {K V}. Arguments cfirst {K V}.
Arguments clast {K V}. Arguments cstep {K V}. Arguments cobs {K V}. Arguments crun {K V}.
Arguments run_from {K V}. Arguments run_cursor {K V}.

(* ---- black-box iterators ----
   A child iterator of a model machine is an arbitrary deterministic object: a state type C, a
   transition for each movement call and an observation (Valid/Key/Value: Some = valid, on that
   pair).  The bool a movement call returns is [is_some] of the observation afterwards (true of
   every goleveldb iterator in the absence of errors).  [refines_from] says the object behaves
   like the cursor over l started at position p, for every continuation. *)
Section BlackBox.
  Variables K V C : Type.
  Variable kcmp : K -> K -> comparison.
  Variable step : C -> move K -> C.
  Variable obs : C -> option (K * V).

  Definition bb_run (x : C) (ms : list (move K)) : C := fold_left step ms x.

  Definition refines_from (x : C) (l : list (K * V)) (p : pos) : Prop :=
    forall ms, obs (bb_run x ms) = cobs l (crun kcmp l p ms).

  (* a fresh iterator over l *)
  Definition refines (x : C) (l : list (K * V)) : Prop := refines_from x l SOI.
End BlackBox.

Arguments bb_run {K C}. Arguments refines_from {K V C}. Arguments refines {K V C}.

(* the cursor itself as a black box: state = (list, position) *)
Definition cur_step {K V} (kcmp : K -> K -> comparison) (x : list (K * V) * pos) (m : move K) :=
  (fst x, cstep kcmp (fst x) (snd x) m).
Definition cur_obs {K V} (x : list (K * V) * pos) : option (K * V) := cobs (fst x) (snd x).

(* running a machine  step : S -> move -> S * output  over a call sequence *)
Fixpoint run_machine {K V S} (step : S -> move K -> S * output K V) (s : S) (ms : list (move K))
  : list (output K V) :=
  match ms with
  | [] => []
  | m :: r => let (s', o) := step s m in o :: run_machine step s' r
  end.

(* the direction states shared by mergedIterator and dbIter (dirReleased is not modelled:
   released iterators are outside the property) *)
Inductive dir := DirSOI | DirEOI | DirBackward | DirForward.
