(* Iter/DBIterCong.v — dbIter (Iter/DBIter.v) is parametric in its raw iterator (proof file): two raw
   iterators that show the same thing after every sequence of the calls dbIter can issue (First, Last,
   Next, Prev, and Seek with a key taken from a class P) drive dbIter to the same outputs, the same
   panics and the same fuel exhaustion, for every call sequence whose Seek keys produce probes in P.
   Used at the boundary between encoded and parsed internal keys (Lsm/IterPathProofs.v): P = the keys
   whose encoding parses back. *)
From GL Require Import Base.Order Codec.IKey Iter.Cursor Iter.CursorProofs Iter.DBIter.
From Coq Require Import Lia.
Close Scope N_scope.

Section One.
  Variable c : comparer.
  Variable p : kparams.
  Variable C : Type.
  Variable chstep : C -> move ikey -> C.
  Variable chobs : C -> option entry.
  Variable seq : N.
  Variable strict : bool.

  Notation st := (dbstate C).
  Notation next_loop := (next_loop c p C chstep chobs seq strict).
  Notation prev_loop := (prev_loop c p C chstep chobs seq strict).
  Notation prev_ := (prev_ c p C chstep chobs seq strict).
  Notation rewind := (rewind c p C chstep chobs seq strict).
  Notation parse_cur := (parse_cur p C chobs).

  Definition adv_ (f : nat) (s : st) : res C :=
    let ch' := chstep (d_child s) MNext in
    if is_some (chobs ch') then next_loop f (set_child C s ch')
    else Ok (set_dir C (set_child C s ch') DirEOI) false.

  Lemma next_unfold f s : next_loop (S f) s =
    match parse_cur (d_child s) with
    | Some (ukey, seq', kt, v) =>
        if (seq' <=? seq)%N then
          if (kt =? keyTypeDel p)%N then adv_ f (set_dir C (set_key C s ukey) DirForward)
          else if (kt =? keyTypeVal p)%N then
            if is_dir_soi (d_dir s) || is_gt (cmp c ukey (d_key s)) then
              Ok (set_dir C (set_kv C s ukey v) DirForward) true
            else adv_ f s
          else adv_ f s
        else adv_ f s
    | None => if strict then Ok (set_err C s) false else adv_ f s
    end.
  Proof. reflexivity. Qed.

  Definition back_ (f : nat) (s : st) (del : bool) : res C :=
    let ch' := chstep (d_child s) MPrev in
    if is_some (chobs ch') then prev_loop f (set_child C s ch') del
    else prev_finish C (set_child C s ch') del.

  Lemma prev_unfold f s del : prev_loop (S f) s del =
    match parse_cur (d_child s) with
    | Some (ukey, seq', kt, v) =>
        if (seq' <=? seq)%N then
          if negb del && is_lt (cmp c ukey (d_key s)) then Ok s true
          else
            let del' := (kt =? keyTypeDel p)%N in
            back_ f (if del' then s else set_kv C s ukey v) del'
        else back_ f s del
    | None => if strict then Ok (set_err C s) false else back_ f s del
    end.
  Proof. reflexivity. Qed.

  Lemma rewind_unfold' f s : rewind (S f) s =
    let ch' := chstep (d_child s) MPrev in
    let s' := set_child C s ch' in
    if is_some (chobs ch') then
      match parse_cur ch' with
      | Some (ukey, _, _, _) => if is_lt (cmp c ukey (d_key s)) then prev_ (S f) s' else rewind f s'
      | None => if strict then Ok (set_err C s') false else rewind f s'
      end
    else Ok (set_dir C s' DirSOI) false.
  Proof. reflexivity. Qed.
End One.

Section Cong.
  Variable c : comparer.
  Variable p : kparams.
  Variables C1 C2 : Type.
  Variable step1 : C1 -> move ikey -> C1.
  Variable obs1 : C1 -> option entry.
  Variable step2 : C2 -> move ikey -> C2.
  Variable obs2 : C2 -> option entry.
  Variable seq : N.
  Variable strict : bool.
  Variable P : ikey -> Prop.

  Definition move_in (m : move ikey) : Prop := match m with MSeek k => P k | _ => True end.

  (* the two raw iterators are indistinguishable by calls in the class *)
  Definition sim (x1 : C1) (x2 : C2) : Prop :=
    forall ms, Forall move_in ms -> obs1 (bb_run step1 x1 ms) = obs2 (bb_run step2 x2 ms).

  Lemma sim_obs x1 x2 : sim x1 x2 -> obs1 x1 = obs2 x2.
  Proof. intros H. exact (H [] (Forall_nil _)). Qed.

  Lemma sim_step x1 x2 m : sim x1 x2 -> move_in m -> sim (step1 x1 m) (step2 x2 m).
  Proof. intros H Hm ms Hms. exact (H (m :: ms) (Forall_cons _ Hm Hms)). Qed.

  Definition srel (s1 : dbstate C1) (s2 : dbstate C2) : Prop :=
    sim (d_child s1) (d_child s2) /\ d_dir s1 = d_dir s2 /\ d_key s1 = d_key s2 /\
    d_value s1 = d_value s2 /\ d_err s1 = d_err s2.

  Definition rrel (r1 : res C1) (r2 : res C2) : Prop :=
    match r1, r2 with
    | Ok s1 b1, Ok s2 b2 => srel s1 s2 /\ b1 = b2
    | OutOfFuel, OutOfFuel => True
    | Panic, Panic => True
    | _, _ => False
    end.

  Ltac srel_tac := unfold srel, set_child, set_dir, set_key, set_kv, set_err in *;
    cbn [d_child d_dir d_key d_value d_err] in *; intuition congruence.

  Lemma srel_child s1 s2 x1 x2 : srel s1 s2 -> sim x1 x2 -> srel (set_child C1 s1 x1) (set_child C2 s2 x2).
  Proof. intros; srel_tac. Qed.
  Lemma srel_dir s1 s2 d : srel s1 s2 -> srel (set_dir C1 s1 d) (set_dir C2 s2 d).
  Proof. intros; srel_tac. Qed.
  Lemma srel_key s1 s2 k : srel s1 s2 -> srel (set_key C1 s1 k) (set_key C2 s2 k).
  Proof. intros; srel_tac. Qed.
  Lemma srel_kv s1 s2 k v : srel s1 s2 -> srel (set_kv C1 s1 k v) (set_kv C2 s2 k v).
  Proof. intros; srel_tac. Qed.
  Lemma srel_err s1 s2 : srel s1 s2 -> srel (set_err C1 s1) (set_err C2 s2).
  Proof. intros; srel_tac. Qed.

  Lemma parse_cong x1 x2 : sim x1 x2 -> parse_cur p C1 obs1 x1 = parse_cur p C2 obs2 x2.
  Proof. intros H. unfold parse_cur. rewrite (sim_obs _ _ H). reflexivity. Qed.

  Notation NL1 := (next_loop c p C1 step1 obs1 seq strict).
  Notation NL2 := (next_loop c p C2 step2 obs2 seq strict).
  Notation PL1 := (prev_loop c p C1 step1 obs1 seq strict).
  Notation PL2 := (prev_loop c p C2 step2 obs2 seq strict).

  Lemma next_cong : forall f s1 s2, srel s1 s2 -> rrel (NL1 f s1) (NL2 f s2).
  Proof.
    induction f as [|f IH]; intros s1 s2 H; [exact I|].
    assert (A : forall t1 t2, srel t1 t2 ->
              rrel (adv_ c p C1 step1 obs1 seq strict f t1) (adv_ c p C2 step2 obs2 seq strict f t2)).
    { intros t1 t2 Ht. unfold adv_. cbv zeta.
      assert (Hs : sim (step1 (d_child t1) MNext) (step2 (d_child t2) MNext)) by (apply sim_step; [apply Ht|exact I]).
      rewrite (sim_obs _ _ Hs). destruct (is_some (obs2 (step2 (d_child t2) MNext))).
      - apply IH. apply srel_child; assumption.
      - split; [|reflexivity]. apply srel_dir. apply srel_child; assumption. }
    rewrite !next_unfold. rewrite (parse_cong _ _ (proj1 H)).
    destruct (parse_cur p C2 obs2 (d_child s2)) as [[[[ukey seq'] kt] v]|].
    - destruct (seq' <=? seq)%N; [|apply A; exact H].
      destruct (kt =? keyTypeDel p)%N; [apply A; apply srel_dir; apply srel_key; exact H|].
      destruct (kt =? keyTypeVal p)%N; [|apply A; exact H].
      destruct H as (H1 & H2 & H3 & H4 & H5). rewrite H2, H3.
      destruct (is_dir_soi (d_dir s2) || is_gt (cmp c ukey (d_key s2))).
      + split; [|reflexivity]. apply srel_dir. apply srel_kv. repeat split; assumption.
      + apply A. repeat split; assumption.
    - destruct strict; [split; [apply srel_err; exact H|reflexivity]|apply A; exact H].
  Qed.

  Lemma finish_cong s1 s2 del : srel s1 s2 -> rrel (prev_finish C1 s1 del) (prev_finish C2 s2 del).
  Proof.
    intros H. unfold prev_finish. destruct del; (split; [|reflexivity]); [apply srel_dir|]; exact H.
  Qed.

  Lemma prevl_cong : forall f s1 s2 del, srel s1 s2 -> rrel (PL1 f s1 del) (PL2 f s2 del).
  Proof.
    induction f as [|f IH]; intros s1 s2 del H; [exact I|].
    assert (B : forall t1 t2 dl, srel t1 t2 ->
              rrel (back_ c p C1 step1 obs1 seq strict f t1 dl) (back_ c p C2 step2 obs2 seq strict f t2 dl)).
    { intros t1 t2 dl Ht. unfold back_. cbv zeta.
      assert (Hs : sim (step1 (d_child t1) MPrev) (step2 (d_child t2) MPrev)) by (apply sim_step; [apply Ht|exact I]).
      rewrite (sim_obs _ _ Hs). destruct (is_some (obs2 (step2 (d_child t2) MPrev))).
      - apply IH. apply srel_child; assumption.
      - apply finish_cong. apply srel_child; assumption. }
    rewrite !prev_unfold. rewrite (parse_cong _ _ (proj1 H)).
    destruct (parse_cur p C2 obs2 (d_child s2)) as [[[[ukey seq'] kt] v]|].
    - destruct (seq' <=? seq)%N; [|apply B; exact H].
      assert (Ek : d_key s1 = d_key s2) by apply H. rewrite Ek.
      destruct (negb del && is_lt (cmp c ukey (d_key s2))); [split; [exact H|reflexivity]|].
      cbv zeta. destruct (kt =? keyTypeDel p)%N; apply B; [exact H|apply srel_kv; exact H].
    - destruct strict; [split; [apply srel_err; exact H|reflexivity]|apply B; exact H].
  Qed.

  Lemma prev__cong f s1 s2 : srel s1 s2 ->
    rrel (prev_ c p C1 step1 obs1 seq strict f s1) (prev_ c p C2 step2 obs2 seq strict f s2).
  Proof.
    intros H. unfold prev_.
    assert (H' : srel (set_dir C1 s1 DirBackward) (set_dir C2 s2 DirBackward)) by (apply srel_dir; exact H).
    assert (E : obs1 (d_child (set_dir C1 s1 DirBackward)) = obs2 (d_child (set_dir C2 s2 DirBackward)))
      by (apply sim_obs; apply H').
    rewrite E. destruct (is_some _); [apply prevl_cong|apply finish_cong]; exact H'.
  Qed.

  Lemma rewind_cong : forall f s1 s2, srel s1 s2 ->
    rrel (rewind c p C1 step1 obs1 seq strict f s1) (rewind c p C2 step2 obs2 seq strict f s2).
  Proof.
    induction f as [|f IH]; intros s1 s2 H; [exact I|].
    rewrite !rewind_unfold'. cbv zeta.
    assert (Hs : sim (step1 (d_child s1) MPrev) (step2 (d_child s2) MPrev)) by (apply sim_step; [apply H|exact I]).
    assert (H' : srel (set_child C1 s1 (step1 (d_child s1) MPrev)) (set_child C2 s2 (step2 (d_child s2) MPrev)))
      by (apply srel_child; assumption).
    rewrite (sim_obs _ _ Hs). destruct (is_some (obs2 (step2 (d_child s2) MPrev))).
    - rewrite (parse_cong _ _ Hs).
      destruct (parse_cur p C2 obs2 (step2 (d_child s2) MPrev)) as [[[[ukey seq'] kt] v]|].
      + assert (Ek : d_key s1 = d_key s2) by apply H. rewrite Ek.
        destruct (is_lt (cmp c ukey (d_key s2))); [apply prev__cong|apply IH]; exact H'.
      + destruct strict; [split; [apply srel_err; exact H'|reflexivity]|apply IH; exact H'].
    - split; [apply srel_dir; exact H'|reflexivity].
  Qed.

  Lemma first_cong f s1 s2 : srel s1 s2 ->
    rrel (db_first c p C1 step1 obs1 seq strict f s1) (db_first c p C2 step2 obs2 seq strict f s2).
  Proof.
    intros H. unfold db_first. assert (Ee : d_err s1 = d_err s2) by apply H. rewrite Ee.
    destruct (d_err s2); [split; [exact H|reflexivity]|].
    assert (Hs : sim (step1 (d_child s1) MFirst) (step2 (d_child s2) MFirst)) by (apply sim_step; [apply H|exact I]).
    rewrite (sim_obs _ _ Hs). destruct (is_some _).
    - apply next_cong. apply srel_dir. apply srel_child; assumption.
    - split; [|reflexivity]. apply srel_dir. apply srel_child; assumption.
  Qed.

  Lemma last_cong f s1 s2 : srel s1 s2 ->
    rrel (db_last c p C1 step1 obs1 seq strict f s1) (db_last c p C2 step2 obs2 seq strict f s2).
  Proof.
    intros H. unfold db_last. assert (Ee : d_err s1 = d_err s2) by apply H. rewrite Ee.
    destruct (d_err s2); [split; [exact H|reflexivity]|].
    assert (Hs : sim (step1 (d_child s1) MLast) (step2 (d_child s2) MLast)) by (apply sim_step; [apply H|exact I]).
    rewrite (sim_obs _ _ Hs). destruct (is_some _).
    - apply prev__cong. apply srel_child; assumption.
    - split; [|reflexivity]. apply srel_dir. apply srel_child; assumption.
  Qed.

  (* a Seek key is acceptable when the probe dbIter builds from it is in the class *)
  Definition key_in (k : bytes) : Prop :=
    match make_ikey p k seq (keyTypeSeek p) with MkOk ik => P ik | MkPanic => True end.

  Lemma seek_cong f s1 s2 k : srel s1 s2 -> key_in k ->
    rrel (db_seek c p C1 step1 obs1 seq strict f s1 k) (db_seek c p C2 step2 obs2 seq strict f s2 k).
  Proof.
    intros H Hk. unfold db_seek. assert (Ee : d_err s1 = d_err s2) by apply H. rewrite Ee.
    destruct (d_err s2); [split; [exact H|reflexivity]|].
    unfold key_in in Hk. destruct (make_ikey p k seq (keyTypeSeek p)) as [ik|]; [|exact I].
    assert (Hs : sim (step1 (d_child s1) (MSeek ik)) (step2 (d_child s2) (MSeek ik))) by (apply sim_step; [apply H|exact Hk]).
    rewrite (sim_obs _ _ Hs). destruct (is_some _).
    - apply next_cong. apply srel_dir. apply srel_child; assumption.
    - split; [|reflexivity]. apply srel_dir. apply srel_child; assumption.
  Qed.

  Lemma dbnext_cong f s1 s2 : srel s1 s2 ->
    rrel (db_next c p C1 step1 obs1 seq strict f s1) (db_next c p C2 step2 obs2 seq strict f s2).
  Proof.
    intros H. unfold db_next. assert (Ed : d_dir s1 = d_dir s2) by apply H.
    assert (Ee : d_err s1 = d_err s2) by apply H. rewrite Ed, Ee.
    assert (Hs : sim (step1 (d_child s1) MNext) (step2 (d_child s2) MNext)) by (apply sim_step; [apply H|exact I]).
    assert (Hs2 : sim (step1 (step1 (d_child s1) MNext) MNext) (step2 (step2 (d_child s2) MNext) MNext))
      by (apply sim_step; [exact Hs|exact I]).
    assert (G : rrel
      (if d_err s2 then Ok s1 false else
       if negb (is_some (obs1 (step1 (d_child s1) MNext))) then Ok (set_dir C1 (set_child C1 s1 (step1 (d_child s1) MNext)) DirEOI) false
       else match d_dir s2 with
            | DirBackward =>
                if negb (is_some (obs1 (step1 (step1 (d_child s1) MNext) MNext)))
                then Ok (set_dir C1 (set_child C1 s1 (step1 (step1 (d_child s1) MNext) MNext)) DirEOI) false
                else NL1 f (set_child C1 s1 (step1 (step1 (d_child s1) MNext) MNext))
            | _ => NL1 f (set_child C1 s1 (step1 (d_child s1) MNext))
            end)
      (if d_err s2 then Ok s2 false else
       if negb (is_some (obs2 (step2 (d_child s2) MNext))) then Ok (set_dir C2 (set_child C2 s2 (step2 (d_child s2) MNext)) DirEOI) false
       else match d_dir s2 with
            | DirBackward =>
                if negb (is_some (obs2 (step2 (step2 (d_child s2) MNext) MNext)))
                then Ok (set_dir C2 (set_child C2 s2 (step2 (step2 (d_child s2) MNext) MNext)) DirEOI) false
                else NL2 f (set_child C2 s2 (step2 (step2 (d_child s2) MNext) MNext))
            | _ => NL2 f (set_child C2 s2 (step2 (d_child s2) MNext))
            end)).
    { destruct (d_err s2); [split; [exact H|reflexivity]|].
      rewrite (sim_obs _ _ Hs). destruct (is_some (obs2 (step2 (d_child s2) MNext))); cbn [negb].
      - destruct (d_dir s2); try (apply next_cong; apply srel_child; assumption).
        rewrite (sim_obs _ _ Hs2). destruct (is_some _); cbn [negb].
        + apply next_cong. apply srel_child; assumption.
        + split; [|reflexivity]. apply srel_dir. apply srel_child; assumption.
      - split; [|reflexivity]. apply srel_dir. apply srel_child; assumption. }
    destruct (d_dir s2); try exact G. split; [exact H|reflexivity].
  Qed.

  Lemma dbprev_cong f s1 s2 : srel s1 s2 ->
    rrel (db_prev c p C1 step1 obs1 seq strict f s1) (db_prev c p C2 step2 obs2 seq strict f s2).
  Proof.
    intros H. unfold db_prev. assert (Ed : d_dir s1 = d_dir s2) by apply H.
    assert (Ee : d_err s1 = d_err s2) by apply H. rewrite Ed, Ee.
    destruct (d_dir s2); [split; [exact H|reflexivity]| | |];
      (destruct (d_err s2); [split; [exact H|reflexivity]|]).
    - apply last_cong. exact H.
    - apply prev__cong. exact H.
    - apply rewind_cong. exact H.
  Qed.

  Definition umove_in (m : move bytes) : Prop := match m with MSeek k => key_in k | _ => True end.

  Lemma step_cong f s1 s2 m : srel s1 s2 -> umove_in m ->
    rrel (db_step c p C1 step1 obs1 seq strict f s1 m) (db_step c p C2 step2 obs2 seq strict f s2 m).
  Proof.
    intros H Hm. destruct m; cbn [db_step].
    - apply first_cong; exact H.
    - apply last_cong; exact H.
    - apply seek_cong; assumption.
    - apply dbnext_cong; exact H.
    - apply dbprev_cong; exact H.
  Qed.

  Theorem db_run_cong f : forall ms s1 s2, srel s1 s2 -> Forall umove_in ms ->
    db_run c p C1 step1 obs1 seq strict f s1 ms = db_run c p C2 step2 obs2 seq strict f s2 ms.
  Proof.
    induction ms as [|m ms IH]; intros s1 s2 H Hms; [reflexivity|]. cbn [db_run].
    inversion Hms as [|? ? Hm Hms']; subst.
    pose proof (step_cong f s1 s2 m H Hm) as R.
    destruct (db_step c p C1 step1 obs1 seq strict f s1 m) as [t1 b1| |];
      destruct (db_step c p C2 step2 obs2 seq strict f s2 m) as [t2 b2| |]; try (destruct R; fail); try reflexivity.
    destruct R as [Ht ->]. rewrite (IH t1 t2 Ht Hms').
    assert (Ekv : db_kv t1 = db_kv t2).
    { unfold db_kv, db_valid. destruct Ht as (_ & E1 & E2 & E3 & E4). rewrite E1, E2, E3, E4. reflexivity. }
    rewrite Ekv. reflexivity.
  Qed.

  Corollary db_run_cong_init f x1 x2 ms : sim x1 x2 -> Forall umove_in ms ->
    db_run c p C1 step1 obs1 seq strict f (db_init x1) ms = db_run c p C2 step2 obs2 seq strict f (db_init x2) ms.
  Proof. intros H. apply db_run_cong. repeat split; auto. Qed.
End Cong.
