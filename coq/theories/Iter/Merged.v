(* Iter/Merged.v — model of leveldb/iterator/merged_iter.go: mergedIterator over n child iterators.
   Same state components (iters, keys, index, dir, the heap of child indexes and its `reverse`
   flag), same branch structure: First/Last/Seek reposition every child and rebuild the heap;
   next()/prev() pop the extremal index; Next() in dirBackward = Seek(current key) then Next();
   Prev() in dirForward re-positions every OTHER child (Seek(key) then Prev, or Last when the seek
   fails) before stepping the current one.
   Children are black boxes (state type C, a transition per movement call, an observation).
   container/heap enters through its contract only: [pop] returns an index of the heap that is
   extremal for indexHeap.Less and the remaining indexes (Section variable + [pop_ok]); an
   executable instance [pop_scan] (scan for the extremal element) is given for running.
   Not modelled: child errors (iterErr), strict, Release/dirReleased, the nil-key panic of
   assertKey (a valid child always shows a key here).
   Model file: definitions only (proofs in MergedProofs.v). *)
From GL Require Export Iter.Cursor.
From Coq Require Export Permutation.

Section Merged.
  Variables K V C : Type.
  Variable kcmp : K -> K -> comparison.
  Variable chstep : C -> move K -> C.
  Variable chobs : C -> option (K * V).

  Record mstate := {
    m_iters : list C;            (* iters *)
    m_keys : list (option K);    (* keys; None = nil *)
    m_index : nat;               (* index *)
    m_dir : dir;
    m_heap : list nat;           (* indexes, as a multiset *)
    m_rev : bool                 (* reverse: max-heap *)
  }.

  Definition m_init (its : list C) : mstate :=
    {| m_iters := its; m_keys := map (fun _ => None) its; m_index := 0; m_dir := DirSOI;
       m_heap := []; m_rev := false |}.

  (* indexHeap.Less on two child indexes *)
  Definition heap_less (keys : list (option K)) (rev : bool) (i j : nat) : bool :=
    match nth i keys None, nth j keys None with
    | Some a, Some b => match kcmp a b with
                        | Lt => negb rev
                        | Gt => rev
                        | Eq => false
                        end
    | _, _ => false
    end.

  (* the contract of container/heap's Init/Push/Pop used here *)
  Variable pop : list (option K) -> bool -> list nat -> option (nat * list nat).

  (* for heaps whose members all have a key (as indexHeap.Less requires): the popped index is
     extremal and the rest is the heap minus one occurrence of it *)
  Definition pop_ok : Prop :=
    forall keys rev h, (forall y, In y h -> nth y keys None <> None) ->
      match pop keys rev h with
      | None => h = []
      | Some (x, h') => Permutation h (x :: h') /\ forall y, In y h -> heap_less keys rev y x = false
      end.

  Fixpoint upd {A} (l : list A) (i : nat) (a : A) : list A :=
    match l, i with
    | [], _ => []
    | _ :: r, O => a :: r
    | x :: r, S i' => x :: upd r i' a
    end.

  Fixpoint mapi_from {A B} (f : nat -> A -> B) (i : nat) (l : list A) : list B :=
    match l with
    | [] => []
    | a :: r => f i a :: mapi_from f (S i) r
    end.

  Definition key_of (c : C) : option K := option_map fst (chobs c).

  (* indexes 0..n-1 whose key is non-nil, i.e. the children pushed by the `for x, iter` loops *)
  Fixpoint pushed (keys : list (option K)) (i : nat) : list nat :=
    match keys with
    | [] => []
    | Some _ :: r => i :: pushed r (S i)
    | None :: r => pushed r (S i)
    end.

  (* next(): pop the smallest *)
  Definition m_next_ (s : mstate) : mstate * bool :=
    match pop (m_keys s) (m_rev s) (m_heap s) with
    | None => ({| m_iters := m_iters s; m_keys := m_keys s; m_index := m_index s; m_dir := DirEOI;
                  m_heap := m_heap s; m_rev := m_rev s |}, false)
    | Some (x, h') => ({| m_iters := m_iters s; m_keys := m_keys s; m_index := x; m_dir := DirForward;
                          m_heap := h'; m_rev := m_rev s |}, true)
    end.

  (* prev(): pop the largest *)
  Definition m_prev_ (s : mstate) : mstate * bool :=
    match pop (m_keys s) (m_rev s) (m_heap s) with
    | None => ({| m_iters := m_iters s; m_keys := m_keys s; m_index := m_index s; m_dir := DirSOI;
                  m_heap := m_heap s; m_rev := m_rev s |}, false)
    | Some (x, h') => ({| m_iters := m_iters s; m_keys := m_keys s; m_index := x; m_dir := DirBackward;
                          m_heap := h'; m_rev := m_rev s |}, true)
    end.

  (* First / Seek / Last: every child repositioned by the same absolute move, heap rebuilt *)
  Definition reposition (s : mstate) (m : move K) (rev : bool) (d : dir) : mstate :=
    let its := map (fun c => chstep c m) (m_iters s) in
    let keys := map key_of its in
    {| m_iters := its; m_keys := keys; m_index := m_index s; m_dir := d;
       m_heap := pushed keys 0; m_rev := rev |}.

  Definition m_first (s : mstate) : mstate * bool := m_next_ (reposition s MFirst false DirSOI).
  Definition m_seek (s : mstate) (k : K) : mstate * bool := m_next_ (reposition s (MSeek k) false DirSOI).
  Definition m_last (s : mstate) : mstate * bool := m_prev_ (reposition s MLast true DirEOI).

  (* the tail of Next()/Prev(): step the current child, push it back if still valid, pop *)
  Definition step_current (s : mstate) (m : move K) : option mstate :=
    let x := m_index s in
    match nth_error (m_iters s) x with
    | None => None                      (* index out of range: Go would panic; unreachable *)
    | Some c =>
        let c' := chstep c m in
        let k := key_of c' in
        Some {| m_iters := upd (m_iters s) x c'; m_keys := upd (m_keys s) x k; m_index := x;
                m_dir := m_dir s;
                m_heap := match k with Some _ => x :: m_heap s | None => m_heap s end;
                m_rev := m_rev s |}
    end.

  Definition m_next_fwd (s : mstate) : option (mstate * bool) :=
    match step_current s MNext with
    | Some s' => Some (m_next_ s')
    | None => None
    end.

  Definition m_Next (s : mstate) : option (mstate * bool) :=
    match m_dir s with
    | DirEOI => Some (s, false)
    | DirSOI => Some (m_first s)
    | DirBackward =>
        match nth (m_index s) (m_keys s) None with
        | None => None                  (* keys[index] is never nil in dirBackward; unreachable *)
        | Some key =>
            let (s1, ok) := m_seek s key in
            if ok then m_next_fwd s1 else Some (s1, false)
        end
    | DirForward => m_next_fwd s
    end.

  (* Prev() in dirForward: children other than the current one go to their last key < current *)
  Definition reposition_others (s : mstate) (key : K) : mstate :=
    let cur := m_index s in
    let its := mapi_from (fun x c =>
                 if Nat.eqb x cur then c
                 else let c1 := chstep c (MSeek key) in
                      if is_some (chobs c1) then chstep c1 MPrev else chstep c1 MLast) 0 (m_iters s) in
    let keys := mapi_from (fun x c => if Nat.eqb x cur then nth cur (m_keys s) None else key_of c) 0 its in
    {| m_iters := its; m_keys := keys; m_index := cur; m_dir := m_dir s;
       m_heap := filter (fun x => negb (Nat.eqb x cur)) (pushed keys 0); m_rev := true |}.

  Definition m_prev_bwd (s : mstate) : option (mstate * bool) :=
    match step_current s MPrev with
    | Some s' => Some (m_prev_ s')
    | None => None
    end.

  Definition m_Prev (s : mstate) : option (mstate * bool) :=
    match m_dir s with
    | DirSOI => Some (s, false)
    | DirEOI => Some (m_last s)
    | DirForward =>
        match nth (m_index s) (m_keys s) None with
        | None => None                  (* unreachable *)
        | Some key => m_prev_bwd (reposition_others s key)
        end
    | DirBackward => m_prev_bwd s
    end.

  (* Key() / Value(): keys[index] and iters[index].Value() when dir > dirEOI *)
  Definition m_kv (s : mstate) : option (K * V) :=
    match m_dir s with
    | DirForward | DirBackward =>
        match nth (m_index s) (m_keys s) None, nth_error (m_iters s) (m_index s) with
        | Some k, Some c => match chobs c with Some (_, v) => Some (k, v) | None => None end
        | _, _ => None
        end
    | _ => None
    end.

  Definition m_valid (s : mstate) : bool :=
    match m_dir s with DirForward | DirBackward => true | _ => false end.

  Definition m_step (s : mstate) (m : move K) : option (mstate * bool) :=
    match m with
    | MFirst => Some (m_first s)
    | MLast => Some (m_last s)
    | MSeek k => Some (m_seek s k)
    | MNext => m_Next s
    | MPrev => m_Prev s
    end.

  (* the machine as a black box for the iterator above it (dbIter): a stuck step leaves the state *)
  Definition merged_step (s : mstate) (m : move K) : mstate :=
    match m_step s m with Some (s', _) => s' | None => s end.

  (* outputs of a call sequence; None = the machine got stuck (proved impossible) *)
  Fixpoint m_run (s : mstate) (ms : list (move K)) : option (list (output K V)) :=
    match ms with
    | [] => Some []
    | m :: r =>
        match m_step s m with
        | Some (s', ret) => match m_run s' r with
                            | Some o => Some ((ret, m_kv s') :: o)
                            | None => None
                            end
        | None => None
        end
    end.
End Merged.

(* ---- an executable heap: scan for the extremal index, remove its first occurrence ---- *)
Section PopScan.
  Variable K : Type.
  Variable kcmp : K -> K -> comparison.

  Fixpoint remove_first (x : nat) (l : list nat) : list nat :=
    match l with
    | [] => []
    | y :: r => if Nat.eqb x y then r else y :: remove_first x r
    end.

  Definition pop_scan (keys : list (option K)) (rev : bool) (h : list nat) : option (nat * list nat) :=
    match h with
    | [] => None
    | x :: r =>
        let best := fold_left (fun b y => if heap_less K kcmp keys rev y b then y else b) r x in
        Some (best, remove_first best h)
    end.
End PopScan.

(* ---- the SPEC list: the merge of the children's lists ---- *)
Section Merge.
  Variables K V : Type.
  Variable kcmp : K -> K -> comparison.

  Fixpoint insert_kv (x : K * V) (l : list (K * V)) : list (K * V) :=
    match l with
    | [] => [x]
    | y :: r => match kcmp (fst x) (fst y) with
                | Gt => y :: insert_kv x r
                | _ => x :: l
                end
    end.

  (* merge of sorted lists = insertion of every pair of every child into a sorted list *)
  Definition merge_lists (ls : list (list (K * V))) : list (K * V) :=
    fold_right insert_kv [] (concat ls).
End Merge.

Arguments m_iters {K C}. Arguments m_keys {K C}. Arguments m_index {K C}. Arguments m_dir {K C}.
Arguments m_heap {K C}. Arguments m_rev {K C}. Arguments m_init {K C}.
Arguments pushed {K}.
Arguments merge_lists {K V}. Arguments insert_kv {K V}.
