(* Iter/IterErrProofs.v — errors and release (proof file for Iter/IterErr.v):
   (1) once an iterator has recorded an error every movement call returns false, shows nothing, and keeps
       the error (merged, indexed, dbIter);
   (2) after Release every movement call returns false and shows nothing, and Error() is ErrIterReleased
       (unless an earlier error was recorded: that one is kept);
   (3) SetReleaser with a second non-nil releaser, or after Release, panics;
   (4) the merged iterator over children that behave like cursors until one of them fails with a halting
       error: the outputs are those of the cursor over the merge up to the failing call, and (false, nil, nil)
       from then on, with the child's error recorded - it stops, and never shows a pair out of place;
   (5) dbIter: a concrete witness that prev() returns a STALE pair when the raw iterator fails between two
       versions of a user key (the defect reported for db_iter.go), and the positive part: a call that
       consults the raw iterator's error after a false return records it. *)
From GL Require Import Base.Order Base.OrderProofs Codec.IKey Iter.Cursor Iter.CursorProofs Iter.Merged Iter.MergedProofs
  Iter.Indexed Iter.DBIter Iter.IterErr.
From Coq Require Import Lia Arith.
Close Scope N_scope.

(* ------------------------------------------------------------------ merged: (1) (2) (3) *)
Section MergedErrFacts.
  Variables K V C : Type.
  Variable chstep : C -> move K -> C.
  Variable chobs : C -> option (K * V).
  Variable cherr : C -> option ierr.
  Variable pop : list (option K) -> bool -> list nat -> option (nat * list nat).
  Variable strict : bool.

  Notation move_ := (me_move K V C chstep chobs cherr pop strict).
  Notation run_ := (me_run K V C chstep chobs cherr pop strict).
  Notation kv_ := (me_kv chobs).
  Notation valid_ := (@me_valid K C).

  Lemma me_error_sticky s e m : me_err s = Some e ->
    move_ s m = Some (s, false) /\ kv_ s = None /\ valid_ s = false.
  Proof.
    intros H. unfold me_move, me_kv, me_valid, me_dead. rewrite H. cbn. auto.
  Qed.

  Definition dead_out (e : ierr) : eout K V := mkEO false None false (Some e).

  Theorem me_error_stops s e ms : me_err s = Some e ->
    run_ s (map CMove ms) = Some (map (fun _ => dead_out e) ms).
  Proof.
    intros H. induction ms as [|m ms IH]; [reflexivity|]. cbn [map me_run me_call].
    destruct (me_error_sticky s e m H) as (E & Ek & Ev). rewrite E, IH.
    unfold me_out, dead_out. rewrite Ek, Ev, H. reflexivity.
  Qed.

  (* what Error() says after Release and one more call *)
  Definition err_after_release (old : option ierr) : ierr := match old with Some e => e | None => EReleased end.

  Theorem me_after_release s ms :
    run_ (me_release s) (map CMove ms) = Some (map (fun _ => dead_out (err_after_release (me_err s))) ms).
  Proof.
    destruct ms as [|m ms]; [reflexivity|].
    destruct (me_err s) as [e|] eqn:E.
    - apply (me_error_stops (me_release s) e (m :: ms)). exact E.
    - cbn [map me_run me_call err_after_release]. unfold me_move at 1. cbn [me_release me_err me_released]. rewrite E.
      rewrite (me_error_stops _ EReleased ms) by reflexivity.
      unfold me_out, me_kv, me_valid, me_dead, dead_out. cbn. reflexivity.
  Qed.

  Theorem me_set_releaser_twice (s s1 : mestate K C) : me_set_releaser s true = Some s1 -> me_set_releaser s1 true = None.
  Proof.
    unfold me_set_releaser. destruct (me_released s); [discriminate|].
    destruct (me_releaser s && true); [discriminate|]. intros H. injection H as <-. reflexivity.
  Qed.

  Theorem me_set_releaser_after_release (s : mestate K C) r : me_set_releaser (me_release s) r = None.
  Proof. reflexivity. Qed.
End MergedErrFacts.

(* ------------------------------------------------------------------ indexed: (1) (2) (3) *)
Section IndexedErrFacts.
  Variables K V D I C : Type.
  Variable istep : I -> move K -> I.
  Variable iobs : I -> option (K * D).
  Variable ierr_of : I -> option ierr.
  Variable mk : D -> C.
  Variable dstep : C -> move K -> C.
  Variable dobs : C -> option (K * V).
  Variable derr : C -> option ierr.
  Variable strict : bool.

  Notation move_ := (xe_move K V D I C istep iobs ierr_of mk dstep dobs derr strict).
  Notation run_ := (xe_run K V D I C istep iobs ierr_of mk dstep dobs derr strict).

  Lemma xe_error_sticky fuel s e m : xe_err s = Some e -> move_ fuel s m = XEOk s false.
  Proof. intros H. unfold xe_move. rewrite H. reflexivity. Qed.

  (* Valid/Key/Value of an indexed iterator are those of its data iterator: after an error they stay what
     they were (the data iterator whose call failed shows nothing); the returned bool is false for ever *)
  Theorem xe_error_stops fuel s e ms : xe_err s = Some e ->
    run_ fuel s (map CMove ms) = Some (map (fun _ => xe_out ierr_of dobs s false) ms).
  Proof.
    intros H. induction ms as [|m ms IH]; [reflexivity|]. cbn [map xe_run].
    rewrite (xe_error_sticky fuel s e m H), IH. reflexivity.
  Qed.

  Theorem xe_after_release fuel s ms :
    run_ fuel (xe_release s) (map CMove ms) =
    Some (map (fun _ => mkEO false None false (Some (err_after_release (xe_err s)))) ms).
  Proof.
    destruct ms as [|m ms]; [reflexivity|].
    destruct (xe_err s) as [e|] eqn:E.
    - rewrite (xe_error_stops fuel (xe_release s) e (m :: ms)) by exact E.
      f_equal. apply map_ext. intros _. unfold xe_out, xe_kv, xe_valid, xe_error, x_kv, xe_release. cbn. rewrite E. reflexivity.
    - cbn [map xe_run err_after_release]. unfold xe_move at 1. cbn [xe_release xe_err xe_released]. rewrite E.
      rewrite (xe_error_stops fuel _ EReleased ms) by reflexivity.
      unfold xe_out, xe_kv, xe_valid, xe_error, x_kv. cbn. reflexivity.
  Qed.

  Theorem xe_set_releaser_twice (s s1 : xestate I C) : xe_set_releaser s true = Some s1 -> xe_set_releaser s1 true = None.
  Proof.
    unfold xe_set_releaser. destruct (xe_released s); [discriminate|].
    destruct (xe_releaser s && true); [discriminate|]. intros H. injection H as <-. reflexivity.
  Qed.

  Theorem xe_set_releaser_after_release (s : xestate I C) r : xe_set_releaser (xe_release s) r = None.
  Proof. reflexivity. Qed.
End IndexedErrFacts.

(* ------------------------------------------------------------------ dbIter: (1) (2) (3) *)
Section DBIterErrFacts.
  Variable c : comparer.
  Variable p : kparams.
  Variable C : Type.
  Variable chstep : C -> move ikey -> C.
  Variable chobs : C -> option entry.
  Variable cherr : C -> option ierr.
  Variable seq : N.
  Variable strict : bool.

  Notation move_ := (de_move c p C chstep chobs cherr seq strict).
  Notation run_ := (de_run c p C chstep chobs cherr seq strict).

  Lemma de_error_sticky fuel s e m : de_err s = Some e -> move_ fuel s m = DEOk s false.
  Proof. intros H. unfold de_move, de_move_with. rewrite H. reflexivity. Qed.

  Definition ddead_out (e : ierr) : eout bytes bytes := mkEO false None false (Some e).

  Theorem de_error_stops fuel s e ms : de_err s = Some e ->
    run_ fuel s (map CMove ms) = Some (map (fun _ => ddead_out e) ms).
  Proof.
    intros H. unfold de_run in *. induction ms as [|m ms IH]; [reflexivity|]. cbn [map de_run_with].
    fold (de_move c p C chstep chobs cherr seq strict). rewrite (de_error_sticky fuel s e m H), IH.
    unfold de_out, de_kv, de_valid, de_dead, ddead_out. rewrite H. reflexivity.
  Qed.

  Theorem de_after_release fuel s ms :
    run_ fuel (de_release s) (map CMove ms) = Some (map (fun _ => ddead_out (err_after_release (de_err s))) ms).
  Proof.
    destruct ms as [|m ms]; [reflexivity|].
    destruct (de_err s) as [e|] eqn:E.
    - apply (de_error_stops fuel (de_release s) e (m :: ms)). exact E.
    - unfold de_run. cbn [map de_run_with err_after_release]. unfold de_move_with at 1. cbn [de_release de_err de_released]. rewrite E.
      fold (de_run c p C chstep chobs cherr seq strict). rewrite (de_error_stops fuel _ EReleased ms) by reflexivity.
      unfold de_out, de_kv, de_valid, de_dead, ddead_out. cbn. reflexivity.
  Qed.

  Theorem de_set_releaser_twice (s s1 : destate C) : de_set_releaser s true = Some s1 -> de_set_releaser s1 true = None.
  Proof.
    unfold de_set_releaser. destruct (de_released s); [discriminate|].
    destruct (de_releaser s && true); [discriminate|]. intros H. injection H as <-. reflexivity.
  Qed.

  Theorem de_set_releaser_after_release (s : destate C) r : de_set_releaser (de_release s) r = None.
  Proof. reflexivity. Qed.

  (* a call that returns false after having moved the raw iterator records the raw iterator's error *)
  Theorem de_false_records_error fuel s m s' : de_err s = None -> de_released s = false ->
    move_ fuel s m = DEOk s' false ->
    (m = MNext /\ d_dir (de_base s) = DirEOI /\ s' = s) \/ (m = MPrev /\ d_dir (de_base s) = DirSOI /\ s' = s) \/
    match cherr (d_child (de_base s')) with
    | Some e => exists e', de_err s' = Some e'
    | None => True
    end.
  Proof.
    intros He Hr. unfold de_move, de_move_with. rewrite He, Hr.
    assert (G : forall r, de_post chobs cherr s r = DEOk s' false ->
              match cherr (d_child (de_base s')) with Some e => exists e', de_err s' = Some e' | None => True end).
    { intros r. unfold de_post. destruct r as [b [|]| |]; try discriminate.
      { destruct (is_some (chobs (d_child b))); [discriminate|].
        destruct (cherr (d_child b)) as [e|] eqn:Ec; [|discriminate]. intros H; injection H as <-.
        cbn [de_base de_err set_err d_child]. rewrite Ec. eexists; reflexivity. }
      destruct (d_err b) eqn:Eb.
      - intros H. injection H as <-. cbn. destruct (cherr (d_child b)); eauto.
      - destruct (cherr (d_child b)) as [e|] eqn:Ec; intros H; injection H as <-;
          cbn [de_base de_err set_err d_child]; rewrite Ec; [eexists; reflexivity|exact I]. }
    destruct m; try (intros H; right; right; apply (G _ H)).
    - destruct (d_dir (de_base s)) eqn:Ed; try (intros H; right; right; apply (G _ H)).
      intros H. injection H as <-. left. auto.
    - destruct (d_dir (de_base s)) eqn:Ed; try (intros H; right; right; apply (G _ H)).
      intros H. injection H as <-. right. left. auto.
  Qed.
End DBIterErrFacts.

(* ------------------------------------------------------------------ merged: (4) stops, never out of place *)
Lemma list_eq_nth_error {A} : forall l1 l2 : list A, (forall j, nth_error l1 j = nth_error l2 j) -> l1 = l2.
Proof.
  induction l1 as [|x l1 IH]; intros [|y l2] H; [reflexivity|specialize (H 0); discriminate|specialize (H 0); discriminate|].
  pose proof (H 0) as H0. cbn in H0. injection H0 as ->. f_equal. apply IH. intros j. exact (H (S j)).
Qed.

Lemma drop_nth_in {A} (l : list A) : forall i j y, nth_error l j = Some y -> j <> i -> In y (drop_nth l i).
Proof.
  induction l as [|x l IH]; intros i j y Hj Hne; [destruct j; discriminate|].
  destruct i as [|i]; destruct j as [|j]; cbn in *.
  - congruence.
  - eapply nth_error_In; eauto.
  - injection Hj as ->. left. reflexivity.
  - right. apply (IH i j); [exact Hj|lia].
Qed.

Section MergedPrefix.
  Variables K V C : Type.
  Variable chstep : C -> move K -> C.
  Variable chobs : C -> option (K * V).
  Variable pop : list (option K) -> bool -> list nat -> option (nat * list nat).
  Variable strict : bool.

  Notation F := (fchild C).
  Notation fstep := (f_step chstep).
  Notation fobs := (f_obs chobs).
  Notation halt_ := (halt K V F fobs f_err strict).
  Notation scan_ := (scan K V F fobs f_err strict).

  (* alive, and of a kind that halts the merged iterator when it fires *)
  Definition alive_h (x : F) : Prop := fc_dead x = false /\ halting strict (fc_kind x) = true.

  Lemma fobs_alive x : fc_dead x = false -> fobs x = chobs (fc_in x).
  Proof. intros H. unfold f_obs. rewrite H. reflexivity. Qed.

  Lemma fobs_dead_none x : fc_dead x = true -> fobs x = None.
  Proof. intros H. unfold f_obs. rewrite H. reflexivity. Qed.

  Lemma fstep_kind x m : fc_kind (fstep x m) = fc_kind x.
  Proof. unfold f_step. destruct (fc_dead x); [reflexivity|]. destruct (fc_fuse x) as [[|n]|]; reflexivity. Qed.

  Lemma fstep_dead_sticky x m : fc_dead x = true -> fstep x m = x.
  Proof. intros H. unfold f_step. rewrite H. reflexivity. Qed.

  Lemma halt_dead x : halting strict (fc_kind x) = true -> fc_dead x = true -> halt_ x = Some (fc_kind x).
  Proof. intros Hh Hd. unfold halt, f_obs, f_err. rewrite Hd, Hh. reflexivity. Qed.

  Lemma halt_none_alive x : halting strict (fc_kind x) = true -> halt_ x = None -> fc_dead x = false.
  Proof. intros Hh Hn. destruct (fc_dead x) eqn:E; [|reflexivity]. rewrite (halt_dead x Hh E) in Hn. discriminate. Qed.

  Lemma fstep_alive x m : alive_h x -> halt_ (fstep x m) = None ->
    alive_h (fstep x m) /\ fc_in (fstep x m) = chstep (fc_in x) m.
  Proof.
    intros [Hd Hh] Hn.
    assert (Hh' : halting strict (fc_kind (fstep x m)) = true) by (rewrite fstep_kind; exact Hh).
    pose proof (halt_none_alive _ Hh' Hn) as Ha. split; [split; assumption|].
    unfold f_step in *. rewrite Hd in *. destruct (fc_fuse x) as [[|n]|]; cbn in *; try reflexivity. discriminate.
  Qed.

  Lemma fstep_die x m : alive_h x -> fc_dead (fstep x m) = true -> halt_ (fstep x m) = Some (fc_kind x).
  Proof.
    intros [Hd Hh] Hdead. rewrite <- (fstep_kind x m). apply halt_dead; [rewrite fstep_kind; exact Hh|exact Hdead].
  Qed.

  Lemma key_of_alive x : fc_dead x = false -> key_of K V F fobs x = key_of K V C chobs (fc_in x).
  Proof. intros H. unfold key_of. rewrite (fobs_alive x H). reflexivity. Qed.

  Lemma scan_none cs : scan_ cs = None <-> Forall (fun x => halt_ x = None) cs.
  Proof.
    induction cs as [|x cs IH]; cbn [scan]; [split; [constructor|reflexivity]|].
    destruct (halt_ x) eqn:E.
    - split; [discriminate|]. intros H. inversion H; congruence.
    - rewrite IH. split; [intros H; constructor; assumption|intros H; inversion H; assumption].
  Qed.

  Lemma map_step_alive xs m : Forall alive_h xs -> scan_ (map (fun x => fstep x m) xs) = None ->
    Forall alive_h (map (fun x => fstep x m) xs) /\
    map fc_in (map (fun x => fstep x m) xs) = map (fun c => chstep c m) (map fc_in xs).
  Proof.
    intros Ha Hs. apply scan_none in Hs. induction xs as [|x xs IH]; [split; [constructor|reflexivity]|].
    inversion Ha as [|? ? Hx Ha']; subst. cbn [map] in Hs. inversion Hs as [|? ? Hh Hs']; subst.
    destruct (fstep_alive x m Hx Hh) as [A1 A2]. destruct (IH Ha' Hs') as [B1 B2].
    split; [constructor; assumption|]. cbn [map]. rewrite A2, B2. reflexivity.
  Qed.

  Lemma map_key_of_alive xs : Forall alive_h xs -> map (key_of K V F fobs) xs = map (key_of K V C chobs) (map fc_in xs).
  Proof.
    induction 1 as [|x xs [Hd _] _ IH]; [reflexivity|]. cbn [map]. rewrite (key_of_alive x Hd), IH. reflexivity.
  Qed.

  (* ---- the two machines side by side ---- *)
  Notation bF := (mstate K F).
  Notation bC := (mstate K C).

  Definition PR (b : bF) (s : bC) : Prop :=
    map fc_in (m_iters b) = m_iters s /\ Forall alive_h (m_iters b) /\ m_keys b = m_keys s /\
    m_index b = m_index s /\ m_dir b = m_dir s /\ m_heap b = m_heap s /\ m_rev b = m_rev s.

  Lemma PR_next_ b s : PR b s ->
    PR (fst (m_next_ K F pop b)) (fst (m_next_ K C pop s)) /\ snd (m_next_ K F pop b) = snd (m_next_ K C pop s).
  Proof.
    intros (H1 & H2 & H3 & H4 & H5 & H6 & H7). unfold m_next_. rewrite H3, H6, H7.
    destruct (pop (m_keys s) (m_rev s) (m_heap s)) as [[x h']|]; cbn; unfold PR; cbn; repeat split; assumption.
  Qed.

  Lemma PR_prev_ b s : PR b s ->
    PR (fst (m_prev_ K F pop b)) (fst (m_prev_ K C pop s)) /\ snd (m_prev_ K F pop b) = snd (m_prev_ K C pop s).
  Proof.
    intros (H1 & H2 & H3 & H4 & H5 & H6 & H7). unfold m_prev_. rewrite H3, H6, H7.
    destruct (pop (m_keys s) (m_rev s) (m_heap s)) as [[x h']|]; cbn; unfold PR; cbn; repeat split; assumption.
  Qed.

  Lemma PR_reposition b s m rev d : PR b s -> scan_ (map (fun x => fstep x m) (m_iters b)) = None ->
    PR (reposition K V F fstep fobs b m rev d) (reposition K V C chstep chobs s m rev d).
  Proof.
    intros (H1 & H2 & H3 & H4 & H5 & H6 & H7) Hs. destruct (map_step_alive _ m H2 Hs) as [A B].
    unfold reposition, PR. cbn. rewrite <- H1.
    assert (Ek : map (key_of K V F fobs) (map (fun c => fstep c m) (m_iters b)) =
                 map (key_of K V C chobs) (map (fun c => chstep c m) (map fc_in (m_iters b)))).
    { rewrite (map_key_of_alive _ A), B. reflexivity. }
    repeat split; try assumption; try (rewrite Ek; reflexivity).
  Qed.

  Lemma map_upd {A B} (g : A -> B) (l : list A) : forall i a, map g (upd l i a) = upd (map g l) i (g a).
  Proof. induction l as [|x l IH]; intros [|i] a; cbn; try reflexivity. rewrite IH. reflexivity. Qed.

  Lemma Forall_upd {A} (P : A -> Prop) (l : list A) : forall i a, Forall P l -> P a -> Forall P (upd l i a).
  Proof.
    induction l as [|x l IH]; intros [|i] a Hl Ha; cbn; try constructor; inversion Hl; subst; auto.
  Qed.

  Lemma PR_step_current b s m x : PR b s -> nth_error (m_iters b) (m_index b) = Some x -> halt_ (fstep x m) = None ->
    exists b' s', step_current K V F fstep fobs b m = Some b' /\ step_current K V C chstep chobs s m = Some s' /\ PR b' s'.
  Proof.
    intros (H1 & H2 & H3 & H4 & H5 & H6 & H7) Hx Hh.
    assert (Hxa : alive_h x) by (rewrite Forall_forall in H2; apply H2; eapply nth_error_In; eauto).
    destruct (fstep_alive x m Hxa Hh) as [[Ad Ah] Ain].
    assert (Hc : nth_error (m_iters s) (m_index s) = Some (fc_in x)).
    { rewrite <- H1, <- H4, nth_error_map, Hx. reflexivity. }
    unfold step_current. rewrite Hx, Hc. eexists _, _. split; [reflexivity|]. split; [reflexivity|].
    unfold PR. cbn. rewrite (key_of_alive _ Ad), Ain, map_upd, Ain, H1, H3, H4, H5, H6, H7.
    repeat split; try reflexivity. apply Forall_upd; [exact H2|split; assumption].
  Qed.

  Lemma PR_kv b s : PR b s -> m_kv K V F fobs b = m_kv K V C chobs s.
  Proof.
    intros (H1 & H2 & H3 & H4 & H5 & H6 & H7). unfold m_kv. rewrite H3, H4, H5, <- H1, nth_error_map.
    destruct (m_dir s); try reflexivity;
      destruct (nth (m_index s) (m_keys s) None); try reflexivity;
      destruct (nth_error (m_iters b) (m_index s)) as [x|] eqn:E; cbn [option_map]; try reflexivity;
      (assert (Hd : fc_dead x = false) by (rewrite Forall_forall in H2; apply (H2 x); eapply nth_error_In; eauto));
      rewrite (fobs_alive x Hd); reflexivity.
  Qed.

  (* the children other than the current one after Seek(key) and Prev / Last *)
  Definition oth (cur : nat) (key : K) (j : nat) (x : F) : F :=
    if Nat.eqb j cur then x
    else let c1 := fstep x (MSeek key) in if is_some (fobs c1) then fstep c1 MPrev else fstep c1 MLast.
  Definition othC (cur : nat) (key : K) (j : nat) (c : C) : C :=
    if Nat.eqb j cur then c
    else let c1 := chstep c (MSeek key) in if is_some (chobs c1) then chstep c1 MPrev else chstep c1 MLast.

  Lemma oth_alive cur key j x : alive_h x -> (j <> cur -> halt_ (oth cur key j x) = None) ->
    alive_h (oth cur key j x) /\ fc_in (oth cur key j x) = othC cur key j (fc_in x).
  Proof.
    intros Hx Hh. unfold oth, othC in *. destruct (Nat.eqb j cur) eqn:E; [split; [exact Hx|reflexivity]|].
    apply Nat.eqb_neq in E. specialize (Hh E). cbv zeta in *.
    set (c1 := fstep x (MSeek key)) in *.
    (* c1 is alive: a dead c1 stays dead and would be reported *)
    assert (Hc1 : halt_ c1 = None).
    { destruct (fc_dead c1) eqn:Ed.
      - exfalso. rewrite (fobs_dead_none c1 Ed) in Hh. cbn [is_some] in Hh. rewrite (fstep_dead_sticky c1 MLast Ed) in Hh.
        pose proof (fstep_die x (MSeek key) Hx Ed) as Hdie. fold c1 in Hdie. rewrite Hdie in Hh. discriminate.
      - unfold halt. rewrite (fobs_alive c1 Ed). unfold f_err. rewrite Ed. destruct (chobs (fc_in c1)); reflexivity. }
    destruct (fstep_alive x (MSeek key) Hx Hc1) as [A1 A2]. fold c1 in A1, A2.
    rewrite (fobs_alive c1 (proj1 A1)) in *. rewrite A2 in *.
    destruct (is_some (chobs (chstep (fc_in x) (MSeek key)))).
    - destruct (fstep_alive c1 MPrev A1 Hh) as [B1 B2]. split; [exact B1|]. rewrite B2, A2. reflexivity.
    - destruct (fstep_alive c1 MLast A1 Hh) as [B1 B2]. split; [exact B1|]. rewrite B2, A2. reflexivity.
  Qed.

  Lemma PR_others b s key : PR b s ->
    scan_ (drop_nth (m_iters (reposition_others K V F fstep fobs b key)) (m_index b)) = None ->
    PR (reposition_others K V F fstep fobs b key) (reposition_others K V C chstep chobs s key).
  Proof.
    intros (H1 & H2 & H3 & H4 & H5 & H6 & H7) Hs. apply scan_none in Hs. rewrite Forall_forall in Hs.
    set (cur := m_index b) in *.
    assert (Eits : m_iters (reposition_others K V F fstep fobs b key) = mapi_from (oth cur key) 0 (m_iters b)) by reflexivity.
    assert (EitsC : m_iters (reposition_others K V C chstep chobs s key) = mapi_from (othC cur key) 0 (m_iters s))
      by (unfold reposition_others; cbn [m_iters]; rewrite <- H4; reflexivity).
    rewrite Eits in Hs.
    assert (Hj : forall j x, nth_error (m_iters b) j = Some x ->
              alive_h (oth cur key j x) /\ fc_in (oth cur key j x) = othC cur key j (fc_in x)).
    { intros j x Hx. apply oth_alive.
      - rewrite Forall_forall in H2. apply H2. eapply nth_error_In; eauto.
      - intros Hne. apply Hs. apply (drop_nth_in _ cur j); [|exact Hne].
        rewrite nth_error_mapi_from, Hx. reflexivity. }
    assert (A1 : map fc_in (mapi_from (oth cur key) 0 (m_iters b)) = mapi_from (othC cur key) 0 (m_iters s)).
    { apply list_eq_nth_error. intros j. rewrite nth_error_map, !nth_error_mapi_from, <- H1, nth_error_map.
      destruct (nth_error (m_iters b) j) as [x|] eqn:E; cbn [option_map]; [|reflexivity].
      f_equal. apply (Hj j x E). }
    assert (A2 : Forall alive_h (mapi_from (oth cur key) 0 (m_iters b))).
    { rewrite Forall_forall. intros y Hy. apply In_nth_error in Hy as (j & Hy).
      rewrite nth_error_mapi_from in Hy. destruct (nth_error (m_iters b) j) as [x|] eqn:E; [|discriminate].
      cbn in Hy. injection Hy as <-. apply (Hj j x E). }
    assert (A3 : m_keys (reposition_others K V F fstep fobs b key) = m_keys (reposition_others K V C chstep chobs s key)).
    { assert (EkF : m_keys (reposition_others K V F fstep fobs b key) =
                    mapi_from (fun x c => if Nat.eqb x cur then nth cur (m_keys b) None else key_of K V F fobs c) 0
                              (mapi_from (oth cur key) 0 (m_iters b))) by reflexivity.
      assert (EkC : m_keys (reposition_others K V C chstep chobs s key) =
                    mapi_from (fun x c => if Nat.eqb x cur then nth cur (m_keys s) None else key_of K V C chobs c) 0
                              (mapi_from (othC cur key) 0 (m_iters s)))
        by (unfold reposition_others; cbn [m_keys]; rewrite <- H4; reflexivity).
      rewrite EkF, EkC, <- A1, H3. clear EkF EkC A1 Eits Hs Hj. set (L := mapi_from (oth cur key) 0 (m_iters b)) in *.
      apply list_eq_nth_error. intros j. rewrite !nth_error_mapi_from, nth_error_map.
      destruct (nth_error L j) as [y|] eqn:E; cbn [option_map]; [|reflexivity].
      f_equal. destruct (Nat.eqb (0 + j) cur); [reflexivity|].
      apply key_of_alive. rewrite Forall_forall in A2. apply (A2 y). eapply nth_error_In; eauto. }
    unfold PR. rewrite A3. split; [rewrite Eits, EitsC; exact A1|]. split; [rewrite Eits; exact A2|].
    split; [reflexivity|].
    assert (EhF : m_heap (reposition_others K V F fstep fobs b key) =
                  filter (fun x => negb (Nat.eqb x cur)) (pushed (m_keys (reposition_others K V F fstep fobs b key)) 0)) by reflexivity.
    assert (EhC : m_heap (reposition_others K V C chstep chobs s key) =
                  filter (fun x => negb (Nat.eqb x cur)) (pushed (m_keys (reposition_others K V C chstep chobs s key)) 0))
      by (unfold reposition_others; cbn [m_heap m_keys]; rewrite <- H4; reflexivity).
    split; [exact H4|]. split; [exact H5|]. split; [rewrite EhF, EhC, A3; reflexivity|reflexivity].
  Qed.

  (* ---- one call ---- *)
  Notation ME := (mestate K F).
  Notation memove := (me_move K V F fstep fobs f_err pop strict).

  Definition R (se : ME) (s : bC) : Prop := me_err se = None /\ me_released se = false /\ PR (me_base se) s.

  Definition stepped (se : ME) (s : bC) (m : move K) : Prop :=
    forall s' ret, m_step K V C chstep chobs pop s m = Some (s', ret) ->
      (exists se', memove se m = Some (se', ret) /\ R se' s') \/
      (exists se' e, memove se m = Some (se', false) /\ me_err se' = Some e).

  Lemma R_with_base se b s : me_err se = None -> me_released se = false -> PR b s -> R (me_with_base se b) s.
  Proof. intros H1 H2 H3. unfold R, me_with_base. cbn. auto. Qed.

  Lemma abs_step se s m (kF : bF -> bF * bool) (kC : bC -> bC * bool) (rev : bool) d :
    R se s ->
    (forall b, kF b = (if rev then m_prev_ K F pop else m_next_ K F pop) (reposition K V F fstep fobs b m rev d)) ->
    (forall t, kC t = (if rev then m_prev_ K C pop else m_next_ K C pop) (reposition K V C chstep chobs t m rev d)) ->
    (exists se', me_abs K V F fstep fobs f_err strict se m kF = (se', snd (kC s)) /\ R se' (fst (kC s))) \/
    (exists se' e, me_abs K V F fstep fobs f_err strict se m kF = (se', false) /\ me_err se' = Some e).
  Proof.
    intros (He & Hr & HP) EF EC. unfold me_abs.
    destruct (scan_ (map (fun c => fstep c m) (m_iters (me_base se)))) as [e|] eqn:Es.
    - right. eexists _, e. split; reflexivity.
    - left. pose proof (PR_reposition _ _ m rev d HP Es) as HP'.
      rewrite EF, EC. unfold me_lift. destruct rev.
      + destruct (PR_prev_ _ _ HP') as [P1 P2]. eexists. split; [rewrite P2; reflexivity|]. apply R_with_base; assumption.
      + destruct (PR_next_ _ _ HP') as [P1 P2]. eexists. split; [rewrite P2; reflexivity|]. apply R_with_base; assumption.
  Qed.

  Lemma fwd_step se b s : me_err se = None -> me_released se = false -> PR b s ->
    forall s' ret, m_next_fwd K V C chstep chobs pop s = Some (s', ret) ->
      (exists se', me_fwd K V F fstep fobs f_err pop strict se b = Some (se', ret) /\ R se' s') \/
      (exists se' e, me_fwd K V F fstep fobs f_err pop strict se b = Some (se', false) /\ me_err se' = Some e).
  Proof.
    intros He Hr HP s' ret Hm. unfold me_fwd.
    destruct (nth_error (m_iters b) (m_index b)) as [x|] eqn:Ex.
    - destruct (halt_ (fstep x MNext)) as [e|] eqn:Eh.
      + right. eexists _, e. split; reflexivity.
      + left. destruct (PR_step_current b s MNext x HP Ex Eh) as (b' & s1 & E1 & E2 & HP').
        unfold m_next_fwd in *. rewrite E1. rewrite E2 in Hm.
        destruct (PR_next_ _ _ HP') as [P1 P2].
        destruct (m_next_ K C pop s1) as [s2 r2]. injection Hm as <- <-. cbn [fst snd] in *.
        cbn [option_map]. unfold me_lift. eexists. split; [rewrite P2; reflexivity|]. apply R_with_base; assumption.
    - exfalso. destruct HP as (H1 & _ & _ & H4 & _). unfold m_next_fwd, step_current in Hm.
      rewrite <- H1, <- H4, nth_error_map, Ex in Hm. discriminate.
  Qed.

  Lemma bwd_step se b s : me_err se = None -> me_released se = false -> PR b s ->
    forall s' ret, m_prev_bwd K V C chstep chobs pop s = Some (s', ret) ->
      (exists se', me_bwd K V F fstep fobs f_err pop strict se b = Some (se', ret) /\ R se' s') \/
      (exists se' e, me_bwd K V F fstep fobs f_err pop strict se b = Some (se', false) /\ me_err se' = Some e).
  Proof.
    intros He Hr HP s' ret Hm. unfold me_bwd.
    destruct (nth_error (m_iters b) (m_index b)) as [x|] eqn:Ex.
    - destruct (halt_ (fstep x MPrev)) as [e|] eqn:Eh.
      + right. eexists _, e. split; reflexivity.
      + left. destruct (PR_step_current b s MPrev x HP Ex Eh) as (b' & s1 & E1 & E2 & HP').
        unfold m_prev_bwd in *. rewrite E1. rewrite E2 in Hm.
        destruct (PR_prev_ _ _ HP') as [P1 P2].
        destruct (m_prev_ K C pop s1) as [s2 r2]. injection Hm as <- <-. cbn [fst snd] in *.
        cbn [option_map]. unfold me_lift. eexists. split; [rewrite P2; reflexivity|]. apply R_with_base; assumption.
    - exfalso. destruct HP as (H1 & _ & _ & H4 & _). unfold m_prev_bwd, step_current in Hm.
      rewrite <- H1, <- H4, nth_error_map, Ex in Hm. discriminate.
  Qed.

  Lemma step_sim se s m : R se s -> stepped se s m.
  Proof.
    intros HR s' ret Hm. pose proof HR as (He & Hr & HP). unfold me_move. rewrite He, Hr.
    pose proof HP as (H1 & H2 & H3 & H4 & H5 & H6 & H7).
    destruct m as [| |k| |]; cbn [m_step] in Hm.
    - injection Hm as Hm.
      destruct (abs_step se s MFirst (m_first K V F fstep fobs pop) (m_first K V C chstep chobs pop) false DirSOI HR
                  (fun _ => eq_refl) (fun _ => eq_refl)) as [(se' & E & HR')|(se' & e & E & Ee)].
      + left. exists se'. rewrite E. rewrite Hm in *. cbn [fst snd] in *. split; [reflexivity|exact HR'].
      + right. exists se', e. rewrite E. auto.
    - injection Hm as Hm.
      destruct (abs_step se s MLast (m_last K V F fstep fobs pop) (m_last K V C chstep chobs pop) true DirEOI HR
                  (fun _ => eq_refl) (fun _ => eq_refl)) as [(se' & E & HR')|(se' & e & E & Ee)].
      + left. exists se'. rewrite E. rewrite Hm in *. cbn [fst snd] in *. split; [reflexivity|exact HR'].
      + right. exists se', e. rewrite E. auto.
    - injection Hm as Hm.
      destruct (abs_step se s (MSeek k) (fun b => m_seek K V F fstep fobs pop b k) (fun t => m_seek K V C chstep chobs pop t k)
                  false DirSOI HR (fun _ => eq_refl) (fun _ => eq_refl)) as [(se' & E & HR')|(se' & e & E & Ee)].
      + left. exists se'. rewrite E. rewrite Hm in *. cbn [fst snd] in *. split; [reflexivity|exact HR'].
      + right. exists se', e. rewrite E. auto.
    - (* Next *)
      unfold m_Next in Hm. unfold me_Next. rewrite H5.
      destruct (m_dir s) eqn:Ed.
      + injection Hm as Hm.
        destruct (abs_step se s MFirst (m_first K V F fstep fobs pop) (m_first K V C chstep chobs pop) false DirSOI HR
                    (fun _ => eq_refl) (fun _ => eq_refl)) as [(se' & E & HR')|(se' & e & E & Ee)].
        * left. exists se'. rewrite E. rewrite Hm in *. cbn [fst snd] in *. split; [reflexivity|exact HR'].
        * right. exists se', e. rewrite E. auto.
      + injection Hm as <- <-. left. exists se. split; [reflexivity|exact HR].
      + rewrite H3, H4.
        destruct (nth (m_index s) (m_keys s) None) as [key|]; [|discriminate].
        destruct (scan_ (map (fun c => fstep c (MSeek key)) (m_iters (me_base se)))) as [e|] eqn:Es.
        { right. eexists _, e. split; reflexivity. }
        pose proof (PR_reposition _ _ (MSeek key) false DirSOI HP Es) as HP1.
        destruct (PR_next_ _ _ HP1) as [P1 P2].
        unfold m_seek in *.
        destruct (m_next_ K F pop (reposition K V F fstep fobs (me_base se) (MSeek key) false DirSOI)) as [b1 okF] eqn:EF.
        destruct (m_next_ K C pop (reposition K V C chstep chobs s (MSeek key) false DirSOI)) as [s1 okC] eqn:EC.
        cbn [fst snd] in P1, P2. subst okF. destruct okC.
        * apply (fwd_step se b1 s1 He Hr P1 s' ret Hm).
        * injection Hm as <- <-. left. eexists. split; [reflexivity|]. apply R_with_base; assumption.
      + apply (fwd_step se (me_base se) s He Hr HP s' ret Hm).
    - (* Prev *)
      unfold m_Prev in Hm. unfold me_Prev. rewrite H5.
      destruct (m_dir s) eqn:Ed.
      + injection Hm as <- <-. left. exists se. split; [reflexivity|exact HR].
      + injection Hm as Hm.
        destruct (abs_step se s MLast (m_last K V F fstep fobs pop) (m_last K V C chstep chobs pop) true DirEOI HR
                    (fun _ => eq_refl) (fun _ => eq_refl)) as [(se' & E & HR')|(se' & e & E & Ee)].
        * left. exists se'. rewrite E. rewrite Hm in *. cbn [fst snd] in *. split; [reflexivity|exact HR'].
        * right. exists se', e. rewrite E. auto.
      + apply (bwd_step se (me_base se) s He Hr HP s' ret Hm).
      + rewrite H3, H4.
        destruct (nth (m_index s) (m_keys s) None) as [key|]; [|discriminate].
        destruct (scan_ (drop_nth (m_iters (reposition_others K V F fstep fobs (me_base se) key)) (m_index (me_base se)))) as [e|] eqn:Es.
        { right. eexists _, e. rewrite <- H4. rewrite Es. split; reflexivity. }
        rewrite <- H4, Es.
        apply (bwd_step se _ _ He Hr (PR_others _ _ key HP Es) s' ret Hm).
  Qed.

  (* ---- a whole walk ---- *)
  Definition proj (o : eout K V) : output K V := (eo_ret o, eo_kv o).
  Notation merun := (me_run K V F fstep fobs f_err pop strict).

  (* the shape of the outputs: j calls answered as the error-free machine answers them, with no error
     recorded; from call j on (false, nil, nil), not valid, the error e recorded *)
  Definition degraded (n : nat) (outs : list (output K V)) (eouts : list (eout K V)) (j : nat) (e : ierr) : Prop :=
    j <= n /\ map proj eouts = firstn j outs ++ repeat (false, None) (n - j) /\
    Forall (fun o => eo_err o = None) (firstn j eouts) /\
    Forall (fun o => eo_err o = Some e /\ eo_valid o = false) (skipn j eouts).

  Lemma run_sim : forall ms se s outs, R se s -> m_run K V C chstep chobs pop s ms = Some outs ->
    exists eouts j e, merun se (map CMove ms) = Some eouts /\ degraded (length ms) outs eouts j e.
  Proof.
    induction ms as [|m ms IH]; intros se s outs HR Hm.
    - cbn in Hm. injection Hm as <-. exists [], 0, EOther. split; [reflexivity|].
      unfold degraded. cbn. repeat split; auto.
    - cbn [m_run] in Hm. destruct (m_step K V C chstep chobs pop s m) as [[s' ret]|] eqn:Es; [|discriminate].
      destruct (m_run K V C chstep chobs pop s' ms) as [o|] eqn:Er; [|discriminate]. injection Hm as <-.
      destruct (step_sim se s m HR s' ret Es) as [(se' & E & HR')|(se' & e & E & Ee)].
      + destruct (IH se' s' o HR' Er) as (eouts & j & e & Erun & Hj & Hmap & Hok & Hbad).
        exists (me_out fobs se' ret :: eouts), (S j), e. split.
        * cbn [map me_run me_call]. rewrite E, Erun. reflexivity.
        * unfold degraded. cbn [length firstn skipn map app]. split; [lia|]. split; [|split].
          -- rewrite Hmap. replace (S (length ms) - S j) with (length ms - j) by lia. f_equal.
             unfold proj, me_out. cbn [eo_ret eo_kv]. f_equal.
             destruct HR' as (He' & Hr' & HP'). unfold me_kv, me_dead. rewrite He', Hr'. cbn. apply PR_kv. exact HP'.
          -- constructor; [|exact Hok]. unfold me_out. cbn. apply HR'.
          -- exact Hbad.
      + exists (me_out fobs se' false :: map (fun _ => dead_out K V e) ms), 0, e. split.
        * cbn [map me_run me_call]. rewrite E.
          rewrite (me_error_stops K V F fstep fobs f_err pop strict se' e ms Ee). reflexivity.
        * unfold degraded. cbn [firstn skipn app]. split; [lia|]. split; [|split; [constructor|]].
          -- rewrite Nat.sub_0_r. cbn [length repeat map]. f_equal.
             ++ unfold proj, me_out, me_kv, me_dead. rewrite Ee. reflexivity.
             ++ rewrite map_map. clear. induction ms as [|x ms IH]; [reflexivity|]. cbn. f_equal. exact IH.
          -- constructor.
             ++ unfold me_out, me_valid, me_dead. cbn. rewrite Ee. auto.
             ++ rewrite Forall_forall. intros x Hx. apply in_map_iff in Hx as (y & <- & _). cbn. auto.
  Qed.
End MergedPrefix.

(* (4) packaged: children that behave like cursors over strictly sorted lists with no key in common, each
   behind a fuse of a kind that halts the merged iterator (any error when strict, any non-corruption error
   otherwise): for every call sequence the outputs are those of the cursor over the merge for the first j
   calls, and (false, nil, nil) with the failed child's error from call j on.  In particular no pair is ever
   shown that the cursor would not show at that call. *)
Theorem merged_error_prefix (K V C : Type) (kcmp : K -> K -> comparison) (chstep : C -> move K -> C)
  (chobs : C -> option (K * V)) (pop : list (option K) -> bool -> list nat -> option (nat * list nat))
  (strict : bool) (ls : list (list (K * V))) (fits : list (fchild C)) :
  ord_ok kcmp -> pop_ok K kcmp pop ->
  Forall (sorted_kv kcmp) ls -> NoDup (map fst (concat ls)) ->
  Forall2 (fun c l => refines kcmp chstep chobs c l) (map fc_in fits) ls ->
  Forall (alive_h C strict) fits ->
  forall ms, exists eouts j e,
    me_run K V (fchild C) (f_step chstep) (f_obs chobs) f_err pop strict (me_init fits) (map CMove ms) = Some eouts /\
    degraded K V (length ms) (run_cursor kcmp (merge_lists kcmp ls) ms) eouts j e.
Proof.
  intros ok Hpop Hs Hnd Href Hal ms.
  apply (run_sim K V C chstep chobs pop strict ms (me_init fits) (m_init (map fc_in fits))).
  - split; [reflexivity|]. split; [reflexivity|]. unfold PR, me_init, m_init. cbn.
    split; [reflexivity|]. split; [exact Hal|]. split; [rewrite map_map; reflexivity|]. auto.
  - apply (merged_refines K V C kcmp chstep chobs pop ls (map fc_in fits)); assumption.
Qed.
