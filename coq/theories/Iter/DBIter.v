(* Iter/DBIter.v — model of leveldb/db_iter.go: dbIter over a raw iterator on INTERNAL keys.
   Same state components (dir, key, value, err), same branch structure: First/Last/Seek/Next/Prev,
   the forward loop next(), the backward loop prev() with its `del` flag and saved key/value, the
   dirForward -> Prev rewind loop, the double iter.Next() of Next() in dirBackward, the
   (key, seq, keyTypeSeek) probe of Seek, and newIterator's range conversion Start/Limit ->
   (k, keyMaxSeq, keyTypeSeek).
   The raw iterator (merged iterator over memdbs and tables in the code) is a black box
   (state type C, one transition per movement call, an observation).  Not modelled: errors of the
   raw iterator (iterErr), Release/dirReleased, iterator sampling (sampleSeek only enqueues
   compactions).  Internal keys travel parsed (Codec/IKey.v: ukey, num = seq*256+kind); a key
   whose kind exceeds keyTypeVal is the parse error of parseInternalKey; an invalid raw iterator
   yields the nil key, which does not parse either.
   Model file: definitions only (proofs in DBIterProofs.v). *)
From GL Require Export Iter.Cursor Codec.IKey.

Definition entry := (ikey * bytes)%type.

Section DBIter.
  Variable c : comparer.
  Variable p : kparams.
  Variable C : Type.
  Variable chstep : C -> move ikey -> C.
  Variable chobs : C -> option entry.
  Variable seq : N.          (* dbIter.seq *)
  Variable strict : bool.    (* dbIter.strict *)

  Record dbstate := {
    d_child : C; d_dir : dir; d_key : bytes; d_value : bytes; d_err : bool
  }.

  Inductive res := Ok (s : dbstate) (r : bool) | OutOfFuel | Panic.

  Definition set_child s ch := {| d_child := ch; d_dir := d_dir s; d_key := d_key s; d_value := d_value s; d_err := d_err s |}.
  Definition set_dir s d := {| d_child := d_child s; d_dir := d; d_key := d_key s; d_value := d_value s; d_err := d_err s |}.
  Definition set_key s k := {| d_child := d_child s; d_dir := d_dir s; d_key := k; d_value := d_value s; d_err := d_err s |}.
  Definition set_kv s k v := {| d_child := d_child s; d_dir := d_dir s; d_key := k; d_value := v; d_err := d_err s |}.
  (* setErr: err recorded, key and value dropped *)
  Definition set_err s := {| d_child := d_child s; d_dir := d_dir s; d_key := []; d_value := []; d_err := true |}.

  Definition db_init (ch : C) : dbstate :=
    {| d_child := ch; d_dir := DirSOI; d_key := []; d_value := []; d_err := false |}.

  (* parseInternalKey on the raw iterator's current key *)
  Definition parse_rec (k : ikey) : option (bytes * N * N) :=
    if keyTypeVal p <? ik_kind k then None else Some (uk k, ik_seq k, ik_kind k).
  Definition parse_cur (ch : C) : option (bytes * N * N * bytes) :=
    match chobs ch with
    | Some (ik, v) => match parse_rec ik with Some t => Some (t, v) | None => None end
    | None => None
    end.

  Definition is_dir_soi (d : dir) : bool := match d with DirSOI => true | _ => false end.
  Definition is_gt (r : comparison) : bool := match r with Gt => true | _ => false end.
  Definition is_lt (r : comparison) : bool := match r with Lt => true | _ => false end.

  (* next(): the forward loop *)
  Fixpoint next_loop (fuel : nat) (s : dbstate) : res :=
    match fuel with
    | O => OutOfFuel
    | S fuel' =>
      let advance (s : dbstate) : res :=
        let ch' := chstep (d_child s) MNext in
        if is_some (chobs ch') then next_loop fuel' (set_child s ch')
        else Ok (set_dir (set_child s ch') DirEOI) false in
      match parse_cur (d_child s) with
      | Some (ukey, seq', kt, v) =>
          if seq' <=? seq then
            if kt =? keyTypeDel p then
              (* skip deleted key *)
              advance (set_dir (set_key s ukey) DirForward)
            else if kt =? keyTypeVal p then
              if is_dir_soi (d_dir s) || is_gt (cmp c ukey (d_key s)) then
                Ok (set_dir (set_kv s ukey v) DirForward) true
              else advance s
            else advance s
          else advance s
      | None => if strict then Ok (set_err s) false else advance s
      end
    end.

  (* prev(): the backward loop; [del] is the local flag *)
  Definition prev_finish (s : dbstate) (del : bool) : res :=
    if del then Ok (set_dir s DirSOI) false else Ok s true.

  Fixpoint prev_loop (fuel : nat) (s : dbstate) (del : bool) : res :=
    match fuel with
    | O => OutOfFuel
    | S fuel' =>
      let back (s : dbstate) (del : bool) : res :=
        let ch' := chstep (d_child s) MPrev in
        if is_some (chobs ch') then prev_loop fuel' (set_child s ch') del
        else prev_finish (set_child s ch') del in
      match parse_cur (d_child s) with
      | Some (ukey, seq', kt, v) =>
          if seq' <=? seq then
            if negb del && is_lt (cmp c ukey (d_key s)) then Ok s true
            else
              let del' := kt =? keyTypeDel p in
              back (if del' then s else set_kv s ukey v) del'
          else back s del
      | None => if strict then Ok (set_err s) false else back s del
      end
    end.

  Definition prev_ (fuel : nat) (s : dbstate) : res :=
    let s := set_dir s DirBackward in
    if is_some (chobs (d_child s)) then prev_loop fuel s true else prev_finish s true.

  Definition db_first (fuel : nat) (s : dbstate) : res :=
    if d_err s then Ok s false else
    let ch := chstep (d_child s) MFirst in
    if is_some (chobs ch) then next_loop fuel (set_dir (set_child s ch) DirSOI)
    else Ok (set_dir (set_child s ch) DirEOI) false.

  Definition db_last (fuel : nat) (s : dbstate) : res :=
    if d_err s then Ok s false else
    let ch := chstep (d_child s) MLast in
    if is_some (chobs ch) then prev_ fuel (set_child s ch)
    else Ok (set_dir (set_child s ch) DirSOI) false.

  Definition db_seek (fuel : nat) (s : dbstate) (key : bytes) : res :=
    if d_err s then Ok s false else
    match make_ikey p key seq (keyTypeSeek p) with
    | MkPanic => Panic
    | MkOk ik =>
      let ch := chstep (d_child s) (MSeek ik) in
      if is_some (chobs ch) then next_loop fuel (set_dir (set_child s ch) DirSOI)
      else Ok (set_dir (set_child s ch) DirEOI) false
    end.

  Definition db_next (fuel : nat) (s : dbstate) : res :=
    match d_dir s with
    | DirEOI => Ok s false
    | _ =>
      if d_err s then Ok s false else
      let ch1 := chstep (d_child s) MNext in
      if negb (is_some (chobs ch1)) then Ok (set_dir (set_child s ch1) DirEOI) false
      else match d_dir s with
           | DirBackward =>
               let ch2 := chstep ch1 MNext in
               if negb (is_some (chobs ch2)) then Ok (set_dir (set_child s ch2) DirEOI) false
               else next_loop fuel (set_child s ch2)
           | _ => next_loop fuel (set_child s ch1)
           end
    end.

  (* the dirForward -> Prev rewind: step the raw iterator back until a smaller user key *)
  Fixpoint rewind (fuel : nat) (s : dbstate) : res :=
    match fuel with
    | O => OutOfFuel
    | S fuel' =>
      let ch' := chstep (d_child s) MPrev in
      let s' := set_child s ch' in
      if is_some (chobs ch') then
        match parse_cur ch' with
        | Some (ukey, _, _, _) =>
            if is_lt (cmp c ukey (d_key s)) then prev_ fuel s' else rewind fuel' s'
        | None => if strict then Ok (set_err s') false else rewind fuel' s'
        end
      else Ok (set_dir s' DirSOI) false
    end.

  Definition db_prev (fuel : nat) (s : dbstate) : res :=
    match d_dir s with
    | DirSOI => Ok s false
    | d =>
      if d_err s then Ok s false else
      match d with
      | DirEOI => db_last fuel s
      | DirForward => rewind fuel s
      | _ => prev_ fuel s
      end
    end.

  Definition db_step (fuel : nat) (s : dbstate) (m : move bytes) : res :=
    match m with
    | MFirst => db_first fuel s
    | MLast => db_last fuel s
    | MSeek k => db_seek fuel s k
    | MNext => db_next fuel s
    | MPrev => db_prev fuel s
    end.

  (* Valid(), Key(), Value() *)
  Definition db_valid (s : dbstate) : bool :=
    negb (d_err s) && match d_dir s with DirBackward | DirForward => true | _ => false end.
  Definition db_kv (s : dbstate) : option (bytes * bytes) :=
    if db_valid s then Some (d_key s, d_value s) else None.

  (* outputs of a call sequence; None = ran out of fuel or panicked *)
  Fixpoint db_run (fuel : nat) (s : dbstate) (ms : list (move bytes)) : option (list (output bytes bytes)) :=
    match ms with
    | [] => Some []
    | m :: r =>
        match db_step fuel s m with
        | Ok s' ret => match db_run fuel s' r with
                       | Some o => Some ((ret, db_kv s') :: o)
                       | None => None
                       end
        | _ => None
        end
    end.
End DBIter.

Arguments Ok {C}. Arguments OutOfFuel {C}. Arguments Panic {C}.
Arguments d_child {C}. Arguments d_dir {C}. Arguments d_key {C}. Arguments d_value {C}. Arguments d_err {C}.
Arguments db_init {C}. Arguments db_valid {C}. Arguments db_kv {C}.

(* well-formed entries (what the write path produces): kind is keyTypeDel or keyTypeVal *)
Definition entry_wf (p : kparams) (e : entry) : Prop :=
  ik_kind (fst e) = keyTypeDel p \/ ik_kind (fst e) = keyTypeVal p.
(* side conditions on the key constants beyond kparams_ok (re-proved for the current source in
   Gen/ConstsOkC02.v): the seek kind is a legal kind for makeInternalKey, tombstones parse *)
Definition dbparams_ok (p : kparams) : Prop :=
  kparams_ok p /\ keyTypeSeek p <= keyTypeVal p /\ keyTypeDel p <= keyTypeVal p.

(* ---- the SPEC list: live pairs of a sorted list of internal entries at sequence s ---- *)
Section Live.
  Variable c : comparer.
  Variable p : kparams.
  Variable s : N.

  Definition visible (e : entry) : bool := ik_seq (fst e) <=? s.
  Definition is_val (e : entry) : bool := ik_kind (fst e) =? keyTypeVal p.
  Definition same_ukey (sk : option bytes) (u : bytes) : bool :=
    match sk with Some k => match cmp c u k with Eq => true | _ => false end | None => false end.

  (* scan in internal-key order (user key ascending, newest first); [sk] = user key of the last
     visible entry seen: its first visible entry (the newest one with seq <= s) decides the key *)
  Fixpoint live_from (sk : option bytes) (l : list entry) : list (bytes * bytes) :=
    match l with
    | [] => []
    | e :: r =>
        if visible e then
          if same_ukey sk (uk (fst e)) then live_from sk r
          else if is_val e then (uk (fst e), snd e) :: live_from (Some (uk (fst e))) r
          else live_from (Some (uk (fst e))) r
        else live_from sk r
    end.

  Definition live_pairs (l : list entry) : list (bytes * bytes) := live_from None l.

  (* the declarative reading, used by the characterisation theorem: the newest visible entry of u *)
  Definition newest_visible (l : list entry) (u : bytes) : option entry :=
    find (fun e => visible e && match cmp c (uk (fst e)) u with Eq => true | _ => false end) l.
End Live.

(* ---- newIterator: range conversion and the sliced raw iterator ---- *)
Section NewIterator.
  Variable c : comparer.
  Variable p : kparams.

  (* islice.Start / islice.Limit = makeInternalKey(nil, k, keyMaxSeq, keyTypeSeek) *)
  Definition range_probe (k : bytes) : mk_result := make_ikey p k (keyMaxSeq p) (keyTypeSeek p).

  (* what a raw iterator sliced by util.Range{Start, Limit} (internal keys) contains:
     Start <= key < Limit in the internal order *)
  Definition in_islice (start limit : option ikey) (e : entry) : bool :=
    match start with Some a => match icmp c (fst e) a with Lt => false | _ => true end | None => true end &&
    match limit with Some b => match icmp c (fst e) b with Lt => true | _ => false end | None => true end.

  Definition slice_entries (start limit : option ikey) (l : list entry) : list entry :=
    filter (in_islice start limit) l.

  (* user-level range [Start, Limit) *)
  Definition in_range (start limit : option bytes) (k : bytes) : bool :=
    match start with Some a => match cmp c k a with Lt => false | _ => true end | None => true end &&
    match limit with Some b => match cmp c k b with Lt => true | _ => false end | None => true end.

  Definition opt_probe (k : option bytes) : option (option ikey) :=
    match k with
    | None => Some None
    | Some k => match range_probe k with MkOk ik => Some (Some ik) | MkPanic => None end
    end.
End NewIterator.

