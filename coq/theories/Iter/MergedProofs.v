(* Iter/MergedProofs.v — the merged iterator (Iter/Merged.v) refines the cursor over the merge of its
   children's lists: simulation relation between machine states and cursor positions, preserved by
   each of the five calls from every related state (all call sequences, direction changes included). *)
From GL Require Import Iter.Cursor Iter.CursorProofs Iter.Merged.
From Coq Require Import Lia Arith Permutation.

(* ---- arrays as lists ---- *)
Section ListFacts.
  Context {A : Type}.

  Lemma upd_length (l : list A) i a : length (upd l i a) = length l.
  Proof. revert i. induction l as [|x l IH]; intros [|i]; cbn; auto. Qed.

  Lemma nth_error_upd_eq (l : list A) i a : i < length l -> nth_error (upd l i a) i = Some a.
  Proof. revert i. induction l as [|x l IH]; intros [|i] H; cbn in *; try lia; auto. apply IH. lia. Qed.

  Lemma nth_error_upd_neq (l : list A) i j a : i <> j -> nth_error (upd l i a) j = nth_error l j.
  Proof.
    revert i j. induction l as [|x l IH]; intros [|i] [|j] H; cbn; auto; try congruence.
  Qed.

  Lemma nth_error_nth_default (l : list A) j d x : nth_error l j = Some x -> nth j l d = x.
  Proof. revert j. induction l as [|y l IH]; intros [|j]; cbn; try discriminate; [congruence|apply IH]. Qed.

  Lemma nth_error_some_lt (l : list A) j x : nth_error l j = Some x -> j < length l.
  Proof. intros H. apply nth_error_Some. congruence. Qed.

  Lemma nth_error_lt_some (l : list A) j : j < length l -> exists x, nth_error l j = Some x.
  Proof. intros H. destruct (nth_error l j) eqn:E; eauto. apply nth_error_None in E. lia. Qed.
End ListFacts.

Lemma nth_error_mapi_from {A B} (f : nat -> A -> B) (l : list A) : forall i0 j,
  nth_error (mapi_from f i0 l) j = option_map (f (i0 + j)) (nth_error l j).
Proof.
  induction l as [|a l IH]; intros i0 [|j]; cbn; auto.
  - rewrite Nat.add_0_r. reflexivity.
  - rewrite IH. replace (S i0 + j) with (i0 + S j) by lia. reflexivity.
Qed.

Lemma mapi_from_length {A B} (f : nat -> A -> B) (l : list A) i0 : length (mapi_from f i0 l) = length l.
Proof. revert i0. induction l as [|a l IH]; intros i0; cbn; auto. Qed.

Lemma pushed_in {K} (keys : list (option K)) : forall i0 j,
  In j (pushed keys i0) <-> i0 <= j /\ exists k, nth_error keys (j - i0) = Some (Some k).
Proof.
  induction keys as [|[k|] keys IH]; intros i0 j; cbn.
  - split; [intros []|]. intros (_ & k & H). destruct (j - i0); discriminate.
  - rewrite IH. split.
    + intros [<-|(H1 & k' & H2)].
      * split; [lia|]. exists k. rewrite Nat.sub_diag. reflexivity.
      * split; [lia|]. exists k'. replace (j - i0) with (S (j - S i0)) by lia. exact H2.
    + intros (H1 & k' & H2). destruct (Nat.eq_dec i0 j) as [E|E]; [left; exact E|right].
      split; [lia|]. exists k'. replace (j - i0) with (S (j - S i0)) in H2 by lia. exact H2.
  - rewrite IH. split.
    + intros (H1 & k' & H2). split; [lia|]. exists k'. replace (j - i0) with (S (j - S i0)) by lia. exact H2.
    + intros (H1 & k' & H2). destruct (Nat.eq_dec i0 j) as [E|E].
      * subst. rewrite Nat.sub_diag in H2. discriminate.
      * split; [lia|]. exists k'. replace (j - i0) with (S (j - S i0)) in H2 by lia. exact H2.
Qed.

Lemma pushed_nodup {K} (keys : list (option K)) : forall i0, NoDup (pushed keys i0).
Proof.
  induction keys as [|[k|] keys IH]; intros i0; cbn; [constructor| |apply IH].
  constructor; [|apply IH]. rewrite pushed_in. lia.
Qed.

Section MergedProofs.
  Variables K V C : Type.
  Variable kcmp : K -> K -> comparison.
  Hypothesis ok : ord_ok kcmp.
  Variable chstep : C -> move K -> C.
  Variable chobs : C -> option (K * V).
  Variable pop : list (option K) -> bool -> list nat -> option (nat * list nat).
  Hypothesis Hpop : pop_ok K kcmp pop.

  Variable ls : list (list (K * V)).      (* the children's lists *)
  Variable M : list (K * V).              (* their merge *)
  Hypothesis Hls : forall j l, nth_error ls j = Some l -> sorted_kv kcmp l.
  Hypothesis HMs : sorted_kv kcmp M.
  Hypothesis HMin : forall x, In x M <-> exists j l, nth_error ls j = Some l /\ In x l.
  Hypothesis Hdisj : forall i j li lj x y, nth_error ls i = Some li -> nth_error ls j = Some lj ->
    In x li -> In y lj -> fst x = fst y -> i = j.

  Notation kv := (K * V)%type.
  Notation klt a b := (kcmp (fst a) (fst b) = Lt).
  Notation kle a b := (kcmp (fst a) (fst b) <> Gt).
  Notation st := (mstate K C).
  Notation n := (length ls).
  Notation child_at c l q := (refines_from kcmp chstep chobs c l q).

  (* within one sorted list, equal keys mean the same pair *)
  Lemma sorted_key_eq (l : list kv) x y : sorted_kv kcmp l -> In x l -> In y l -> fst x = fst y -> x = y.
  Proof.
    intros Hs Hx Hy E. apply In_nth_error in Hx as [i Hi]. apply In_nth_error in Hy as [j Hj].
    assert (i = j) by (eapply (sorted_nth_key_inj kcmp ok); eauto). subst. congruence.
  Qed.

  Lemma klt_total (x y : kv) : klt x y \/ fst x = fst y \/ klt y x.
  Proof. apply (f_total kcmp ok). Qed.

  (* ---- child positions described by order ---- *)
  (* q is on the least pair of l satisfying B, or shows nothing and no pair of l satisfies B *)
  Definition pos_least (B : kv -> Prop) (l : list kv) (q : pos) : Prop :=
    match cobs l q with
    | Some x => In x l /\ B x /\ forall y, In y l -> B y -> kle x y
    | None => forall y, In y l -> ~ B y
    end.

  Definition pos_greatest (B : kv -> Prop) (l : list kv) (q : pos) : Prop :=
    match cobs l q with
    | Some x => In x l /\ B x /\ forall y, In y l -> B y -> kle y x
    | None => forall y, In y l -> ~ B y
    end.

  Definition up_closed (B : kv -> Prop) : Prop := forall x y, B x -> klt x y -> B y.
  Definition down_closed (B : kv -> Prop) : Prop := forall x y, B x -> klt y x -> B y.

  Lemma cobs_in (l : list kv) q x : cobs l q = Some x -> In x l.
  Proof. destruct q; cbn; try discriminate. apply nth_error_In. Qed.

  Lemma pos_least_first (l : list kv) : sorted_kv kcmp l -> pos_least (fun _ => True) l (cfirst l).
  Proof.
    intros Hs. unfold pos_least. destruct l as [|x l]; cbn; [intros y []|].
    split; [left; reflexivity|]. split; [exact I|]. intros y [<-|Hy] _.
    - rewrite (f_refl kcmp ok). discriminate.
    - apply (sorted_cons_inv kcmp) in Hs as [_ F]. rewrite Forall_forall in F.
      specialize (F y Hy). unfold kv_lt in F. rewrite F. discriminate.
  Qed.

  Lemma pos_greatest_last (l : list kv) : sorted_kv kcmp l -> pos_greatest (fun _ => True) l (clast l).
  Proof.
    intros Hs. unfold pos_greatest, clast. destruct (length l) as [|m] eqn:El.
    - destruct l; [|discriminate]. cbn. intros y [].
    - cbn [cobs]. destruct (nth_error_lt_some l m ltac:(lia)) as [x Hx]. rewrite Hx.
      split; [eapply nth_error_In; eauto|]. split; [exact I|]. intros y Hy _.
      apply In_nth_error in Hy as [j Hj]. assert (j < length l) by (eapply nth_error_some_lt; eauto).
      destruct (Nat.eq_dec j m) as [->|Hne].
      + assert (y = x) by congruence. subst. rewrite (f_refl kcmp ok). discriminate.
      + assert (klt y x) by (eapply (sorted_nth_lt kcmp); [exact Hs| |exact Hj|exact Hx]; lia).
        rewrite H0. discriminate.
  Qed.

  Lemma pos_least_seek (l : list kv) k : sorted_kv kcmp l ->
    pos_least (fun y => kcmp (fst y) k <> Lt) l (find_ge kcmp k l 0).
  Proof.
    intros Hs. unfold pos_least. destruct (find_ge kcmp k l 0) as [|i|] eqn:E.
    - exfalso. eapply find_ge_not_soi; eauto.
    - destruct (find_ge_at kcmp k l i E) as (x & Hx & Hge & Hlt). cbn [cobs]. rewrite Hx.
      split; [eapply nth_error_In; eauto|]. split; [exact Hge|]. intros y Hy Hyge.
      apply In_nth_error in Hy as [j Hj].
      destruct (Nat.lt_trichotomy j i) as [H|[H|H]].
      + exfalso. apply Hyge. eapply Hlt; eauto.
      + subst. assert (y = x) by congruence. subst. rewrite (f_refl kcmp ok). discriminate.
      + assert (klt x y) by (eapply (sorted_nth_lt kcmp); [exact Hs| |exact Hx|exact Hj]; lia).
        rewrite H0. discriminate.
    - cbn [cobs]. intros y Hy Hge. apply Hge. eapply find_ge_eoi; eauto.
  Qed.

  (* stepping forward from the pair e: the least pair above e *)
  Lemma pos_least_next (l : list kv) i e : sorted_kv kcmp l -> nth_error l i = Some e ->
    pos_least (fun y => klt e y) l (cstep kcmp l (At i) MNext).
  Proof.
    intros Hs He. unfold pos_least. assert (Hi : i < length l) by (eapply nth_error_some_lt; eauto).
    destruct (Nat.lt_ge_cases (S i) (length l)) as [H|H].
    - rewrite cstep_next_lt by exact H. cbn [cobs].
      destruct (nth_error_lt_some l (S i) H) as [x Hx]. rewrite Hx.
      split; [eapply nth_error_In; eauto|].
      split; [eapply (sorted_nth_lt kcmp); [exact Hs| |exact He|exact Hx]; lia|].
      intros y Hy Hey. apply In_nth_error in Hy as [j Hj].
      assert (i < j) by (eapply (sorted_lt_index kcmp ok); [exact Hs|exact He|exact Hj|exact Hey]).
      destruct (Nat.eq_dec j (S i)) as [->|Hne].
      + assert (y = x) by congruence. subst. rewrite (f_refl kcmp ok). discriminate.
      + assert (klt x y) by (eapply (sorted_nth_lt kcmp); [exact Hs| |exact Hx|exact Hj]; lia).
        rewrite H1. discriminate.
    - rewrite cstep_next_ge by exact H. cbn [cobs]. intros y Hy Hey.
      apply In_nth_error in Hy as [j Hj]. assert (j < length l) by (eapply nth_error_some_lt; eauto).
      assert (i < j) by (eapply (sorted_lt_index kcmp ok); [exact Hs|exact He|exact Hj|exact Hey]). lia.
  Qed.

  (* stepping backward from position i (on e, or any position whose pairs before i are exactly
     those below the bound): the greatest pair below *)
  Lemma pos_greatest_before (l : list kv) i (B : kv -> Prop) : sorted_kv kcmp l -> i <= length l ->
    (forall j y, nth_error l j = Some y -> (B y <-> j < i)) ->
    pos_greatest B l (match i with O => SOI | S i' => At i' end).
  Proof.
    intros Hs Hi HB. unfold pos_greatest. destruct i as [|i']; cbn [cobs].
    - intros y Hy Hby. apply In_nth_error in Hy as [j Hj]. apply (HB j y Hj) in Hby. lia.
    - destruct (nth_error_lt_some l i' ltac:(lia)) as [x Hx]. rewrite Hx.
      split; [eapply nth_error_In; eauto|]. split; [apply (HB i' x Hx); lia|].
      intros y Hy Hby. apply In_nth_error in Hy as [j Hj]. apply (HB j y Hj) in Hby.
      destruct (Nat.eq_dec j i') as [->|Hne].
      + assert (y = x) by congruence. subst. rewrite (f_refl kcmp ok). discriminate.
      + assert (klt y x) by (eapply (sorted_nth_lt kcmp); [exact Hs| |exact Hj|exact Hx]; lia).
        rewrite H. discriminate.
  Qed.

  Lemma pos_greatest_prev (l : list kv) i e : sorted_kv kcmp l -> nth_error l i = Some e ->
    pos_greatest (fun y => klt y e) l (cstep kcmp l (At i) MPrev).
  Proof.
    intros Hs He. assert (Hi : i < length l) by (eapply nth_error_some_lt; eauto).
    replace (cstep kcmp l (At i) MPrev) with (match i with O => SOI | S i' => At i' end) by (destruct i; reflexivity).
    apply pos_greatest_before; [exact Hs|lia|].
    intros j y Hj. split.
    - intros Hlt. eapply (sorted_lt_index kcmp ok); [exact Hs|exact Hj|exact He|exact Hlt].
    - intros Hlt. eapply (sorted_nth_lt kcmp); [exact Hs|exact Hlt|exact Hj|exact He].
  Qed.

  (* Seek(k) then Prev, or Last when the seek fails: the greatest pair with key < k *)
  Lemma pos_greatest_seek_prev (l : list kv) k : sorted_kv kcmp l ->
    let q1 := find_ge kcmp k l 0 in
    pos_greatest (fun y => kcmp (fst y) k = Lt) l
      (if is_some (cobs l q1) then cstep kcmp l q1 MPrev else clast l).
  Proof.
    intros Hs q1. subst q1. destruct (find_ge kcmp k l 0) as [|i|] eqn:E.
    - exfalso. eapply find_ge_not_soi; eauto.
    - destruct (find_ge_at kcmp k l i E) as (x & Hx & Hge & Hlt). cbn [cobs]. rewrite Hx. cbn [is_some].
      assert (Hi : i < length l) by (eapply nth_error_some_lt; eauto).
      replace (cstep kcmp l (At i) MPrev) with (match i with O => SOI | S i' => At i' end) by (destruct i; reflexivity).
      apply pos_greatest_before; [exact Hs|lia|].
      intros j y Hj. split.
      + intros Hy. destruct (Nat.lt_ge_cases j i) as [H|H]; [exact H|exfalso].
        apply Hge. destruct (Nat.eq_dec j i) as [->|Hne].
        * assert (y = x) by congruence. subst. exact Hy.
        * eapply (o_trans kcmp ok); [|exact Hy].
          eapply (sorted_nth_lt kcmp); [exact Hs| |exact Hx|exact Hj]. lia.
      + intros H. eapply Hlt; eauto.
    - cbn [cobs is_some]. pose proof (find_ge_eoi kcmp k l E) as Hall.
      pose proof (pos_greatest_last l Hs) as Hg. unfold pos_greatest in *.
      destruct (cobs l (clast l)) as [x|] eqn:Ex.
      + destruct Hg as (Hin & _ & Hmax). split; [exact Hin|]. split; [apply Hall; exact Hin|].
        intros y Hy _. apply Hmax; auto.
      + intros y Hy _. apply (Hg y Hy). exact I.
  Qed.

  (* ================= invariants ================= *)
  Notation m_next_ := (m_next_ K C pop).
  Notation m_prev_ := (m_prev_ K C pop).

  (* every child behaves like the cursor over its list at position qs j; keys[] caches their keys *)
  Definition children_ok (s : st) (qs : nat -> pos) : Prop :=
    length (m_iters s) = n /\ length (m_keys s) = n /\
    (forall j c l, nth_error (m_iters s) j = Some c -> nth_error ls j = Some l -> child_at c l (qs j)) /\
    (forall j l, nth_error ls j = Some l -> nth_error (m_keys s) j = Some (option_map fst (cobs l (qs j)))).

  (* the heap holds exactly the valid children, except the current one *)
  Definition heap_ok (s : st) (excl : option nat) : Prop :=
    NoDup (m_heap s) /\
    forall j, In j (m_heap s) <-> (j < n /\ Some j <> excl /\ exists k, nth_error (m_keys s) j = Some (Some k)).

  Definition FwdInv (s : st) (e : kv) : Prop :=
    exists qs c lc, True /\ m_rev s = false /\ children_ok s qs /\ m_index s = c /\
      nth_error ls c = Some lc /\ heap_ok s (Some c) /\ cobs lc (qs c) = Some e /\
      forall j l, nth_error ls j = Some l -> j <> c -> pos_least (fun y => klt e y) l (qs j).

  Definition BwdInv (s : st) (e : kv) : Prop :=
    exists qs c lc, True /\ m_rev s = true /\ children_ok s qs /\ m_index s = c /\
      nth_error ls c = Some lc /\ heap_ok s (Some c) /\ cobs lc (qs c) = Some e /\
      forall j l, nth_error ls j = Some l -> j <> c -> pos_greatest (fun y => klt y e) l (qs j).

  Lemma keys_nth s qs j l : children_ok s qs -> nth_error ls j = Some l ->
    nth j (m_keys s) None = option_map fst (cobs l (qs j)).
  Proof. intros (_ & _ & _ & Hk) Hl. apply nth_error_nth_default. apply Hk. exact Hl. Qed.

  Lemma heap_less_fwd keys a b i j : nth i keys None = Some a -> nth j keys None = Some b ->
    heap_less K kcmp keys false i j = false -> kcmp a b <> Lt.
  Proof. unfold heap_less. intros -> ->. destruct (kcmp a b); cbn; congruence. Qed.

  Lemma heap_less_bwd keys a b i j : nth i keys None = Some a -> nth j keys None = Some b ->
    heap_less K kcmp keys true i j = false -> kcmp a b <> Gt.
  Proof. unfold heap_less. intros -> ->. destruct (kcmp a b); cbn; congruence. Qed.

  Lemma ls_lt j l : nth_error ls j = Some l -> j < n.
  Proof. apply nth_error_some_lt. Qed.

  (* next(): all children sit on their least B-pair: the pop lands on the least B-pair of M *)
  Lemma land_forward s qs (B : kv -> Prop) : children_ok s qs -> heap_ok s None -> m_rev s = false ->
    up_closed B -> (forall j l, nth_error ls j = Some l -> pos_least B l (qs j)) ->
    (exists s1, m_next_ s = (s1, false) /\ m_dir s1 = DirEOI /\ children_ok s1 qs /\ forall y, In y M -> ~ B y) \/
    (exists s1 e, m_next_ s = (s1, true) /\ m_dir s1 = DirForward /\ FwdInv s1 e /\ In e M /\ B e /\ forall y, In y M -> B y -> kle e y).
  Proof.
    intros Hc [Hnd Hheap] Hrev Hup Hpos. unfold Merged.m_next_.
    assert (Hsome : forall y, In y (m_heap s) -> nth y (m_keys s) None <> None).
    { intros y Hy. apply Hheap in Hy as (_ & _ & k & Hk). rewrite (nth_error_nth_default _ _ None _ Hk). discriminate. }
    pose proof (Hpop (m_keys s) (m_rev s) (m_heap s) Hsome) as Hp. rewrite Hrev in *.
    destruct (pop (m_keys s) false (m_heap s)) as [[x h']|].
    - right. destruct Hp as [Hperm Hmin].
      assert (Hxin : In x (m_heap s)) by (eapply Permutation_in; [apply Permutation_sym; exact Hperm|left; reflexivity]).
      apply Hheap in Hxin as (Hxn & _ & kx & Hkx).
      destruct (nth_error_lt_some ls x Hxn) as [lx Hlx].
      pose proof Hc as (_ & _ & _ & Hkeys). rewrite (Hkeys x lx Hlx) in Hkx.
      destruct (cobs lx (qs x)) as [e|] eqn:Ee; [|discriminate]. cbn in Hkx. injection Hkx as <-.
      pose proof (Hpos x lx Hlx) as Px. unfold pos_least in Px. rewrite Ee in Px. destruct Px as (Hein & HBe & Hemin).
      assert (HeM : In e M) by (apply HMin; eauto).
      (* e is below every valid child's pair *)
      assert (Hbelow : forall j l xj, nth_error ls j = Some l -> cobs l (qs j) = Some xj -> kle e xj).
      { intros j l xj Hl Hxj.
        assert (Hj : In j (m_heap s)).
        { apply Hheap. split; [eapply ls_lt; eauto|]. split; [discriminate|].
          exists (fst xj). rewrite (Hkeys j l Hl), Hxj. reflexivity. }
        specialize (Hmin j Hj).
        apply (f_not_lt_le kcmp ok). eapply (heap_less_fwd (m_keys s) (fst xj) (fst e) j x); [| |exact Hmin].
        - rewrite (keys_nth s qs j l Hc Hl), Hxj. reflexivity.
        - rewrite (keys_nth s qs x lx Hc Hlx), Ee. reflexivity. }
      eexists _, e. split; [reflexivity|]. split; [reflexivity|]. split.
      + exists qs, x, lx. split; [exact I|]. split; [reflexivity|]. split; [exact Hc|].
        split; [reflexivity|]. split; [exact Hlx|]. split; [|split; [exact Ee|]].
        { assert (Hnd' : NoDup (x :: h')) by (eapply Permutation_NoDup; eauto).
          split; [inversion Hnd'; assumption|]. intros j. cbn [m_heap m_keys]. split.
          - intros Hj. assert (Hj' : In j (m_heap s)) by (eapply Permutation_in; [apply Permutation_sym; exact Hperm|right; exact Hj]).
            apply Hheap in Hj' as (H1 & _ & H3). split; [exact H1|]. split; [|exact H3].
            intros E. injection E as ->. inversion Hnd'; subst. contradiction.
          - intros (Hjn & Hjx & Hk). assert (Hj' : In j (m_heap s)) by (apply Hheap; split; [exact Hjn|split; [discriminate|exact Hk]]).
            eapply Permutation_in in Hj'; [|exact Hperm]. destruct Hj' as [->|Hj']; [congruence|exact Hj']. }
        intros j l Hl Hne. pose proof (Hpos j l Hl) as Pj. unfold pos_least in *.
          destruct (cobs l (qs j)) as [xj|] eqn:Exj.
          -- destruct Pj as (Hxjin & HBxj & Hxjmin). split; [exact Hxjin|]. split.
             ++ destruct (klt_total e xj) as [H|[H|H]]; [exact H| |].
                ** exfalso. apply Hne. symmetry. eapply (Hdisj x j lx l e xj); eauto.
                ** exfalso. apply (Hbelow j l xj Hl Exj). apply (f_lt_gt kcmp ok). exact H.
             ++ intros y Hy Hey. apply Hxjmin; [exact Hy|]. apply (Hup e y HBe Hey).
          -- intros y Hy Hey. apply (Pj y Hy). apply (Hup e y HBe Hey).
      + split; [exact HeM|]. split; [exact HBe|].
        intros y Hy HBy. apply HMin in Hy as (j & l & Hl & Hyl).
        pose proof (Hpos j l Hl) as Pj. unfold pos_least in Pj.
        destruct (cobs l (qs j)) as [xj|] eqn:Exj.
        * destruct Pj as (_ & _ & Hxjmin). eapply (f_le_trans kcmp ok); [eapply Hbelow; eauto|apply Hxjmin; auto].
        * exfalso. apply (Pj y Hyl HBy).
    - left. subst. eexists. split; [reflexivity|]. cbn. split; [reflexivity|]. split; [exact Hc|].
      intros y Hy HBy. apply HMin in Hy as (j & l & Hl & Hyl).
      pose proof (Hpos j l Hl) as Pj. unfold pos_least in Pj.
      destruct (cobs l (qs j)) as [xj|] eqn:Exj; [|apply (Pj y Hyl HBy)].
      assert (Hj : In j (m_heap s)).
      { apply Hheap. split; [eapply ls_lt; eauto|]. split; [discriminate|].
        pose proof Hc as (_ & _ & _ & Hkeys). exists (fst xj). rewrite (Hkeys j l Hl), Exj. reflexivity. }
      rewrite Hp in Hj. destruct Hj.
  Qed.

  (* prev(): mirror image *)
  Lemma land_backward s qs (B : kv -> Prop) : children_ok s qs -> heap_ok s None -> m_rev s = true ->
    down_closed B -> (forall j l, nth_error ls j = Some l -> pos_greatest B l (qs j)) ->
    (exists s1, m_prev_ s = (s1, false) /\ m_dir s1 = DirSOI /\ children_ok s1 qs /\ forall y, In y M -> ~ B y) \/
    (exists s1 e, m_prev_ s = (s1, true) /\ m_dir s1 = DirBackward /\ BwdInv s1 e /\ In e M /\ B e /\ forall y, In y M -> B y -> kle y e).
  Proof.
    intros Hc [Hnd Hheap] Hrev Hup Hpos. unfold Merged.m_prev_.
    assert (Hsome : forall y, In y (m_heap s) -> nth y (m_keys s) None <> None).
    { intros y Hy. apply Hheap in Hy as (_ & _ & k & Hk). rewrite (nth_error_nth_default _ _ None _ Hk). discriminate. }
    pose proof (Hpop (m_keys s) (m_rev s) (m_heap s) Hsome) as Hp. rewrite Hrev in *.
    destruct (pop (m_keys s) true (m_heap s)) as [[x h']|].
    - right. destruct Hp as [Hperm Hmin].
      assert (Hxin : In x (m_heap s)) by (eapply Permutation_in; [apply Permutation_sym; exact Hperm|left; reflexivity]).
      apply Hheap in Hxin as (Hxn & _ & kx & Hkx).
      destruct (nth_error_lt_some ls x Hxn) as [lx Hlx].
      pose proof Hc as (_ & _ & _ & Hkeys). rewrite (Hkeys x lx Hlx) in Hkx.
      destruct (cobs lx (qs x)) as [e|] eqn:Ee; [|discriminate]. cbn in Hkx. injection Hkx as <-.
      pose proof (Hpos x lx Hlx) as Px. unfold pos_greatest in Px. rewrite Ee in Px. destruct Px as (Hein & HBe & Hemin).
      assert (HeM : In e M) by (apply HMin; eauto).
      assert (Habove : forall j l xj, nth_error ls j = Some l -> cobs l (qs j) = Some xj -> kle xj e).
      { intros j l xj Hl Hxj.
        assert (Hj : In j (m_heap s)).
        { apply Hheap. split; [eapply ls_lt; eauto|]. split; [discriminate|].
          exists (fst xj). rewrite (Hkeys j l Hl), Hxj. reflexivity. }
        specialize (Hmin j Hj).
        eapply (heap_less_bwd (m_keys s) (fst xj) (fst e) j x); [| |exact Hmin].
        - rewrite (keys_nth s qs j l Hc Hl), Hxj. reflexivity.
        - rewrite (keys_nth s qs x lx Hc Hlx), Ee. reflexivity. }
      eexists _, e. split; [reflexivity|]. split; [reflexivity|]. split.
      + exists qs, x, lx. split; [exact I|]. split; [reflexivity|]. split; [exact Hc|].
        split; [reflexivity|]. split; [exact Hlx|]. split; [|split; [exact Ee|]].
        { assert (Hnd' : NoDup (x :: h')) by (eapply Permutation_NoDup; eauto).
          split; [inversion Hnd'; assumption|]. intros j. cbn [m_heap m_keys]. split.
          - intros Hj. assert (Hj' : In j (m_heap s)) by (eapply Permutation_in; [apply Permutation_sym; exact Hperm|right; exact Hj]).
            apply Hheap in Hj' as (H1 & _ & H3). split; [exact H1|]. split; [|exact H3].
            intros E. injection E as ->. inversion Hnd'; subst. contradiction.
          - intros (Hjn & Hjx & Hk). assert (Hj' : In j (m_heap s)) by (apply Hheap; split; [exact Hjn|split; [discriminate|exact Hk]]).
            eapply Permutation_in in Hj'; [|exact Hperm]. destruct Hj' as [->|Hj']; [congruence|exact Hj']. }
        intros j l Hl Hne. pose proof (Hpos j l Hl) as Pj. unfold pos_greatest in *.
          destruct (cobs l (qs j)) as [xj|] eqn:Exj.
          -- destruct Pj as (Hxjin & HBxj & Hxjmin). split; [exact Hxjin|]. split.
             ++ destruct (klt_total xj e) as [H|[H|H]]; [exact H| |].
                ** exfalso. apply Hne. eapply (Hdisj j x l lx xj e); eauto.
                ** exfalso. apply (Habove j l xj Hl Exj). apply (f_lt_gt kcmp ok). exact H.
             ++ intros y Hy Hey. apply Hxjmin; [exact Hy|]. apply (Hup e y HBe Hey).
          -- intros y Hy Hey. apply (Pj y Hy). apply (Hup e y HBe Hey).
      + split; [exact HeM|]. split; [exact HBe|].
        intros y Hy HBy. apply HMin in Hy as (j & l & Hl & Hyl).
        pose proof (Hpos j l Hl) as Pj. unfold pos_greatest in Pj.
        destruct (cobs l (qs j)) as [xj|] eqn:Exj.
        * destruct Pj as (_ & _ & Hxjmin). eapply (f_le_trans kcmp ok); [apply Hxjmin; auto|eapply Habove; eauto].
        * exfalso. apply (Pj y Hyl HBy).
    - left. subst. eexists. split; [reflexivity|]. cbn. split; [reflexivity|]. split; [exact Hc|].
      intros y Hy HBy. apply HMin in Hy as (j & l & Hl & Hyl).
      pose proof (Hpos j l Hl) as Pj. unfold pos_greatest in Pj.
      destruct (cobs l (qs j)) as [xj|] eqn:Exj; [|apply (Pj y Hyl HBy)].
      assert (Hj : In j (m_heap s)).
      { apply Hheap. split; [eapply ls_lt; eauto|]. split; [discriminate|].
        pose proof Hc as (_ & _ & _ & Hkeys). exists (fst xj). rewrite (Hkeys j l Hl), Exj. reflexivity. }
      rewrite Hp in Hj. destruct Hj.
  Qed.

  (* ================= the state transformers ================= *)
  Notation lj j := (nth j ls []).

  Lemma ls_nth j l : nth_error ls j = Some l -> lj j = l.
  Proof. apply nth_error_nth_default. Qed.

  Lemma child_exists s qs j l : children_ok s qs -> nth_error ls j = Some l ->
    exists c, nth_error (m_iters s) j = Some c /\ child_at c l (qs j).
  Proof.
    intros (Hi & _ & Hch & _) Hl. destruct (nth_error_lt_some (m_iters s) j) as [c Hc].
    - rewrite Hi. eapply ls_lt; eauto.
    - exists c. split; [exact Hc|]. eapply Hch; eauto.
  Qed.

  (* First / Last / Seek: every child makes the same absolute move *)
  Lemma reposition_ok s qs m rev d : children_ok s qs ->
    let s' := reposition K V C chstep chobs s m rev d in
    children_ok s' (fun j => cstep kcmp (lj j) (qs j) m) /\ heap_ok s' None /\ m_rev s' = rev /\ m_dir s' = d.
  Proof.
    intros Hc s'. pose proof Hc as (Hi & Hk & Hch & Hkeys).
    assert (Hc' : children_ok s' (fun j => cstep kcmp (lj j) (qs j) m)).
    { unfold children_ok, s'. cbn [reposition m_iters m_keys]. rewrite !map_length.
      split; [exact Hi|]. split; [exact Hi|]. split.
      - intros j c l Hj Hl. rewrite nth_error_map in Hj.
        destruct (nth_error (m_iters s) j) as [c0|] eqn:E; [|discriminate]. injection Hj as <-.
        rewrite (ls_nth j l Hl). apply refines_from_step. eapply Hch; eauto.
      - intros j l Hl. destruct (child_exists s qs j l Hc Hl) as (c0 & Hc0 & Hat).
        rewrite !nth_error_map, Hc0. cbn [option_map]. f_equal. unfold key_of.
        rewrite (ls_nth j l Hl). f_equal.
        apply (refines_from_obs kcmp chstep chobs). apply refines_from_step. exact Hat. }
    split; [exact Hc'|]. split; [|split; reflexivity].
    unfold heap_ok, s'. cbn [reposition m_heap m_keys]. split; [apply pushed_nodup|].
    intros j. rewrite pushed_in, Nat.sub_0_r. split.
    - intros (_ & k & Hkj). split; [|split; [discriminate|eauto]].
      apply nth_error_some_lt in Hkj. rewrite !map_length in Hkj. lia.
    - intros (_ & _ & Hkj). split; [lia|exact Hkj].
  Qed.

  (* the tail of Next / Prev: the current child makes one relative move and is pushed back *)
  Lemma step_current_ok s qs c lc m : children_ok s qs -> m_index s = c -> nth_error ls c = Some lc ->
    heap_ok s (Some c) ->
    exists s', step_current K V C chstep chobs s m = Some s' /\
      children_ok s' (fun j => if Nat.eqb j c then cstep kcmp lc (qs c) m else qs j) /\
      heap_ok s' None /\ m_rev s' = m_rev s /\ m_dir s' = m_dir s.
  Proof.
    intros Hc Hidx Hlc [Hnd Hheap]. pose proof Hc as (Hi & Hk & Hch & Hkeys).
    destruct (child_exists s qs c lc Hc Hlc) as (c0 & Hc0 & Hat).
    unfold step_current. rewrite Hidx, Hc0. eexists. split; [reflexivity|].
    assert (Hcn : c < n) by (eapply ls_lt; eauto).
    assert (Hobs : key_of K V C chobs (chstep c0 m) = option_map fst (cobs lc (cstep kcmp lc (qs c) m))).
    { unfold key_of. f_equal. apply (refines_from_obs kcmp chstep chobs). apply refines_from_step. exact Hat. }
    split; [|split; [|split; reflexivity]].
    - unfold children_ok. cbn [m_iters m_keys]. rewrite !upd_length.
      split; [exact Hi|]. split; [exact Hk|]. split.
      + intros j c1 l Hj Hl. destruct (Nat.eqb_spec j c) as [Ejc|Hne]; [subst j|].
        * rewrite nth_error_upd_eq in Hj by lia. injection Hj as <-.
          assert (l = lc) by congruence. subst. apply refines_from_step. exact Hat.
        * rewrite nth_error_upd_neq in Hj by congruence. eapply Hch; eauto.
      + intros j l Hl. destruct (Nat.eqb_spec j c) as [Ejc|Hne]; [subst j|].
        * rewrite nth_error_upd_eq by lia. assert (l = lc) by congruence. subst. f_equal. exact Hobs.
        * rewrite nth_error_upd_neq by congruence. apply Hkeys. exact Hl.
    - unfold heap_ok. cbn [m_heap m_keys].
      assert (Hnotin : ~ In c (m_heap s)).
      { intros H. apply Hheap in H as (_ & H & _). congruence. }
      split.
      + destruct (key_of K V C chobs (chstep c0 m)); [constructor; assumption|exact Hnd].
      + intros j. destruct (Nat.eq_dec j c) as [Ejc|Hne]; [subst j|].
        * rewrite nth_error_upd_eq by lia.
          destruct (key_of K V C chobs (chstep c0 m)) as [k|].
          -- split; [intros _; split; [exact Hcn|split; [discriminate|eauto]]|intros _; left; reflexivity].
          -- split; [intros H; contradiction|intros (_ & _ & k & H); discriminate].
        * rewrite nth_error_upd_neq by congruence.
          assert (Hiff : In j (m_heap s) <-> j < n /\ Some j <> None /\ (exists k, nth_error (m_keys s) j = Some (Some k))).
          { rewrite Hheap. split; intros (H1 & H2 & H3); (split; [exact H1|split; [|exact H3]]); congruence. }
          destruct (key_of K V C chobs (chstep c0 m)); [|exact Hiff].
          cbn [In]. rewrite Hiff. split; [intros [H|H]; [congruence|exact H]|intros H; right; exact H].
  Qed.

  (* Prev() in dirForward: every other child goes to its last pair below the current key *)
  Definition others_pos (qs : nat -> pos) (c : nat) (key : K) (j : nat) : pos :=
    if Nat.eqb j c then qs c
    else let q1 := find_ge kcmp key (lj j) 0 in
         if is_some (cobs (lj j) q1) then cstep kcmp (lj j) q1 MPrev else clast (lj j).

  Lemma reposition_others_ok s qs c lc key : children_ok s qs -> m_index s = c -> nth_error ls c = Some lc ->
    let s' := reposition_others K V C chstep chobs s key in
    children_ok s' (others_pos qs c key) /\ heap_ok s' (Some c) /\ m_rev s' = true /\ m_dir s' = m_dir s /\
    m_index s' = c.
  Proof.
    intros Hc Hidx Hlc s'. pose proof Hc as (Hi & Hk & Hch & Hkeys).
    assert (Hcn : c < n) by (eapply ls_lt; eauto).
    assert (Hits : forall j c1 l, nth_error (m_iters s') j = Some c1 -> nth_error ls j = Some l ->
              child_at c1 l (others_pos qs c key j)).
    { intros j c1 l Hj Hl. unfold s', reposition_others in Hj. cbn [m_iters] in Hj.
      rewrite nth_error_mapi_from in Hj. cbn [plus] in Hj. rewrite Hidx in Hj.
      destruct (nth_error (m_iters s) j) as [c0|] eqn:E; [|discriminate]. cbn [option_map] in Hj. injection Hj as <-.
      pose proof (Hch j c0 l E Hl) as Hat. unfold others_pos. rewrite (ls_nth j l Hl).
      destruct (Nat.eqb j c) eqn:Ejc.
      - apply Nat.eqb_eq in Ejc. subst j. exact Hat.
      - pose proof (refines_from_step kcmp chstep chobs _ _ _ (MSeek key) Hat) as H1. cbn [cstep] in H1.
        rewrite (refines_from_obs kcmp chstep chobs _ _ _ H1).
        destruct (is_some (cobs l (find_ge kcmp key l 0))).
        + apply refines_from_step. exact H1.
        + apply (refines_from_step kcmp chstep chobs _ _ _ MLast H1). }
    assert (Hc' : children_ok s' (others_pos qs c key)).
    { unfold children_ok. split; [|split; [|split; [exact Hits|]]].
      - unfold s', reposition_others. cbn [m_iters]. rewrite mapi_from_length. exact Hi.
      - unfold s', reposition_others. cbn [m_keys]. rewrite !mapi_from_length. exact Hi.
      - intros j l Hl.
        assert (Hjn : j < n) by (eapply ls_lt; eauto).
        destruct (nth_error_lt_some (m_iters s') j) as [c1 Hc1].
        { unfold s', reposition_others. cbn [m_iters]. rewrite mapi_from_length. lia. }
        pose proof (Hits j c1 l Hc1 Hl) as Hat.
        unfold s', reposition_others in Hc1 |- *. cbn [m_iters m_keys] in Hc1 |- *.
        rewrite nth_error_mapi_from, Hc1. cbn [plus option_map]. f_equal. rewrite Hidx.
        destruct (Nat.eqb j c) eqn:Ejc.
        + apply Nat.eqb_eq in Ejc. subst j. assert (l = lc) by congruence. subst l.
          rewrite (keys_nth s qs c lc Hc Hlc). unfold others_pos. rewrite Nat.eqb_refl. reflexivity.
        + unfold key_of. f_equal. apply (refines_from_obs kcmp chstep chobs). exact Hat. }
    split; [exact Hc'|]. split; [|split; [reflexivity|split; [reflexivity|exact Hidx]]].
    unfold heap_ok, s', reposition_others. cbn [m_heap m_keys]. rewrite Hidx. split.
    - apply NoDup_filter. apply pushed_nodup.
    - intros j. rewrite filter_In, pushed_in, Nat.sub_0_r. split.
      + intros ((_ & k & Hkj) & Hne). apply Bool.negb_true_iff, Nat.eqb_neq in Hne.
        split; [|split; [congruence|eauto]].
        apply nth_error_some_lt in Hkj. rewrite !mapi_from_length in Hkj. lia.
      + intros (_ & Hne & Hkj). split; [split; [lia|exact Hkj]|].
        apply Bool.negb_true_iff, Nat.eqb_neq. congruence.
  Qed.

  (* ================= the simulation relation and the five calls ================= *)
  Definition R (s : st) (sp : pos) : Prop :=
    match m_dir s with
    | DirSOI => sp = SOI /\ exists qs, children_ok s qs
    | DirEOI => sp = EOI /\ exists qs, children_ok s qs
    | DirForward => exists e i, FwdInv s e /\ sp = At i /\ nth_error M i = Some e
    | DirBackward => exists e i, BwdInv s e /\ sp = At i /\ nth_error M i = Some e
    end.

  Notation m_kv := (m_kv K V C chobs).
  Notation step_ok r sp' := (exists s' ret, r = Some (s', ret) /\ ret = m_valid K C s' /\ R s' sp').

  Lemma R_children s sp : R s sp -> exists qs, children_ok s qs.
  Proof.
    unfold R. destruct (m_dir s).
    - intros [_ H]. exact H.
    - intros [_ H]. exact H.
    - intros (e & i & (qs & c & lc & _ & _ & H & _) & _). eauto.
    - intros (e & i & (qs & c & lc & _ & _ & H & _) & _). eauto.
  Qed.

  Lemma cobs_at (l : list kv) q e : cobs l q = Some e -> exists i, q = At i /\ nth_error l i = Some e.
  Proof. destruct q; cbn; try discriminate. eauto. Qed.

  Lemma R_obs s sp : R s sp -> m_kv s = cobs M sp.
  Proof.
    unfold R, Merged.m_kv. destruct (m_dir s).
    - intros [-> _]. reflexivity.
    - intros [-> _]. reflexivity.
    - intros (e & i & (qs & c & lc & _ & _ & Hc & Hidx & Hlc & _ & He & _) & -> & HM). cbn [cobs]. rewrite HM, Hidx.
      rewrite (keys_nth s qs c lc Hc Hlc), He. cbn [option_map].
      destruct (child_exists s qs c lc Hc Hlc) as (c0 & Hc0 & Hat). rewrite Hc0.
      rewrite (refines_from_obs kcmp chstep chobs _ _ _ Hat), He. destruct e; reflexivity.
    - intros (e & i & (qs & c & lc & _ & _ & Hc & Hidx & Hlc & _ & He & _) & -> & HM). cbn [cobs]. rewrite HM, Hidx.
      rewrite (keys_nth s qs c lc Hc Hlc), He. cbn [option_map].
      destruct (child_exists s qs c lc Hc Hlc) as (c0 & Hc0 & Hat). rewrite Hc0.
      rewrite (refines_from_obs kcmp chstep chobs _ _ _ Hat), He. destruct e; reflexivity.
  Qed.

  Lemma R_valid s sp : R s sp -> m_valid K C s = is_some (cobs M sp).
  Proof.
    unfold R, m_valid. destruct (m_dir s).
    - intros [-> _]. reflexivity.
    - intros [-> _]. reflexivity.
    - intros (e & i & _ & -> & HM). cbn [cobs]. rewrite HM. reflexivity.
    - intros (e & i & _ & -> & HM). cbn [cobs]. rewrite HM. reflexivity.
  Qed.

  Lemma M_index_unique i j a b : nth_error M i = Some a -> nth_error M j = Some b -> fst a = fst b -> i = j.
  Proof. apply (sorted_nth_key_inj kcmp ok M HMs). Qed.

  (* --- First --- *)
  Lemma step_first s sp : R s sp -> step_ok (Some (m_first K V C chstep chobs pop s)) (cfirst M).
  Proof.
    intros HR. destruct (R_children s sp HR) as [qs Hc]. unfold m_first.
    destruct (reposition_ok s qs MFirst false DirSOI Hc) as (Hc' & Hh & Hrev & _).
    destruct (land_forward _ _ (fun _ => True) Hc' Hh Hrev) as [(s1 & Hr & Hd & Hc1 & Hnone)|(s1 & e & Hr & Hd & Hinv & HeM & _ & Hmin)].
    - intros x y _ _. exact I.
    - intros j l Hl. cbn [cstep]. rewrite (ls_nth j l Hl). apply pos_least_first. eapply Hls; eauto.
    - exists s1, false. split; [rewrite Hr; reflexivity|]. split; [unfold m_valid; rewrite Hd; reflexivity|].
      unfold R. rewrite Hd. destruct M as [|y M']; [split; [reflexivity|eauto]|].
      exfalso. apply (Hnone y); [left; reflexivity|exact I].
    - exists s1, true. split; [rewrite Hr; reflexivity|]. split; [unfold m_valid; rewrite Hd; reflexivity|].
      unfold R. rewrite Hd. apply In_nth_error in HeM as [i Hi].
      assert (i = 0).
      { eapply (first_char_zero kcmp); [exact HMs|exact Hi|]. intros y Hy Hlt.
        apply (Hmin y Hy I). apply (f_lt_gt kcmp ok). exact Hlt. }
      subst i. exists e, 0. split; [exact Hinv|]. split; [|exact Hi]. destruct M; [discriminate|reflexivity].
  Qed.

  (* --- Seek --- *)
  Lemma step_seek s sp k : R s sp -> step_ok (Some (m_seek K V C chstep chobs pop s k)) (find_ge kcmp k M 0).
  Proof.
    intros HR. destruct (R_children s sp HR) as [qs Hc]. unfold m_seek.
    destruct (reposition_ok s qs (MSeek k) false DirSOI Hc) as (Hc' & Hh & Hrev & _).
    destruct (land_forward _ _ (fun y => kcmp (fst y) k <> Lt) Hc' Hh Hrev) as [(s1 & Hr & Hd & Hc1 & Hnone)|(s1 & e & Hr & Hd & Hinv & HeM & HBe & Hmin)].
    - intros x y Hx Hxy Hy. apply Hx. eapply (o_trans kcmp ok); eauto.
    - intros j l Hl. cbn [cstep]. rewrite (ls_nth j l Hl). apply pos_least_seek. eapply Hls; eauto.
    - exists s1, false. split; [rewrite Hr; reflexivity|]. split; [unfold m_valid; rewrite Hd; reflexivity|].
      unfold R. rewrite Hd. rewrite (seek_char_eoi kcmp); [split; [reflexivity|eauto]|].
      intros y Hy. destruct (kcmp (fst y) k) eqn:E; auto; exfalso; apply (Hnone y Hy); congruence.
    - exists s1, true. split; [rewrite Hr; reflexivity|]. split; [unfold m_valid; rewrite Hd; reflexivity|].
      unfold R. rewrite Hd.
      destruct (seek_char kcmp ok M k e HMs HeM HBe) as (j & Hj & Hej).
      { intros y Hy Hyge. apply Hmin; assumption. }
      rewrite Hj. exists e, j. auto.
  Qed.

  (* --- Last --- *)
  Lemma step_last s sp : R s sp -> step_ok (Some (m_last K V C chstep chobs pop s)) (clast M).
  Proof.
    intros HR. destruct (R_children s sp HR) as [qs Hc]. unfold m_last.
    destruct (reposition_ok s qs MLast true DirEOI Hc) as (Hc' & Hh & Hrev & _).
    destruct (land_backward _ _ (fun _ => True) Hc' Hh Hrev) as [(s1 & Hr & Hd & Hc1 & Hnone)|(s1 & e & Hr & Hd & Hinv & HeM & _ & Hmax)].
    - intros x y _ _. exact I.
    - intros j l Hl. cbn [cstep]. rewrite (ls_nth j l Hl). apply pos_greatest_last. eapply Hls; eauto.
    - exists s1, false. split; [rewrite Hr; reflexivity|]. split; [unfold m_valid; rewrite Hd; reflexivity|].
      unfold R. rewrite Hd. destruct M as [|y M']; [split; [reflexivity|eauto]|].
      exfalso. apply (Hnone y); [left; reflexivity|exact I].
    - exists s1, true. split; [rewrite Hr; reflexivity|]. split; [unfold m_valid; rewrite Hd; reflexivity|].
      unfold R. rewrite Hd. apply In_nth_error in HeM as [i Hi].
      assert (S i = length M).
      { eapply (last_char kcmp); [exact HMs|exact Hi|]. intros y Hy Hlt.
        apply (Hmax y Hy I). apply (f_lt_gt kcmp ok). exact Hlt. }
      exists e, i. split; [exact Hinv|]. split; [|exact Hi]. unfold clast. rewrite <- H. reflexivity.
  Qed.

  (* --- the forward step from a forward state (tail of Next) --- *)
  Lemma next_fwd_ok s e i : FwdInv s e -> nth_error M i = Some e ->
    step_ok (m_next_fwd K V C chstep chobs pop s) (cstep kcmp M (At i) MNext).
  Proof.
    intros (qs & c & lc & _ & Hrev & Hc & Hidx & Hlc & Hheap & He & Hothers) HM.
    destruct (step_current_ok s qs c lc MNext Hc Hidx Hlc Hheap) as (s2 & Hs2 & Hc2 & Hh2 & Hrev2 & _).
    unfold m_next_fwd. rewrite Hs2.
    destruct (cobs_at lc (qs c) e He) as (ic & Hqc & Hic).
    assert (Hlcs : sorted_kv kcmp lc) by (eapply Hls; eauto).
    destruct (land_forward _ _ (fun y => klt e y) Hc2 Hh2) as [(s1 & Hr & Hd & Hc1 & Hnone)|(s1 & e' & Hr & Hd & Hinv & HeM & HBe & Hmin)].
    - congruence.
    - intros x y Hx Hxy. eapply (o_trans kcmp ok); eauto.
    - intros j l Hl. destruct (Nat.eqb_spec j c) as [Ejc|Hne].
      + subst j. assert (l = lc) by congruence. subst l. rewrite Hqc. apply pos_least_next; assumption.
      + apply Hothers; assumption.
    - exists s1, false. split; [rewrite Hr; reflexivity|]. split; [unfold m_valid; rewrite Hd; reflexivity|].
      unfold R. rewrite Hd. rewrite cstep_next_ge; [split; [reflexivity|eauto]|].
      rewrite <- (last_char kcmp M i e HMs HM Hnone). lia.
    - exists s1, true. split; [rewrite Hr; reflexivity|]. split; [unfold m_valid; rewrite Hd; reflexivity|].
      unfold R. rewrite Hd.
      pose proof (succ_char kcmp ok M i e e' HMs HM HeM HBe Hmin) as Hsucc.
      rewrite cstep_next_lt by (eapply nth_error_some_lt; eauto).
      exists e', (S i). auto.
  Qed.

  Lemma prev_bwd_ok s e i : BwdInv s e -> nth_error M i = Some e ->
    step_ok (m_prev_bwd K V C chstep chobs pop s) (cstep kcmp M (At i) MPrev).
  Proof.
    intros (qs & c & lc & _ & Hrev & Hc & Hidx & Hlc & Hheap & He & Hothers) HM.
    destruct (step_current_ok s qs c lc MPrev Hc Hidx Hlc Hheap) as (s2 & Hs2 & Hc2 & Hh2 & Hrev2 & _).
    unfold m_prev_bwd. rewrite Hs2.
    destruct (cobs_at lc (qs c) e He) as (ic & Hqc & Hic).
    assert (Hlcs : sorted_kv kcmp lc) by (eapply Hls; eauto).
    destruct (land_backward _ _ (fun y => klt y e) Hc2 Hh2) as [(s1 & Hr & Hd & Hc1 & Hnone)|(s1 & e' & Hr & Hd & Hinv & HeM & HBe & Hmax)].
    - congruence.
    - intros x y Hx Hxy. eapply (o_trans kcmp ok); eauto.
    - intros j l Hl. destruct (Nat.eqb_spec j c) as [Ejc|Hne].
      + subst j. assert (l = lc) by congruence. subst l. rewrite Hqc. apply pos_greatest_prev; assumption.
      + apply Hothers; assumption.
    - exists s1, false. split; [rewrite Hr; reflexivity|]. split; [unfold m_valid; rewrite Hd; reflexivity|].
      unfold R. rewrite Hd.
      assert (i = 0) by (apply (first_char_zero kcmp M i e HMs HM); intros y Hy; apply (Hnone y Hy)). subst i. cbn [cstep]. split; [reflexivity|eauto].
    - exists s1, true. split; [rewrite Hr; reflexivity|]. split; [unfold m_valid; rewrite Hd; reflexivity|].
      unfold R. rewrite Hd.
      destruct i as [|i'].
      + exfalso. apply In_nth_error in HeM as [j Hj].
        pose proof (sorted_lt_index kcmp ok M HMs j 0 e' e Hj HM HBe). lia.
      + pose proof (pred_char kcmp ok M i' e e' HMs HM HeM HBe Hmax) as Hpred. cbn [cstep].
        exists e', i'. auto.
  Qed.

  Lemma m_seek_dir s k : m_dir (fst (m_seek K V C chstep chobs pop s k)) <> DirBackward.
  Proof.
    unfold m_seek, Merged.m_next_. destruct (pop _ _ _) as [[x h]|]; cbn; discriminate.
  Qed.

  (* --- Next --- *)
  Lemma step_next s sp : R s sp -> step_ok (m_Next K V C chstep chobs pop s) (cstep kcmp M sp MNext).
  Proof.
    intros HR. unfold m_Next. pose proof HR as HR0. unfold R in HR. destruct (m_dir s) eqn:Ed.
    - destruct HR as [-> _]. cbn [cstep]. apply (step_first s SOI HR0).
    - destruct HR as [-> Hq]. exists s, false. split; [reflexivity|].
      split; [unfold m_valid; rewrite Ed; reflexivity|]. exact HR0.
    - (* dirBackward: Seek(current key), then the forward step *)
      destruct HR as (e & i & Hinv & -> & HM).
      pose proof Hinv as (qs & c & lc & _ & Hrev & Hc & Hidx & Hlc & Hheap & He & Hothers).
      rewrite Hidx, (keys_nth s qs c lc Hc Hlc), He. cbn [option_map].
      destruct (step_seek s (At i) (fst e) HR0) as (s1 & ret & Hr & Hret & HR1).
      injection Hr as Hr. rewrite Hr.
      (* the seek lands on e itself *)
      assert (HeM : In e M) by (eapply nth_error_In; eauto).
      destruct (seek_char kcmp ok M (fst e) e HMs HeM) as (j & Hj & Hej).
      { rewrite (f_refl kcmp ok). discriminate. }
      { intros y Hy Hge. apply (f_not_lt_le kcmp ok). exact Hge. }
      assert (j = i) by (eapply M_index_unique; eauto). subst j. rewrite Hj in HR1.
      unfold R in HR1. destruct (m_dir s1) eqn:Ed1; try (destruct HR1 as [HR1 _]; discriminate).
      + exfalso. apply (m_seek_dir s (fst e)). rewrite Hr. exact Ed1.
      + destruct HR1 as (e1 & i1 & Hinv1 & Hi1 & HM1). injection Hi1 as <-.
        assert (e1 = e) by congruence. subst e1.
        assert (Hrt : ret = true) by (rewrite Hret; unfold m_valid; rewrite Ed1; reflexivity). rewrite Hrt.
        apply (next_fwd_ok s1 e i Hinv1 HM).
    - destruct HR as (e & i & Hinv & -> & HM). apply (next_fwd_ok s e i Hinv HM).
  Qed.

  (* --- Prev --- *)
  Lemma step_prev s sp : R s sp -> step_ok (m_Prev K V C chstep chobs pop s) (cstep kcmp M sp MPrev).
  Proof.
    intros HR. unfold m_Prev. pose proof HR as HR0. unfold R in HR. destruct (m_dir s) eqn:Ed.
    - destruct HR as [-> Hq]. exists s, false. split; [reflexivity|].
      split; [unfold m_valid; rewrite Ed; reflexivity|]. exact HR0.
    - destruct HR as [-> _]. cbn [cstep]. apply (step_last s EOI HR0).
    - destruct HR as (e & i & Hinv & -> & HM). apply (prev_bwd_ok s e i Hinv HM).
    - (* dirForward: re-position the other children below the current key, then the backward step *)
      destruct HR as (e & i & Hinv & -> & HM).
      pose proof Hinv as (qs & c & lc & _ & Hrev & Hc & Hidx & Hlc & Hheap & He & Hothers).
      rewrite Hidx, (keys_nth s qs c lc Hc Hlc), He. cbn [option_map].
      destruct (reposition_others_ok s qs c lc (fst e) Hc Hidx Hlc) as (Hc' & Hh' & Hrev' & _ & Hidx').
      apply (prev_bwd_ok _ e i); [|exact HM].
      exists (others_pos qs c (fst e)), c, lc. split; [exact I|]. split; [exact Hrev'|]. split; [exact Hc'|].
      split; [exact Hidx'|]. split; [exact Hlc|]. split; [exact Hh'|]. split.
      + unfold others_pos. rewrite Nat.eqb_refl. exact He.
      + intros j l Hl Hne. unfold others_pos. apply Nat.eqb_neq in Hne. rewrite Hne, (ls_nth j l Hl).
        apply pos_greatest_seek_prev. eapply Hls; eauto.
  Qed.

  Theorem merged_sim s sp m : R s sp ->
    exists s' ret, m_step K V C chstep chobs pop s m = Some (s', ret) /\ R s' (cstep kcmp M sp m) /\
                   (ret, m_kv s') = out_of (cobs M (cstep kcmp M sp m)).
  Proof.
    intros HR.
    assert (H : step_ok (m_step K V C chstep chobs pop s m) (cstep kcmp M sp m)).
    { destruct m; cbn [m_step cstep].
      - apply (step_first s sp HR).
      - apply (step_last s sp HR).
      - apply (step_seek s sp k HR).
      - apply (step_next s sp HR).
      - apply (step_prev s sp HR). }
    destruct H as (s' & ret & Hr & Hret & HR'). exists s', ret. split; [exact Hr|]. split; [exact HR'|].
    unfold out_of. rewrite Hret, (R_obs s' _ HR'), (R_valid s' _ HR'). reflexivity.
  Qed.

  Lemma merged_run_from s sp ms : R s sp ->
    m_run K V C chstep chobs pop s ms = Some (run_from kcmp M sp ms).
  Proof.
    revert s sp. induction ms as [|m ms IH]; intros s sp HR; cbn [m_run run_from]; [reflexivity|].
    destruct (merged_sim s sp m HR) as (s' & ret & Hr & HR' & Hout).
    rewrite Hr, (IH s' _ HR'), Hout. reflexivity.
  Qed.

  Lemma R_init its : length its = n ->
    (forall j c l, nth_error its j = Some c -> nth_error ls j = Some l -> refines kcmp chstep chobs c l) ->
    R (m_init its) SOI.
  Proof.
    intros Hlen Href. unfold R. cbn. split; [reflexivity|]. exists (fun _ => SOI).
    unfold children_ok. cbn. rewrite map_length. split; [exact Hlen|]. split; [exact Hlen|]. split.
    - intros j c l Hj Hl. apply (Href j c l Hj Hl).
    - intros j l Hl. rewrite nth_error_map.
      destruct (nth_error_lt_some its j) as [c Hc]; [rewrite Hlen; eapply ls_lt; eauto|].
      rewrite Hc. reflexivity.
  Qed.

  (* the machine itself is a black box that behaves like the cursor over M *)
  Lemma merged_refines_from s sp : R s sp ->
    refines_from kcmp (merged_step K V C chstep chobs pop) m_kv s M sp.
  Proof.
    intros HR ms. revert s sp HR. induction ms as [|m ms IH]; intros s sp HR; cbn.
    - apply R_obs. exact HR.
    - destruct (merged_sim s sp m HR) as (s' & ret & Hr & HR' & _).
      unfold merged_step at 2. rewrite Hr. apply IH. exact HR'.
  Qed.
End MergedProofs.

(* ================= the merge of the children's lists ================= *)
Section MergeFacts.
  Variables K V : Type.
  Variable kcmp : K -> K -> comparison.
  Hypothesis ok : ord_ok kcmp.
  Notation kv := (K * V)%type.

  Lemma insert_in (x : kv) l y : In y (insert_kv kcmp x l) <-> y = x \/ In y l.
  Proof.
    induction l as [|z l IH]; cbn.
    - split; [intros [H|[]]; auto|intros [H|[]]; auto].
    - destruct (kcmp (fst x) (fst z)); cbn; try rewrite IH; intuition auto.
  Qed.

  Lemma insert_sorted (x : kv) l : sorted_kv kcmp l -> (forall y, In y l -> fst y <> fst x) ->
    sorted_kv kcmp (insert_kv kcmp x l).
  Proof.
    induction l as [|z l IH]; intros Hs Hne; cbn.
    - constructor; constructor.
    - pose proof (sorted_cons_inv kcmp z l Hs) as [Hs' F].
      destruct (kcmp (fst x) (fst z)) eqn:E.
      + exfalso. apply (o_eq kcmp ok) in E. apply (Hne z); [left; reflexivity|congruence].
      + constructor; [exact Hs|]. constructor; [exact E|].
        rewrite Forall_forall in *. intros y Hy. unfold kv_lt. eapply (o_trans kcmp ok); [exact E|apply F; exact Hy].
      + constructor.
        * apply IH; [exact Hs'|]. intros y Hy. apply Hne. right. exact Hy.
        * rewrite Forall_forall in *. intros y Hy. apply insert_in in Hy as [->|Hy]; [|apply F; exact Hy].
          unfold kv_lt. apply (f_gt_lt kcmp ok). exact E.
  Qed.

  Lemma fold_insert_in (L : list kv) y : In y (fold_right (insert_kv kcmp) [] L) <-> In y L.
  Proof.
    induction L as [|x L IH]; cbn; [reflexivity|]. rewrite insert_in, IH. intuition auto.
  Qed.

  Lemma fold_insert_sorted (L : list kv) : NoDup (map fst L) -> sorted_kv kcmp (fold_right (insert_kv kcmp) [] L).
  Proof.
    induction L as [|x L IH]; cbn; intros H; [constructor|].
    inversion H as [|? ? Hnotin Hnd]; subst. apply insert_sorted; [apply IH; exact Hnd|].
    intros y Hy E. apply (proj1 (fold_insert_in L y)) in Hy. apply Hnotin. rewrite <- E. apply in_map. exact Hy.
  Qed.

  Lemma merge_in (ls : list (list kv)) x :
    In x (merge_lists kcmp ls) <-> exists j l, nth_error ls j = Some l /\ In x l.
  Proof.
    unfold merge_lists. rewrite fold_insert_in, in_concat. split.
    - intros (l & Hl & Hx). apply In_nth_error in Hl as [j Hj]. eauto.
    - intros (j & l & Hj & Hx). exists l. split; [eapply nth_error_In; eauto|exact Hx].
  Qed.

  Lemma nodup_app_disjoint {A} (a b : list A) x : NoDup (a ++ b) -> In x a -> In x b -> False.
  Proof.
    induction a as [|y a IH]; cbn; intros H Ha Hb; [exact Ha|].
    inversion H as [|? ? Hn Hnd]; subst. destruct Ha as [->|Ha].
    - apply Hn. apply in_or_app. right. exact Hb.
    - apply IH; assumption.
  Qed.

  Lemma nodup_app_r {A} (a b : list A) : NoDup (a ++ b) -> NoDup b.
  Proof. induction a as [|y a IH]; cbn; intros H; [exact H|]. inversion H; subst. apply IH. assumption. Qed.

  Lemma concat_keys_disjoint (ls : list (list kv)) : NoDup (map fst (concat ls)) ->
    forall i j li lj x y, nth_error ls i = Some li -> nth_error ls j = Some lj ->
      In x li -> In y lj -> fst x = fst y -> i = j.
  Proof.
    induction ls as [|l0 ls IH]; intros H i j li lj x y Hi Hj Hx Hy E.
    - destruct i; discriminate.
    - cbn in H. rewrite map_app in H.
      assert (Hrest : NoDup (map fst (concat ls))) by (eapply nodup_app_r; eauto).
      assert (Hin : forall j' l' z, nth_error ls j' = Some l' -> In z l' -> In (fst z) (map fst (concat ls))).
      { intros j' l' z Hj' Hz. apply in_map. apply in_concat. exists l'. split; [eapply nth_error_In; eauto|exact Hz]. }
      destruct i as [|i], j as [|j]; cbn in Hi, Hj; auto.
      + exfalso. injection Hi as <-. apply (nodup_app_disjoint _ _ (fst x) H); [apply in_map; exact Hx|].
        rewrite E. eapply Hin; eauto.
      + exfalso. injection Hj as <-. apply (nodup_app_disjoint _ _ (fst y) H); [apply in_map; exact Hy|].
        rewrite <- E. eapply Hin; eauto.
      + f_equal. eapply IH; eauto.
  Qed.

  Lemma merge_sorted (ls : list (list kv)) : NoDup (map fst (concat ls)) -> sorted_kv kcmp (merge_lists kcmp ls).
  Proof. apply fold_insert_sorted. Qed.

  (* the scanning heap meets the contract *)
  Lemma heap_less_irrefl keys rev i : heap_less K kcmp keys rev i i = false.
  Proof. unfold heap_less. destruct (nth i keys None); auto. rewrite (f_refl kcmp ok). reflexivity. Qed.

  Lemma heap_less_trans keys rev i j k : heap_less K kcmp keys rev i j = true -> heap_less K kcmp keys rev j k = true ->
    heap_less K kcmp keys rev i k = true.
  Proof.
    unfold heap_less. destruct (nth i keys None) as [a|], (nth j keys None) as [b|], (nth k keys None) as [d|]; try discriminate.
    destruct (kcmp a b) eqn:E1, (kcmp b d) eqn:E2, rev; cbn; try discriminate; intros _ _.
    - rewrite (o_trans kcmp ok a b d E1 E2). reflexivity.
    - apply (f_gt_lt kcmp ok) in E1, E2. pose proof (o_trans kcmp ok d b a E2 E1) as H.
      apply (f_lt_gt kcmp ok) in H. rewrite H. reflexivity.
  Qed.

  Lemma remove_first_perm x h : In x h -> Permutation h (x :: remove_first x h).
  Proof.
    induction h as [|y h IH]; cbn; [intros []|]. intros Hin.
    destruct (Nat.eqb_spec x y) as [->|Hne]; [reflexivity|].
    destruct Hin as [->|Hin]; [congruence|].
    eapply perm_trans; [apply perm_skip; apply IH; exact Hin|]. apply perm_swap.
  Qed.

  Lemma heap_less_neg_trans keys rev i j k :
    nth i keys None <> None -> nth j keys None <> None -> nth k keys None <> None ->
    heap_less K kcmp keys rev i j = false -> heap_less K kcmp keys rev j k = false ->
    heap_less K kcmp keys rev i k = false.
  Proof.
    unfold heap_less. destruct (nth i keys None) as [a|], (nth j keys None) as [b|], (nth k keys None) as [d|]; try congruence.
    intros _ _ _ H1 H2. destruct rev.
    - assert (L1 : kcmp a b <> Gt) by (destruct (kcmp a b); cbn in H1; congruence).
      assert (L2 : kcmp b d <> Gt) by (destruct (kcmp b d); cbn in H2; congruence).
      pose proof (f_le_trans kcmp ok a b d L1 L2). destruct (kcmp a d); cbn; congruence.
    - assert (L1 : kcmp b a <> Gt).
      { apply (f_not_lt_le kcmp ok). destruct (kcmp a b); cbn in H1; congruence. }
      assert (L2 : kcmp d b <> Gt).
      { apply (f_not_lt_le kcmp ok). destruct (kcmp b d); cbn in H2; congruence. }
      pose proof (f_le_trans kcmp ok d b a L2 L1) as L3. apply (f_not_lt_le kcmp ok) in L3.
      destruct (kcmp a d); cbn; congruence.
  Qed.

  Lemma scan_min keys rev : forall r b, (forall y, In y (b :: r) -> nth y keys None <> None) ->
    let m := fold_left (fun b y => if heap_less K kcmp keys rev y b then y else b) r b in
    In m (b :: r) /\ forall y, In y (b :: r) -> heap_less K kcmp keys rev y m = false.
  Proof.
    induction r as [|z r IH]; intros b Hsome; cbn [fold_left].
    - split; [left; reflexivity|]. intros y [<-|[]]. apply heap_less_irrefl.
    - set (b' := if heap_less K kcmp keys rev z b then z else b).
      assert (Hb' : b' = z \/ b' = b) by (unfold b'; destruct (heap_less K kcmp keys rev z b); auto).
      destruct (IH b') as [Hin Hmin].
      { intros y [<-|Hy]; [destruct Hb' as [-> | ->]; apply Hsome; cbn; auto|apply Hsome; right; right; exact Hy]. }
      set (m := fold_left _ r b') in *.
      assert (Hm : In m (b :: z :: r)).
      { destruct Hin as [<-|Hin]; [destruct Hb' as [-> | ->]; cbn; auto|right; right; exact Hin]. }
      split; [exact Hm|].
      intros y [<-|[<-|Hy]]; [| |apply Hmin; right; exact Hy].
      + (* b *) unfold b' in *. destruct (heap_less K kcmp keys rev z b) eqn:Ez.
        * destruct (heap_less K kcmp keys rev b m) eqn:Eb; [|reflexivity].
          pose proof (heap_less_trans keys rev z b m Ez Eb) as Hc. rewrite (Hmin z (or_introl eq_refl)) in Hc. discriminate.
        * apply Hmin. left. reflexivity.
      + (* z *) unfold b' in *. destruct (heap_less K kcmp keys rev z b) eqn:Ez.
        * apply Hmin. left. reflexivity.
        * apply (heap_less_neg_trans keys rev z b m);
            [apply Hsome; right; left; reflexivity|apply Hsome; left; reflexivity|apply Hsome; exact Hm
            |exact Ez|apply Hmin; left; reflexivity].
  Qed.

  Lemma pop_scan_ok : pop_ok K kcmp (pop_scan K kcmp).
  Proof.
    intros keys rev h Hsome. unfold pop_scan. destruct h as [|x r]; [reflexivity|].
    destruct (scan_min keys rev r x Hsome) as [Hin Hmin].
    split; [apply remove_first_perm; exact Hin|exact Hmin].
  Qed.
End MergeFacts.

(* The merged iterator over children that behave like cursors over strictly sorted lists with no
   key in common shows - for every finite sequence of First/Last/Seek/Next/Prev, whatever heap
   implementation meets the contract - exactly what the reference cursor over the merge of the
   lists shows; it never gets stuck. *)
Theorem merged_refines (K V C : Type) (kcmp : K -> K -> comparison) (chstep : C -> move K -> C)
  (chobs : C -> option (K * V)) (pop : list (option K) -> bool -> list nat -> option (nat * list nat))
  (ls : list (list (K * V))) (its : list C) :
  ord_ok kcmp -> pop_ok K kcmp pop ->
  Forall (sorted_kv kcmp) ls -> NoDup (map fst (concat ls)) ->
  Forall2 (fun c l => refines kcmp chstep chobs c l) its ls ->
  forall ms, m_run K V C chstep chobs pop (m_init its) ms = Some (run_cursor kcmp (merge_lists kcmp ls) ms).
Proof.
  intros ok Hpop Hs Hnd Href ms.
  apply (merged_run_from K V C kcmp ok chstep chobs pop Hpop ls (merge_lists kcmp ls)).
  - intros j l Hj. rewrite Forall_forall in Hs. apply Hs. eapply nth_error_In; eauto.
  - apply (merge_sorted K V kcmp ok). exact Hnd.
  - apply merge_in.
  - apply (concat_keys_disjoint K V). exact Hnd.
  - apply R_init.
    + clear -Href. induction Href; cbn; auto.
    + clear -Href. induction Href as [|c0 l0 its' ls' H0 Hr IH]; intros [|j] c l Hc Hl; cbn in *; try discriminate.
      * injection Hc as <-. injection Hl as <-. exact H0.
      * eapply IH; eauto.
Qed.

Theorem merged_is_cursor (K V C : Type) (kcmp : K -> K -> comparison) (chstep : C -> move K -> C)
  (chobs : C -> option (K * V)) (pop : list (option K) -> bool -> list nat -> option (nat * list nat))
  (ls : list (list (K * V))) (its : list C) :
  ord_ok kcmp -> pop_ok K kcmp pop ->
  Forall (sorted_kv kcmp) ls -> NoDup (map fst (concat ls)) ->
  Forall2 (fun c l => refines kcmp chstep chobs c l) its ls ->
  refines kcmp (merged_step K V C chstep chobs pop) (m_kv K V C chobs) (m_init its) (merge_lists kcmp ls).
Proof.
  intros ok Hpop Hs Hnd Href.
  apply (merged_refines_from K V C kcmp ok chstep chobs pop Hpop ls (merge_lists kcmp ls)).
  - intros j l Hj. rewrite Forall_forall in Hs. apply Hs. eapply nth_error_In; eauto.
  - apply (merge_sorted K V kcmp ok). exact Hnd.
  - apply merge_in.
  - apply (concat_keys_disjoint K V). exact Hnd.
  - apply R_init.
    + clear -Href. induction Href; cbn; auto.
    + clear -Href. induction Href as [|c0 l0 its' ls' H0 Hr IH]; intros [|j] c l Hc Hl; cbn in *; try discriminate.
      * injection Hc as <-. injection Hl as <-. exact H0.
      * eapply IH; eauto.
Qed.

Lemma merge_length {K V} (kcmp : K -> K -> comparison) (ls : list (list (K * V))) :
  length (merge_lists kcmp ls) = length (concat ls).
Proof.
  unfold merge_lists. induction (concat ls) as [|x L IH]; cbn; [reflexivity|].
  rewrite <- IH. generalize (fold_right (insert_kv kcmp) [] L). intros l.
  induction l as [|y l IHl]; cbn; [reflexivity|]. destruct (kcmp (fst x) (fst y)); cbn; auto.
Qed.
