(* Iter/CursorBridge.v — the two reference cursors of the development are the same cursor (proof file):
   Base/Cursor.v (positions cpos, runs c_run; the vocabulary of the block/table/memdb theories C13, C14) and
   Iter/Cursor.v (positions pos, black boxes, refines; the vocabulary of the iterator machines C02).
   Also: refinement by a simulation relation, sortedness in both vocabularies, and plain-scan readings of
   the cursor's steps on a strictly sorted list (what the memdb reference Mem/MemSpec.v computes). *)
From GL Require Import Base.Order Base.OrderProofs.
From GL Require Base.Cursor Base.CursorProofs.
From GL Require Import Iter.Cursor Iter.CursorProofs.
From Coq Require Import Lia Arith.

Definition pos_of (p : Base.Cursor.cpos) : pos :=
  match p with Base.Cursor.CSOI => SOI | Base.Cursor.CAt i => At i | Base.Cursor.CEOI => EOI end.

Definition move_of (o : Base.Cursor.cop) : move bytes :=
  match o with
  | Base.Cursor.OpFirst => MFirst | Base.Cursor.OpLast => MLast | Base.Cursor.OpSeek k => MSeek k
  | Base.Cursor.OpNext => MNext | Base.Cursor.OpPrev => MPrev
  end.

Section Bridge.
  Context {V : Type}.
  Variable c : comparer.
  Variable l : list (bytes * V).

  Lemma first_ge_find_ge k : forall (l' : list (bytes * V)) i,
    find_ge (cmp c) k l' i = match Base.Cursor.first_ge c k l' i with Some j => At j | None => EOI end.
  Proof.
    induction l' as [|[k' v] l' IH]; intros i; cbn [find_ge Base.Cursor.first_ge fst]; [reflexivity|].
    destruct (cmp c k' k); try reflexivity. apply IH.
  Qed.

  Lemma c_step_bridge p o :
    pos_of (Base.Cursor.c_step c l p o) = cstep (cmp c) l (pos_of p) (move_of o).
  Proof.
    destruct o; cbn [Base.Cursor.c_step move_of cstep].
    - unfold Base.Cursor.c_first, cfirst. destruct l; reflexivity.
    - unfold Base.Cursor.c_last, clast. destruct l as [|x r]; [reflexivity|]. cbn [length pos_of]. f_equal. lia.
    - unfold Base.Cursor.c_seek. rewrite first_ge_find_ge. destruct (Base.Cursor.first_ge c k l 0); reflexivity.
    - destruct p; cbn [Base.Cursor.c_next pos_of].
      + unfold Base.Cursor.c_first, cfirst. destruct l; reflexivity.
      + destruct (Nat.ltb (S i) (length l)); reflexivity.
      + reflexivity.
    - destruct p; cbn [Base.Cursor.c_prev pos_of]; try reflexivity.
      + destruct i; reflexivity.
      + unfold Base.Cursor.c_last, clast. destruct l as [|x r]; [reflexivity|]. cbn [length pos_of]. f_equal. lia.
  Qed.

  Lemma c_get_bridge p : Base.Cursor.c_get l p = cobs l (pos_of p).
  Proof. destruct p; reflexivity. Qed.
End Bridge.

(* ---- refinement from a simulation relation ---- *)
Section BySim.
  Context {K V C : Type} (f : K -> K -> comparison) (step : C -> move K -> C) (obs : C -> option (K * V)).
  Variable l : list (K * V).
  Variable R : C -> pos -> Prop.
  Hypothesis R_obs : forall x p, R x p -> obs x = cobs l p.
  Hypothesis R_step : forall x p m, R x p -> R (step x m) (cstep f l p m).

  Lemma refines_by_sim x p : R x p -> refines_from f step obs x l p.
  Proof.
    intros H ms. revert x p H. induction ms as [|m ms IH]; intros x p H; cbn [bb_run crun fold_left].
    - apply R_obs. exact H.
    - apply (IH (step x m) (cstep f l p m)). apply R_step. exact H.
  Qed.
End BySim.

(* ---- a machine whose every run shows what the Base cursor shows refines the Iter cursor ---- *)
Section ObsLists.
  Context {C : Type}.
  Variable step : C -> move bytes -> C.
  Variable obs : C -> option (bytes * bytes).

  Fixpoint obs_list (x : C) (ms : list (move bytes)) : list (option (bytes * bytes)) :=
    match ms with
    | [] => []
    | m :: r => obs (step x m) :: obs_list (step x m) r
    end.

  Lemma obs_list_snoc ms : forall x m,
    obs_list x (ms ++ [m]) = obs_list x ms ++ [obs (bb_run step x (ms ++ [m]))].
  Proof.
    induction ms as [|m0 ms IH]; intros x m; cbn [obs_list app bb_run fold_left]; [reflexivity|].
    rewrite IH. reflexivity.
  Qed.
End ObsLists.

Section CRun.
  Variable c : comparer.
  Variable l : list (bytes * bytes).

  Lemma c_run_obs_list ops : forall p,
    Base.Cursor.c_run c l p ops = obs_list (cur_step (cmp c)) cur_obs (l, pos_of p) (map move_of ops).
  Proof.
    induction ops as [|o ops IH]; intros p; cbn [Base.Cursor.c_run obs_list map]; [reflexivity|].
    assert (E : cur_step (cmp c) (l, pos_of p) (move_of o) = (l, pos_of (Base.Cursor.c_step c l p o))).
    { unfold cur_step. cbn [fst snd]. rewrite <- c_step_bridge. reflexivity. }
    rewrite E. unfold cur_obs at 1. cbn [fst snd]. rewrite <- c_get_bridge. f_equal. apply IH.
  Qed.
End CRun.

Lemma cop_move_inv (ms : list (move bytes)) : exists ops, map move_of ops = ms.
Proof.
  induction ms as [|m ms [ops E]]; [exists []; reflexivity|].
  exists ((match m with MFirst => Base.Cursor.OpFirst | MLast => Base.Cursor.OpLast | MSeek k => Base.Cursor.OpSeek k
                   | MNext => Base.Cursor.OpNext | MPrev => Base.Cursor.OpPrev end) :: ops).
  cbn [map]. rewrite E. destruct m; reflexivity.
Qed.

Lemma snoc_cases {A} (l : list A) : l = [] \/ exists a x, l = a ++ [x].
Proof.
  induction l as [|y l IH]; [left; reflexivity|right].
  destruct IH as [->|(a & x & ->)]; [exists [], y|exists (y :: a), x]; reflexivity.
Qed.

(* the packaging used for the table iterators (C13 states its refinement over whole runs) *)
Theorem refines_of_runs {C} (c : comparer) (step : C -> move bytes -> C) (obs : C -> option (bytes * bytes))
  (x : C) (l : list (bytes * bytes)) :
  obs x = None ->
  (forall ops, obs_list step obs x (map move_of ops) = Base.Cursor.c_run c l Base.Cursor.CSOI ops) ->
  refines (cmp c) step obs x l.
Proof.
  intros H0 H ms. destruct (snoc_cases ms) as [->|(ms' & m & ->)].
  - cbn. exact H0.
  - destruct (cop_move_inv (ms' ++ [m])) as (ops & E).
    pose proof (H ops) as Hr. rewrite c_run_obs_list, E in Hr. cbn [pos_of] in Hr.
    rewrite !obs_list_snoc in Hr. apply app_inj_tail in Hr as [_ Hr]. rewrite Hr.
    pose proof (cursor_refines_itself (cmp c) l SOI (ms' ++ [m])) as Hc.
    exact Hc.
Qed.

(* ---- sortedness in both vocabularies ---- *)
Section Sorted.
  Context {V : Type}.
  Variable c : comparer.
  Hypothesis ok : comparer_ok c.

  Lemma sorted_from_kv k (l : list (bytes * V)) : Base.Cursor.sorted_from c k l ->
    forall v : V, sorted_kv (cmp c) ((k, v) :: l).
  Proof.
    revert k. induction l as [|[k' v'] l IH]; intros k H v.
    - constructor; constructor.
    - cbn [Base.Cursor.sorted_from] in H. destruct H as [Hlt Hs].
      pose proof (IH k' Hs v') as Hs'.
      constructor; [exact Hs'|].
      constructor; [exact Hlt|].
      apply StronglySorted_inv in Hs' as [_ Hall].
      eapply Forall_impl; [|exact Hall]. intros x Hx. unfold kv_lt in *. cbn [fst] in *.
      exact (cmp_trans c ok _ _ _ Hlt Hx).
  Qed.

  Lemma sorted_base_kv (l : list (bytes * V)) : Base.Cursor.sorted c l -> sorted_kv (cmp c) l.
  Proof.
    destruct l as [|[k v] l]; [constructor|]. cbn [Base.Cursor.sorted]. intros H. apply sorted_from_kv. exact H.
  Qed.

  Lemma sorted_kv_filter (g : bytes * V -> bool) (l : list (bytes * V)) :
    sorted_kv (cmp c) l -> sorted_kv (cmp c) (filter g l).
  Proof.
    induction l as [|x l IH]; intros H; [constructor|].
    apply StronglySorted_inv in H as [Hs Hall]. cbn [filter].
    destruct (g x); [|apply IH; exact Hs].
    constructor; [apply IH; exact Hs|].
    rewrite Forall_forall in *. intros y Hy. apply filter_In in Hy as [Hy _]. apply Hall. exact Hy.
  Qed.
End Sorted.

(* ---- the cursor's steps on a strictly sorted list as plain scans ---- *)
Section Scans.
  Context {K V : Type} (f : K -> K -> comparison).
  Hypothesis fok : ord_ok f.
  Notation kv := (K * V)%type.

  Definition ge_b (k : K) (x : kv) : bool := match f (fst x) k with Lt => false | _ => true end.
  Definition gt_b (k : K) (x : kv) : bool := match f k (fst x) with Lt => true | _ => false end.
  Definition lt_b (k : K) (x : kv) : bool := match f (fst x) k with Lt => true | _ => false end.

  Fixpoint find_last_b (g : kv -> bool) (l : list kv) : option kv :=
    match l with
    | [] => None
    | x :: r => match find_last_b g r with Some y => Some y | None => if g x then Some x else None end
    end.

  Lemma scan_seek k (l : list kv) : find (ge_b k) l = cobs l (find_ge f k l 0).
  Proof.
    induction l as [|x l IH]; [reflexivity|]. cbn [find find_ge]. unfold ge_b at 1.
    destruct (f (fst x) k) eqn:E; try reflexivity.
    rewrite IH, (find_ge_shift f k l 1). destruct (find_ge f k l 0); reflexivity.
  Qed.

  Lemma scan_next (l : list kv) : sorted_kv f l -> forall i x, nth_error l i = Some x ->
    find (gt_b (fst x)) l = nth_error l (S i).
  Proof.
    induction l as [|y l IH]; intros Hs i x Hi; [destruct i; discriminate|].
    apply StronglySorted_inv in Hs as [Hs Hall]. destruct i as [|i]; cbn [nth_error] in Hi.
    - injection Hi as ->. cbn [find]. unfold gt_b at 1. rewrite (f_refl f fok). cbn [nth_error].
      destruct l as [|z l]; [reflexivity|]. cbn [find nth_error]. unfold gt_b.
      apply Forall_inv in Hall. unfold kv_lt in Hall. rewrite Hall. reflexivity.
    - cbn [find]. unfold gt_b at 1.
      assert (Hyx : f (fst y) (fst x) = Lt).
      { rewrite Forall_forall in Hall. apply (Hall x). eapply nth_error_In; eauto. }
      apply (f_lt_gt f fok) in Hyx. rewrite Hyx. cbn [nth_error]. apply (IH Hs i x Hi).
  Qed.

  Lemma find_last_b_none g (l : list kv) : (forall x, In x l -> g x = false) -> find_last_b g l = None.
  Proof.
    induction l as [|x l IH]; intros H; [reflexivity|]. cbn [find_last_b].
    rewrite IH by (intros y Hy; apply H; right; exact Hy). rewrite (H x (or_introl eq_refl)). reflexivity.
  Qed.

  Lemma scan_prev (l : list kv) : sorted_kv f l -> forall i x, nth_error l i = Some x ->
    find_last_b (lt_b (fst x)) l = match i with O => None | S j => nth_error l j end.
  Proof.
    induction l as [|y l IH]; intros Hs i x Hi; [destruct i; discriminate|].
    apply StronglySorted_inv in Hs as [Hs Hall]. destruct i as [|i]; cbn [nth_error] in Hi.
    - injection Hi as ->. cbn [find_last_b].
      rewrite find_last_b_none.
      + unfold lt_b. rewrite (f_refl f fok). reflexivity.
      + intros z Hz. unfold lt_b. rewrite Forall_forall in Hall. specialize (Hall z Hz). unfold kv_lt in Hall.
        apply (f_lt_gt f fok) in Hall. rewrite Hall. reflexivity.
    - cbn [find_last_b]. rewrite (IH Hs i x Hi).
      assert (Hyx : f (fst y) (fst x) = Lt).
      { rewrite Forall_forall in Hall. apply (Hall x). eapply nth_error_In; eauto. }
      destruct i as [|j].
      + unfold lt_b. rewrite Hyx. reflexivity.
      + cbn [nth_error]. destruct (nth_error l j) eqn:E; [reflexivity|].
        exfalso. apply nth_error_None in E. apply nth_error_Some_lt in Hi. lia.
  Qed.

  Lemma scan_last (l : list kv) : find_last_b (fun _ => true) l = cobs l (clast l).
  Proof.
    induction l as [|x l IH]; [reflexivity|]. cbn [find_last_b]. rewrite IH.
    unfold clast. cbn [length]. destruct l as [|y l]; [reflexivity|]. cbn [length cobs nth_error].
    destruct (nth_error (y :: l) (length l)) eqn:E; [reflexivity|].
    exfalso. apply nth_error_None in E. cbn [length] in E. lia.
  Qed.
End Scans.
