(* Iter/DBIterProofs.v — dbIter (Iter/DBIter.v) refines the cursor over the live pairs:
   simulation relation between machine states and cursor positions, preserved by each of the five
   calls from every related state (hence for every call sequence, including direction reversals). *)
From GL Require Import Base.Order Base.OrderProofs Codec.IKey Codec.IKeyProofs
  Iter.Cursor Iter.CursorProofs Iter.DBIter Iter.LiveProofs.
From Coq Require Import Lia Arith.
Close Scope N_scope.

Lemma nth_error_mid {A} (a : list A) e b : nth_error (a ++ e :: b) (length a) = Some e.
Proof. rewrite nth_error_app2 by lia. rewrite Nat.sub_diag. reflexivity. Qed.

Lemma app_snoc_cons {A} (a : list A) x b : (a ++ [x]) ++ b = a ++ x :: b.
Proof. rewrite <- app_assoc. reflexivity. Qed.

Lemma snoc_length {A} (a : list A) x : length (a ++ [x]) = S (length a).
Proof. rewrite app_length. cbn. lia. Qed.

Lemma list_snoc_cases {A} (l : list A) : l = [] \/ exists a x, l = a ++ [x].
Proof.
  destruct l as [|y l]; [left; reflexivity|right].
  destruct (@exists_last A (y :: l)) as (a & x & H); [discriminate|]. eauto.
Qed.

Lemma list_cases {A} (l : list A) : l = [] \/ exists x r, l = x :: r.
Proof. destruct l; eauto. Qed.

Section DBIterProofs.
  Variable c : comparer.
  Hypothesis ok : comparer_ok c.
  Variable p : kparams.
  Hypothesis dpok : dbparams_ok p.
  Variable C : Type.
  Variable chstep : C -> move ikey -> C.
  Variable chobs : C -> option entry.
  Variable seq : N.
  Hypothesis Hseq : (seq <= keyMaxSeq p)%N.
  Variable strict : bool.
  Variable l : list entry.
  Hypothesis Hsorted : sorted_kv (icmp c) l.
  Hypothesis Hwf : Forall (entry_wf p) l.

  Notation st := (dbstate C).
  Notation ukey e := (uk (fst e)).
  Notation vis := (visible seq).
  Notation isval := (is_val p).
  Notation lf := (live_from c p seq).
  Notation esorted := (sorted_kv (icmp c)).
  Notation LP := (live_pairs c p seq l).
  Notation child_at ch cp := (refines_from (icmp c) chstep chobs ch l cp).
  Notation next_loop := (next_loop c p C chstep chobs seq strict).
  Notation prev_loop := (prev_loop c p C chstep chobs seq strict).
  Notation prev_ := (prev_ c p C chstep chobs seq strict).
  Notation rewind := (rewind c p C chstep chobs seq strict).
  Notation db_step := (db_step c p C chstep chobs seq strict).
  Notation parse_cur := (parse_cur p C chobs).
  Notation skip_after := (skip_after seq).

  Lemma pok : kparams_ok p. Proof. exact (proj1 dpok). Qed.

  (* ---- the child as a cursor over l ---- *)
  Lemma child_obs ch A e B : l = A ++ e :: B -> child_at ch (At (length A)) -> chobs ch = Some e.
  Proof.
    intros Hl H. rewrite (refines_from_obs _ _ _ _ _ _ H). cbn. rewrite Hl. apply nth_error_mid.
  Qed.

  Lemma child_next_some ch A e e' B : l = A ++ e :: e' :: B -> child_at ch (At (length A)) ->
    child_at (chstep ch MNext) (At (length (A ++ [e]))).
  Proof.
    intros Hl H. pose proof (refines_from_step _ _ _ _ _ _ MNext H) as H'.
    rewrite cstep_next_lt in H' by (rewrite Hl, app_length; cbn; lia).
    rewrite snoc_length. exact H'.
  Qed.

  Lemma child_next_none ch A e : l = A ++ [e] -> child_at ch (At (length A)) -> child_at (chstep ch MNext) EOI.
  Proof.
    intros Hl H. pose proof (refines_from_step _ _ _ _ _ _ MNext H) as H'.
    rewrite cstep_next_ge in H' by (rewrite Hl, app_length; cbn; lia).
    exact H'.
  Qed.

  Lemma child_prev_some ch (A : list entry) x : child_at ch (At (length (A ++ [x]))) -> child_at (chstep ch MPrev) (At (length A)).
  Proof.
    intros H. pose proof (refines_from_step _ _ _ _ _ _ MPrev H) as H'. rewrite snoc_length in H'. exact H'.
  Qed.

  Lemma child_prev_none ch : child_at ch (At 0) -> child_at (chstep ch MPrev) SOI.
  Proof. intros H. exact (refines_from_step _ _ _ _ _ _ MPrev H). Qed.

  Lemma child_none ch cp : child_at ch cp -> cp = SOI \/ cp = EOI -> chobs ch = None.
  Proof. intros H [-> | ->]; rewrite (refines_from_obs _ _ _ _ _ _ H); reflexivity. Qed.

  (* ---- parsing well-formed entries ---- *)
  Lemma wf_in e : In e l -> entry_wf p e.
  Proof. rewrite Forall_forall in Hwf. apply Hwf. Qed.

  Lemma parse_wf e : entry_wf p e -> parse_rec p (fst e) = Some (ukey e, ik_seq (fst e), ik_kind (fst e)).
  Proof.
    intros W. unfold parse_rec. destruct dpok as (_ & _ & Hdv).
    assert (E : (keyTypeVal p <? ik_kind (fst e))%N = false).
    { apply N.ltb_ge. destruct W as [-> | ->]; [exact Hdv|apply N.le_refl]. }
    rewrite E. reflexivity.
  Qed.

  Lemma parse_cur_at ch e : chobs ch = Some e -> entry_wf p e ->
    parse_cur ch = Some (ukey e, ik_seq (fst e), ik_kind (fst e), snd e).
  Proof. intros H W. unfold DBIter.parse_cur. rewrite H. pose proof (parse_wf _ W) as P. destruct e as [ik v]. cbn in *. rewrite P. reflexivity. Qed.

  Lemma kind_del_val e : entry_wf p e -> (ik_kind (fst e) =? keyTypeDel p)%N = negb (isval e).
  Proof.
    intros W. unfold is_val. destruct pok as (_ & _ & Hne & _).
    destruct W as [-> | ->].
    - rewrite N.eqb_refl. assert ((keyTypeDel p =? keyTypeVal p)%N = false) as -> by (apply N.eqb_neq; exact Hne). reflexivity.
    - rewrite N.eqb_refl. assert ((keyTypeVal p =? keyTypeDel p)%N = false) as -> by (apply N.eqb_neq; congruence). reflexivity.
  Qed.

  (* ---- the forward loop ---- *)
  Definition gsk (s : st) : option bytes := if is_dir_soi (d_dir s) then None else Some (d_key s).
  Definition go_emit (sk : option bytes) (u : bytes) : bool :=
    match sk with None => true | Some k => is_gt (cmp c u k) end.

  Definition adv (f : nat) (s : st) : res C :=
    let ch' := chstep (d_child s) MNext in
    if is_some (chobs ch') then next_loop f (set_child C s ch')
    else Ok (set_dir C (set_child C s ch') DirEOI) false.

  Lemma next_loop_unfold f s : next_loop (S f) s =
    match parse_cur (d_child s) with
    | Some (ukey, seq', kt, v) =>
        if (seq' <=? seq)%N then
          if (kt =? keyTypeDel p)%N then adv f (set_dir C (set_key C s ukey) DirForward)
          else if (kt =? keyTypeVal p)%N then
            if is_dir_soi (d_dir s) || is_gt (cmp c ukey (d_key s)) then
              Ok (set_dir C (set_kv C s ukey v) DirForward) true
            else adv f s
          else adv f s
        else adv f s
    | None => if strict then Ok (set_err C s) false else adv f s
    end.
  Proof. reflexivity. Qed.

  Definition fwd_at (s' : st) (A' : list entry) (e : entry) : Prop :=
    d_dir s' = DirForward /\ d_key s' = ukey e /\ d_value s' = snd e /\ d_err s' = false /\
    child_at (d_child s') (At (length A')).

  Definition eoi_at (s' : st) : Prop :=
    d_dir s' = DirEOI /\ d_err s' = false /\ exists cp, child_at (d_child s') cp.

  Definition next_post (r : res C) (sk : option bytes) (A B : list entry) : Prop :=
    match lf sk B with
    | [] => exists s', r = Ok s' false /\ eoi_at s'
    | kv :: _ => exists s' B1 e B2, r = Ok s' true /\ B = B1 ++ e :: B2 /\ lf sk B1 = [] /\
        vis e = true /\ isval e = true /\ kv = (ukey e, snd e) /\ go_emit sk (ukey e) = true /\
        (forall x, In x B1 -> vis x = true -> cmp c (ukey x) (ukey e) = Lt) /\
        fwd_at s' (A ++ B1) e
    end.

  Lemma go_emit_same sk u : go_emit sk u = true -> same_ukey c sk u = false.
  Proof.
    destruct sk as [k|]; cbn; auto. destruct (cmp c u k); cbn; congruence.
  Qed.

  Lemma go_noemit_same sk u : go_emit sk u = false -> (forall k, sk = Some k -> cmp c u k <> Lt) ->
    same_ukey c sk u = true.
  Proof.
    destruct sk as [k|]; cbn; [|discriminate]. intros H Hl. specialize (Hl k eq_refl).
    destruct (cmp c u k); cbn in *; congruence.
  Qed.

  Lemma go_emit_trans sk u u' : go_emit (Some u) u' = true -> (forall k, sk = Some k -> cmp c u k <> Lt) ->
    go_emit sk u' = true.
  Proof.
    destruct sk as [k|]; cbn; auto. intros H Hl. specialize (Hl k eq_refl).
    destruct (cmp c u' u) eqn:E; cbn in H; try discriminate.
    apply (cmp_gt_lt c ok) in E.
    assert (cmp c k u' = Lt).
    { apply (f_le_lt_trans (cmp c) (cmp_ord_ok c ok) k u u'); [|exact E].
      apply (f_not_lt_le (cmp c) (cmp_ord_ok c ok)). exact Hl. }
    apply (cmp_lt_gt c ok) in H0. rewrite H0. reflexivity.
  Qed.

  Lemma go_emit_gt u u' : go_emit (Some u) u' = true -> cmp c u u' = Lt.
  Proof. cbn. destruct (cmp c u' u) eqn:E; cbn; try discriminate. intros _. apply (cmp_gt_lt c ok). exact E. Qed.

  Lemma next_loop_spec : forall B A s f,
    l = A ++ B -> B <> [] -> child_at (d_child s) (At (length A)) -> d_err s = false ->
    length B <= f -> lower_ok c seq (gsk s) B ->
    next_post (next_loop f s) (gsk s) A B.
  Proof.
    induction B as [|e0 B' IH]; intros A s f Hl Hne Hch Herr Hf Hlow; [congruence|].
    destruct f as [|f]; [cbn in Hf; lia|]. cbn in Hf.
    assert (Hin0 : In e0 l) by (rewrite Hl; apply in_or_app; right; left; reflexivity).
    pose proof (wf_in e0 Hin0) as W0.
    assert (Hs0 : esorted (e0 :: B')).
    { rewrite Hl in Hsorted. apply (sorted_app_inv (icmp c)) in Hsorted. tauto. }
    pose proof (child_obs _ A e0 B' Hl Hch) as Hobs.
    (* what advancing does, for any state s1 with the same child *)
    assert (Hadv : forall s1, d_child s1 = d_child s -> d_err s1 = false -> lower_ok c seq (gsk s1) B' ->
      match lf (gsk s1) B' with
      | [] => exists s', adv f s1 = Ok s' false /\ eoi_at s'
      | kv :: _ => exists s' B1 e B2, adv f s1 = Ok s' true /\ B' = B1 ++ e :: B2 /\ lf (gsk s1) B1 = [] /\
          vis e = true /\ isval e = true /\ kv = (ukey e, snd e) /\ go_emit (gsk s1) (ukey e) = true /\
          (forall x, In x B1 -> vis x = true -> cmp c (ukey x) (ukey e) = Lt) /\
          fwd_at s' ((A ++ [e0]) ++ B1) e
      end).
    { intros s1 Hc1 He1 Hl1. unfold adv. rewrite Hc1.
      destruct B' as [|e1 B''].
      - pose proof (child_next_none _ A e0 Hl Hch) as Hn.
        rewrite (child_none _ _ Hn (or_intror eq_refl)). cbn.
        eexists. split; [reflexivity|]. repeat split; cbn; auto. exists EOI. exact Hn.
      - pose proof (child_next_some _ A e0 e1 B'' Hl Hch) as Hn.
        assert (Hl' : l = (A ++ [e0]) ++ e1 :: B'') by (rewrite app_snoc_cons; exact Hl).
        rewrite (child_obs _ _ e1 B'' Hl' Hn). cbn [is_some].
        specialize (IH (A ++ [e0]) (set_child C s1 (chstep (d_child s) MNext)) f Hl').
        apply IH; auto; try discriminate. lia. }
    rewrite next_loop_unfold, (parse_cur_at _ e0 Hobs W0).
    unfold next_post. cbn [live_from].
    change ((ik_seq (fst e0) <=? seq)%N) with (vis e0).
    destruct (vis e0) eqn:Ev.
    2:{ (* invisible: advance *)
      specialize (Hadv s eq_refl Herr (lower_ok_tail c seq _ _ _ Hlow)).
      destruct (lf (gsk s) B') as [|kv rest].
      - exact Hadv.
      - destruct Hadv as (s' & B1 & e & B2 & Hr & HB & Hlf & Hv & Hvl & Hkv & Hem & Hlt & Hfw).
        exists s', (e0 :: B1), e, B2. rewrite app_snoc_cons in Hfw.
        repeat split; auto.
        + cbn. rewrite HB. reflexivity.
        + cbn. rewrite Ev. exact Hlf.
        + intros x [<-|Hx] Hvx; [congruence|auto].
        + apply Hfw. + apply Hfw. + apply Hfw. + apply Hfw. + apply Hfw. }
    rewrite (kind_del_val e0 W0).
    destruct (isval e0) eqn:Evl; cbn [negb].
    - (* value entry *)
      assert (Hkv : (ik_kind (fst e0) =? keyTypeVal p)%N = true) by exact Evl. rewrite Hkv.
      change (is_dir_soi (d_dir s) || is_gt (cmp c (ukey e0) (d_key s))) with
        (if is_dir_soi (d_dir s) then true else is_gt (cmp c (ukey e0) (d_key s))).
      assert (Hge : (if is_dir_soi (d_dir s) then true else is_gt (cmp c (ukey e0) (d_key s))) = go_emit (gsk s) (ukey e0)).
      { unfold gsk. destruct (is_dir_soi (d_dir s)); reflexivity. }
      rewrite Hge. destruct (go_emit (gsk s) (ukey e0)) eqn:Hem.
      + (* emitted *)
        rewrite (go_emit_same _ _ Hem).
        eexists _, [], e0, B'. repeat split; auto.
        * intros x [].
        * cbn. rewrite app_nil_r. exact Hch.
      + (* an older version of the current key: skipped *)
        assert (Hsame : same_ukey c (gsk s) (ukey e0) = true).
        { apply go_noemit_same; auto. intros k Hk. apply (Hlow k Hk e0 (or_introl eq_refl) Ev). }
        rewrite Hsame.
        specialize (Hadv s eq_refl Herr (lower_ok_tail c seq _ _ _ Hlow)).
        destruct (lf (gsk s) B') as [|kv rest].
        * exact Hadv.
        * destruct Hadv as (s' & B1 & e & B2 & Hr & HB & Hlf & Hv & Hvl2 & Hkv2 & Hem2 & Hlt & Hfw).
          exists s', (e0 :: B1), e, B2. rewrite app_snoc_cons in Hfw.
          repeat split; auto; try apply Hfw.
          -- cbn. rewrite HB. reflexivity.
          -- cbn. rewrite Ev, Hsame. exact Hlf.
          -- intros x [<-|Hx] Hvx; [|auto].
             apply (same_ukey_true c ok) in Hsame. rewrite Hsame in Hem2. apply go_emit_gt. exact Hem2.
    - (* tombstone: remember the key, advance *)
      set (s1 := set_dir C (set_key C s (ukey e0)) DirForward).
      assert (Hg1 : gsk s1 = Some (ukey e0)) by reflexivity.
      assert (Hlow1 : lower_ok c seq (gsk s1) B').
      { rewrite Hg1. apply (lower_ok_sorted c ok). exact Hs0. }
      specialize (Hadv s1 eq_refl Herr Hlow1). rewrite Hg1 in Hadv.
      assert (Hlfeq : (if same_ukey c (gsk s) (ukey e0) then lf (gsk s) B' else lf (Some (ukey e0)) B') = lf (Some (ukey e0)) B').
      { destruct (same_ukey c (gsk s) (ukey e0)) eqn:Es; auto. apply (same_ukey_true c ok) in Es. rewrite Es. reflexivity. }
      rewrite Hlfeq.
      destruct (lf (Some (ukey e0)) B') as [|kv rest].
      + exact Hadv.
      + destruct Hadv as (s' & B1 & e & B2 & Hr & HB & Hlf & Hv & Hvl2 & Hkv2 & Hem2 & Hlt & Hfw).
        exists s', (e0 :: B1), e, B2. rewrite app_snoc_cons in Hfw.
        repeat split; auto; try apply Hfw.
        * cbn. rewrite HB. reflexivity.
        * cbn. rewrite Ev, Evl.
          destruct (same_ukey c (gsk s) (ukey e0)) eqn:Es; auto.
          apply (same_ukey_true c ok) in Es. rewrite Es. exact Hlf.
        * eapply go_emit_trans; eauto. intros k Hk. apply (Hlow k Hk e0 (or_introl eq_refl) Ev).
        * intros x [<-|Hx] Hvx; [|auto]. apply go_emit_gt. exact Hem2.
  Qed.

  (* ---- the backward loop ---- *)
  Definition back (f : nat) (s : st) (del : bool) : res C :=
    let ch' := chstep (d_child s) MPrev in
    if is_some (chobs ch') then prev_loop f (set_child C s ch') del
    else prev_finish C (set_child C s ch') del.

  Lemma prev_loop_unfold f s del : prev_loop (S f) s del =
    match parse_cur (d_child s) with
    | Some (ukey, seq', kt, v) =>
        if (seq' <=? seq)%N then
          if negb del && is_lt (cmp c ukey (d_key s)) then Ok s true
          else
            let del' := (kt =? keyTypeDel p)%N in
            back f (if del' then s else set_kv C s ukey v) del'
        else back f s del
    | None => if strict then Ok (set_err C s) false else back f s del
    end.
  Proof. reflexivity. Qed.

  (* what the processed suffix P amounts to: nothing live yet (del), or exactly the saved pair *)
  Definition pinv (del : bool) (s : st) (P : list entry) : Prop :=
    if del then lf None P = []
    else lf None P = [(d_key s, d_value s)] /\
         (forall x, In x P -> vis x = true -> cmp c (ukey x) (d_key s) <> Lt) /\
         (exists y, In y P /\ ukey y = d_key s).

  Definition pos_end (A : list entry) : pos := match A with [] => SOI | _ => At (length A - 1) end.

  Lemma pos_end_snoc A x : pos_end (A ++ [x]) = At (length A).
  Proof.
    unfold pos_end. destruct (A ++ [x]) eqn:E.
    - destruct A; discriminate.
    - rewrite <- E, snoc_length. f_equal. lia.
  Qed.

  Definition prev_post (r : res C) (A P : list entry) : Prop :=
    exists A1 A2 s' ret, A = A1 ++ A2 /\ r = Ok s' ret /\ d_err s' = false /\
      child_at (d_child s') (pos_end A1) /\
      if ret then d_dir s' = DirBackward /\ pinv false s' (A2 ++ P) /\
                  (A1 = [] \/ exists A10 x, A1 = A10 ++ [x] /\ vis x = true /\ cmp c (ukey x) (d_key s') = Lt)
      else A1 = [] /\ d_dir s' = DirSOI /\ lf None (A2 ++ P) = [].

  Lemma prev_loop_spec : forall A P T s del f,
    l = A ++ P ++ T -> A <> [] -> child_at (d_child s) (pos_end A) -> d_err s = false ->
    d_dir s = DirBackward -> length A <= f -> pinv del s P ->
    prev_post (prev_loop f s del) A P.
  Proof.
    induction A as [|e0 A0 IH] using rev_ind; intros P T s del f Hl Hne Hch Herr Hdir Hf Hinv; [congruence|].
    clear Hne. rewrite snoc_length in Hf. destruct f as [|f]; [lia|].
    rewrite pos_end_snoc in Hch.
    assert (Hl0 : l = A0 ++ e0 :: P ++ T) by (rewrite Hl, app_snoc_cons; reflexivity).
    assert (Hin0 : In e0 l) by (rewrite Hl0; apply in_or_app; right; left; reflexivity).
    pose proof (wf_in e0 Hin0) as W0.
    assert (Hs0 : esorted (e0 :: P)).
    { pose proof Hsorted as Hs. rewrite Hl0 in Hs. apply (sorted_app_inv (icmp c)) in Hs as (_ & Hs & _).
      change (e0 :: P ++ T) with ((e0 :: P) ++ T) in Hs. apply (sorted_app_inv (icmp c)) in Hs. tauto. }
    pose proof (child_obs _ A0 e0 (P ++ T) Hl0 Hch) as Hobs.
    (* stepping back, for any state s1 with the same child *)
    assert (Hback : forall s1 del1, d_child s1 = d_child s -> d_err s1 = false -> d_dir s1 = DirBackward ->
      pinv del1 s1 (e0 :: P) -> prev_post (back f s1 del1) (A0 ++ [e0]) P).
    { intros s1 del1 Hc1 He1 Hd1 Hi1. unfold back. rewrite Hc1.
      destruct (list_snoc_cases A0) as [->|(A00 & x & ->)].
      - pose proof (child_prev_none _ Hch) as Hn.
        rewrite (child_none _ _ Hn (or_introl eq_refl)). cbn [is_some]. unfold prev_finish.
        destruct del1.
        + exists [], [e0], (set_dir C (set_child C s1 (chstep (d_child s) MPrev)) DirSOI), false.
          repeat split; auto.
        + exists [], [e0], (set_child C s1 (chstep (d_child s) MPrev)), true.
          repeat split; auto; try apply Hi1.
      - pose proof (child_prev_some _ A00 x Hch) as Hn.
        assert (Hl' : l = A00 ++ x :: (e0 :: P) ++ T) by (rewrite Hl0, app_snoc_cons; reflexivity).
        rewrite (child_obs _ A00 x _ Hl' Hn). cbn [is_some].
        assert (Hpe : pos_end (A00 ++ [x]) = At (length A00)) by apply pos_end_snoc.
        destruct (IH (e0 :: P) T (set_child C s1 (chstep (d_child s) MPrev)) del1 f) as (A1 & A2 & s' & ret & HA & Hr & He' & Hc' & Hret); auto.
        + destruct A00; discriminate.
        + rewrite Hpe. exact Hn.
        + lia.
        + exists A1, (A2 ++ [e0]), s', ret.
          split; [rewrite HA, app_assoc; reflexivity|].
          rewrite (app_snoc_cons A2 e0 P). repeat split; auto. }
    rewrite prev_loop_unfold, (parse_cur_at _ e0 Hobs W0).
    change ((ik_seq (fst e0) <=? seq)%N) with (vis e0).
    destruct (vis e0) eqn:Ev.
    2:{ (* invisible *)
      apply Hback; auto. unfold pinv in *. destruct del.
      - cbn. rewrite Ev. exact Hinv.
      - destruct Hinv as (H1 & H2 & y & Hy & Hyk). cbn [live_from]. rewrite Ev. split; [exact H1|]. split.
        + intros x [<-|Hx] Hvx; [congruence|auto].
        + exists y. split; [right; exact Hy|exact Hyk]. }
    destruct (negb del && is_lt (cmp c (ukey e0) (d_key s))) eqn:Estop.
    - (* a smaller user key while a live pair is saved: stop here *)
      apply andb_prop in Estop as [Ed El]. destruct del; [discriminate|].
      exists (A0 ++ [e0]), [], s, true. rewrite app_nil_r, pos_end_snoc. repeat split; auto; try apply Hinv.
      right. exists A0, e0. repeat split; auto. destruct (cmp c (ukey e0) (d_key s)); cbn in El; congruence.
    - (* absorb e0: it decides (for now) the fate of its user key *)
      assert (Hnil : lf (Some (ukey e0)) P = []).
      { destruct (live_prefix c ok p seq (Some (ukey e0)) P) as (pre & Hpre & Hlen).
        unfold pinv in Hinv. destruct del.
        - rewrite Hinv in Hpre. destruct pre; [|discriminate]. cbn in Hpre. congruence.
        - destruct Hinv as (H1 & _ & _). cbn in Estop.
          destruct (lf (Some (ukey e0)) P) as [|[k v] rest] eqn:E; [reflexivity|exfalso].
          assert (Hkv : In (k, v) (lf (Some (ukey e0)) P)) by (rewrite E; left; reflexivity).
          apply (live_keys_gt c ok p seq P (ukey e0)) in Hkv.
          2:{ apply (sorted_cons_inv (icmp c)) in Hs0. tauto. }
          2:{ apply (lower_ok_sorted c ok). exact Hs0. }
          rewrite H1 in Hpre. destruct pre as [|q pre]; cbn in Hpre.
          + injection Hpre as Hq1 Hq2 Hq3. rewrite <- Hq1 in Hkv. rewrite Hkv in Estop. discriminate.
          + destruct pre; [|cbn in Hlen; lia]. discriminate. }
      cbv zeta. rewrite (kind_del_val e0 W0).
      destruct (isval e0) eqn:Evl; cbn [negb].
      + (* value: becomes the saved pair *)
        apply Hback; auto. unfold pinv. cbn [live_from same_ukey d_key d_value set_kv]. rewrite Ev, Evl, Hnil.
        split; [reflexivity|]. split.
        * intros x [<-|Hx] _; [rewrite (cmp_refl c ok); discriminate|].
          apply (f_not_lt_le (cmp c) (cmp_ord_ok c ok)). apply (esorted_cons_ukey c e0 P Hs0 x Hx).
        * exists e0. split; [left; reflexivity|reflexivity].
      + (* tombstone *)
        apply Hback; auto. unfold pinv. cbn [live_from same_ukey]. rewrite Ev, Evl. exact Hnil.
  Qed.

  Lemma prev_spec A T s f : l = A ++ T -> child_at (d_child s) (pos_end A) -> d_err s = false ->
    length A <= f -> prev_post (prev_ f s) A [].
  Proof.
    intros Hl Hch Herr Hf. unfold DBIter.prev_. cbn [d_child set_dir].
    destruct A as [|a A'] eqn:EA.
    - rewrite (child_none _ _ Hch (or_introl eq_refl)). cbn [is_some prev_finish].
      exists [], [], (set_dir C (set_dir C s DirBackward) DirSOI), false. repeat split; auto.
    - rewrite <- EA in *. destruct (list_snoc_cases A) as [HA|(A0 & x & HA)]; [congruence|].
      assert (Hobs : chobs (d_child s) = Some x).
      { rewrite HA in Hch. rewrite pos_end_snoc in Hch. apply (child_obs _ A0 x T); auto.
        rewrite Hl, HA, app_snoc_cons. reflexivity. }
      rewrite Hobs. cbn [is_some].
      apply (prev_loop_spec A [] T); auto.
      + congruence.
      + reflexivity.
  Qed.

  (* ---- the rewind loop of Prev() in dirForward ---- *)
  Lemma rewind_unfold f s : rewind (S f) s =
    let ch' := chstep (d_child s) MPrev in
    let s' := set_child C s ch' in
    if is_some (chobs ch') then
      match parse_cur ch' with
      | Some (ukey, _, _, _) => if is_lt (cmp c ukey (d_key s)) then prev_ (S f) s' else rewind f s'
      | None => if strict then Ok (set_err C s') false else rewind f s'
      end
    else Ok (set_dir C s' DirSOI) false.
  Proof. reflexivity. Qed.

  Lemma rewind_spec : forall A Bx s f, l = A ++ Bx -> child_at (d_child s) (At (length A)) ->
    length A < f ->
    exists A1 A2 ch', A = A1 ++ A2 /\ (forall x, In x A2 -> cmp c (ukey x) (d_key s) <> Lt) /\
      child_at ch' (pos_end A1) /\
      ((A1 = [] /\ rewind f s = Ok (set_dir C (set_child C s ch') DirSOI) false) \/
       (exists A10 x f', A1 = A10 ++ [x] /\ cmp c (ukey x) (d_key s) = Lt /\ length A1 <= f' /\
                         rewind f s = prev_ f' (set_child C s ch'))).
  Proof.
    induction A as [|x A0 IH] using rev_ind; intros Bx s f Hl Hch Hf.
    - destruct f as [|f]; [lia|]. rewrite rewind_unfold. cbv zeta.
      pose proof (child_prev_none _ Hch) as Hn.
      rewrite (child_none _ _ Hn (or_introl eq_refl)). cbn [is_some].
      exists [], [], (chstep (d_child s) MPrev). repeat split; auto; intros x [].
    - rewrite snoc_length in Hf. destruct f as [|f]; [lia|]. rewrite rewind_unfold. cbv zeta.
      pose proof (child_prev_some _ A0 x Hch) as Hn.
      assert (Hl' : l = A0 ++ x :: Bx) by (rewrite Hl, app_snoc_cons; reflexivity).
      pose proof (child_obs _ A0 x Bx Hl' Hn) as Hobs.
      assert (Wx : entry_wf p x) by (apply wf_in; rewrite Hl'; apply in_or_app; right; left; reflexivity).
      rewrite Hobs, (parse_cur_at _ x Hobs Wx). cbn [is_some].
      destruct (cmp c (ukey x) (d_key s)) eqn:E; cbn [is_lt].
      + destruct (IH (x :: Bx) (set_child C s (chstep (d_child s) MPrev)) f Hl' Hn) as (A1 & A2 & ch' & HA & H2 & Hc' & Hcase); [lia|].
        exists A1, (A2 ++ [x]), ch'. split; [rewrite HA, app_assoc; reflexivity|]. split.
        * intros y Hy. apply in_app_or in Hy as [Hy|[<-|[]]]; [apply H2; exact Hy|cbn; rewrite E; discriminate].
        * split; [exact Hc'|exact Hcase].
      + exists (A0 ++ [x]), [], (chstep (d_child s) MPrev). rewrite app_nil_r, pos_end_snoc.
        split; [reflexivity|]. split; [intros y []|]. split; [exact Hn|].
        right. exists A0, x, (S f). repeat split; auto. rewrite snoc_length. lia.
      + destruct (IH (x :: Bx) (set_child C s (chstep (d_child s) MPrev)) f Hl' Hn) as (A1 & A2 & ch' & HA & H2 & Hc' & Hcase); [lia|].
        exists A1, (A2 ++ [x]), ch'. split; [rewrite HA, app_assoc; reflexivity|]. split.
        * intros y Hy. apply in_app_or in Hy as [Hy|[<-|[]]]; [apply H2; exact Hy|cbn; rewrite E; discriminate].
        * split; [exact Hc'|exact Hcase].
  Qed.

  (* ================= the simulation relation ================= *)
  Variable fuel : nat.
  Hypothesis Hfuel : length l < fuel.

  Definition R (s : st) (sp : pos) : Prop :=
    d_err s = false /\
    match d_dir s with
    | DirSOI => sp = SOI /\ child_at (d_child s) SOI
    | DirEOI => sp = EOI /\ exists cp, child_at (d_child s) cp
    | DirForward => exists A e B, l = A ++ e :: B /\ fwd_at s A e /\ vis e = true /\ isval e = true /\
        (forall x, In x A -> vis x = true -> cmp c (ukey x) (ukey e) = Lt) /\
        sp = At (length (lf None A))
    | DirBackward => exists A B, l = A ++ B /\ child_at (d_child s) (pos_end A) /\
        (A = [] \/ exists A0 x, A = A0 ++ [x] /\ vis x = true /\ cmp c (ukey x) (d_key s) = Lt) /\
        (forall y, In y B -> vis y = true -> cmp c (ukey y) (d_key s) <> Lt) /\
        (exists rest, lf None B = (d_key s, d_value s) :: rest) /\
        sp = At (length (lf None A))
    end.

  Lemma LP_sorted : sorted_kv (cmp c) LP.
  Proof. apply (live_pairs_sorted c ok). exact Hsorted. Qed.

  Lemma l_app_ukey A B : l = A ++ B -> forall a b, In a A -> In b B -> cmp c (ukey a) (ukey b) <> Gt.
  Proof. intros Hl. apply (esorted_app_ukey c). rewrite <- Hl. exact Hsorted. Qed.

  Lemma cmp_le_lt_trans a b d : cmp c a b <> Gt -> cmp c b d = Lt -> cmp c a d = Lt.
  Proof. apply (f_le_lt_trans (cmp c) (cmp_ord_ok c ok)). Qed.
  Lemma cmp_lt_le_trans a b d : cmp c a b = Lt -> cmp c b d <> Gt -> cmp c a d = Lt.
  Proof. apply (f_lt_le_trans (cmp c) (cmp_ord_ok c ok)). Qed.
  Lemma cmp_ge_le a b : cmp c a b <> Lt <-> cmp c b a <> Gt.
  Proof. apply (f_not_lt_le (cmp c) (cmp_ord_ok c ok)). Qed.

  (* decomposition of LP at a forward position *)
  Lemma LP_fwd A e B : l = A ++ e :: B -> vis e = true -> isval e = true ->
    (forall x, In x A -> vis x = true -> cmp c (ukey x) (ukey e) = Lt) ->
    LP = lf None A ++ (ukey e, snd e) :: lf (Some (ukey e)) B.
  Proof.
    intros Hl Hv Hvl Hhead. unfold live_pairs. rewrite Hl at 1. rewrite (lf_split c ok).
    - cbn. rewrite Hv, Hvl. reflexivity.
    - intros x y Hx [<-|Hy] Hvx Hvy; [auto|].
      eapply cmp_lt_le_trans; [apply Hhead; eauto|].
      apply (l_app_ukey (A ++ [e]) B); [rewrite app_snoc_cons; exact Hl|apply in_or_app; right; left; reflexivity|exact Hy].
  Qed.

  (* decomposition of LP at a backward position *)
  Lemma LP_bwd A B k : l = A ++ B ->
    (A = [] \/ exists A0 x, A = A0 ++ [x] /\ vis x = true /\ cmp c (ukey x) k = Lt) ->
    (forall y, In y B -> vis y = true -> cmp c (ukey y) k <> Lt) ->
    LP = lf None A ++ lf None B.
  Proof.
    intros Hl HA HB. unfold live_pairs. rewrite Hl at 1. apply (lf_split c ok).
    intros x y Hx Hy Hvx Hvy. destruct HA as [->|(A0 & x0 & -> & Hv0 & Hlt0)]; [destruct Hx|].
    assert (Hxx0 : cmp c (ukey x) (ukey x0) <> Gt).
    { apply in_app_or in Hx as [Hx|[<-|[]]]; [|rewrite (cmp_refl c ok); discriminate].
      assert (Hs : esorted (A0 ++ [x0])).
      { pose proof Hsorted as Hs. rewrite Hl in Hs. apply (sorted_app_inv (icmp c)) in Hs. tauto. }
      apply (esorted_app_ukey c A0 [x0] Hs x x0 Hx). left. reflexivity. }
    eapply cmp_le_lt_trans; [exact Hxx0|]. eapply cmp_lt_le_trans; [exact Hlt0|].
    apply cmp_ge_le. apply HB; assumption.
  Qed.

  Lemma R_obs s sp : R s sp -> db_kv s = cobs LP sp /\ db_valid s = is_some (cobs LP sp).
  Proof.
    intros [Herr HR]. unfold db_kv, db_valid. rewrite Herr. cbn [negb andb].
    destruct (d_dir s).
    - destruct HR as [-> _]. split; reflexivity.
    - destruct HR as [-> _]. split; reflexivity.
    - destruct HR as (A & B & Hl & _ & HA & HB & (rest & Hrest) & ->).
      rewrite (LP_bwd A B (d_key s) Hl HA HB), Hrest. cbn [cobs]. rewrite nth_error_mid. split; reflexivity.
    - destruct HR as (A & e & B & Hl & (_ & Hk & Hv & _) & Hve & Hvl & Hhead & ->).
      rewrite (LP_fwd A e B Hl Hve Hvl Hhead). cbn [cobs]. rewrite nth_error_mid, Hk, Hv. split; reflexivity.
  Qed.

  (* index of a pair in LP is determined by its key *)
  Lemma LP_index_unique i j a b : nth_error LP i = Some a -> nth_error LP j = Some b -> fst a = fst b -> i = j.
  Proof. apply (sorted_nth_key_inj (cmp c) (cmp_ord_ok c ok) LP LP_sorted). Qed.

  (* ---- from the forward loop's post-condition to the relation ---- *)
  Lemma next_post_R r sk A B LA' :
    l = A ++ B -> next_post r sk A B -> LP = LA' ++ lf sk B ->
    (forall e, In e B -> go_emit sk (ukey e) = true -> forall x, In x A -> vis x = true -> cmp c (ukey x) (ukey e) = Lt) ->
    exists s' ret, r = Ok s' ret /\ ret = db_valid s' /\
      R s' (if Nat.ltb (length LA') (length LP) then At (length LA') else EOI).
  Proof.
    intros Hl Hpost HLP Hhead. unfold next_post in Hpost.
    destruct (lf sk B) as [|kv rest] eqn:Elf.
    - destruct Hpost as (s' & -> & Hd & He & Hc). exists s', false.
      split; [reflexivity|]. split; [unfold db_valid; rewrite Hd, He; reflexivity|].
      rewrite HLP, app_nil_r, Nat.ltb_irrefl. split; [exact He|]. rewrite Hd. split; [reflexivity|exact Hc].
    - destruct Hpost as (s' & B1 & e & B2 & -> & HB & Hlf1 & Hv & Hvl & Hkv & Hem & Hlt & Hfw).
      exists s', true. split; [reflexivity|]. destruct Hfw as (Hd & Hk & Hva & He & Hc).
      split; [unfold db_valid; rewrite Hd, He; reflexivity|].
      assert (Hlen : Nat.ltb (length LA') (length LP) = true).
      { apply Nat.ltb_lt. rewrite HLP, app_length. cbn. lia. }
      rewrite Hlen. split; [exact He|]. rewrite Hd.
      assert (Hl' : l = (A ++ B1) ++ e :: B2) by (rewrite Hl, HB, app_assoc; reflexivity).
      assert (Hhead' : forall x, In x (A ++ B1) -> vis x = true -> cmp c (ukey x) (ukey e) = Lt).
      { intros x Hx Hvx. apply in_app_or in Hx as [Hx|Hx]; [|apply Hlt; assumption].
        apply (Hhead e); auto. rewrite HB. apply in_or_app. right. left. reflexivity. }
      exists (A ++ B1), e, B2. split; [exact Hl'|]. split; [repeat split; assumption|].
      split; [exact Hv|]. split; [exact Hvl|]. split; [exact Hhead'|].
      f_equal. apply (LP_index_unique _ _ (ukey e, snd e) (ukey e, snd e)); [| |reflexivity].
      + rewrite HLP, <- Hkv. apply nth_error_mid.
      + rewrite (LP_fwd _ e B2 Hl' Hv Hvl Hhead'). apply nth_error_mid.
  Qed.

  (* ---- from the backward loop's post-condition to the relation ---- *)
  Lemma prev_post_R r A T : l = A ++ T -> prev_post r A [] ->
    exists s' ret, r = Ok s' ret /\ ret = db_valid s' /\
      R s' (cstep (cmp c) LP (At (length (lf None A))) MPrev).
  Proof.
    intros Hl (A1 & A2 & s' & ret & HA & -> & He & Hc & Hret).
    exists s', ret. split; [reflexivity|]. rewrite app_nil_r in Hret.
    destruct ret.
    - destruct Hret as (Hd & (Hlf & Hge & (y0 & Hy0 & Hyk)) & HA1).
      split; [unfold db_valid; rewrite Hd, He; reflexivity|].
      assert (HsA : esorted A).
      { pose proof Hsorted as Hs. rewrite Hl in Hs. apply (sorted_app_inv (icmp c)) in Hs. tauto. }
      assert (Hsplit : lf None A = lf None A1 ++ lf None A2).
      { rewrite HA. apply (lf_split c ok). intros x y Hx Hy Hvx Hvy.
        destruct HA1 as [->|(A10 & x0 & -> & Hv0 & Hlt0)]; [destruct Hx|].
        assert (Hxx0 : cmp c (ukey x) (ukey x0) <> Gt).
        { apply in_app_or in Hx as [Hx|[<-|[]]]; [|rewrite (cmp_refl c ok); discriminate].
          assert (Hs : esorted (A10 ++ [x0])).
          { rewrite HA in HsA. apply (sorted_app_inv (icmp c)) in HsA. tauto. }
          apply (esorted_app_ukey c A10 [x0] Hs x x0 Hx). left. reflexivity. }
        eapply cmp_le_lt_trans; [exact Hxx0|]. eapply cmp_lt_le_trans; [exact Hlt0|].
        apply cmp_ge_le. apply Hge; assumption. }
      rewrite Hsplit, Hlf, app_length. cbn [length]. rewrite Nat.add_1_r. cbn [cstep].
      split; [exact He|]. rewrite Hd.
      exists A1, (A2 ++ T). split; [rewrite Hl, HA, app_assoc; reflexivity|]. split; [exact Hc|].
      split; [exact HA1|]. split.
      + intros y Hy Hvy. apply in_app_or in Hy as [Hy|Hy]; [apply Hge; assumption|].
        rewrite <- Hyk. apply cmp_ge_le.
        apply (l_app_ukey (A1 ++ A2) T); [rewrite Hl, HA; reflexivity|apply in_or_app; right; exact Hy0|exact Hy].
      + split; [|reflexivity]. rewrite (live_app c ok), Hlf. cbn. eexists. reflexivity.
    - destruct Hret as (-> & Hd & Hlf).
      split; [unfold db_valid; rewrite Hd; destruct (d_err s'); reflexivity|].
      cbn in HA. subst A2. rewrite Hlf. cbn.
      split; [exact He|]. rewrite Hd. split; [reflexivity|exact Hc].
  Qed.

  (* ================= the five calls ================= *)
  Notation step_ok r sp' := (exists s' ret, r = Ok s' ret /\ ret = db_valid s' /\ R s' sp').

  Lemma R_child s sp : R s sp -> exists cp, child_at (d_child s) cp.
  Proof.
    intros [_ HR]. destruct (d_dir s).
    - destruct HR as [_ H]. eauto.
    - destruct HR as [_ H]. exact H.
    - destruct HR as (A & B & _ & H & _). eauto.
    - destruct HR as (A & e & B & _ & (_ & _ & _ & _ & H) & _). eauto.
  Qed.

  Lemma LP_nil : l = [] -> LP = [].
  Proof. intros H. unfold live_pairs. rewrite H. reflexivity. Qed.

  (* landing on the first entry with a fresh scan: First(), and Next() from SOI *)
  Lemma first_like ch' : child_at ch' (cfirst l) ->
    (chobs ch' = None /\ cfirst LP = EOI) \/
    (exists e0, chobs ch' = Some e0 /\ forall s1, d_child s1 = ch' -> d_err s1 = false -> d_dir s1 = DirSOI ->
       step_ok (next_loop fuel s1) (cfirst LP)).
  Proof.
    intros Hch. destruct (list_cases l) as [El|(e0 & B' & El)].
    - left. assert (Hcf : cfirst l = EOI) by (rewrite El; reflexivity). rewrite Hcf in Hch.
      split; [apply (child_none _ _ Hch); right; reflexivity|].
      rewrite (LP_nil El). reflexivity.
    - right. exists e0. assert (Hcf : cfirst l = At (length (@nil entry))) by (rewrite El; reflexivity).
      assert (Hc0 : child_at ch' (At (length (@nil entry)))) by (rewrite Hcf in Hch; exact Hch).
      split; [apply (child_obs _ [] e0 B' El Hc0)|].
      intros s1 Hc1 He1 Hd1. rewrite <- Hc1 in Hc0.
      assert (Hg : gsk s1 = None) by (unfold gsk; rewrite Hd1; reflexivity).
      pose proof (next_loop_spec l [] s1 fuel eq_refl) as Hn. rewrite Hg in Hn.
      assert (Hpost : next_post (next_loop fuel s1) None [] l).
      { apply Hn; auto. - rewrite El. discriminate. - lia. - apply lower_ok_none. }
      destruct (next_post_R _ None [] l [] eq_refl Hpost eq_refl) as (s' & ret & Hr & Hret & HR).
      { intros e _ _ x []. }
      exists s', ret. split; [exact Hr|]. split; [exact Hret|].
      cbn [length] in HR. destruct LP; exact HR.
  Qed.

  Lemma step_first s sp : R s sp -> step_ok (db_first c p C chstep chobs seq strict fuel s) (cfirst LP).
  Proof.
    intros HR. destruct (R_child s sp HR) as [cp Hcp]. destruct HR as [Herr _].
    unfold db_first. rewrite Herr.
    pose proof (refines_from_step _ _ _ _ _ _ MFirst Hcp) as Hch. cbn [cstep] in Hch.
    destruct (first_like _ Hch) as [[Hn Hsp]|(e0 & Ho & Hstep)].
    - rewrite Hn. cbn [is_some]. eexists _, false. split; [reflexivity|]. split; [unfold db_valid; cbn; rewrite ?Herr; reflexivity|].
      rewrite Hsp. split; [exact Herr|]. cbn. split; [reflexivity|]. eauto.
    - rewrite Ho. cbn [is_some]. apply Hstep; auto.
  Qed.

  (* ---- Seek ---- *)
  Lemma make_probe k : make_ikey p k seq (keyTypeSeek p) = MkOk (probe p k seq).
  Proof.
    unfold make_ikey. destruct dpok as (_ & Hsv & _).
    assert ((keyMaxSeq p <? seq)%N = false) as -> by (apply N.ltb_ge; exact Hseq).
    assert ((keyTypeVal p <? keyTypeSeek p)%N = false) as -> by (apply N.ltb_ge; exact Hsv).
    reflexivity.
  Qed.

  Lemma probe_lt e k : icmp c (fst e) (probe p k seq) = Lt -> vis e = true -> entry_wf p e -> cmp c (ukey e) k = Lt.
  Proof.
    unfold icmp, probe. cbn [uk num]. intros H Hv W.
    destruct (cmp c (ukey e) k) eqn:E; try congruence. exfalso.
    apply N.compare_lt_iff in H. unfold visible, ik_seq in Hv. apply N.leb_le in Hv.
    unfold entry_wf, ik_kind in W. unfold pack in H.
    destruct dpok as ((Hds & Hvs & _) & _ & Hdv).
    pose proof (N.div_mod (num (fst e)) 256 ltac:(discriminate)) as Hdm.
    assert (Hk : (num (fst e) mod 256 <= keyTypeSeek p)%N) by (destruct W as [-> | ->]; assumption).
    change (seq * 256 + keyTypeSeek p < num (fst e))%N in H. lia.
  Qed.

  Lemma probe_ge (e : entry) k : icmp c (fst e) (probe p k seq) <> Lt -> cmp c (ukey e) k <> Lt.
  Proof. unfold icmp, probe. cbn [uk num]. intros H E. rewrite E in H. congruence. Qed.

  Lemma step_seek s sp k : R s sp ->
    step_ok (db_seek c p C chstep chobs seq strict fuel s k) (find_ge (cmp c) k LP 0).
  Proof.
    intros HR. destruct (R_child s sp HR) as [cp Hcp]. destruct HR as [Herr _].
    unfold db_seek. rewrite Herr, make_probe.
    set (pr := probe p k seq).
    pose proof (refines_from_step _ _ _ _ _ _ (MSeek pr) Hcp) as Hch. cbn [cstep] in Hch.
    set (ch' := chstep (d_child s) (MSeek pr)) in *.
    destruct (find_ge (icmp c) pr l 0) as [|j|] eqn:Ef.
    - exfalso. eapply find_ge_not_soi; eauto.
    - (* landed on entry number j *)
      destruct (find_ge_at (icmp c) pr l j Ef) as (x & Hx & Hxge & Hlt).
      destruct (nth_error_split l j Hx) as (A & B' & Hl & HlenA). subst j.
      assert (HA : forall a, In a A -> icmp c (fst a) pr = Lt).
      { intros a Ha. apply In_nth_error in Ha as [m Hm].
        assert (m < length A) by (apply nth_error_Some; congruence).
        apply (Hlt m a); auto. rewrite Hl, nth_error_app1; auto. }
      assert (HB : forall b, In b (x :: B') -> icmp c (fst b) pr <> Lt).
      { intros b [<-|Hb]; [exact Hxge|]. intros Hb'. apply Hxge.
        eapply (icmp_trans c ok); [|exact Hb'].
        pose proof Hsorted as Hs. rewrite Hl in Hs. apply (sorted_app_inv (icmp c)) in Hs as (_ & Hs & _).
        apply (sorted_cons_inv (icmp c)) in Hs as [_ Hs]. rewrite Forall_forall in Hs. apply Hs. exact Hb. }
      assert (HAk : forall a, In a A -> vis a = true -> cmp c (ukey a) k = Lt).
      { intros a Ha Hva. apply probe_lt; auto. apply wf_in. rewrite Hl. apply in_or_app. left. exact Ha. }
      assert (HBk : forall b, In b (x :: B') -> cmp c (ukey b) k <> Lt).
      { intros b Hb. apply probe_ge. apply HB. exact Hb. }
      assert (HLP : LP = lf None A ++ lf None (x :: B')).
      { unfold live_pairs. rewrite Hl at 1. apply (lf_split c ok). intros a b Ha Hb Hva Hvb.
        eapply cmp_lt_le_trans; [apply HAk; assumption|]. apply cmp_ge_le. apply HBk. exact Hb. }
      rewrite (child_obs ch' A x B' Hl Hch). cbn [is_some].
      set (s1 := set_dir C (set_child C s ch') DirSOI).
      pose proof (next_loop_spec (x :: B') A s1 fuel Hl) as Hn.
      assert (Hpost : next_post (next_loop fuel s1) None A (x :: B')).
      { apply Hn; auto; try discriminate; try apply lower_ok_none;
          try (rewrite Hl, app_length in Hfuel; cbn in *; lia). }
      destruct (next_post_R _ None A (x :: B') (lf None A) Hl Hpost HLP) as (s' & ret & Hr & Hret & HR).
      { intros e He _ a Ha Hva. eapply cmp_lt_le_trans; [apply HAk; assumption|]. apply cmp_ge_le. apply HBk. exact He. }
      exists s', ret. split; [exact Hr|]. split; [exact Hret|].
      assert (Hspec : find_ge (cmp c) k LP 0 = if Nat.ltb (length (lf None A)) (length LP) then At (length (lf None A)) else EOI).
      { rewrite HLP at 1. rewrite (find_ge_app_lt (cmp c)).
        2:{ intros [u v] Hy. apply (live_in c p seq) in Hy as (a & Ha & Hva & _ & -> & _). cbn. apply HAk; assumption. }
        cbn [plus]. rewrite HLP, app_length.
        destruct (lf None (x :: B')) as [|[u v] rest] eqn:Elf.
        - cbn [find_ge length]. rewrite Nat.add_0_r, Nat.ltb_irrefl. reflexivity.
        - assert (Hy : In (u, v) (lf None (x :: B'))) by (rewrite Elf; left; reflexivity).
          apply (live_in c p seq) in Hy as (b & Hb & _ & _ & -> & _).
          rewrite (find_ge_head (cmp c)) by (cbn; apply HBk; exact Hb).
          assert (Nat.ltb (length (lf None A)) (length (lf None A) + length ((ukey b, v) :: rest)) = true) as ->
            by (apply Nat.ltb_lt; cbn; lia).
          reflexivity. }
      rewrite Hspec. exact HR.
    - (* every entry is before the probe *)
      pose proof (find_ge_eoi (icmp c) pr l Ef) as Hall.
      rewrite (child_none _ _ Hch (or_intror eq_refl)). cbn [is_some].
      eexists _, false. split; [reflexivity|]. split; [unfold db_valid; cbn; rewrite ?Herr; reflexivity|].
      assert (Hspec : find_ge (cmp c) k LP 0 = EOI).
      { apply (seek_char_eoi (cmp c)). intros [u v] Hy.
        apply (live_in c p seq) in Hy as (a & Ha & Hva & _ & -> & _). cbn.
        apply probe_lt; auto. apply wf_in. exact Ha. }
      rewrite Hspec. split; [exact Herr|]. cbn. split; [reflexivity|]. eauto.
  Qed.

  (* ---- Last, and everything that ends in prev() ---- *)
  Lemma clast_as_prev : clast LP = cstep (cmp c) LP (At (length (lf None l))) MPrev.
  Proof. unfold clast, live_pairs. cbn [cstep]. destruct (length (lf None l)); reflexivity. Qed.

  Lemma step_last s sp : R s sp -> step_ok (db_last c p C chstep chobs seq strict fuel s) (clast LP).
  Proof.
    intros HR. destruct (R_child s sp HR) as [cp Hcp]. destruct HR as [Herr _].
    unfold db_last. rewrite Herr.
    pose proof (refines_from_step _ _ _ _ _ _ MLast Hcp) as Hch. cbn [cstep] in Hch.
    destruct (list_cases l) as [El|(e0 & B' & El)].
    - assert (Hcl : clast l = SOI) by (rewrite El; reflexivity). rewrite Hcl in Hch.
      rewrite (child_none _ _ Hch (or_introl eq_refl)). cbn [is_some].
      eexists _, false. split; [reflexivity|]. split; [unfold db_valid; cbn; rewrite ?Herr; reflexivity|].
      rewrite (LP_nil El). cbn. split; [exact Herr|]. cbn. split; [reflexivity|exact Hch].
    - assert (Hcl : clast l = pos_end l).
      { rewrite El. unfold clast, pos_end. cbn. rewrite Nat.sub_0_r. reflexivity. }
      rewrite Hcl in Hch.
      destruct (list_snoc_cases l) as [E|(A0 & x & E)]; [congruence|].
      assert (Hobs : chobs (chstep (d_child s) MLast) = Some x).
      { apply (child_obs _ A0 x []); [exact E|].
        assert (Hpe : pos_end l = At (length A0)) by (rewrite E; apply pos_end_snoc). rewrite Hpe in Hch. exact Hch. }
      rewrite Hobs. cbn [is_some].
      rewrite clast_as_prev.
      apply (prev_post_R _ l []); [rewrite app_nil_r; reflexivity|].
      apply (prev_spec l []); auto; [rewrite app_nil_r; reflexivity|lia].
  Qed.

  (* ---- Next ---- *)
  Lemma bwd_next_aux e1 B' k v rest : esorted (e1 :: B') ->
    (forall y, In y (e1 :: B') -> vis y = true -> cmp c (ukey y) k <> Lt) ->
    lf None (e1 :: B') = (k, v) :: rest -> lf (Some k) B' = rest.
  Proof.
    intros Hs Hge H. pose proof (sorted_cons_inv (icmp c) e1 B' Hs) as [Hs' _].
    assert (Hlow : lower_ok c seq (Some k) B').
    { intros k' Hk y Hy Hvy. injection Hk as <-. apply Hge; [right; exact Hy|exact Hvy]. }
    cbn [live_from same_ukey] in H. destruct (vis e1) eqn:Ev.
    - destruct (isval e1) eqn:Evl.
      + injection H as <- _ <-. reflexivity.
      + exfalso. assert (Hin : In (k, v) (lf (Some (ukey e1)) B')) by (rewrite H; left; reflexivity).
        apply (live_keys_gt c ok p seq B' (ukey e1) Hs') in Hin; [|apply (lower_ok_sorted c ok); exact Hs].
        apply (Hge e1 (or_introl eq_refl) Ev). exact Hin.
    - destruct (live_prefix c ok p seq (Some k) B') as (pre & Hpre & Hlen). rewrite H in Hpre.
      destruct pre as [|q pre].
      + exfalso. cbn in Hpre. assert (Hin : In (k, v) (lf (Some k) B')) by (rewrite <- Hpre; left; reflexivity).
        apply (live_keys_gt c ok p seq B' k Hs' Hlow) in Hin. rewrite (cmp_refl c ok) in Hin. discriminate.
      + destruct pre; [|cbn in Hlen; lia]. cbn in Hpre. injection Hpre as _ <-. reflexivity.
  Qed.

  Lemma step_next s sp : R s sp -> step_ok (db_next c p C chstep chobs seq strict fuel s) (cstep (cmp c) LP sp MNext).
  Proof.
    intros HR. pose proof HR as [Herr HR']. unfold db_next.
    destruct (d_dir s) eqn:Ed.
    - (* SOI *)
      destruct HR' as [-> Hch]. rewrite Herr.
      pose proof (refines_from_step _ _ _ _ _ _ MNext Hch) as Hch'. cbn [cstep] in Hch'.
      destruct (first_like _ Hch') as [[Hn Hsp]|(e0 & Ho & Hstep)].
      + rewrite Hn. cbn [is_some negb]. eexists _, false. split; [reflexivity|]. split; [unfold db_valid; cbn; rewrite ?Herr; reflexivity|].
        cbn [cstep]. rewrite Hsp. split; [exact Herr|]. cbn. split; [reflexivity|]. eauto.
      + rewrite Ho. cbn [is_some negb]. apply Hstep; auto.
    - (* EOI *)
      destruct HR' as [-> Hch]. exists s, false. split; [reflexivity|].
      split; [unfold db_valid; rewrite Ed, Herr; reflexivity|]. exact HR.
    - (* Backward *)
      destruct HR' as (A & B & Hl & Hch & HA & HB & (rest & Hrest) & ->). rewrite Herr.
      destruct B as [|e1 B']; [discriminate|].
      pose proof (LP_bwd A (e1 :: B') (d_key s) Hl HA HB) as HLP. rewrite Hrest in HLP.
      assert (Hch1 : child_at (chstep (d_child s) MNext) (At (length A))).
      { pose proof (refines_from_step _ _ _ _ _ _ MNext Hch) as H1.
        assert (Hc : cstep (icmp c) l (pos_end A) MNext = At (length A)).
        { destruct (list_snoc_cases A) as [EA|(A0 & x0 & EA)]; rewrite EA in *.
          - cbn [pos_end cstep]. rewrite Hl. reflexivity.
          - rewrite pos_end_snoc. rewrite cstep_next_lt by (rewrite Hl, !app_length; cbn; lia).
            rewrite snoc_length. reflexivity. }
        rewrite Hc in H1. exact H1. }
      rewrite (child_obs _ A e1 B' Hl Hch1). cbn [is_some negb].
      assert (Hs1 : esorted (e1 :: B')).
      { pose proof Hsorted as Hs. rewrite Hl in Hs. apply (sorted_app_inv (icmp c)) in Hs. tauto. }
      assert (Hrest' : lf (Some (d_key s)) B' = rest) by (eapply bwd_next_aux; eauto).
      destruct B' as [|e2 B''].
      + (* e1 is the last entry *)
        pose proof (child_next_none _ A e1 Hl Hch1) as Hn.
        rewrite (child_none _ _ Hn (or_intror eq_refl)). cbn [is_some negb].
        eexists _, false. split; [reflexivity|]. split; [unfold db_valid; cbn; rewrite ?Herr; reflexivity|].
        cbn in Hrest'. subst rest.
        rewrite cstep_next_ge by (rewrite HLP, app_length; cbn; lia).
        split; [exact Herr|]. cbn. split; [reflexivity|]. eauto.
      + pose proof (child_next_some _ A e1 e2 B'' Hl Hch1) as Hn.
        assert (Hl' : l = (A ++ [e1]) ++ e2 :: B'') by (rewrite app_snoc_cons; exact Hl).
        rewrite (child_obs _ _ e2 B'' Hl' Hn). cbn [is_some negb].
        set (s1 := set_child C s (chstep (chstep (d_child s) MNext) MNext)).
        assert (Hg : gsk s1 = Some (d_key s)) by (unfold gsk; cbn; rewrite Ed; reflexivity).
        pose proof (next_loop_spec (e2 :: B'') (A ++ [e1]) s1 fuel Hl') as Hn1. rewrite Hg in Hn1.
        assert (Hpost : next_post (next_loop fuel s1) (Some (d_key s)) (A ++ [e1]) (e2 :: B'')).
        { apply Hn1; auto; try discriminate.
          - rewrite Hl, app_length in Hfuel. cbn in *. lia.
          - intros k' Hk y Hy Hvy. injection Hk as <-. apply HB; [right; exact Hy|exact Hvy]. }
        assert (HLP' : LP = (lf None A ++ [(d_key s, d_value s)]) ++ lf (Some (d_key s)) (e2 :: B'')).
        { rewrite HLP, Hrest', <- app_assoc. reflexivity. }
        (* an entry of B carrying the current key *)
        assert (Hyk : exists y, In y (e1 :: e2 :: B'') /\ ukey y = d_key s).
        { assert (Hin : In (d_key s, d_value s) (lf None (e1 :: e2 :: B''))) by (rewrite Hrest; left; reflexivity).
          apply (live_in c p seq) in Hin as (y & Hy & _ & _ & Hk & _). eauto. }
        destruct Hyk as (y & Hy & Hyk).
        destruct (next_post_R _ _ _ _ _ Hl' Hpost HLP') as (s' & ret & Hr & Hret & HRs).
        { intros e He Hem x Hx Hvx. apply go_emit_gt in Hem.
          eapply cmp_le_lt_trans; [|exact Hem]. rewrite <- Hyk.
          apply in_app_or in Hx as [Hx|[<-|[]]].
          - apply (l_app_ukey A (e1 :: e2 :: B'') Hl); assumption.
          - destruct Hy as [<-|Hy]; [rewrite (cmp_refl c ok); discriminate|].
            apply (esorted_cons_ukey c e1 (e2 :: B'') Hs1). exact Hy. }
        exists s', ret. split; [exact Hr|]. split; [exact Hret|].
        rewrite app_length in HRs. cbn [length] in HRs. rewrite Nat.add_1_r in HRs.
        cbn -[Nat.ltb]. exact HRs.
    - (* Forward *)
      destruct HR' as (A & e & B & Hl & (_ & Hk & Hv & _ & Hch) & Hve & Hvl & Hhead & ->). rewrite Herr.
      pose proof (LP_fwd A e B Hl Hve Hvl Hhead) as HLP.
      destruct B as [|e1 B'].
      + pose proof (child_next_none _ A e Hl Hch) as Hn.
        rewrite (child_none _ _ Hn (or_intror eq_refl)). cbn [is_some negb].
        eexists _, false. split; [reflexivity|]. split; [unfold db_valid; cbn; rewrite ?Herr; reflexivity|].
        rewrite cstep_next_ge by (rewrite HLP, app_length; cbn; lia).
        split; [exact Herr|]. cbn. split; [reflexivity|]. eauto.
      + pose proof (child_next_some _ A e e1 B' Hl Hch) as Hn.
        assert (Hl' : l = (A ++ [e]) ++ e1 :: B') by (rewrite app_snoc_cons; exact Hl).
        rewrite (child_obs _ _ e1 B' Hl' Hn). cbn [is_some negb].
        set (s1 := set_child C s (chstep (d_child s) MNext)).
        assert (Hg : gsk s1 = Some (ukey e)) by (unfold gsk; cbn; rewrite Ed, Hk; reflexivity).
        pose proof (next_loop_spec (e1 :: B') (A ++ [e]) s1 fuel Hl') as Hn1. rewrite Hg in Hn1.
        assert (Hs1 : esorted (e :: e1 :: B')).
        { pose proof Hsorted as Hs. rewrite Hl in Hs. apply (sorted_app_inv (icmp c)) in Hs. tauto. }
        assert (Hpost : next_post (next_loop fuel s1) (Some (ukey e)) (A ++ [e]) (e1 :: B')).
        { apply Hn1; auto; try discriminate.
          - rewrite Hl, app_length in Hfuel. cbn in *. lia.
          - apply (lower_ok_sorted c ok). exact Hs1. }
        assert (HLP' : LP = (lf None A ++ [(ukey e, snd e)]) ++ lf (Some (ukey e)) (e1 :: B')).
        { rewrite HLP, <- app_assoc. reflexivity. }
        destruct (next_post_R _ _ _ _ _ Hl' Hpost HLP') as (s' & ret & Hr & Hret & HRs).
        { intros e' He' Hem x Hx Hvx. apply go_emit_gt in Hem.
          apply in_app_or in Hx as [Hx|[<-|[]]]; [|exact Hem].
          eapply (cmp_trans c ok); [apply Hhead; assumption|exact Hem]. }
        exists s', ret. split; [exact Hr|]. split; [exact Hret|].
        rewrite app_length in HRs. cbn [length] in HRs. rewrite Nat.add_1_r in HRs.
        cbn -[Nat.ltb]. exact HRs.
  Qed.

  (* ---- Prev ---- *)
  Lemma step_prev s sp : R s sp -> step_ok (db_prev c p C chstep chobs seq strict fuel s) (cstep (cmp c) LP sp MPrev).
  Proof.
    intros HR. pose proof HR as [Herr HR']. unfold db_prev.
    destruct (d_dir s) eqn:Ed.
    - (* SOI *)
      destruct HR' as [-> Hch]. exists s, false. split; [reflexivity|].
      split; [unfold db_valid; rewrite Ed, Herr; reflexivity|]. exact HR.
    - (* EOI *)
      destruct HR' as [-> Hch]. rewrite Herr. cbn [cstep]. apply (step_last s EOI HR).
    - (* Backward *)
      destruct HR' as (A & B & Hl & Hch & HA & HB & Hrest & ->). rewrite Herr.
      apply (prev_post_R _ A B Hl). apply (prev_spec A B); auto.
      rewrite Hl, app_length in Hfuel. lia.
    - (* Forward: rewind to the previous user key, then prev() *)
      destruct HR' as (A & e & B & Hl & (_ & Hk & Hv & _ & Hch) & Hve & Hvl & Hhead & ->). rewrite Herr.
      destruct (rewind_spec A (e :: B) s fuel Hl Hch) as (A1 & A2 & ch' & HA & HA2 & Hc' & Hcase).
      { rewrite Hl, app_length in Hfuel. lia. }
      assert (Hinv : forall x, In x A2 -> vis x = false).
      { intros x Hx. destruct (vis x) eqn:Evx; [exfalso|reflexivity].
        apply (HA2 x Hx). rewrite Hk. apply Hhead; [rewrite HA; apply in_or_app; right; exact Hx|exact Evx]. }
      assert (HlfA : lf None A = lf None A1).
      { rewrite HA, (live_app c ok), (live_invisible c p seq _ A2 Hinv), app_nil_r. reflexivity. }
      rewrite HlfA.
      destruct Hcase as [[-> Hrw]|(A10 & x & f' & HA1 & Hlt & Hf' & Hrw)]; rewrite Hrw.
      + eexists _, false. split; [reflexivity|]. split; [unfold db_valid; cbn; rewrite ?Herr; reflexivity|].
        cbn. split; [exact Herr|]. cbn. split; [reflexivity|exact Hc'].
      + assert (Hl1 : l = A1 ++ (A2 ++ e :: B)) by (rewrite Hl, HA, <- app_assoc; reflexivity).
        apply (prev_post_R _ A1 (A2 ++ e :: B) Hl1).
        apply (prev_spec A1 (A2 ++ e :: B)); auto.
  Qed.

  (* ================= simulation, hence refinement ================= *)
  Theorem dbiter_sim s sp m : R s sp ->
    exists s' ret, db_step fuel s m = Ok s' ret /\ R s' (cstep (cmp c) LP sp m) /\
                   (ret, db_kv s') = out_of (cobs LP (cstep (cmp c) LP sp m)).
  Proof.
    intros HR.
    assert (H : step_ok (db_step fuel s m) (cstep (cmp c) LP sp m)).
    { destruct m; cbn [DBIter.db_step cstep].
      - apply (step_first s sp HR).
      - apply (step_last s sp HR).
      - apply (step_seek s sp k HR).
      - apply (step_next s sp HR).
      - apply (step_prev s sp HR). }
    destruct H as (s' & ret & Hr & Hret & HR'). exists s', ret. split; [exact Hr|]. split; [exact HR'|].
    destruct (R_obs s' _ HR') as [Hkv Hval]. unfold out_of. rewrite Hret, Hkv, Hval. reflexivity.
  Qed.

  Lemma dbiter_run_from s sp ms : R s sp ->
    db_run c p C chstep chobs seq strict fuel s ms = Some (run_from (cmp c) LP sp ms).
  Proof.
    revert s sp. induction ms as [|m ms IH]; intros s sp HR; cbn [db_run run_from]; [reflexivity|].
    destruct (dbiter_sim s sp m HR) as (s' & ret & Hr & HR' & Hout).
    fold (db_step fuel s m). rewrite Hr, (IH s' _ HR'), Hout. reflexivity.
  Qed.

  Lemma R_init ch0 : refines (icmp c) chstep chobs ch0 l -> R (db_init ch0) SOI.
  Proof. intros H. split; [reflexivity|]. cbn. split; [reflexivity|exact H]. Qed.
End DBIterProofs.

(* dbIter over ANY raw iterator that behaves like a cursor over the strictly sorted, well-formed
   internal entries l shows — for every finite sequence of First/Last/Seek/Next/Prev — exactly what
   the reference cursor over live_pairs l seq shows; no fuel exhaustion, no panic. *)
Theorem dbiter_refines (c : comparer) (p : kparams) (C : Type) (chstep : C -> move ikey -> C)
  (chobs : C -> option entry) (seq : N) (strict : bool) (l : list entry) (fuel : nat) (ch0 : C) :
  comparer_ok c -> dbparams_ok p -> (seq <= keyMaxSeq p)%N ->
  sorted_kv (icmp c) l -> Forall (entry_wf p) l -> length l < fuel ->
  refines (icmp c) chstep chobs ch0 l ->
  forall ms, db_run c p C chstep chobs seq strict fuel (db_init ch0) ms =
             Some (run_cursor (cmp c) (live_pairs c p seq l) ms).
Proof.
  intros ok dpok Hseq Hs Hwf Hf Href ms.
  apply (dbiter_run_from c ok p dpok C chstep chobs seq Hseq strict l Hs Hwf fuel Hf).
  apply R_init. exact Href.
Qed.
