(* Iter/IterErr.v — the error paths and the release protocol of the three iterators of property C02:
   leveldb/iterator/merged_iter.go (iterErr, strict, err, dirReleased, Release, SetReleaser),
   leveldb/iterator/indexed_iter.go (indexErr, dataErr, strict, BasicReleaser), leveldb/db_iter.go
   (iterErr, setErr, dirReleased, Release, SetReleaser).

   Children are black boxes with an error status [cherr] (iterator.Error()): ECorrupt stands for an error
   with errors.IsCorrupted(err) (skipped by merged/indexed iterators unless strict), EOther for any other
   error (I/O, closed...), EReleased for iterator.ErrIterReleased.

   The error-aware machines wrap the error-free machines of Iter/Merged.v, Iter/Indexed.v, Iter/DBIter.v:
   the Go code consults a child's Error() exactly when a call on that child returned false; if the error
   halts the iterator (iterErr / dataErr / indexErr return true) the call returns false at once and every
   later call returns false too, otherwise the code continues on the very path of the error-free machine.
   So each method is: the guards of the Go method (err != nil, released, dirEOI/dirSOI), a scan - in the
   order of the Go loops - for the first child whose call fails with a halting error, and otherwise the
   error-free method.  (approx) on a halting error the positions of the children are not tracked further
   (the Go loop leaves the later children where they were): no later call reads them.

   [fchild] is a black box with a fuse: an ideal child whose n-th call fails (what a block read failing at
   some point does to a table iterator: C13 table_strict_iter_degrades; what the harness' fault-injecting
   wrapper does).  Model file: definitions only (proofs in IterErrProofs.v). *)
From GL Require Export Iter.Cursor Iter.Merged Iter.Indexed Iter.DBIter.

Inductive ierr := ECorrupt | EOther | EReleased.

Definition is_corrupt (e : ierr) : bool := match e with ECorrupt => true | _ => false end.
(* `i.strict || !errors.IsCorrupted(err)` *)
Definition halting (strict : bool) (e : ierr) : bool := strict || negb (is_corrupt e).

(* the calls of the iterator API that matter here *)
Inductive ecall (K : Type) := CMove (m : move K) | CRelease | CSetReleaser (nonnil : bool).
Arguments CMove {K} m. Arguments CRelease {K}. Arguments CSetReleaser {K} nonnil.

(* what is observed after a call: the returned bool (false for Release / SetReleaser), Key/Value, Valid, Error *)
Record eout (K V : Type) := mkEO { eo_ret : bool; eo_kv : option (K * V); eo_valid : bool; eo_err : option ierr }.
Arguments mkEO {K V}. Arguments eo_ret {K V}. Arguments eo_kv {K V}. Arguments eo_valid {K V}. Arguments eo_err {K V}.

(* ------------------------------------------------------------------ a child with a fuse *)
Section Faulty.
  Variables K V C : Type.
  Variable chstep : C -> move K -> C.
  Variable chobs : C -> option (K * V).

  (* fc_fuse = Some n: the (n+1)-th call from now fails with fc_kind and the iterator stays failed *)
  Record fchild := mkFC { fc_in : C; fc_fuse : option nat; fc_kind : ierr; fc_dead : bool }.

  Definition f_step (x : fchild) (m : move K) : fchild :=
    if fc_dead x then x
    else match fc_fuse x with
         | Some O => mkFC (fc_in x) (Some O) (fc_kind x) true
         | Some (S n) => mkFC (chstep (fc_in x) m) (Some n) (fc_kind x) false
         | None => mkFC (chstep (fc_in x) m) None (fc_kind x) false
         end.
  Definition f_obs (x : fchild) : option (K * V) := if fc_dead x then None else chobs (fc_in x).
  Definition f_err (x : fchild) : option ierr := if fc_dead x then Some (fc_kind x) else None.
End Faulty.
Arguments fc_in {C}. Arguments fc_fuse {C}. Arguments fc_kind {C}. Arguments fc_dead {C}. Arguments mkFC {C}.
Arguments f_step {K C}. Arguments f_obs {K V C}. Arguments f_err {C}.

(* ------------------------------------------------------------------ mergedIterator *)
Section MergedErr.
  Variables K V C : Type.
  Variable chstep : C -> move K -> C.
  Variable chobs : C -> option (K * V).
  Variable cherr : C -> option ierr.
  Variable pop : list (option K) -> bool -> list nat -> option (nat * list nat).
  Variable strict : bool.

  Notation mst := (mstate K C).

  (* me_released: dir == dirReleased (then iters, keys, indexes are nil: me_base is dead data);
     me_releaser: i.releaser != nil *)
  Record mestate := mkME { me_base : mst; me_err : option ierr; me_released : bool; me_releaser : bool }.

  Definition me_init (its : list C) : mestate := mkME (m_init its) None false false.
  Definition me_with_base (s : mestate) (b : mst) : mestate := mkME b (me_err s) (me_released s) (me_releaser s).
  Definition me_with_err (s : mestate) (e : ierr) : mestate := mkME (me_base s) (Some e) (me_released s) (me_releaser s).
  Definition me_lift (s : mestate) (r : mst * bool) : mestate * bool := (me_with_base s (fst r), snd r).

  (* the `case i.iterErr(iter):` arm, reached when the call on the child returned false *)
  Definition halt (c : C) : option ierr :=
    match chobs c with
    | Some _ => None
    | None => match cherr c with
              | Some e => if halting strict e then Some e else None
              | None => None
              end
    end.

  Fixpoint scan (cs : list C) : option ierr :=
    match cs with
    | [] => None
    | c :: r => match halt c with Some e => Some e | None => scan r end
    end.

  Fixpoint drop_nth {A} (l : list A) (i : nat) : list A :=
    match l, i with
    | [], _ => []
    | _ :: r, O => r
    | x :: r, S j => x :: drop_nth r j
    end.

  (* First / Seek / Last after the guards: the `for x, iter := range i.iters` loop *)
  Definition me_abs (s : mestate) (m : move K) (k : mst -> mst * bool) : mestate * bool :=
    match scan (map (fun c => chstep c m) (m_iters (me_base s))) with
    | Some e => (me_with_err s e, false)
    | None => me_lift s (k (me_base s))
    end.

  (* the tail of Next(): step the current child *)
  Definition me_fwd (s : mestate) (b : mst) : option (mestate * bool) :=
    match nth_error (m_iters b) (m_index b) with
    | None => None
    | Some c =>
        match halt (chstep c MNext) with
        | Some e => Some (me_with_err (me_with_base s b) e, false)
        | None => option_map (me_lift s) (m_next_fwd K V C chstep chobs pop b)
        end
    end.

  Definition me_bwd (s : mestate) (b : mst) : option (mestate * bool) :=
    match nth_error (m_iters b) (m_index b) with
    | None => None
    | Some c =>
        match halt (chstep c MPrev) with
        | Some e => Some (me_with_err (me_with_base s b) e, false)
        | None => option_map (me_lift s) (m_prev_bwd K V C chstep chobs pop b)
        end
    end.

  Definition me_Next (s : mestate) : option (mestate * bool) :=
    let b := me_base s in
    match m_dir b with
    | DirEOI => Some (s, false)
    | DirSOI => Some (me_abs s MFirst (m_first K V C chstep chobs pop))
    | DirBackward =>
        match nth (m_index b) (m_keys b) None with
        | None => None
        | Some key =>
            match scan (map (fun c => chstep c (MSeek key)) (m_iters b)) with
            | Some e => Some (me_with_err s e, false)
            | None =>
                let (b1, ok) := m_seek K V C chstep chobs pop b key in
                if ok then me_fwd s b1 else Some (me_with_base s b1, false)
            end
        end
    | DirForward => me_fwd s b
    end.

  Definition me_Prev (s : mestate) : option (mestate * bool) :=
    let b := me_base s in
    match m_dir b with
    | DirSOI => Some (s, false)
    | DirEOI => Some (me_abs s MLast (m_last K V C chstep chobs pop))
    | DirForward =>
        match nth (m_index b) (m_keys b) None with
        | None => None
        | Some key =>
            let b1 := reposition_others K V C chstep chobs b key in
            (* the children other than the current one, after Seek(key) and Prev / Last, in index order *)
            match scan (drop_nth (m_iters b1) (m_index b)) with
            | Some e => Some (me_with_err s e, false)
            | None => me_bwd s b1
            end
        end
    | DirBackward => me_bwd s b
    end.

  (* a movement call with its guards: i.err != nil, dirReleased *)
  Definition me_move (s : mestate) (m : move K) : option (mestate * bool) :=
    match me_err s with
    | Some _ => Some (s, false)
    | None =>
        if me_released s then Some (me_with_err s EReleased, false)
        else match m with
             | MFirst => Some (me_abs s MFirst (m_first K V C chstep chobs pop))
             | MLast => Some (me_abs s MLast (m_last K V C chstep chobs pop))
             | MSeek k => Some (me_abs s (MSeek k) (fun b => m_seek K V C chstep chobs pop b k))
             | MNext => me_Next s
             | MPrev => me_Prev s
             end
    end.

  Definition me_dead (s : mestate) : bool := is_some (me_err s) || me_released s.
  (* Key()/Value(): nil when i.err != nil || i.dir <= dirEOI; Valid(): i.err == nil && i.dir > dirEOI *)
  Definition me_kv (s : mestate) : option (K * V) := if me_dead s then None else m_kv K V C chobs (me_base s).
  Definition me_valid (s : mestate) : bool := negb (me_dead s) && m_valid K C (me_base s).

  Definition me_release (s : mestate) : mestate := mkME (me_base s) (me_err s) true false.
  (* None = panic(util.ErrReleased) / panic(util.ErrHasReleaser) *)
  Definition me_set_releaser (s : mestate) (nonnil : bool) : option mestate :=
    if me_released s then None
    else if me_releaser s && nonnil then None
    else Some (mkME (me_base s) (me_err s) false nonnil).

  Definition me_call (s : mestate) (cl : ecall K) : option (mestate * bool) :=
    match cl with
    | CMove m => me_move s m
    | CRelease => Some (me_release s, false)
    | CSetReleaser r => option_map (fun s' => (s', false)) (me_set_releaser s r)
    end.

  Definition me_out (s : mestate) (ret : bool) : eout K V := mkEO ret (me_kv s) (me_valid s) (me_err s).

  (* None = a panic (SetReleaser) or a stuck step (unreachable index) *)
  Fixpoint me_run (s : mestate) (cs : list (ecall K)) : option (list (eout K V)) :=
    match cs with
    | [] => Some []
    | cl :: r =>
        match me_call s cl with
        | Some (s', ret) => match me_run s' r with Some o => Some (me_out s' ret :: o) | None => None end
        | None => None
        end
    end.
End MergedErr.
Arguments me_base {K C}. Arguments me_err {K C}. Arguments me_released {K C}. Arguments me_releaser {K C}.
Arguments me_init {K C}. Arguments mkME {K C}.
Arguments me_valid {K C}. Arguments me_kv {K V C}. Arguments me_dead {K C}. Arguments me_release {K C}.
Arguments me_set_releaser {K C}. Arguments me_out {K V C}. Arguments me_with_err {K C}. Arguments me_with_base {K C}.

(* ------------------------------------------------------------------ indexedIterator *)
Section IndexedErr.
  Variables K V D I C : Type.
  Variable istep : I -> move K -> I.
  Variable iobs : I -> option (K * D).
  Variable ierr_of : I -> option ierr.      (* index.Error() *)
  Variable mk : D -> C.                      (* index.Get(): may be born failed (NewEmptyIterator(err)) *)
  Variable dstep : C -> move K -> C.
  Variable dobs : C -> option (K * V).
  Variable derr : C -> option ierr.          (* data.Error() *)
  Variable strict : bool.

  Notation xst := (xstate I C).
  Notation get_data := (get_data K D I C iobs mk).

  (* result of a method body: state, the error it recorded (indexErr / dataErr), returned bool *)
  Inductive xr := XR (b : xst) (e : option ierr) (r : bool) | XRFuel.

  (* dataErr(): true iff the error halts *)
  Definition data_err (d : C) : option ierr :=
    match derr d with Some e => if halting strict e then Some e else None | None => None end.

  Definition xs (i : I) (d : option C) : xst := {| x_index := i; x_data := d |}.

  Fixpoint xe_next (fuel : nat) (b : xst) : xr :=
    match fuel with
    | O => XRFuel
    | S f =>
      let index_next (i : I) : xr :=
        let i' := istep i MNext in
        if negb (is_some (iobs i')) then XR (xs i' None) (ierr_of i') false           (* indexErr *)
        else xe_next f (xs i' (get_data i')) in
      match x_data b with
      | Some d =>
          let d' := dstep d MNext in
          if is_some (dobs d') then XR (xs (x_index b) (Some d')) None true
          else match data_err d' with
               | Some e => XR (xs (x_index b) (Some d')) (Some e) false
               | None => index_next (x_index b)                                       (* clearData; fallthrough *)
               end
      | None => index_next (x_index b)
      end
    end.

  Fixpoint xe_prev (fuel : nat) (b : xst) : xr :=
    match fuel with
    | O => XRFuel
    | S f =>
      let index_prev (i : I) : xr :=
        let i' := istep i MPrev in
        if negb (is_some (iobs i')) then XR (xs i' None) (ierr_of i') false
        else match get_data i' with
             | Some d =>
                 let d' := dstep d MLast in
                 if is_some (dobs d') then XR (xs i' (Some d')) None true
                 else match data_err d' with
                      | Some e => XR (xs i' (Some d')) (Some e) false
                      | None => xe_prev f (xs i' None)
                      end
             | None => xe_prev f (xs i' None)
             end in
      match x_data b with
      | Some d =>
          let d' := dstep d MPrev in
          if is_some (dobs d') then XR (xs (x_index b) (Some d')) None true
          else match data_err d' with
               | Some e => XR (xs (x_index b) (Some d')) (Some e) false
               | None => index_prev (x_index b)
               end
      | None => index_prev (x_index b)
      end
    end.

  Definition xe_first (fuel : nat) (b : xst) : xr :=
    let i' := istep (x_index b) MFirst in
    if negb (is_some (iobs i')) then XR (xs i' None) (ierr_of i') false               (* indexErr; clearData *)
    else xe_next fuel (xs i' (get_data i')).

  Definition xe_last (fuel : nat) (b : xst) : xr :=
    let i' := istep (x_index b) MLast in
    if negb (is_some (iobs i')) then XR (xs i' None) (ierr_of i') false
    else match get_data i' with
         | Some d =>
             let d' := dstep d MLast in
             if is_some (dobs d') then XR (xs i' (Some d')) None true
             else match data_err d' with
                  | Some e => XR (xs i' (Some d')) (Some e) false
                  | None => xe_prev fuel (xs i' None)
                  end
         | None => xe_prev fuel (xs i' None)
         end.

  Definition xe_seek (fuel : nat) (b : xst) (k : K) : xr :=
    let i' := istep (x_index b) (MSeek k) in
    if negb (is_some (iobs i')) then XR (xs i' None) (ierr_of i') false
    else match get_data i' with
         | Some d =>
             let d' := dstep d (MSeek k) in
             if is_some (dobs d') then XR (xs i' (Some d')) None true
             else match data_err d' with
                  | Some e => XR (xs i' (Some d')) (Some e) false
                  | None => xe_next fuel (xs i' None)
                  end
         | None => xe_next fuel (xs i' None)
         end.

  Record xestate := mkXE { xe_base : xst; xe_err : option ierr; xe_released : bool; xe_releaser : bool }.
  Definition xe_init (i : I) : xestate := mkXE (x_init i) None false false.

  Inductive xeres := XEOk (s : xestate) (r : bool) | XEFuel.

  Definition xe_move (fuel : nat) (s : xestate) (m : move K) : xeres :=
    match xe_err s with
    | Some _ => XEOk s false
    | None =>
        if xe_released s then XEOk (mkXE (xe_base s) (Some EReleased) true (xe_releaser s)) false
        else
          let r := match m with
                   | MFirst => xe_first fuel (xe_base s)
                   | MLast => xe_last fuel (xe_base s)
                   | MSeek k => xe_seek fuel (xe_base s) k
                   | MNext => xe_next fuel (xe_base s)
                   | MPrev => xe_prev fuel (xe_base s)
                   end in
          match r with
          | XR b e ret => XEOk (mkXE b e false (xe_releaser s)) ret
          | XRFuel => XEFuel
          end
    end.

  (* Key()/Value(): those of the data iterator, nil without one (no look at i.err); Valid() likewise;
     Error(): i.err, else index.Error() *)
  Definition xe_kv (s : xestate) : option (K * V) := x_kv K V I C dobs (xe_base s).
  Definition xe_valid (s : xestate) : bool := is_some (xe_kv s).
  Definition xe_error (s : xestate) : option ierr :=
    match xe_err s with Some e => Some e | None => ierr_of (x_index (xe_base s)) end.

  (* Release: clearData, index.Release, BasicReleaser.Release *)
  Definition xe_release (s : xestate) : xestate := mkXE (xs (x_index (xe_base s)) None) (xe_err s) true false.
  Definition xe_set_releaser (s : xestate) (nonnil : bool) : option xestate :=
    if xe_released s then None
    else if xe_releaser s && nonnil then None
    else Some (mkXE (xe_base s) (xe_err s) false nonnil).

  Definition xe_out (s : xestate) (ret : bool) : eout K V := mkEO ret (xe_kv s) (xe_valid s) (xe_error s).

  Fixpoint xe_run (fuel : nat) (s : xestate) (cs : list (ecall K)) : option (list (eout K V)) :=
    match cs with
    | [] => Some []
    | cl :: r =>
        let step := match cl with
                    | CMove m => match xe_move fuel s m with XEOk s' ret => Some (s', ret) | XEFuel => None end
                    | CRelease => Some (xe_release s, false)
                    | CSetReleaser n => option_map (fun s' => (s', false)) (xe_set_releaser s n)
                    end in
        match step with
        | Some (s', ret) => match xe_run fuel s' r with Some o => Some (xe_out s' ret :: o) | None => None end
        | None => None
        end
    end.
End IndexedErr.
Arguments xe_base {I C}. Arguments xe_err {I C}. Arguments xe_released {I C}. Arguments xe_releaser {I C}.
Arguments mkXE {I C}. Arguments xe_init {I C}.
Arguments xe_kv {K V I C}. Arguments xe_valid {K V I C}. Arguments xe_error {I C}. Arguments xe_release {I C}.
Arguments xe_set_releaser {I C}. Arguments xe_out {K V I C}. Arguments XEOk {I C}. Arguments XEFuel {I C}.

(* ------------------------------------------------------------------ dbIter *)
Section DBIterErr.
  Variable c : comparer.
  Variable p : kparams.
  Variable C : Type.
  Variable chstep : C -> move ikey -> C.
  Variable chobs : C -> option entry.
  Variable cherr : C -> option ierr.         (* i.iter.Error() *)
  Variable seq : N.
  Variable strict : bool.

  Notation dst := (dbstate C).

  (* de_err carries the error value (the base machine's d_err flag is its "set" bit) *)
  Record destate := mkDE { de_base : dst; de_err : option ierr; de_released : bool; de_releaser : bool }.
  Definition de_init (ch : C) : destate := mkDE (db_init ch) None false false.

  Inductive deres := DEOk (s : destate) (r : bool) | DEFuel | DEPanic.

  (* after the guards: the error-free method (strict parse errors included: setErr(kerr), a corruption
     error); every path that returns false afterwards has either just set the error or calls iterErr().
     A path that returns TRUE has the raw iterator on the entry it just parsed (next(), and the in-loop
     return of prev()) - except the exit of prev() below its loop, taken when i.iter.Prev() returned false
     (or the raw iterator was not valid to begin with): there the repaired code (35e2053) consults
     i.iter.Error() BEFORE deciding, `if err := i.iter.Error(); err != nil { i.setErr(err); return false }`.
     So: a true return with the raw iterator not on an entry is that exit, and it turns into setErr / false
     when the raw iterator carries an error. *)
  Definition de_post (s : destate) (r : res C) : deres :=
    match r with
    | Ok b true =>
        if is_some (chobs (d_child b)) then DEOk (mkDE b (de_err s) false (de_releaser s)) true
        else match cherr (d_child b) with
             | Some e => DEOk (mkDE (set_err C b) (Some e) false (de_releaser s)) false       (* prev(): setErr(err) *)
             | None => DEOk (mkDE b (de_err s) false (de_releaser s)) true
             end
    | Ok b false =>
        if d_err b then DEOk (mkDE b (Some ECorrupt) false (de_releaser s)) false
        else match cherr (d_child b) with
             | Some e => DEOk (mkDE (set_err C b) (Some e) false (de_releaser s)) false       (* iterErr -> setErr *)
             | None => DEOk (mkDE b None false (de_releaser s)) false
             end
    | OutOfFuel => DEFuel
    | Panic => DEPanic
    end.

  (* THE CODE BEFORE 35e2053, kept only as the witness of the repaired defect (IterErrProofs /
     Props/C02.v C02_dbiter_prev_error_yields_stale_refuted): prev() returned true below its loop without
     looking at the raw iterator's error *)
  Definition de_post_old (s : destate) (r : res C) : deres :=
    match r with
    | Ok b true => DEOk (mkDE b (de_err s) false (de_releaser s)) true
    | _ => de_post s r
    end.

  Definition de_move_with (post : destate -> res C -> deres) (fuel : nat) (s : destate) (m : move bytes) : deres :=
    match de_err s with
    | Some _ => DEOk s false
    | None =>
        if de_released s then DEOk (mkDE (de_base s) (Some EReleased) true (de_releaser s)) false
        else
          match m, d_dir (de_base s) with
          | MNext, DirEOI => DEOk s false
          | MPrev, DirSOI => DEOk s false
          | _, _ => post s (db_step c p C chstep chobs seq strict fuel (de_base s) m)
          end
    end.
  Definition de_move := de_move_with de_post.
  Definition de_move_old := de_move_with de_post_old.

  Definition de_dead (s : destate) : bool := is_some (de_err s) || de_released s.
  Definition de_kv (s : destate) : option (bytes * bytes) := if de_dead s then None else db_kv (de_base s).
  Definition de_valid (s : destate) : bool := negb (de_dead s) && db_valid (de_base s).

  Definition de_release (s : destate) : destate := mkDE (de_base s) (de_err s) true false.
  Definition de_set_releaser (s : destate) (nonnil : bool) : option destate :=
    if de_released s then None
    else if de_releaser s && nonnil then None
    else Some (mkDE (de_base s) (de_err s) false nonnil).

  Definition de_out (s : destate) (ret : bool) : eout bytes bytes := mkEO ret (de_kv s) (de_valid s) (de_err s).

  Fixpoint de_run_with (post : destate -> res C -> deres) (fuel : nat) (s : destate) (cs : list (ecall bytes))
    : option (list (eout bytes bytes)) :=
    match cs with
    | [] => Some []
    | cl :: r =>
        let step := match cl with
                    | CMove m => match de_move_with post fuel s m with DEOk s' ret => Some (s', ret) | _ => None end
                    | CRelease => Some (de_release s, false)
                    | CSetReleaser n => option_map (fun s' => (s', false)) (de_set_releaser s n)
                    end in
        match step with
        | Some (s', ret) => match de_run_with post fuel s' r with Some o => Some (de_out s' ret :: o) | None => None end
        | None => None
        end
    end.
  Definition de_run := de_run_with de_post.
  Definition de_run_old := de_run_with de_post_old.
End DBIterErr.
Arguments de_base {C}. Arguments de_err {C}. Arguments de_released {C}. Arguments de_releaser {C}.
Arguments mkDE {C}. Arguments de_init {C}.
Arguments de_kv {C}. Arguments de_valid {C}. Arguments de_dead {C}. Arguments de_release {C}. Arguments de_set_releaser {C}.
Arguments de_out {C}. Arguments de_post {C}. Arguments de_post_old {C}. Arguments DEOk {C}. Arguments DEFuel {C}. Arguments DEPanic {C}.
