(* Iter/InvertedProofs.v — what an inverted or empty range [Start, Limit) with Start >= Limit yields:
   nothing.  The view is empty, so every call of every walk returns false with nil key and value.
   (goleveldb: DB.NewIterator(&util.Range{Start, Limit}) with Start > Limit used to panic in
   tFiles.newIndexIterator - slice bounds out of range - once a sorted level held tables between the
   bounds; repaired by 0182674: limit is raised to start, the level contributes nothing.) *)
From GL Require Import Base.Order Base.OrderProofs Codec.IKey Iter.Cursor Iter.CursorProofs Iter.DBIter Iter.LiveProofs.
From Coq Require Import Lia.

Lemma in_range_inverted (c : comparer) (ok : comparer_ok c) (start limit k : bytes) :
  cmp c start limit <> Lt -> in_range c (Some start) (Some limit) k = false.
Proof.
  intros H. unfold in_range.
  destruct (cmp c k start) eqn:E1; cbn [andb]; try reflexivity.
  - apply (cmp_eq c ok) in E1. subst k. destruct (cmp c start limit); congruence.
  - destruct (cmp c k limit) eqn:E2; try reflexivity. exfalso.
    (* start < k < limit *)
    pose proof (f_gt_lt (cmp c) (cmp_ord_ok c ok) k start) as G. apply G in E1.
    apply H. exact (cmp_trans c ok _ _ _ E1 E2).
Qed.

Theorem inverted_range_empty (c : comparer) (ok : comparer_ok c) (start limit : bytes) (l : list (bytes * bytes)) :
  cmp c start limit <> Lt ->
  filter (fun kv => in_range c (Some start) (Some limit) (fst kv)) l = [].
Proof.
  intros H. induction l as [|x l IH]; [reflexivity|]. cbn [filter]. rewrite (in_range_inverted c ok _ _ _ H). exact IH.
Qed.

Lemma run_from_nil {K V} (f : K -> K -> comparison) (ms : list (move K)) : forall q,
  run_from f ([] : list (K * V)) q ms = map (fun _ => (false, None)) ms.
Proof.
  induction ms as [|m ms IH]; intros q; [reflexivity|]. cbn [run_from map]. rewrite IH. f_equal.
  unfold out_of. destruct (cobs [] (cstep f [] q m)) as [x|] eqn:E; [|reflexivity].
  exfalso. destruct (cstep f [] q m) as [|i|]; cbn [cobs] in E; try discriminate. destruct i; discriminate.
Qed.

Theorem run_cursor_nil {K V} (f : K -> K -> comparison) (ms : list (move K)) :
  run_cursor f ([] : list (K * V)) ms = map (fun _ => (false, None)) ms.
Proof. apply run_from_nil. Qed.
