(* Iter/IndexedProofs.v — the indexed iterator (Iter/Indexed.v) refines the cursor over the
   concatenation of its data blocks: simulation relation, preserved by each of the five calls. *)
From GL Require Import Iter.Cursor Iter.CursorProofs Iter.Indexed.
From Coq Require Import Lia Arith.

Lemma snoc_cases {A} (l : list A) : l = [] \/ exists a x, l = a ++ [x].
Proof.
  destruct l as [|y l]; [left; reflexivity|right].
  destruct (@exists_last A (y :: l)) as (a & x & H); [discriminate|]. eauto.
Qed.

Lemma cons_cases {A} (l : list A) : l = [] \/ exists x r, l = x :: r.
Proof. destruct l; eauto. Qed.

Section IndexedProofs.
  Variables K V D I C : Type.
  Variable kcmp : K -> K -> comparison.
  Hypothesis ok : ord_ok kcmp.
  Variable istep : I -> move K -> I.
  Variable iobs : I -> option (K * D).
  Variable mk : D -> C.
  Variable dstep : C -> move K -> C.
  Variable dobs : C -> option (K * V).
  Variable il : list (K * D).
  Variable dl : D -> list (K * V).
  Hypothesis Hok : index_ok kcmp il dl.
  Hypothesis Hmk : forall d, In d (map snd il) -> refines kcmp dstep dobs (mk d) (dl d).

  Notation cb l := (concat_blocks l dl).
  Notation T := (concat_blocks il dl).
  Notation index_at i q := (refines_from kcmp istep iobs i il q).
  Notation data_at d dd q := (refines_from kcmp dstep dobs d (dl dd) q).
  Notation xst := (xstate I C).
  Notation x_next := (x_next K V D I C istep iobs mk dstep dobs).
  Notation x_prev := (x_prev K V D I C istep iobs mk dstep dobs).
  Notation get_data := (get_data K D I C iobs mk).

  Lemma cb_app (a b : list (K * D)) : cb (a ++ b) = cb a ++ cb b.
  Proof. unfold concat_blocks. rewrite map_app, concat_app. reflexivity. Qed.

  Lemma cb_cons ik dd (b : list (K * D)) : cb ((ik, dd) :: b) = dl dd ++ cb b.
  Proof. reflexivity. Qed.

  Lemma cb_snoc (a : list (K * D)) ik dd : cb (a ++ [(ik, dd)]) = cb a ++ dl dd.
  Proof. rewrite cb_app, cb_cons. cbn. rewrite app_nil_r. reflexivity. Qed.

  Lemma T_split A ik dd B : il = A ++ (ik, dd) :: B -> T = cb A ++ dl dd ++ cb B.
  Proof. intros ->. rewrite cb_app, cb_cons. reflexivity. Qed.

  Lemma mk_fresh A ik dd B : il = A ++ (ik, dd) :: B -> data_at (mk dd) dd SOI.
  Proof. intros Hl. apply Hmk. rewrite Hl, map_app. apply in_or_app. right. left. reflexivity. Qed.

  (* ---- the simulation relation ---- *)
  Definition R (s : xst) (sp : pos) : Prop :=
    exists ip, index_at (x_index s) ip /\
      match x_data s with
      | None => (ip = SOI /\ sp = SOI) \/ (ip = EOI /\ sp = EOI)
      | Some d => exists A ik dd B j x, il = A ++ (ik, dd) :: B /\ ip = At (length A) /\
                    data_at d dd (At j) /\ nth_error (dl dd) j = Some x /\ sp = At (length (cb A) + j)
      end.

  Lemma R_obs s sp : R s sp -> x_kv K V I C dobs s = cobs T sp.
  Proof.
    intros (ip & Hi & H). unfold x_kv. destruct (x_data s) as [d|].
    - destruct H as (A & ik & dd & B & j & x & Hl & _ & Hd & Hx & ->).
      rewrite (refines_from_obs kcmp dstep dobs _ _ _ Hd). cbn [cobs]. rewrite Hx.
      rewrite (T_split A ik dd B Hl). rewrite nth_error_app2 by lia.
      replace (length (cb A) + j - length (cb A)) with j by lia.
      rewrite nth_error_app1 by (apply nth_error_Some; congruence). symmetry. exact Hx.
    - destruct H as [[_ ->]|[_ ->]]; reflexivity.
  Qed.

  Definition pos_end (A : list (K * D)) : pos := match A with [] => SOI | _ => At (length A - 1) end.
  Definition pos_start (A B : list (K * D)) : pos := match B with [] => EOI | _ => At (length A) end.

  Lemma pos_end_snoc A e : pos_end (A ++ [e]) = At (length A).
  Proof.
    unfold pos_end. destruct (A ++ [e]) eqn:E; [destruct A; discriminate|].
    rewrite <- E, app_length. cbn. f_equal. lia.
  Qed.

  (* ---- forward: landing on the first pair of the blocks from a given one on ---- *)
  Definition idx_next (f : nat) (i : I) : xres I C :=
    let i' := istep i MNext in
    if negb (is_some (iobs i')) then XOk {| x_index := i'; x_data := None |} false
    else x_next f {| x_index := i'; x_data := get_data i' |}.

  Lemma x_next_unfold f s : x_next (S f) s =
    match x_data s with
    | Some d => let d' := dstep d MNext in
                if is_some (dobs d') then XOk {| x_index := x_index s; x_data := Some d' |} true
                else idx_next f (x_index s)
    | None => idx_next f (x_index s)
    end.
  Proof. reflexivity. Qed.

  Definition fwd_post (r : xres I C) (A B : list (K * D)) : Prop :=
    match cb B with
    | [] => exists s', r = XOk s' false /\ R s' EOI
    | _ :: _ => exists s', r = XOk s' true /\ R s' (At (length (cb A)))
    end.

  Lemma next_land : forall B A ik dd i f, il = A ++ (ik, dd) :: B -> index_at i (At (length A)) ->
    length B < f -> fwd_post (x_next f {| x_index := i; x_data := Some (mk dd) |}) A ((ik, dd) :: B).
  Proof.
    induction B as [|[ik' dd'] B IH]; intros A ik dd i f Hl Hi Hf;
      (destruct f as [|f]; [lia|]); rewrite x_next_unfold; cbn [x_data x_index]; cbv zeta.
    - pose proof (mk_fresh A ik dd [] Hl) as Hd.
      pose proof (refines_from_step kcmp dstep dobs _ _ _ MNext Hd) as Hd'. cbn [cstep] in Hd'.
      rewrite (refines_from_obs kcmp dstep dobs _ _ _ Hd').
      unfold fwd_post. rewrite cb_cons. cbn [concat_blocks map concat]. rewrite app_nil_r.
      destruct (dl dd) as [|x r] eqn:Edl.
      + cbn [cfirst cobs is_some]. unfold idx_next.
        pose proof (rf_next_none kcmp istep iobs il i A (ik, dd) Hl Hi) as Hn.
        rewrite (rf_none kcmp istep iobs il _ EOI Hn (or_intror eq_refl)). cbn [is_some negb].
        eexists. split; [reflexivity|]. exists EOI. split; [exact Hn|]. cbn. right. auto.
      + cbn [cfirst cobs nth_error is_some].
        eexists. split; [reflexivity|]. exists (At (length A)). split; [exact Hi|]. cbn [x_data].
        exists A, ik, dd, [], 0, x. rewrite Edl in *. repeat split; auto.
    - pose proof (mk_fresh A ik dd _ Hl) as Hd.
      pose proof (refines_from_step kcmp dstep dobs _ _ _ MNext Hd) as Hd'. cbn [cstep] in Hd'.
      rewrite (refines_from_obs kcmp dstep dobs _ _ _ Hd').
      unfold fwd_post. rewrite cb_cons.
      destruct (dl dd) as [|x r] eqn:Edl.
      + cbn [cfirst cobs is_some app]. unfold idx_next.
        pose proof (rf_next_some kcmp istep iobs il i A (ik, dd) (ik', dd') B Hl Hi) as Hn.
        assert (Hl' : il = (A ++ [(ik, dd)]) ++ (ik', dd') :: B) by (rewrite <- app_assoc; exact Hl).
        assert (Hn' : index_at (istep i MNext) (At (length (A ++ [(ik, dd)])))) by (rewrite app_length; cbn; rewrite Nat.add_1_r; exact Hn).
        rewrite (rf_obs_mid kcmp istep iobs il _ _ (ik', dd') B Hl' Hn'). cbn [is_some negb].
        unfold Indexed.get_data. rewrite (rf_obs_mid kcmp istep iobs il _ _ (ik', dd') B Hl' Hn').
        specialize (IH (A ++ [(ik, dd)]) ik' dd' (istep i MNext) f Hl' Hn' ltac:(cbn in Hf; lia)).
        unfold fwd_post in IH. rewrite cb_snoc, Edl, app_nil_r in IH. exact IH.
      + cbn [cfirst cobs nth_error is_some app].
        eexists. split; [reflexivity|]. exists (At (length A)). split; [exact Hi|]. cbn [x_data].
        exists A, ik, dd, ((ik', dd') :: B), 0, x. rewrite Edl in *. repeat split; auto.
  Qed.

  (* Next of the index from the position after the blocks A *)
  Lemma next_from_index B A i f : il = A ++ B -> index_at i (pos_end A) -> length B <= f ->
    fwd_post (idx_next f i) A B.
  Proof.
    intros Hl Hi Hf. unfold idx_next.
    pose proof (refines_from_step kcmp istep iobs _ _ _ MNext Hi) as Hn.
    destruct B as [|[ik dd] B].
    - assert (Hq : cstep kcmp il (pos_end A) MNext = EOI).
      { destruct (snoc_cases A) as [->|(A0 & e & ->)].
        - cbn. rewrite Hl. reflexivity.
        - rewrite pos_end_snoc. apply cstep_next_ge. rewrite Hl, app_nil_r, app_length. cbn. lia. }
      rewrite Hq in Hn. rewrite (rf_none kcmp istep iobs il _ EOI Hn (or_intror eq_refl)). cbn [is_some negb].
      unfold fwd_post. cbn. eexists. split; [reflexivity|]. exists EOI. split; [exact Hn|]. cbn. right. auto.
    - assert (Hq : cstep kcmp il (pos_end A) MNext = At (length A)).
      { destruct (snoc_cases A) as [->|(A0 & e & ->)].
        - cbn. rewrite Hl. reflexivity.
        - rewrite pos_end_snoc. rewrite cstep_next_lt by (rewrite Hl, !app_length; cbn; lia).
          rewrite app_length. cbn. f_equal. lia. }
      rewrite Hq in Hn. rewrite (rf_obs_mid kcmp istep iobs il _ A (ik, dd) B Hl Hn). cbn [is_some negb].
      unfold Indexed.get_data. rewrite (rf_obs_mid kcmp istep iobs il _ A (ik, dd) B Hl Hn).
      apply next_land; auto; cbn in Hf; lia.
  Qed.

  (* ---- backward ---- *)
  Definition idx_prev (f : nat) (i : I) : xres I C :=
    let i' := istep i MPrev in
    if negb (is_some (iobs i')) then XOk {| x_index := i'; x_data := None |} false
    else match get_data i' with
         | Some d =>
             let d' := dstep d MLast in
             if is_some (dobs d') then XOk {| x_index := i'; x_data := Some d' |} true
             else x_prev f {| x_index := i'; x_data := None |}
         | None => x_prev f {| x_index := i'; x_data := None |}
         end.

  Lemma x_prev_unfold f s : x_prev (S f) s =
    match x_data s with
    | Some d => let d' := dstep d MPrev in
                if is_some (dobs d') then XOk {| x_index := x_index s; x_data := Some d' |} true
                else idx_prev f (x_index s)
    | None => idx_prev f (x_index s)
    end.
  Proof. reflexivity. Qed.

  Lemma x_prev_none f i : x_prev (S f) {| x_index := i; x_data := None |} = idx_prev f i.
  Proof. reflexivity. Qed.

  Definition bwd_post (r : xres I C) (A : list (K * D)) : Prop :=
    match cb A with
    | [] => exists s', r = XOk s' false /\ R s' SOI
    | _ :: _ => exists s', r = XOk s' true /\ R s' (At (length (cb A) - 1))
    end.

  Lemma clast_obs (l : list (K * V)) : cobs l (clast l) = match l with [] => None | _ => nth_error l (length l - 1) end.
  Proof. unfold clast. destruct l as [|x l]; [reflexivity|]. cbn. rewrite Nat.sub_0_r. reflexivity. Qed.

  Lemma prev_from_none : forall A B i f, il = A ++ B -> index_at i (pos_start A B) -> length A < f ->
    bwd_post (x_prev f {| x_index := i; x_data := None |}) A.
  Proof.
    induction A as [|[ik dd] A IH] using rev_ind; intros B i f Hl Hi Hf;
      (destruct f as [|f]; [lia|]); rewrite x_prev_unfold; cbn [x_data x_index]; unfold idx_prev; cbv zeta;
      pose proof (refines_from_step kcmp istep iobs _ _ _ MPrev Hi) as Hn.
    - assert (Hq : cstep kcmp il (pos_start [] B) MPrev = SOI).
      { destruct B; cbn; [|reflexivity]. cbn in Hl. rewrite Hl. reflexivity. }
      rewrite Hq in Hn. rewrite (rf_none kcmp istep iobs il _ SOI Hn (or_introl eq_refl)). cbn [is_some negb].
      unfold bwd_post. cbn. eexists. split; [reflexivity|]. exists SOI. split; [exact Hn|]. cbn. left. auto.
    - assert (Hq : cstep kcmp il (pos_start (A ++ [(ik, dd)]) B) MPrev = At (length A)).
      { destruct B; cbn [pos_start cstep].
        - unfold clast. rewrite Hl, app_nil_r, app_length. cbn. rewrite Nat.add_1_r. reflexivity.
        - rewrite app_length. cbn. rewrite Nat.add_1_r. reflexivity. }
      rewrite Hq in Hn.
      assert (Hl' : il = A ++ (ik, dd) :: B) by (rewrite Hl, <- app_assoc; reflexivity).
      rewrite (rf_obs_mid kcmp istep iobs il _ A (ik, dd) B Hl' Hn). cbn [is_some negb].
      unfold Indexed.get_data. rewrite (rf_obs_mid kcmp istep iobs il _ A (ik, dd) B Hl' Hn).
      pose proof (mk_fresh A ik dd B Hl') as Hd.
      pose proof (refines_from_step kcmp dstep dobs _ _ _ MLast Hd) as Hd'. cbn [cstep] in Hd'.
      rewrite (refines_from_obs kcmp dstep dobs _ _ _ Hd'), clast_obs.
      unfold bwd_post. rewrite cb_snoc.
      destruct (dl dd) as [|x r] eqn:Edl.
      + cbn [is_some]. rewrite app_nil_r.
        apply (IH ((ik, dd) :: B) (istep i MPrev) f Hl' Hn). rewrite app_length in Hf. cbn in Hf. lia.
      + set (j := length (x :: r) - 1).
        destruct (nth_error (x :: r) j) as [y|] eqn:Ey.
        2:{ apply nth_error_None in Ey. unfold j in Ey. cbn in Ey. lia. }
        cbn [is_some].
        destruct (cb A ++ x :: r) eqn:E; [destruct (cb A); discriminate|]. rewrite <- E.
        eexists. split; [reflexivity|]. exists (At (length A)). split; [exact Hn|]. cbn [x_data].
        exists A, ik, dd, B, j, y. rewrite Edl. repeat split; auto.
        * unfold clast in Hd'. cbn [length] in Hd'. unfold j. cbn [length]. replace (S (length r) - 1) with (length r) by lia. exact Hd'.
        * rewrite app_length. unfold j. cbn [length]. f_equal. lia.
  Qed.

  (* ================= the five calls ================= *)
  Variable fuel : nat.
  Hypothesis Hfuel : length il < fuel.
  Notation step_ok r sp' := (exists s' ret, r = XOk s' ret /\ ret = is_some (x_kv K V I C dobs s') /\ R s' sp').

  Lemma R_valid s sp : R s sp -> is_some (x_kv K V I C dobs s) = is_some (cobs T sp).
  Proof. intros H. rewrite (R_obs s sp H). reflexivity. Qed.

  Lemma fwd_post_ok r A B sp' : fwd_post r A B ->
    sp' = (match cb B with [] => EOI | _ => At (length (cb A)) end) -> step_ok r sp'.
  Proof.
    unfold fwd_post. intros H ->. destruct (cb B) eqn:E.
    - destruct H as (s' & -> & HR). exists s', false. split; [reflexivity|]. split; [|exact HR].
      rewrite (R_valid _ _ HR). reflexivity.
    - destruct H as (s' & -> & HR). exists s', true. split; [reflexivity|]. split; [|exact HR].
      rewrite (R_valid _ _ HR). destruct HR as (ip & _ & HR). destruct (x_data s') as [d|].
      + destruct HR as (A' & ik & dd & B' & j & x & Hl & _ & _ & Hx & Hsp). rewrite Hsp. cbn [cobs].
        rewrite (T_split A' ik dd B' Hl). rewrite nth_error_app2 by lia.
        replace (length (cb A') + j - length (cb A')) with j by lia.
        rewrite nth_error_app1 by (apply nth_error_Some; congruence). rewrite Hx. reflexivity.
      + destruct HR as [[_ HR]|[_ HR]]; discriminate.
  Qed.

  Lemma bwd_post_ok r A sp' : bwd_post r A ->
    sp' = (match cb A with [] => SOI | _ => At (length (cb A) - 1) end) -> step_ok r sp'.
  Proof.
    unfold bwd_post. intros H ->. destruct (cb A) eqn:E.
    - destruct H as (s' & -> & HR). exists s', false. split; [reflexivity|]. split; [|exact HR].
      rewrite (R_valid _ _ HR). reflexivity.
    - destruct H as (s' & -> & HR). exists s', true. split; [reflexivity|]. split; [|exact HR].
      rewrite (R_valid _ _ HR). destruct HR as (ip & _ & HR). destruct (x_data s') as [d|].
      + destruct HR as (A' & ik & dd & B' & j & x & Hl & _ & _ & Hx & Hsp). rewrite Hsp. cbn [cobs].
        rewrite (T_split A' ik dd B' Hl). rewrite nth_error_app2 by lia.
        replace (length (cb A') + j - length (cb A')) with j by lia.
        rewrite nth_error_app1 by (apply nth_error_Some; congruence). rewrite Hx. reflexivity.
      + destruct HR as [[_ HR]|[_ HR]]; discriminate.
  Qed.

  Lemma R_index s sp : R s sp -> exists ip, index_at (x_index s) ip.
  Proof. intros (ip & H & _). eauto. Qed.

  Lemma step_next s sp : R s sp -> step_ok (x_next fuel s) (cstep kcmp T sp MNext).
  Proof.
    intros (ip & Hi & HR). assert (Hf1 : exists f, fuel = S f) by (exists (pred fuel); lia). destruct Hf1 as [f Ef]. rewrite Ef, x_next_unfold.
    destruct (x_data s) as [d|] eqn:Ed.
    - destruct HR as (A & ik & dd & B & j & x & Hl & -> & Hd & Hx & ->). cbv zeta.
      pose proof (refines_from_step kcmp dstep dobs _ _ _ MNext Hd) as Hd'.
      rewrite (refines_from_obs kcmp dstep dobs _ _ _ Hd').
      assert (Hj : j < length (dl dd)) by (apply nth_error_Some; congruence).
      pose proof (T_split A ik dd B Hl) as HT.
      destruct (Nat.lt_ge_cases (S j) (length (dl dd))) as [H|H].
      + rewrite cstep_next_lt in * by exact H. cbn [cobs].
        destruct (nth_error (dl dd) (S j)) as [y|] eqn:Ey; [|apply nth_error_None in Ey; lia].
        cbn [is_some]. eexists _, true. split; [reflexivity|].
        assert (HR' : R {| x_index := x_index s; x_data := Some (dstep d MNext) |} (At (length (cb A) + S j))).
        { exists (At (length A)). split; [exact Hi|]. cbn [x_data]. exists A, ik, dd, B, (S j), y. repeat split; auto. }
        rewrite cstep_next_lt by (rewrite HT, !app_length; lia).
        replace (S (length (cb A) + j)) with (length (cb A) + S j) by lia.
        split; [|exact HR']. rewrite (R_valid _ _ HR'). cbn [cobs].
        rewrite HT, nth_error_app2 by lia. replace (length (cb A) + S j - length (cb A)) with (S j) by lia.
        rewrite nth_error_app1 by lia. rewrite Ey. reflexivity.
      + rewrite cstep_next_ge in * by exact H. cbn [cobs is_some].
        assert (Hl' : il = (A ++ [(ik, dd)]) ++ B) by (rewrite <- app_assoc; exact Hl).
        assert (Hi' : index_at (x_index s) (pos_end (A ++ [(ik, dd)]))) by (rewrite pos_end_snoc; exact Hi).
        apply (fwd_post_ok _ (A ++ [(ik, dd)]) B); [apply next_from_index; auto|].
        { rewrite Hl, app_length in Hfuel. cbn in Hfuel. lia. }
        rewrite cb_snoc, app_length.
        destruct (cb B) eqn:EB.
        * apply cstep_next_ge. rewrite HT, app_nil_r, app_length. lia.
        * rewrite cstep_next_lt by (rewrite HT, !app_length; cbn; lia). f_equal. lia.
    - destruct HR as [[-> ->]|[-> ->]].
      + apply (fwd_post_ok _ [] il); [apply next_from_index; auto; lia|].
        cbn [cstep concat_blocks map concat length]. destruct T; reflexivity.
      + unfold idx_next. pose proof (refines_from_step kcmp istep iobs _ _ _ MNext Hi) as Hn. cbn [cstep] in Hn.
        rewrite (rf_none kcmp istep iobs il _ EOI Hn (or_intror eq_refl)). cbn [is_some negb].
        eexists _, false. split; [reflexivity|]. split; [reflexivity|]. exists EOI. split; [exact Hn|]. cbn. right. auto.
  Qed.

  Lemma step_prev s sp : R s sp -> step_ok (x_prev fuel s) (cstep kcmp T sp MPrev).
  Proof.
    intros (ip & Hi & HR). assert (Hf1 : exists f, fuel = S f) by (exists (pred fuel); lia). destruct Hf1 as [f Ef]. rewrite Ef, x_prev_unfold.
    destruct (x_data s) as [d|] eqn:Ed.
    - destruct HR as (A & ik & dd & B & j & x & Hl & -> & Hd & Hx & ->). cbv zeta.
      pose proof (refines_from_step kcmp dstep dobs _ _ _ MPrev Hd) as Hd'.
      rewrite (refines_from_obs kcmp dstep dobs _ _ _ Hd').
      assert (Hj : j < length (dl dd)) by (apply nth_error_Some; congruence).
      pose proof (T_split A ik dd B Hl) as HT.
      destruct j as [|j'].
      + cbn [cstep cobs is_some] in *.
        rewrite <- (x_prev_none f (x_index s)).
        apply (bwd_post_ok _ A); [apply (prev_from_none A ((ik, dd) :: B)); auto|].
        { rewrite Hl, app_length in Hfuel. cbn in Hfuel. lia. }
        rewrite Nat.add_0_r. destruct (cb A) eqn:EA; cbn [length cstep]; [reflexivity|]. f_equal. lia.
      + cbn [cstep cobs] in *.
        destruct (nth_error (dl dd) j') as [y|] eqn:Ey; [|apply nth_error_None in Ey; lia].
        cbn [is_some]. eexists _, true. split; [reflexivity|].
        assert (HR' : R {| x_index := x_index s; x_data := Some (dstep d MPrev) |} (At (length (cb A) + j'))).
        { exists (At (length A)). split; [exact Hi|]. cbn [x_data]. exists A, ik, dd, B, j', y. repeat split; auto. }
        replace (length (cb A) + S j') with (S (length (cb A) + j')) by lia. cbn [cstep].
        split; [|exact HR']. rewrite (R_valid _ _ HR'). cbn [cobs].
        rewrite HT, nth_error_app2 by lia. replace (length (cb A) + j' - length (cb A)) with j' by lia.
        rewrite nth_error_app1 by lia. rewrite Ey. reflexivity.
    - destruct HR as [[-> ->]|[-> ->]].
      + unfold idx_prev. pose proof (refines_from_step kcmp istep iobs _ _ _ MPrev Hi) as Hn. cbn [cstep] in Hn.
        rewrite (rf_none kcmp istep iobs il _ SOI Hn (or_introl eq_refl)). cbn [is_some negb].
        eexists _, false. split; [reflexivity|]. split; [reflexivity|]. exists SOI. split; [exact Hn|]. cbn. left. auto.
      + rewrite <- (x_prev_none f (x_index s)).
        apply (bwd_post_ok _ il); [apply (prev_from_none il []); auto; [rewrite app_nil_r; reflexivity|lia]|].
        cbn [cstep]. unfold clast. destruct T; cbn [length]; [reflexivity|]. f_equal. lia.
  Qed.

  Lemma step_first s sp : R s sp -> step_ok (x_first K V D I C istep iobs mk dstep dobs fuel s) (cfirst T).
  Proof.
    intros (ip & Hi & _). unfold x_first.
    pose proof (refines_from_step kcmp istep iobs _ _ _ MFirst Hi) as Hn. cbn [cstep] in Hn.
    destruct (cons_cases il) as [Eil|([ik dd] & B & Eil)].
    - assert (Hq : cfirst il = EOI) by (rewrite Eil; reflexivity). rewrite Hq in Hn.
      rewrite (rf_none kcmp istep iobs _ _ EOI Hn (or_intror eq_refl)). cbn [is_some negb].
      eexists _, false. split; [reflexivity|]. split; [reflexivity|].
      assert (HT : T = []) by (rewrite Eil; reflexivity). rewrite HT. cbn.
      exists EOI. split; [exact Hn|]. cbn. right. auto.
    - assert (Hl : il = [] ++ (ik, dd) :: B) by (rewrite Eil; reflexivity).
      assert (Hq : cfirst il = At (length (@nil (K * D)))) by (rewrite Eil; reflexivity). rewrite Hq in Hn.
      rewrite (rf_obs_mid kcmp istep iobs il _ [] (ik, dd) B Hl Hn). cbn [is_some negb].
      unfold Indexed.get_data. rewrite (rf_obs_mid kcmp istep iobs il _ [] (ik, dd) B Hl Hn).
      apply (fwd_post_ok _ [] ((ik, dd) :: B)); [apply next_land; auto|].
      { rewrite Eil in Hfuel. cbn in Hfuel. lia. }
      rewrite <- Eil. cbn [concat_blocks map concat length]. destruct T; reflexivity.
  Qed.

  Lemma step_last s sp : R s sp -> step_ok (x_last K V D I C istep iobs mk dstep dobs fuel s) (clast T).
  Proof.
    intros (ip & Hi & _). unfold x_last.
    pose proof (refines_from_step kcmp istep iobs _ _ _ MLast Hi) as Hn. cbn [cstep] in Hn.
    destruct (snoc_cases il) as [Eil|(A & [ik dd] & Eil)].
    - assert (Hq : clast il = SOI) by (rewrite Eil; reflexivity). rewrite Hq in Hn.
      rewrite (rf_none kcmp istep iobs _ _ SOI Hn (or_introl eq_refl)). cbn [is_some negb].
      eexists _, false. split; [reflexivity|]. split; [reflexivity|].
      assert (HT : T = []) by (rewrite Eil; reflexivity). rewrite HT. cbn.
      exists SOI. split; [exact Hn|]. cbn. left. auto.
    - assert (Hq : clast il = At (length A)).
      { unfold clast. rewrite Eil, app_length. cbn. rewrite Nat.add_1_r. reflexivity. }
      rewrite Hq in Hn.
      assert (Hl : il = A ++ (ik, dd) :: []) by exact Eil.
      rewrite (rf_obs_mid kcmp istep iobs il _ A (ik, dd) [] Hl Hn). cbn [is_some negb].
      unfold Indexed.get_data. rewrite (rf_obs_mid kcmp istep iobs il _ A (ik, dd) [] Hl Hn).
      pose proof (mk_fresh A ik dd [] Hl) as Hd.
      pose proof (refines_from_step kcmp dstep dobs _ _ _ MLast Hd) as Hd'. cbn [cstep] in Hd'.
      cbv zeta. rewrite (refines_from_obs kcmp dstep dobs _ _ _ Hd'), clast_obs.
      assert (HT : T = cb A ++ dl dd) by (rewrite Eil at 1; apply cb_snoc).
      destruct (dl dd) as [|x r] eqn:Edl.
      + cbn [is_some].
        apply (bwd_post_ok _ A); [apply (prev_from_none A [(ik, dd)]); auto|].
        { rewrite Eil, app_length in Hfuel. cbn in Hfuel. lia. }
        rewrite HT, app_nil_r. unfold clast. destruct (cb A); cbn [length]; [reflexivity|]. f_equal. lia.
      + set (j := length (x :: r) - 1).
        destruct (nth_error (x :: r) j) as [y|] eqn:Ey.
        2:{ apply nth_error_None in Ey. unfold j in Ey. cbn in Ey. lia. }
        cbn [is_some]. eexists _, true. split; [reflexivity|].
        assert (HR' : R {| x_index := istep (x_index s) MLast; x_data := Some (dstep (mk dd) MLast) |} (At (length (cb A) + j))).
        { exists (At (length A)). split; [exact Hn|]. cbn [x_data]. exists A, ik, dd, [], j, y. rewrite Edl. repeat split; auto.
          unfold clast in Hd'. cbn [length] in Hd'. unfold j. cbn [length]. replace (S (length r) - 1) with (length r) by lia. exact Hd'. }
        assert (Hcl : clast T = At (length (cb A) + j)).
        { unfold clast. rewrite HT, app_length. unfold j. cbn [length].
          replace (length (cb A) + S (length r)) with (S (length (cb A) + (S (length r) - 1))) by lia. reflexivity. }
        rewrite Hcl. split; [|exact HR']. rewrite (R_valid _ _ HR'). cbn [cobs].
        rewrite HT, nth_error_app2 by lia. replace (length (cb A) + j - length (cb A)) with j by lia.
        rewrite Ey. reflexivity.
  Qed.

  (* index_ok, used by Seek *)
  Lemma data_le_ikey ik dd x : In (ik, dd) il -> In x (dl dd) -> kcmp (fst x) ik <> Gt.
  Proof. intros H1 H2. destruct Hok as (_ & _ & H & _). apply (H (ik, dd) x H1 H2). Qed.

  Lemma ikey_lt_later A ik dd B ik' dd' x : il = A ++ (ik, dd) :: B -> In (ik', dd') B -> In x (dl dd') -> kcmp ik (fst x) = Lt.
  Proof. intros H1 H2 H3. destruct Hok as (_ & _ & _ & H). apply (H A (ik, dd) B x H1 (ik', dd') H2 H3). Qed.

  Lemma cb_in (l : list (K * D)) x : In x (cb l) <-> exists ik dd, In (ik, dd) l /\ In x (dl dd).
  Proof.
    unfold concat_blocks. rewrite in_concat. split.
    - intros (b & Hb & Hx). apply in_map_iff in Hb as ([ik dd] & <- & He). eauto.
    - intros (ik & dd & He & Hx). exists (dl dd). split; [|exact Hx]. apply in_map_iff. exists (ik, dd). auto.
  Qed.

  Lemma step_seek s sp k : R s sp -> step_ok (x_seek K V D I C istep iobs mk dstep dobs fuel s k) (find_ge kcmp k T 0).
  Proof.
    intros (ip & Hi & _). unfold x_seek.
    pose proof (refines_from_step kcmp istep iobs _ _ _ (MSeek k) Hi) as Hn. cbn [cstep] in Hn.
    destruct (find_ge kcmp k il 0) as [|i|] eqn:Ef.
    - exfalso. eapply find_ge_not_soi; eauto.
    - destruct (find_ge_at kcmp k il i Ef) as ([ik dd] & Hx & Hge & Hlt). cbn [fst] in Hge.
      destruct (nth_error_split il i Hx) as (A & B & Hl & HlenA). subst i.
      rewrite (rf_obs_mid kcmp istep iobs il _ A (ik, dd) B Hl Hn). cbn [is_some negb].
      unfold Indexed.get_data. rewrite (rf_obs_mid kcmp istep iobs il _ A (ik, dd) B Hl Hn).
      pose proof (T_split A ik dd B Hl) as HT.
      (* everything in the earlier blocks is below k *)
      assert (HA : forall x, In x (cb A) -> kcmp (fst x) k = Lt).
      { intros x Hxin. apply cb_in in Hxin as (ik' & dd' & He & Hxd).
        apply In_nth_error in He as [m Hm]. assert (m < length A) by (apply nth_error_Some; congruence).
        assert (Hlt' : kcmp ik' k = Lt).
        { apply (Hlt m (ik', dd')); auto. rewrite Hl, nth_error_app1; auto. }
        eapply (f_le_lt_trans kcmp ok); [|exact Hlt'].
        apply (data_le_ikey ik' dd'); [|exact Hxd]. rewrite Hl. apply in_or_app. left. eapply nth_error_In; eauto. }
      pose proof (mk_fresh A ik dd B Hl) as Hd.
      pose proof (refines_from_step kcmp dstep dobs _ _ _ (MSeek k) Hd) as Hd'. cbn [cstep] in Hd'.
      cbv zeta. rewrite (refines_from_obs kcmp dstep dobs _ _ _ Hd').
      destruct (find_ge kcmp k (dl dd) 0) as [|j|] eqn:Efd.
      + exfalso. eapply find_ge_not_soi; eauto.
      + destruct (find_ge_at kcmp k (dl dd) j Efd) as (y & Hy & _ & _). cbn [cobs]. rewrite Hy. cbn [is_some].
        eexists _, true. split; [reflexivity|].
        assert (HR' : R {| x_index := istep (x_index s) (MSeek k); x_data := Some (dstep (mk dd) (MSeek k)) |} (At (length (cb A) + j))).
        { exists (At (length A)). split; [exact Hn|]. cbn [x_data]. exists A, ik, dd, B, j, y. repeat split; auto. }
        assert (Hspec : find_ge kcmp k T 0 = At (length (cb A) + j)).
        { rewrite HT, (find_ge_app_lt kcmp) by exact HA. cbn [plus].
          apply find_ge_app_found. rewrite find_ge_shift, Efd. reflexivity. }
        rewrite Hspec. split; [|exact HR']. rewrite (R_valid _ _ HR'). cbn [cobs].
        rewrite HT, nth_error_app2 by lia. replace (length (cb A) + j - length (cb A)) with j by lia.
        rewrite nth_error_app1 by (apply nth_error_Some; congruence). rewrite Hy. reflexivity.
      + cbn [cobs is_some].
        pose proof (find_ge_eoi kcmp k (dl dd) Efd) as Hdd.
        assert (Hf1 : exists f, fuel = S f) by (exists (pred fuel); lia). destruct Hf1 as [f Efu]. rewrite Efu, x_next_unfold. cbn [x_data x_index].
        assert (Hl' : il = (A ++ [(ik, dd)]) ++ B) by (rewrite <- app_assoc; exact Hl).
        assert (Hi' : index_at (istep (x_index s) (MSeek k)) (pos_end (A ++ [(ik, dd)]))) by (rewrite pos_end_snoc; exact Hn).
        apply (fwd_post_ok _ (A ++ [(ik, dd)]) B); [apply next_from_index; auto|].
        { rewrite Hl, app_length in Hfuel. cbn in Hfuel. lia. }
        rewrite cb_snoc, HT, app_assoc.
        rewrite (find_ge_app_lt kcmp).
        2:{ intros x Hxin. apply in_app_or in Hxin as [Hxin|Hxin]; [apply HA; exact Hxin|apply Hdd; exact Hxin]. }
        cbn [plus]. destruct (cb B) as [|y rest] eqn:EB; [reflexivity|].
        apply find_ge_head.
        assert (Hyin : In y (cb B)) by (rewrite EB; left; reflexivity).
        apply cb_in in Hyin as (ik' & dd' & He & Hyd).
        pose proof (ikey_lt_later A ik dd B ik' dd' y Hl He Hyd) as Hlty.
        intros Hc. apply Hge. eapply (o_trans kcmp ok); eauto.
    - rewrite (rf_none kcmp istep iobs _ _ EOI Hn (or_intror eq_refl)). cbn [is_some negb].
      eexists _, false. split; [reflexivity|]. split; [reflexivity|].
      assert (Hspec : find_ge kcmp k T 0 = EOI).
      { apply (seek_char_eoi kcmp). intros x Hxin. apply cb_in in Hxin as (ik & dd & He & Hxd).
        eapply (f_le_lt_trans kcmp ok); [apply (data_le_ikey ik dd); eauto|].
        apply (find_ge_eoi kcmp k il Ef (ik, dd) He). }
      rewrite Hspec. exists EOI. split; [exact Hn|]. cbn. right. auto.
  Qed.

  Theorem indexed_sim s sp m : R s sp ->
    exists s' ret, x_step K V D I C istep iobs mk dstep dobs fuel s m = XOk s' ret /\ R s' (cstep kcmp T sp m) /\
                   (ret, x_kv K V I C dobs s') = out_of (cobs T (cstep kcmp T sp m)).
  Proof.
    intros HR.
    assert (H : step_ok (x_step K V D I C istep iobs mk dstep dobs fuel s m) (cstep kcmp T sp m)).
    { destruct m; cbn [x_step cstep].
      - apply (step_first s sp HR).
      - apply (step_last s sp HR).
      - apply (step_seek s sp k HR).
      - apply (step_next s sp HR).
      - apply (step_prev s sp HR). }
    destruct H as (s' & ret & Hr & Hret & HR'). exists s', ret. split; [exact Hr|]. split; [exact HR'|].
    unfold out_of. rewrite Hret, (R_obs s' _ HR'). reflexivity.
  Qed.

  Lemma indexed_run_from s sp ms : R s sp ->
    x_run K V D I C istep iobs mk dstep dobs fuel s ms = Some (run_from kcmp T sp ms).
  Proof.
    revert s sp. induction ms as [|m ms IH]; intros s sp HR; cbn [x_run run_from]; [reflexivity|].
    destruct (indexed_sim s sp m HR) as (s' & ret & Hr & HR' & Hout).
    rewrite Hr, (IH s' _ HR'), Hout. reflexivity.
  Qed.

  Lemma indexed_refines_from s sp : R s sp ->
    refines_from kcmp (indexed_step K V D I C istep iobs mk dstep dobs fuel) (x_kv K V I C dobs) s T sp.
  Proof.
    intros HR ms. revert s sp HR. induction ms as [|m ms IH]; intros s sp HR; cbn.
    - apply R_obs. exact HR.
    - destruct (indexed_sim s sp m HR) as (s' & ret & Hr & HR' & _).
      unfold indexed_step at 2. rewrite Hr. apply IH. exact HR'.
  Qed.
End IndexedProofs.

Theorem indexed_refines (K V D I C : Type) (kcmp : K -> K -> comparison)
  (istep : I -> move K -> I) (iobs : I -> option (K * D)) (mk : D -> C)
  (dstep : C -> move K -> C) (dobs : C -> option (K * V))
  (il : list (K * D)) (dl : D -> list (K * V)) (i0 : I) (fuel : nat) :
  ord_ok kcmp -> index_ok kcmp il dl ->
  refines kcmp istep iobs i0 il ->
  (forall d, In d (map snd il) -> refines kcmp dstep dobs (mk d) (dl d)) ->
  length il < fuel ->
  forall ms, x_run K V D I C istep iobs mk dstep dobs fuel (x_init i0) ms =
             Some (run_cursor kcmp (concat_blocks il dl) ms).
Proof.
  intros ok Hok Hi Hmk Hf ms.
  apply (indexed_run_from K V D I C kcmp ok istep iobs mk dstep dobs il dl Hok Hmk fuel Hf).
  exists SOI. split; [exact Hi|]. cbn. left. auto.
Qed.

(* the concatenation of the blocks is itself strictly sorted (so an indexed iterator can in turn
   be a child of a merged iterator, as the levels of a DB are) *)
Lemma index_ok_tail {K V D} (kcmp : K -> K -> comparison) (e : K * D) il (dl : D -> list (K * V)) :
  index_ok kcmp (e :: il) dl -> index_ok kcmp il dl.
Proof.
  intros (H1 & H2 & H3 & H4). split; [|split; [|split]].
  - apply (sorted_cons_inv kcmp) in H1. tauto.
  - intros e' He'. apply H2. right. exact He'.
  - intros e' x He'. apply H3. right. exact He'.
  - intros a e1 b x Hl e' He' Hx. apply (H4 (e :: a) e1 b x (f_equal (cons e) Hl) e' He' Hx).
Qed.

Lemma concat_blocks_sorted {K V D} (kcmp : K -> K -> comparison) (ok : ord_ok kcmp) il (dl : D -> list (K * V)) :
  index_ok kcmp il dl -> sorted_kv kcmp (concat_blocks il dl).
Proof.
  induction il as [|[ik dd] il IH]; intros Hok; [constructor|].
  pose proof (index_ok_tail kcmp (ik, dd) il dl Hok) as Hok'.
  destruct Hok as (H1 & H2 & H3 & H4).
  change (concat_blocks ((ik, dd) :: il) dl) with (dl dd ++ concat_blocks il dl).
  apply (sorted_app kcmp).
  - apply (H2 (ik, dd)). left. reflexivity.
  - apply IH. exact Hok'.
  - intros x y Hx Hy. unfold concat_blocks in Hy. apply in_concat in Hy as (b & Hb & Hy).
    apply in_map_iff in Hb as (e' & <- & He').
    eapply (f_le_lt_trans kcmp ok); [apply (H3 (ik, dd) x); [left; reflexivity|exact Hx]|].
    apply (H4 [] (ik, dd) il y eq_refl e' He' Hy).
Qed.

Theorem indexed_is_cursor (K V D I C : Type) (kcmp : K -> K -> comparison)
  (istep : I -> move K -> I) (iobs : I -> option (K * D)) (mk : D -> C)
  (dstep : C -> move K -> C) (dobs : C -> option (K * V))
  (il : list (K * D)) (dl : D -> list (K * V)) (i0 : I) (fuel : nat) :
  ord_ok kcmp -> index_ok kcmp il dl ->
  refines kcmp istep iobs i0 il ->
  (forall d, In d (map snd il) -> refines kcmp dstep dobs (mk d) (dl d)) ->
  length il < fuel ->
  refines kcmp (indexed_step K V D I C istep iobs mk dstep dobs fuel) (x_kv K V I C dobs) (x_init i0)
          (concat_blocks il dl).
Proof.
  intros ok Hok Hi Hmk Hf.
  apply (indexed_refines_from K V D I C kcmp ok istep iobs mk dstep dobs il dl Hok Hmk fuel Hf).
  exists SOI. split; [exact Hi|]. cbn. left. auto.
Qed.
