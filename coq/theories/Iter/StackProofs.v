(* Iter/StackProofs.v — the DB iterator stack: dbIter over the merged iterator over black-box
   children (memdb / table iterators), and the range conversion of newIterator. *)
From GL Require Import Base.Order Base.OrderProofs Codec.IKey Codec.IKeyProofs
  Iter.Cursor Iter.CursorProofs Iter.Merged Iter.MergedProofs Iter.DBIter Iter.LiveProofs Iter.DBIterProofs.
From Coq Require Import Lia Arith.
Close Scope N_scope.

Section Slice.
  Variable c : comparer.
  Hypothesis ok : comparer_ok c.
  Variable p : kparams.
  Hypothesis dpok : dbparams_ok p.
  Variable s : N.

  Notation ukey e := (uk (fst e)).
  Notation lf := (live_from c p s).
  Notation esorted := (sorted_kv (icmp c)).

  (* filtering whole user keys commutes with the scan *)
  Lemma live_filter_ukey (P : bytes -> bool) l : forall sk, esorted l -> lower_ok c s sk l ->
    lf sk (filter (fun e => P (ukey e)) l) = filter (fun kv => P (fst kv)) (lf sk l).
  Proof.
    induction l as [|e l IH]; intros sk Hs Hl; cbn [filter live_from]; [reflexivity|].
    pose proof (sorted_cons_inv (icmp c) e l Hs) as [Hs' _].
    assert (Hl' : lower_ok c s sk l) by (eapply lower_ok_tail; eauto).
    assert (Hle : lower_ok c s (Some (ukey e)) l) by (apply (lower_ok_sorted c ok); exact Hs).
    destruct (P (ukey e)) eqn:EP.
    - cbn [live_from]. destruct (visible s e) eqn:Ev; [|apply IH; auto].
      destruct (same_ukey c sk (ukey e)); [apply IH; auto|].
      destruct (is_val p e); cbn [filter fst]; [rewrite EP; f_equal|]; apply IH; auto.
    - destruct (visible s e) eqn:Ev; [|apply IH; auto].
      destruct (same_ukey c sk (ukey e)) eqn:Es; [apply IH; auto|].
      assert (Hgoal : lf sk (filter (fun e0 => P (ukey e0)) l) = filter (fun kv => P (fst kv)) (lf (Some (ukey e)) l)).
      { rewrite <- (IH (Some (ukey e)) Hs' Hle). eapply live_indep.
        intros x Hx Hvx. apply filter_In in Hx as [Hx HPx].
        transitivity false; [|symmetry].
        - apply (same_ukey_false c ok). intros E. subst sk.
          apply (same_ukey_false c ok) in Es.
          (* ukey x = k <= ukey e <= ukey x, so ukey e = k: contradiction with Es *)
          apply Es. f_equal.
          apply (f_le_antisym (cmp c) (cmp_ord_ok c ok)).
          + apply (f_not_lt_le (cmp c) (cmp_ord_ok c ok)).
            apply (Hl (ukey x) eq_refl e (or_introl eq_refl) Ev).
          + apply (esorted_cons_ukey c e l Hs x Hx).
        - apply (same_ukey_false c ok). intros E. injection E as E. rewrite <- E in HPx. congruence. }
      destruct (is_val p e); cbn [filter fst]; [rewrite EP|]; exact Hgoal.
  Qed.

  (* an entry lies in the internal slice iff its user key lies in the user range *)
  Lemma probe_ok k : range_probe p k = MkOk (probe p k (keyMaxSeq p)).
  Proof.
    unfold range_probe, make_ikey. destruct dpok as (_ & Hsv & _).
    assert ((keyMaxSeq p <? keyMaxSeq p)%N = false) as -> by (apply N.ltb_irrefl).
    assert ((keyTypeVal p <? keyTypeSeek p)%N = false) as -> by (apply N.ltb_ge; exact Hsv).
    reflexivity.
  Qed.

  Lemma in_islice_range (e : entry) start limit a b :
    (num (fst e) <= keyMaxNum p)%N -> opt_probe p start = Some a -> opt_probe p limit = Some b ->
    in_islice c a b e = in_range c start limit (ukey e).
  Proof.
    intros Hb Ha Hbd. destruct dpok as ((_ & _ & _ & _ & _ & Hmax) & _).
    assert (Hcmp : forall k, icmp c (fst e) (probe p k (keyMaxSeq p)) =
                             match cmp c (ukey e) k with Eq => if (num (fst e) =? keyMaxNum p)%N then Eq else Gt | r => r end).
    { intros k. unfold icmp, probe. cbn [uk num]. destruct (cmp c (ukey e) k); auto.
      unfold pack. rewrite <- Hmax. destruct (N.eqb_spec (num (fst e)) (keyMaxNum p)) as [E|E].
      - rewrite E. apply N.compare_refl.
      - apply N.compare_gt_iff. lia. }
    unfold in_islice, in_range, opt_probe in *. f_equal.
    - destruct start as [k|]; [|injection Ha as <-; reflexivity].
      rewrite probe_ok in Ha. injection Ha as <-. rewrite Hcmp.
      destruct (cmp c (ukey e) k); auto. destruct (num (fst e) =? keyMaxNum p)%N; reflexivity.
    - destruct limit as [k|]; [|injection Hbd as <-; reflexivity].
      rewrite probe_ok in Hbd. injection Hbd as <-. rewrite Hcmp.
      destruct (cmp c (ukey e) k); auto. destruct (num (fst e) =? keyMaxNum p)%N; reflexivity.
  Qed.

  Theorem live_pairs_slice l start limit a b :
    esorted l -> Forall (fun e : entry => (num (fst e) <= keyMaxNum p)%N) l ->
    opt_probe p start = Some a -> opt_probe p limit = Some b ->
    live_pairs c p s (slice_entries c a b l) =
    filter (fun kv => in_range c start limit (fst kv)) (live_pairs c p s l).
  Proof.
    intros Hs Hb Ha Hbd. unfold live_pairs, slice_entries.
    rewrite <- (live_filter_ukey (in_range c start limit) l None Hs (lower_ok_none c s l)).
    f_equal. apply filter_ext_in. intros e He. rewrite Forall_forall in Hb.
    apply in_islice_range; auto.
  Qed.
End Slice.

(* dbIter over the merged iterator over black-box children *)
Theorem db_iterator_correct (c : comparer) (p : kparams) (C : Type)
  (chstep : C -> move ikey -> C) (chobs : C -> option entry)
  (pop : list (option ikey) -> bool -> list nat -> option (nat * list nat))
  (seq : N) (strict : bool) (ls : list (list entry)) (its : list C) (fuel : nat) :
  comparer_ok c -> dbparams_ok p -> (seq <= keyMaxSeq p)%N -> pop_ok ikey (icmp c) pop ->
  Forall (sorted_kv (icmp c)) ls -> NoDup (map fst (concat ls)) -> Forall (Forall (entry_wf p)) ls ->
  Forall2 (fun ch l => refines (icmp c) chstep chobs ch l) its ls ->
  length (concat ls) < fuel ->
  forall ms, db_run c p _ (merged_step ikey bytes C chstep chobs pop) (m_kv ikey bytes C chobs) seq strict fuel
               (db_init (m_init its)) ms =
             Some (run_cursor (cmp c) (live_pairs c p seq (merge_lists (icmp c) ls)) ms).
Proof.
  intros ok dpok Hseq Hpop Hs Hnd Hwf Href Hfuel ms.
  apply dbiter_refines; [exact ok|exact dpok|exact Hseq| | | |].
  - apply (merge_sorted ikey bytes (icmp c) (icmp_ord_ok c ok)). exact Hnd.
  - rewrite Forall_forall. intros e He. apply (merge_in ikey bytes (icmp c)) in He as (j & l & Hj & Hin).
    rewrite Forall_forall in Hwf. specialize (Hwf l (nth_error_In _ _ Hj)). rewrite Forall_forall in Hwf. auto.
  - pose proof (merge_length (icmp c) ls) as Hml. unfold entry in *. lia.
  - apply merged_is_cursor; auto. apply (icmp_ord_ok c ok).
Qed.
