(* Iter/Indexed.v — model of leveldb/iterator/indexed_iter.go: indexedIterator = an index iterator
   (IteratorIndexer: a cursor whose Get() yields a fresh data iterator for the entry it is on) plus
   the current data iterator.  Same state (index, data or nil), same branch structure: setData /
   clearData, First = index.First + Next, Last/Seek with the fall back into Prev()/Next() when the
   data iterator has nothing, Next/Prev stepping across data iterators and skipping empty ones
   (the tail recursion `return i.Next()` / `return i.Prev()` is a loop with explicit fuel).
   The index iterator is a black box over (index key, D); D describes a data block / table and
   [mk : D -> C] is index.Get(): a new data iterator positioned before its first pair.
   Not modelled: index/data errors, strict, Release.
   Model file: definitions only (proofs in IndexedProofs.v). *)
From GL Require Export Iter.Cursor.

Section Indexed.
  Variables K V D I C : Type.
  Variable istep : I -> move K -> I.
  Variable iobs : I -> option (K * D).
  Variable mk : D -> C.
  Variable dstep : C -> move K -> C.
  Variable dobs : C -> option (K * V).

  Record xstate := { x_index : I; x_data : option C }.

  Inductive xres := XOk (s : xstate) (r : bool) | XOutOfFuel.

  Definition x_init (i : I) : xstate := {| x_index := i; x_data := None |}.

  (* setData: i.data = i.index.Get()  (nil when the index is not on an entry) *)
  Definition get_data (i : I) : option C :=
    match iobs i with Some (_, d) => Some (mk d) | None => None end.

  Definition data_valid (d : option C) : bool :=
    match d with Some c => is_some (dobs c) | None => false end.

  (* Next() *)
  Fixpoint x_next (fuel : nat) (s : xstate) : xres :=
    match fuel with
    | O => XOutOfFuel
    | S fuel' =>
      let index_next (i : I) : xres :=
        let i' := istep i MNext in
        if negb (is_some (iobs i')) then XOk {| x_index := i'; x_data := None |} false
        else x_next fuel' {| x_index := i'; x_data := get_data i' |} in
      match x_data s with
      | Some d =>
          let d' := dstep d MNext in
          if is_some (dobs d') then XOk {| x_index := x_index s; x_data := Some d' |} true
          else index_next (x_index s)            (* clearData; fallthrough *)
      | None => index_next (x_index s)
      end
    end.

  (* Prev() *)
  Fixpoint x_prev (fuel : nat) (s : xstate) : xres :=
    match fuel with
    | O => XOutOfFuel
    | S fuel' =>
      let index_prev (i : I) : xres :=
        let i' := istep i MPrev in
        if negb (is_some (iobs i')) then XOk {| x_index := i'; x_data := None |} false
        else match get_data i' with
             | Some d =>
                 let d' := dstep d MLast in
                 if is_some (dobs d') then XOk {| x_index := i'; x_data := Some d' |} true
                 else x_prev fuel' {| x_index := i'; x_data := None |}     (* clearData; return i.Prev() *)
             | None => x_prev fuel' {| x_index := i'; x_data := None |}
             end in
      match x_data s with
      | Some d =>
          let d' := dstep d MPrev in
          if is_some (dobs d') then XOk {| x_index := x_index s; x_data := Some d' |} true
          else index_prev (x_index s)
      | None => index_prev (x_index s)
      end
    end.

  Definition x_first (fuel : nat) (s : xstate) : xres :=
    let i' := istep (x_index s) MFirst in
    if negb (is_some (iobs i')) then XOk {| x_index := i'; x_data := None |} false
    else x_next fuel {| x_index := i'; x_data := get_data i' |}.

  Definition x_last (fuel : nat) (s : xstate) : xres :=
    let i' := istep (x_index s) MLast in
    if negb (is_some (iobs i')) then XOk {| x_index := i'; x_data := None |} false
    else match get_data i' with
         | Some d =>
             let d' := dstep d MLast in
             if is_some (dobs d') then XOk {| x_index := i'; x_data := Some d' |} true
             else x_prev fuel {| x_index := i'; x_data := None |}
         | None => x_prev fuel {| x_index := i'; x_data := None |}
         end.

  Definition x_seek (fuel : nat) (s : xstate) (k : K) : xres :=
    let i' := istep (x_index s) (MSeek k) in
    if negb (is_some (iobs i')) then XOk {| x_index := i'; x_data := None |} false
    else match get_data i' with
         | Some d =>
             let d' := dstep d (MSeek k) in
             if is_some (dobs d') then XOk {| x_index := i'; x_data := Some d' |} true
             else x_next fuel {| x_index := i'; x_data := None |}
         | None => x_next fuel {| x_index := i'; x_data := None |}
         end.

  Definition x_step (fuel : nat) (s : xstate) (m : move K) : xres :=
    match m with
    | MFirst => x_first fuel s
    | MLast => x_last fuel s
    | MSeek k => x_seek fuel s k
    | MNext => x_next fuel s
    | MPrev => x_prev fuel s
    end.

  (* Valid / Key / Value: those of the data iterator, nil without one *)
  Definition x_kv (s : xstate) : option (K * V) :=
    match x_data s with Some d => dobs d | None => None end.

  (* the machine as a black box for the iterator above it (the merged iterator of a DB) *)
  Definition indexed_step (fuel : nat) (s : xstate) (m : move K) : xstate :=
    match x_step fuel s m with XOk s' _ => s' | XOutOfFuel => s end.

  Fixpoint x_run (fuel : nat) (s : xstate) (ms : list (move K)) : option (list (output K V)) :=
    match ms with
    | [] => Some []
    | m :: r =>
        match x_step fuel s m with
        | XOk s' ret => match x_run fuel s' r with
                        | Some o => Some ((ret, x_kv s') :: o)
                        | None => None
                        end
        | XOutOfFuel => None
        end
    end.
End Indexed.

(* ---- the SPEC list: the concatenation of the blocks, and what the index must satisfy ---- *)
Section Concat.
  Variables K V D : Type.
  Variable kcmp : K -> K -> comparison.

  Definition concat_blocks (il : list (K * D)) (dl : D -> list (K * V)) : list (K * V) :=
    concat (map (fun e => dl (snd e)) il).

  (* index keys strictly increasing, every block strictly sorted, the index key of a block is
     >= all its keys and < all keys of the later blocks (table index blocks: separators; levels:
     largest keys of the tables) *)
  Definition index_ok (il : list (K * D)) (dl : D -> list (K * V)) : Prop :=
    sorted_kv kcmp il /\
    (forall e, In e il -> sorted_kv kcmp (dl (snd e))) /\
    (forall e x, In e il -> In x (dl (snd e)) -> kcmp (fst x) (fst e) <> Gt) /\
    (forall a e b x, il = a ++ e :: b -> forall e', In e' b -> In x (dl (snd e')) -> kcmp (fst e) (fst x) = Lt).
End Concat.

Arguments concat_blocks {K V D}. Arguments index_ok {K V D}.
Arguments XOk {I C}. Arguments XOutOfFuel {I C}.
Arguments x_index {I C}. Arguments x_data {I C}. Arguments x_init {I C}.
