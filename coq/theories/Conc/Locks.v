(* Conc/Locks.v — the BLOCKING SKELETON of goleveldb as an executable labelled transition system.

   Derived by reading leveldb/db_write.go (Write, putRec, writeLocked, unlockWrite, flush, rotateMem,
   CompactRange, SetReadOnly), db_transaction.go (OpenTransaction, Commit, Discard, setDone),
   db_compaction.go (compactionError, compactionTransact, compactionCommit, memCompaction, mCompaction,
   tCompaction, pauseCompaction, compTrigger, compTriggerWait, compTriggerRange) and db.go (Close).

   Every public call and every background loop is reduced to its control-flow graph over
     - the write lock   writeLockC      (acquire / release / hand-over to an overflowed merge writer /
                                         hand-over to the Transaction / hand-over to compactionError),
     - the mutex        compCommitLk,   the mutex tr.lk of the open transaction,
     - rendezvous on    writeMergeC, writeMergedC, writeAckC, mcompCmdC, tcompCmdC, tcompPauseC (+ resume
                        channel), compErrC, compPerErrC, compErrSetC, the per-request ack channels,
     - closeC (closed by Close), the closed flag, closeW.Wait.
   Every storage call and every data-dependent test is a non-deterministic internal branch (LTau).

   The model has one description of the code per [variant]: [fixed] is the code after the "fix:" commits
   (Commit unlocks compCommitLk when it gives up; Write discards its internal transaction when Commit
   fails; OpenTransaction releases the write lock on its error paths; a failed manifest write makes the
   next commit start a fresh manifest; SetReadOnly hands the write lock over explicitly; OpenTransaction does not
   return a transaction on a DB whose closeC was closed before db.tr was published); switching one
   flag off gives the code before that repair (used by the ..._leaks_refuted examples).
   mCompaction / tCompaction follow the code after the repair "a DB in the persistent-error state starts no
   flush and no table compaction": between receiving a command (or taking the default case) and starting work
   they test compPerErrC without blocking; in that state they acknowledge everything they hold with the error
   and return (edges M1 -> MX, T3 k -> TX).

   Model file: definitions only (proofs in Conc/LocksProofs.v).
   NOT modelled: the Go scheduler and memory model, fairness, wall-clock time (time.After / back-off timers
   are internal steps), the contents of the data (all data-dependent tests are non-deterministic), the
   short critical sections of memMu / snapsMu / vmu (never held across a blocking operation), the
   retry limit + panic of rotateMem on errHasFrozenMem (the retry edge is kept, unbounded). *)
From Coq Require Export List Bool Arith.
Export ListNotations.

(* ---------------------------------------------------------------- variants of the code *)

Record variant := {
  fixD4a : bool;  (* Transaction.Commit unlocks compCommitLk after exhausted retries *)
  fixD4b : bool;  (* DB.Write discards its transaction when Commit fails *)
  fixD4c : bool;  (* OpenTransaction releases the write lock on its error paths *)
  fixD7  : bool;  (* a failed manifest write does not poison later commits *)
  fixD8  : bool;  (* SetReadOnly: explicit hand-over of the write lock to compactionError *)
  fixD9  : bool   (* OpenTransaction gives the transaction up itself when closeC was closed before db.tr was published *)
}.
Definition fixed : variant :=
  {| fixD4a := true; fixD4b := true; fixD4c := true; fixD7 := true; fixD8 := true; fixD9 := true |}.

(* ---------------------------------------------------------------- program counters *)

Inductive bg := BM | BT.                      (* mCompaction / tCompaction *)
Inductive ctx := XUser | XLB | XClose.        (* who runs OpenTransaction / Commit / Discard:
                                                 the user, DB.Write (large batch), DB.Close *)
Inductive r3 := R0 | R1 | R2.                 (* Commit's retry counter *)
Inductive errk := EOk | ETrans | ECorr | ERO. (* value sent on compErrSetC *)

(* call sites of rotateMem *)
Inductive rsite := RFlush (m : bool) | RPost (m : bool) | RCr | ROt (x : ctx).
(* call sites of compTriggerWait / compTriggerRange *)
Inductive tsite :=
| SRot0 (r : rsite) | SRot2 (r : rsite) | SFlushPause (m : bool)
| SOtFrozen (x : ctx) | SOtWc (x : ctx) | SCmWc (x : ctx) | SCrM | SCrT.

Inductive cpc :=
| Idle | IdleTr                 (* IdleTr: no call in progress, the client owns a Transaction handle *)
| Ret | RetTr                   (* about to return to Idle / IdleTr (CallEnd) *)
(* Put / Delete / Write (journal path); m = write merge enabled *)
| W0 (m : bool) | WB (m : bool) | LBa | W1 (m : bool) | W2 | W3
| WF (m : bool) | WM (m : bool) | WMs (m : bool) | WJ (m : bool) | WR (m : bool) | WU (m : bool)
(* compTriggerWait: first select (send command) / second select (wait for the ack) *)
| TrigS (b : bg) (s : tsite) | TrigW (b : bg) (s : tsite)
(* rotateMem: newMem / schedule *)
| Rot1 (r : rsite) | Rot2 (r : rsite)
(* OpenTransaction *)
| OT0 (x : ctx) | OT1 (x : ctx) | OT2 (x : ctx) | OT3 (x : ctx) | OT4 (x : ctx) | OT5 (x : ctx)
| OTE (x : ctx) | OTfail (x : ctx)
(* OpenTransaction after db.tr = tr: select on closeC / default; on closeC: tr.lk.Lock, if !tr.closed {discard; setDone},
   tr.lk.Unlock, return ErrClosed *)
| OT4b (x : ctx) | OT6 (x : ctx) | OT7 (x : ctx) | OT7d (x : ctx) | OT8 (x : ctx)
(* DB.Write, large batch: tr.Write, then Commit or Discard *)
| LB1 | LB2 | LB3 (ok : bool) | LB4 | LB5
(* Transaction.Commit *)
| CM0 (x : ctx) | CM1 (x : ctx) | CM2 (x : ctx) | CM3 (x : ctx) | CM4 (x : ctx)
| CM5 (x : ctx) (r : r3) | CM6 (x : ctx) (r : r3) | CM6c (x : ctx) | CM5f (x : ctx)
| CM7 (x : ctx) | CM8 (x : ctx) | CM8b (x : ctx) | CM9 (x : ctx) | CM10 (x : ctx)
| CMok (x : ctx) | CMFu (x : ctx) | CMF (x : ctx)
(* Transaction.Discard *)
| DC0 (x : ctx) | DC1 (x : ctx) | DC2 (x : ctx) | DC3 (x : ctx) | DC4 (x : ctx)
(* Transaction.Put/Delete/Write/Get by the owner of the handle *)
| TP1 | TP2 | TP3
(* CompactRange *)
| CR0 | CR1 | CR2 | CR3 | CR3e | CR6
(* SetReadOnly *)
| RO0 | RO1 | RO2 | RO3
(* Close *)
| CL0 | CL1 | CL2 | CL3 | CL3b | CL4 | CL5 | CL6
(* Get / iterator step: never blocks *)
| G0.

(* continuation points of tCompaction *)
Inductive tk := KT0 | KT2 | KT4 | KTB1 (r : bool).
Inductive xkind := XNo | XAck | XRange.       (* command without ack / cAuto with ack channel / cRange *)

Inductive mpc :=
| M0 | M1 | MP | MB (p : bool) | MB1 (p : bool) | MBs (p : bool) (e : errk)
| MC (p : bool) | MD (p : bool) | MD1 (p : bool) | MDs (p : bool) (e : errk)
| ME (p : bool) | MF (p : bool) | MG | MAck | MXu | MX | MDone.

Inductive tpc :=
| T0 | T1 | T1b | T2a | T2 | T3 (k : xkind) | T3r | T4
| TB (r : bool) | TB1 (r : bool) | TBs (r : bool) (e : errk)
| TC (r : bool) | TD (r : bool) | TD1 (r : bool) | TDs (r : bool) (e : errk) | TE (r : bool)
| TP (k : tk) | TQ (k : tk) | TAx (k : tk) | TXu | TX | TDone.

Inductive epc := E_no | E_has | E_per | E_done.   (* compactionError *)

(* ---------------------------------------------------------------- labels *)

(* Observable labels carry what the verifEvent hook reports (kind, site); see verif_events_locks.go. *)
Inductive lbl :=
| LTau                          (* internal: storage outcome, data-dependent test, timer *)
| LBegin (c : nat)              (* call c begins (CallBegin) *)
| LEnd                          (* the innermost call ends (CallEnd) *)
| LIfClosed (b : bool)          (* db.closed == b *)
| LCasClosed (b : bool)         (* Close: setClosed() returned b *)
| LCloseChan                    (* close(closeC) *)
| LReadDbTr (b : bool)          (* Close: db.tr != nil *)
| LIfTrOpen (b : bool)          (* !tr.closed == b (under tr.lk) *)
| LIfMemNil                     (* getEffectiveMem() == nil: only after Close has cleared the memdbs *)
| LClearMems                    (* Close: clearMems *)
| LWaitBg                       (* Close: closeW.Wait() returns *)
| LAcqW | LAcqWRO | LAcqWClose  (* writeLockC <- struct{}{} (LAcqWRO: in SetReadOnly; LAcqWClose: in Close, never released) *)
| LRelW                         (* <-writeLockC by the client that holds it *)
| LRelWU                        (* unlockWrite: release (no merged writer left, no overflow) *)
| LGiveW                        (* unlockWrite: writeMergedC <- false: hand the lock to the overflow writer *)
| LAckOne                       (* unlockWrite: writeAckC <- err to one merged writer *)
| LMergeRecv (fits : bool)      (* writeLocked: receive a merge request; fits=false: overflow *)
| LMergedTrue                   (* writeLocked: writeMergedC <- true *)
| LWToTr                        (* OpenTransaction: db.tr = tr (the lock now belongs to the transaction) *)
| LRelWTr                       (* setDone: <-writeLockC on behalf of the transaction *)
| LSendErrSet (e : errk)        (* compErrSetC <- e *)
| LSendErrSetRO                 (* SetReadOnly: compErrSetC <- ErrReadOnly, handing over the write lock *)
| LRecvErr | LRecvPerr          (* <-compErrC / <-compPerErrC *)
| LSeeClosed                    (* <-closeC *)
| LLockC | LUnlockC | LLockT | LUnlockT
| LSendCmd (b : bg) (k : xkind) (* blocking send of a command *)
| LTrySendCmd (b : bg)          (* compTrigger: non-blocking send *)
| LCommitOk | LCommitFailW      (* background s.commit succeeded / failed with a manifest WRITE error *)
| LSendPause | LRecvResume      (* mCompaction: tcompPauseC <- resumeC / <-resumeC *)
| LAck (ok : bool)              (* x.ack(nil) / x.ack(ErrClosed) for the current command (no-op if none) *)
| LEnqueue                      (* tCompaction: waitQ = append(waitQ, x) *)
| LAckQ (ok : bool)             (* tCompaction: ack the first entry of waitQ *)
| LQEmpty                       (* tCompaction: waitQ is empty *)
| LOpenC.                       (* the default case of a select on closeC: closeC is not closed *)

(* ---------------------------------------------------------------- control-flow graphs *)

Definition on_rot_ok (r : rsite) : cpc :=
  match r with RFlush m => WM m | RPost m => WU m | RCr => CR3 | ROt x => OT3 x end.
Definition on_rot_err (r : rsite) : cpc :=
  match r with RFlush m => WU m | RPost m => WU m | RCr => CR3e | ROt x => OTE x end.
Definition rot_waits (r : rsite) : bool := match r with ROt _ => true | _ => false end.

Definition on_ok (s : tsite) : cpc :=
  match s with
  | SRot0 r => Rot1 r | SRot2 r => on_rot_ok r | SFlushPause m => WF m
  | SOtFrozen x => OT3 x | SOtWc x => OT4 x | SCmWc x => CM9 x | SCrM => TrigS BT SCrT | SCrT => Ret
  end.
Definition on_err (s : tsite) : cpc :=
  match s with
  | SRot0 r => on_rot_err r | SRot2 r => on_rot_err r | SFlushPause m => WU m
  | SOtFrozen x => OTE x | SOtWc x => OTE x | SCmWc x => CM9 x | SCrM => Ret | SCrT => Ret
  end.
Definition cmd_kind (s : tsite) : xkind := match s with SCrT => XRange | _ => XAck end.

(* where a call made in context x continues *)
Definition after_ot_fail (x : ctx) : cpc := match x with XLB => Ret | _ => Idle end.
Definition after_ot_ok (x : ctx) : cpc := match x with XLB => LB1 | _ => IdleTr end.
Definition after_cm_ok (x : ctx) : cpc := match x with XLB => Ret | _ => Idle end.
Definition after_cm_fail (v : variant) (x : ctx) : cpc :=
  match x with XLB => if fixD4b v then LB5 else Ret | _ => IdleTr end.
Definition after_dc (x : ctx) : cpc := match x with XLB => Ret | XClose => CL4 | XUser => Idle end.
Definition next_r (r : r3) : option r3 := match r with R0 => Some R1 | R1 => Some R2 | R2 => None end.

(* edges a client takes on its own initiative *)
Definition cedges (v : variant) (pc : cpc) : list (lbl * cpc) :=
  match pc with
  | Idle => [ (LBegin 2, W0 true); (LBegin 2, W0 false); (LBegin 1, WB true); (LBegin 1, WB false);
              (LBegin 3, OT0 XUser); (LBegin 6, CR0); (LBegin 7, RO0); (LBegin 8, CL0);
              (LBegin 13, G0); (LBegin 14, G0) ]
  | IdleTr => [ (LBegin 4, CM0 XUser); (LBegin 5, DC0 XUser); (LTau, TP1) ]
  | Ret => [ (LEnd, Idle) ]
  | RetTr => [ (LEnd, IdleTr) ]
  (* ---- putRec / Write *)
  | W0 m => [ (LIfClosed true, Ret); (LIfClosed false, W1 m) ]
  | WB m => [ (LIfClosed true, Ret); (LIfClosed false, W1 m); (LIfClosed false, LBa) ]
  | LBa => [ (LBegin 3, OT0 XLB) ]
  | W1 m => [ (LAcqW, WF m); (LRecvPerr, Ret); (LSeeClosed, Ret) ]   (* + passive: merge request taken *)
  | W2 => []                                                         (* passive: <-writeMergedC *)
  | W3 => []                                                         (* passive: <-writeAckC *)
  | WF m => [ (LTau, WM m); (LTau, TrigS BT (SFlushPause m)); (LTau, TrigS BM (SRot0 (RFlush m)));
              (LIfMemNil, WU m) ]
  | WM m => if m then [ (LMergeRecv true, WMs m); (LMergeRecv false, WJ m); (LTau, WJ m) ] else [ (LTau, WJ m) ]
  | WMs m => [ (LMergedTrue, WM m) ]
  | WJ m => [ (LTau, WR m); (LTau, WU m) ]
  | WR m => [ (LTau, WU m); (LTau, TrigS BM (SRot0 (RPost m))) ]
  | WU m => [ (LAckOne, WU m); (LGiveW, Ret); (LRelWU, Ret) ]
  (* ---- compTriggerWait *)
  | TrigS b s => [ (LSendCmd b (cmd_kind s), TrigW b s); (LRecvErr, on_err s); (LSeeClosed, on_err s) ]
  | TrigW b s => [ (LRecvErr, on_err s); (LSeeClosed, on_err s) ]    (* + passive: the ack *)
  (* ---- rotateMem *)
  | Rot1 r => [ (LTau, Rot2 r); (LTau, on_rot_err r); (LTau, TrigS BM (SRot0 r)) ]
  | Rot2 r => if rot_waits r then [ (LTau, TrigS BM (SRot2 r)) ] else [ (LTrySendCmd BM, on_rot_ok r) ]
  (* ---- OpenTransaction *)
  | OT0 x => [ (LIfClosed true, OTfail x); (LIfClosed false, OT1 x) ]
  | OT1 x => [ (LAcqW, OT2 x); (LRecvPerr, OTfail x); (LSeeClosed, OTfail x) ]
  | OT2 x => [ (LTau, TrigS BM (SRot0 (ROt x))); (LTau, TrigS BM (SOtFrozen x)); (LTau, OT3 x) ]
  | OT3 x => [ (LTau, TrigS BT (SOtWc x)); (LTau, OT4 x) ]
  | OT4 x => [ (LWToTr, if fixD9 v then OT4b x else OT5 x) ]
  | OT4b x => [ (LSeeClosed, OT6 x); (LOpenC, OT5 x) ]
  | OT6 x => [ (LLockT, OT7 x) ]
  | OT7 x => [ (LIfTrOpen true, OT7d x); (LIfTrOpen false, OT8 x) ]
  | OT7d x => [ (LRelWTr, OT8 x) ]
  | OT8 x => [ (LUnlockT, OTfail x) ]
  | OT5 x => [ (LEnd, after_ot_ok x) ]
  | OTE x => if fixD4c v then [ (LRelW, OTfail x) ] else [ (LTau, OTfail x) ]
  | OTfail x => [ (LEnd, after_ot_fail x) ]
  (* ---- DB.Write, large batch *)
  | LB1 => [ (LLockT, LB2) ]
  | LB2 => [ (LTau, LB3 true); (LTau, LB3 false) ]
  | LB3 ok => [ (LUnlockT, if ok then LB4 else LB5) ]
  | LB4 => [ (LBegin 4, CM0 XLB) ]
  | LB5 => [ (LBegin 5, DC0 XLB) ]
  (* ---- Transaction.Commit *)
  | CM0 x => [ (LIfClosed true, CMF x); (LIfClosed false, CM1 x) ]
  | CM1 x => [ (LLockT, CM2 x) ]
  | CM2 x => [ (LIfTrOpen false, CMFu x); (LIfTrOpen true, CM3 x) ]
  | CM3 x => [ (LTau, CMFu x); (LTau, CM4 x); (LTau, CM9 x) ]
  | CM4 x => [ (LLockC, CM5 x R0) ]
  | CM5 x r => [ (LCommitOk, CM7 x); (LTau, CM6 x r); (LCommitFailW, CM6 x r) ]
  | CM6 x r => [ (LTau, match next_r r with Some r' => CM5 x r' | None => CM5f x end); (LSeeClosed, CM6c x) ]
  | CM6c x => [ (LUnlockC, CMFu x) ]
  | CM5f x => if fixD4a v then [ (LUnlockC, CMFu x) ] else [ (LTau, CMFu x) ]
  | CM7 x => [ (LTrySendCmd BT, CM8 x) ]
  | CM8 x => [ (LUnlockC, CM8b x) ]
  | CM8b x => [ (LTau, TrigS BT (SCmWc x)); (LTau, CM9 x) ]
  | CM9 x => [ (LRelWTr, CM10 x) ]
  | CM10 x => [ (LUnlockT, CMok x) ]
  | CMok x => [ (LEnd, after_cm_ok x) ]
  | CMFu x => [ (LUnlockT, CMF x) ]
  | CMF x => [ (LEnd, after_cm_fail v x) ]
  (* ---- Transaction.Discard *)
  | DC0 x => [ (LLockT, DC1 x) ]
  | DC1 x => [ (LIfTrOpen true, DC2 x); (LIfTrOpen false, DC3 x) ]
  | DC2 x => [ (LRelWTr, DC3 x) ]
  | DC3 x => [ (LUnlockT, DC4 x) ]
  | DC4 x => [ (LEnd, after_dc x) ]
  (* ---- operations on the transaction handle *)
  | TP1 => [ (LLockT, TP2) ]
  | TP2 => [ (LTau, TP3) ]
  | TP3 => [ (LUnlockT, IdleTr) ]
  (* ---- CompactRange *)
  | CR0 => [ (LIfClosed true, Ret); (LIfClosed false, CR1) ]
  | CR1 => [ (LAcqW, CR2); (LRecvPerr, Ret); (LSeeClosed, Ret) ]
  | CR2 => [ (LIfMemNil, Ret); (LTau, TrigS BM (SRot0 RCr)); (LTau, CR6) ]
  | CR3 => [ (LRelW, TrigS BM SCrM) ]
  | CR3e => [ (LRelW, Ret) ]
  | CR6 => [ (LRelW, TrigS BT SCrT) ]
  (* ---- SetReadOnly *)
  | RO0 => [ (LIfClosed true, Ret); (LIfClosed false, RO1) ]
  | RO1 => [ (LAcqWRO, RO2); (LRecvPerr, Ret); (LSeeClosed, Ret) ]
  | RO2 => if fixD8 v then [ (LSendErrSetRO, Ret); (LRecvPerr, RO3); (LSeeClosed, RO3) ]
           else [ (LSendErrSetRO, Ret); (LRecvPerr, Ret); (LSeeClosed, Ret) ]
  | RO3 => [ (LRelW, Ret) ]
  (* ---- Close *)
  | CL0 => [ (LCasClosed true, CL1); (LCasClosed false, Ret) ]
  | CL1 => [ (LTau, CL2) ]
  | CL2 => [ (LCloseChan, CL3) ]
  | CL3 => [ (LReadDbTr true, CL3b); (LReadDbTr false, CL4) ]
  | CL3b => [ (LBegin 5, DC0 XClose) ]
  | CL4 => [ (LAcqWClose, CL5) ]
  | CL5 => [ (LWaitBg, CL6) ]
  | CL6 => [ (LClearMems, Ret) ]
  | G0 => [ (LTau, Ret) ]
  end.

(* the ack a client waits for in TrigW: delivered by the background goroutine *)
Definition after_ack (ok : bool) (pc : cpc) : cpc :=
  match pc with TrigW _ s => if ok then on_ok s else on_err s | _ => pc end.

Definition medges (pc : mpc) : list (lbl * mpc) :=
  match pc with
  | M0 => [ (LSeeClosed, MX) ]                                       (* + passive: receives a command *)
  | M1 => [ (LTau, MAck); (LTau, MP); (LRecvPerr, MX) ]             (* persistent error: no flush is started; ack(perr), return *)
  | MP => [ (LSendPause, MB true); (LRecvPerr, MB false); (LSeeClosed, MX) ]
  | MB p => [ (LIfClosed true, MX); (LIfClosed false, MB1 p) ]
  | MB1 p => [ (LTau, MBs p EOk); (LTau, MBs p ETrans); (LTau, MBs p ECorr) ]
  | MBs p e => [ (LSendErrSet e, match e with EOk => MC p | ETrans => MB p | _ => MX end);
                 (LRecvPerr, match e with EOk => MC p | _ => MX end); (LSeeClosed, MX) ]
  | MC p => [ (LLockC, MD p) ]
  | MD p => [ (LIfClosed true, MXu); (LIfClosed false, MD1 p) ]
  | MD1 p => [ (LCommitOk, MDs p EOk); (LTau, MDs p ETrans); (LCommitFailW, MDs p ETrans) ]
  | MDs p e => [ (LSendErrSet e, match e with EOk => ME p | _ => MD p end);
                 (LRecvPerr, match e with EOk => ME p | _ => MXu end); (LSeeClosed, MXu) ]
  | ME p => [ (LUnlockC, MF p) ]
  | MF p => if p then [ (LRecvResume, MG); (LSeeClosed, MX) ] else [ (LTau, MG) ]
  | MG => [ (LTrySendCmd BT, MAck) ]
  | MAck => [ (LAck true, M0) ]
  | MXu => [ (LUnlockC, MX) ]
  | MX => [ (LAck false, MDone) ]
  | MDone => []
  end.

Definition tcont (k : tk) : tpc :=
  match k with KT0 => T0 | KT2 => T2 | KT4 => T4 | KTB1 r => TB1 r end.
(* where tCompaction continues after the resume-write acks of its waitQ: on the need-compaction branch (KT4) the
   test of the persistent error comes next, i.e. T3 XNo (no command held) *)
Definition qcont (k : tk) : tpc :=
  match k with KT4 => T3 XNo | _ => tcont k end.

Definition tedges (pc : tpc) : list (lbl * tpc) :=
  match pc with
  | T0 => [ (LTau, T1); (LTau, T2a) ]
  | T1 => [ (LSeeClosed, TX); (LTau, T1b) ]                          (* + passive: command / pause *)
  | T1b => [ (LTau, T3 XNo); (LTau, TQ KT4) ]
  | T2a => [ (LTau, TQ KT2) ]
  | T2 => [ (LSeeClosed, TX) ]                                       (* + passive: command / pause *)
  (* T3 k: after the select, holding command k (XNo: none, or a cAuto without ack channel).  First the test of
     the persistent error (compactionPerErr: a non-blocking receive on compPerErrC): in that state no compaction
     is started, waitQ and the command are acknowledged with the error (TX) and the goroutine returns *)
  | T3 XNo => [ (LTau, T4); (LRecvPerr, TX) ]
  | T3 XAck => [ (LTau, TAx KT4); (LEnqueue, T4); (LRecvPerr, TX) ]
  | T3 XRange => [ (LTau, T3r); (LRecvPerr, TX) ]
  | T3r => [ (LTau, TB true); (LTau, TC true); (LTau, TAx KT4) ]
  | T4 => [ (LTau, T0); (LTau, TB false); (LTau, TC false) ]
  | TB r => [ (LIfClosed true, TX); (LIfClosed false, TB1 r) ]
  | TB1 r => [ (LTau, TBs r EOk); (LTau, TBs r ETrans); (LTau, TBs r ECorr); (LSeeClosed, TX) ]  (* + passive: pause *)
  | TBs r e => [ (LSendErrSet e, match e with EOk => TC r | ETrans => TB r | _ => TX end);
                 (LRecvPerr, match e with EOk => TC r | _ => TX end); (LSeeClosed, TX) ]
  | TC r => [ (LLockC, TD r) ]
  | TD r => [ (LIfClosed true, TXu); (LIfClosed false, TD1 r) ]
  | TD1 r => [ (LCommitOk, TDs r EOk); (LTau, TDs r ETrans); (LCommitFailW, TDs r ETrans) ]
  | TDs r e => [ (LSendErrSet e, match e with EOk => TE r | _ => TD r end);
                 (LRecvPerr, match e with EOk => TE r | _ => TXu end); (LSeeClosed, TXu) ]
  | TE r => [ (LUnlockC, if r then T3r else T0) ]
  | TP k => [ (LSeeClosed, TX) ]                                     (* + passive: the resume receive *)
  | TQ k => [ (LAckQ true, TQ k); (LQEmpty, qcont k) ]
  | TAx k => [ (LAck true, tcont k) ]
  | TXu => [ (LUnlockC, TX) ]
  | TX => [ (LAckQ false, TX); (LAck false, TDone) ]
  | TDone => []
  end.

(* tCompaction is receptive for a command / a pause request at these points *)
Definition t_recv_cmd (pc : tpc) : bool := match pc with T1 | T2 => true | _ => false end.
Definition t_recv_pause (pc : tpc) : option tk :=
  match pc with T1 | T2 => Some KT0 | TB1 r => Some (KTB1 r) | _ => None end.

(* ---------------------------------------------------------------- state *)

Inductive who := PCli (i : nat) | PM | PT | PCE.
Inductive wlock := WFree | WHeld (p : who) | WTr | WClosed.
(* WTr: owned by the open Transaction; WClosed: taken by Close and kept for ever on behalf of the closed DB *)

Record state := {
  wl : wlock;                  (* writeLockC *)
  cl : option who;             (* compCommitLk *)
  tl : option nat;             (* tr.lk of the open transaction (client that holds it) *)
  closed : bool;               (* db.closed *)
  closeC : bool;               (* closeC is closed *)
  memclr : bool;               (* Close has cleared the memdbs *)
  trown : option nat;          (* db.tr: the client that owns the open transaction *)
  closetgt : option nat;       (* Close: the transaction read from db.tr *)
  locking : bool;              (* db.compWriteLocking *)
  poisoned : bool;             (* the manifest journal writer carries a sticky error *)
  cli : nat -> cpc;
  ctk : nat -> nat;            (* ticket of the ack channel the client waits on *)
  nexttk : nat;
  merged : list nat;           (* writers merged into the current write (they wait on writeAckC) *)
  pend : option nat;           (* writer whose merge request was received and not yet answered *)
  mc : mpc; mx : option (nat * nat);                         (* mCompaction, its current command's ack *)
  tc : tpc; tx : option (nat * nat); tq : list (nat * nat);  (* tCompaction, current command's ack, waitQ *)
  ce : epc
}.

Definition init : state :=
  {| wl := WFree; cl := None; tl := None; closed := false; closeC := false; memclr := false;
     trown := None; closetgt := None; locking := false; poisoned := false;
     cli := fun _ => Idle; ctk := fun _ => 0; nexttk := 1; merged := []; pend := None;
     mc := M0; mx := None; tc := T0; tx := None; tq := []; ce := E_no |}.

Definition upd {A} (f : nat -> A) (i : nat) (a : A) : nat -> A := fun j => if Nat.eqb j i then a else f j.

(* field updates *)
Definition set_wl s x := {| wl := x; cl := cl s; tl := tl s; closed := closed s; closeC := closeC s; memclr := memclr s; trown := trown s; closetgt := closetgt s; locking := locking s; poisoned := poisoned s; cli := cli s; ctk := ctk s; nexttk := nexttk s; merged := merged s; pend := pend s; mc := mc s; mx := mx s; tc := tc s; tx := tx s; tq := tq s; ce := ce s |}.
Definition set_cl s x := {| wl := wl s; cl := x; tl := tl s; closed := closed s; closeC := closeC s; memclr := memclr s; trown := trown s; closetgt := closetgt s; locking := locking s; poisoned := poisoned s; cli := cli s; ctk := ctk s; nexttk := nexttk s; merged := merged s; pend := pend s; mc := mc s; mx := mx s; tc := tc s; tx := tx s; tq := tq s; ce := ce s |}.
Definition set_tl s x := {| wl := wl s; cl := cl s; tl := x; closed := closed s; closeC := closeC s; memclr := memclr s; trown := trown s; closetgt := closetgt s; locking := locking s; poisoned := poisoned s; cli := cli s; ctk := ctk s; nexttk := nexttk s; merged := merged s; pend := pend s; mc := mc s; mx := mx s; tc := tc s; tx := tx s; tq := tq s; ce := ce s |}.
Definition set_closed s x := {| wl := wl s; cl := cl s; tl := tl s; closed := x; closeC := closeC s; memclr := memclr s; trown := trown s; closetgt := closetgt s; locking := locking s; poisoned := poisoned s; cli := cli s; ctk := ctk s; nexttk := nexttk s; merged := merged s; pend := pend s; mc := mc s; mx := mx s; tc := tc s; tx := tx s; tq := tq s; ce := ce s |}.
Definition set_closeC s x := {| wl := wl s; cl := cl s; tl := tl s; closed := closed s; closeC := x; memclr := memclr s; trown := trown s; closetgt := closetgt s; locking := locking s; poisoned := poisoned s; cli := cli s; ctk := ctk s; nexttk := nexttk s; merged := merged s; pend := pend s; mc := mc s; mx := mx s; tc := tc s; tx := tx s; tq := tq s; ce := ce s |}.
Definition set_memclr s x := {| wl := wl s; cl := cl s; tl := tl s; closed := closed s; closeC := closeC s; memclr := x; trown := trown s; closetgt := closetgt s; locking := locking s; poisoned := poisoned s; cli := cli s; ctk := ctk s; nexttk := nexttk s; merged := merged s; pend := pend s; mc := mc s; mx := mx s; tc := tc s; tx := tx s; tq := tq s; ce := ce s |}.
Definition set_trown s x := {| wl := wl s; cl := cl s; tl := tl s; closed := closed s; closeC := closeC s; memclr := memclr s; trown := x; closetgt := closetgt s; locking := locking s; poisoned := poisoned s; cli := cli s; ctk := ctk s; nexttk := nexttk s; merged := merged s; pend := pend s; mc := mc s; mx := mx s; tc := tc s; tx := tx s; tq := tq s; ce := ce s |}.
Definition set_closetgt s x := {| wl := wl s; cl := cl s; tl := tl s; closed := closed s; closeC := closeC s; memclr := memclr s; trown := trown s; closetgt := x; locking := locking s; poisoned := poisoned s; cli := cli s; ctk := ctk s; nexttk := nexttk s; merged := merged s; pend := pend s; mc := mc s; mx := mx s; tc := tc s; tx := tx s; tq := tq s; ce := ce s |}.
Definition set_locking s x := {| wl := wl s; cl := cl s; tl := tl s; closed := closed s; closeC := closeC s; memclr := memclr s; trown := trown s; closetgt := closetgt s; locking := x; poisoned := poisoned s; cli := cli s; ctk := ctk s; nexttk := nexttk s; merged := merged s; pend := pend s; mc := mc s; mx := mx s; tc := tc s; tx := tx s; tq := tq s; ce := ce s |}.
Definition set_poisoned s x := {| wl := wl s; cl := cl s; tl := tl s; closed := closed s; closeC := closeC s; memclr := memclr s; trown := trown s; closetgt := closetgt s; locking := locking s; poisoned := x; cli := cli s; ctk := ctk s; nexttk := nexttk s; merged := merged s; pend := pend s; mc := mc s; mx := mx s; tc := tc s; tx := tx s; tq := tq s; ce := ce s |}.
Definition set_cli s x := {| wl := wl s; cl := cl s; tl := tl s; closed := closed s; closeC := closeC s; memclr := memclr s; trown := trown s; closetgt := closetgt s; locking := locking s; poisoned := poisoned s; cli := x; ctk := ctk s; nexttk := nexttk s; merged := merged s; pend := pend s; mc := mc s; mx := mx s; tc := tc s; tx := tx s; tq := tq s; ce := ce s |}.
Definition set_ctk s x := {| wl := wl s; cl := cl s; tl := tl s; closed := closed s; closeC := closeC s; memclr := memclr s; trown := trown s; closetgt := closetgt s; locking := locking s; poisoned := poisoned s; cli := cli s; ctk := x; nexttk := nexttk s; merged := merged s; pend := pend s; mc := mc s; mx := mx s; tc := tc s; tx := tx s; tq := tq s; ce := ce s |}.
Definition set_nexttk s x := {| wl := wl s; cl := cl s; tl := tl s; closed := closed s; closeC := closeC s; memclr := memclr s; trown := trown s; closetgt := closetgt s; locking := locking s; poisoned := poisoned s; cli := cli s; ctk := ctk s; nexttk := x; merged := merged s; pend := pend s; mc := mc s; mx := mx s; tc := tc s; tx := tx s; tq := tq s; ce := ce s |}.
Definition set_merged s x := {| wl := wl s; cl := cl s; tl := tl s; closed := closed s; closeC := closeC s; memclr := memclr s; trown := trown s; closetgt := closetgt s; locking := locking s; poisoned := poisoned s; cli := cli s; ctk := ctk s; nexttk := nexttk s; merged := x; pend := pend s; mc := mc s; mx := mx s; tc := tc s; tx := tx s; tq := tq s; ce := ce s |}.
Definition set_pend s x := {| wl := wl s; cl := cl s; tl := tl s; closed := closed s; closeC := closeC s; memclr := memclr s; trown := trown s; closetgt := closetgt s; locking := locking s; poisoned := poisoned s; cli := cli s; ctk := ctk s; nexttk := nexttk s; merged := merged s; pend := x; mc := mc s; mx := mx s; tc := tc s; tx := tx s; tq := tq s; ce := ce s |}.
Definition set_mc s x := {| wl := wl s; cl := cl s; tl := tl s; closed := closed s; closeC := closeC s; memclr := memclr s; trown := trown s; closetgt := closetgt s; locking := locking s; poisoned := poisoned s; cli := cli s; ctk := ctk s; nexttk := nexttk s; merged := merged s; pend := pend s; mc := x; mx := mx s; tc := tc s; tx := tx s; tq := tq s; ce := ce s |}.
Definition set_mx s x := {| wl := wl s; cl := cl s; tl := tl s; closed := closed s; closeC := closeC s; memclr := memclr s; trown := trown s; closetgt := closetgt s; locking := locking s; poisoned := poisoned s; cli := cli s; ctk := ctk s; nexttk := nexttk s; merged := merged s; pend := pend s; mc := mc s; mx := x; tc := tc s; tx := tx s; tq := tq s; ce := ce s |}.
Definition set_tc s x := {| wl := wl s; cl := cl s; tl := tl s; closed := closed s; closeC := closeC s; memclr := memclr s; trown := trown s; closetgt := closetgt s; locking := locking s; poisoned := poisoned s; cli := cli s; ctk := ctk s; nexttk := nexttk s; merged := merged s; pend := pend s; mc := mc s; mx := mx s; tc := x; tx := tx s; tq := tq s; ce := ce s |}.
Definition set_tx s x := {| wl := wl s; cl := cl s; tl := tl s; closed := closed s; closeC := closeC s; memclr := memclr s; trown := trown s; closetgt := closetgt s; locking := locking s; poisoned := poisoned s; cli := cli s; ctk := ctk s; nexttk := nexttk s; merged := merged s; pend := pend s; mc := mc s; mx := mx s; tc := tc s; tx := x; tq := tq s; ce := ce s |}.
Definition set_tq s x := {| wl := wl s; cl := cl s; tl := tl s; closed := closed s; closeC := closeC s; memclr := memclr s; trown := trown s; closetgt := closetgt s; locking := locking s; poisoned := poisoned s; cli := cli s; ctk := ctk s; nexttk := nexttk s; merged := merged s; pend := pend s; mc := mc s; mx := mx s; tc := tc s; tx := tx s; tq := x; ce := ce s |}.
Definition set_ce s x := {| wl := wl s; cl := cl s; tl := tl s; closed := closed s; closeC := closeC s; memclr := memclr s; trown := trown s; closetgt := closetgt s; locking := locking s; poisoned := poisoned s; cli := cli s; ctk := ctk s; nexttk := nexttk s; merged := merged s; pend := pend s; mc := mc s; mx := mx s; tc := tc s; tx := tx s; tq := tq s; ce := x |}.

Definition set_pc s i pc := set_cli s (upd (cli s) i pc).

(* ---------------------------------------------------------------- semantics of the labels *)

Definition who_eqb (a b : who) : bool :=
  match a, b with
  | PCli i, PCli j => Nat.eqb i j | PM, PM => true | PT, PT => true | PCE, PCE => true | _, _ => false
  end.
Definition wl_is (s : state) (p : who) : bool := match wl s with WHeld q => who_eqb q p | _ => false end.
Definition wl_free (s : state) : bool := match wl s with WFree => true | _ => false end.
Definition cl_is (s : state) (p : who) : bool := match cl s with Some q => who_eqb q p | None => false end.
Definition onat_eqb (a b : option nat) : bool :=
  match a, b with Some x, Some y => Nat.eqb x y | None, None => true | _, _ => false end.

(* Close runs Discard on the transaction it read from db.tr; everybody else on the own handle *)
Definition in_close_ctx (pc : cpc) : bool :=
  match pc with DC0 XClose | DC1 XClose | DC2 XClose | DC3 XClose | DC4 XClose => true | _ => false end.
Definition my_tr (s : state) (i : nat) : option nat := if in_close_ctx (cli s i) then closetgt s else Some i.
(* the transaction the client operates on is the open one (db.tr, not yet done) *)
Definition tr_current (s : state) (i : nat) : bool :=
  match my_tr s i with Some o => onat_eqb (trown s) (Some o) | None => false end.

Definition ce_after (e : errk) (c : epc) : option epc :=
  match c with
  | E_no | E_has => Some (match e with EOk => E_no | ETrans => E_has | ECorr | ERO => E_per end)
  | _ => None
  end.

Definition is_trigw (b : bg) (pc : cpc) : bool :=
  match pc, b with TrigW BM _, BM => true | TrigW BT _, BT => true | _, _ => false end.

(* deliver an ack to the waiter (client, ticket) of goroutine b, or drop it when the waiter has left *)
Definition deliver (b : bg) (ok : bool) (w : nat * nat) (s : state) : state :=
  let (i, n) := w in
  if is_trigw b (cli s i) && Nat.eqb (ctk s i) n then set_pc s i (after_ack ok (cli s i)) else s.

Fixpoint remove_nat (j : nat) (l : list nat) : list nat :=
  match l with [] => [] | x :: l' => if Nat.eqb x j then l' else x :: remove_nat j l' end.
Fixpoint mem_nat (j : nat) (l : list nat) : bool :=
  match l with [] => false | x :: l' => Nat.eqb x j || mem_nat j l' end.

Definition is_nil {A} (l : list A) : bool := match l with [] => true | _ => false end.
Definition is_none {A} (o : option A) : bool := match o with None => true | _ => false end.
Definition cpc_is_W1m (pc : cpc) : bool := match pc with W1 true => true | _ => false end.
Definition cpc_is_W2 (pc : cpc) : bool := match pc with W2 => true | _ => false end.
Definition cpc_is_W3 (pc : cpc) : bool := match pc with W3 => true | _ => false end.

Definition guard (b : bool) (s : state) : option state := if b then Some s else None.

(* lsem v p l arg s: effect of label l performed by process p on everything but p's own program counter
   (None = not enabled).  Rendezvous partners are moved here. *)
Definition lsem (v : variant) (p : who) (l : lbl) (arg : nat) (s : state) : option state :=
  match l with
  | LTau | LBegin _ | LEnd => Some s
  | LIfClosed b => guard (Bool.eqb (closed s) b) s
  | LCasClosed true => guard (negb (closed s)) (set_closed s true)
  | LCasClosed false => guard (closed s) s
  | LCloseChan => Some (set_closeC s true)
  | LReadDbTr true => match trown s with Some o => Some (set_closetgt s (Some o)) | None => None end
  | LReadDbTr false => guard (is_none (trown s)) (set_closetgt s None)
  | LIfTrOpen b => match p with PCli i => guard (Bool.eqb (tr_current s i) b) s | _ => None end
  | LIfMemNil => guard (memclr s) s
  | LClearMems => Some (set_memclr s true)
  | LWaitBg => guard (match mc s, tc s with MDone, TDone => true | _, _ => false end) s
  | LAcqW => guard (wl_free s) (set_wl s (WHeld p))
  | LAcqWRO => guard (wl_free s) (let s1 := set_wl s (WHeld p) in if fixD8 v then s1 else set_locking s1 true)
  | LAcqWClose => guard (wl_free s) (set_wl s WClosed)
  | LRelW => guard (wl_is s p) (set_wl s WFree)
  | LRelWU => guard (wl_is s p && is_nil (merged s) && is_none (pend s)) (set_wl s WFree)
  | LGiveW =>
      match pend s with
      | Some j => guard (wl_is s p && is_nil (merged s) && cpc_is_W2 (cli s j))
                    (set_pend (set_pc (set_wl s (WHeld (PCli j))) j (WF true)) None)
      | None => None
      end
  | LAckOne => guard (mem_nat arg (merged s) && cpc_is_W3 (cli s arg))
                 (set_merged (set_pc s arg Ret) (remove_nat arg (merged s)))
  | LMergeRecv _ => guard (cpc_is_W1m (cli s arg) && is_none (pend s)) (set_pend (set_pc s arg W2) (Some arg))
  | LMergedTrue =>
      match pend s with
      | Some j => guard (cpc_is_W2 (cli s j)) (set_pend (set_merged (set_pc s j W3) (j :: merged s)) None)
      | None => None
      end
  | LWToTr => match p with
              | PCli i => guard (wl_is s p) (set_trown (set_wl s WTr) (Some i))
              | _ => None end
  | LRelWTr => match p, wl s with
               | PCli i, WTr => guard (tr_current s i) (set_trown (set_wl s WFree) None)
               | _, _ => None end
  | LSendErrSet e => match ce_after e (ce s) with Some c => Some (set_ce s c) | None => None end
  | LSendErrSetRO =>
      match ce_after ERO (ce s) with
      | Some c => guard (wl_is s p) (set_locking (set_wl (set_ce s c) (WHeld PCE)) true)
      | None => None
      end
  | LRecvErr => guard (match ce s with E_has | E_per => true | _ => false end) s
  | LRecvPerr => guard (match ce s with E_per => true | _ => false end) s
  | LSeeClosed => guard (closeC s) s
  | LLockC => guard (is_none (cl s)) (set_cl s (Some p))
  | LUnlockC => guard (cl_is s p) (set_cl s None)
  | LLockT => match p with
              | PCli i => if tr_current s i then guard (is_none (tl s)) (set_tl s (Some i)) else Some s
              | _ => None end
  | LUnlockT => match p with
                | PCli i => if onat_eqb (tl s) (Some i) then Some (set_tl s None) else Some s
                | _ => None end
  | LSendCmd BM k =>
      match p, mc s with
      | PCli i, M0 =>
          let s1 := set_mc s M1 in
          Some (match k with
                | XNo => set_mx s1 None
                | _ => set_nexttk (set_ctk (set_mx s1 (Some (i, nexttk s))) (upd (ctk s) i (nexttk s))) (S (nexttk s))
                end)
      | _, _ => None
      end
  | LSendCmd BT k =>
      match p with
      | PCli i =>
          if t_recv_cmd (tc s) then
            let s1 := set_tc s (T3 k) in
            Some (match k with
                  | XNo => set_tx s1 None
                  | _ => set_nexttk (set_ctk (set_tx s1 (Some (i, nexttk s))) (upd (ctk s) i (nexttk s))) (S (nexttk s))
                  end)
          else None
      | _ => None
      end
  | LTrySendCmd BM => Some (match mc s with M0 => set_mx (set_mc s M1) None | _ => s end)
  | LTrySendCmd BT => Some (if t_recv_cmd (tc s) then set_tx (set_tc s (T3 XNo)) None else s)
  | LCommitOk => guard (fixD7 v || negb (poisoned s)) (if fixD7 v then set_poisoned s false else s)
  | LCommitFailW => Some (set_poisoned s true)
  | LSendPause => match t_recv_pause (tc s) with Some k => Some (set_tc s (TP k)) | None => None end
  | LRecvResume => match tc s with TP k => Some (set_tc s (tcont k)) | _ => None end
  | LAck ok =>
      match p with
      | PM => Some (match mx s with Some w => set_mx (deliver BM ok w s) None | None => s end)
      | PT => guard (ok || is_nil (tq s))
                (match tx s with Some w => set_tx (deliver BT ok w s) None | None => s end)
      | _ => None
      end
  | LEnqueue => match tx s with Some w => Some (set_tx (set_tq s (tq s ++ [w])) None) | None => None end
  | LAckQ ok => match tq s with w :: rest => Some (set_tq (deliver BT ok w s) rest) | [] => None end
  | LQEmpty => guard (is_nil (tq s)) s
  | LOpenC => guard (negb (closeC s)) s
  end.

(* ---------------------------------------------------------------- the transition system *)

Inductive action :=
| ACli (i k arg : nat)     (* client i takes its k-th edge (arg: the partner client of a merge / ack action) *)
| AM (k : nat) | AT (k : nat)
| ACE (k : nat).           (* compactionError: 0 = take the write lock (persistent-error state), 1 = <-closeC *)

Definition step_ce (v : variant) (k : nat) (s : state) : option state :=
  match k, ce s with
  | 0, E_per => guard (wl_free s) (set_locking (set_wl s (WHeld PCE)) true)
  | 1, E_done => None
  | 1, c => guard (closeC s)
              (set_ce (if (match c with E_per => true | _ => false end) && locking s
                       then set_locking (set_wl s WFree) false else s) E_done)
  | _, _ => None
  end.

Definition step (v : variant) (s : state) (a : action) : option state :=
  match a with
  | ACli i k arg =>
      match nth_error (cedges v (cli s i)) k with
      | Some (l, pc') => match lsem v (PCli i) l arg s with Some s' => Some (set_pc s' i pc') | None => None end
      | None => None
      end
  | AM k =>
      match nth_error (medges (mc s)) k with
      | Some (l, pc') => match lsem v PM l 0 s with Some s' => Some (set_mc s' pc') | None => None end
      | None => None
      end
  | AT k =>
      match nth_error (tedges (tc s)) k with
      | Some (l, pc') => match lsem v PT l 0 s with Some s' => Some (set_tc s' pc') | None => None end
      | None => None
      end
  | ACE k => step_ce v k s
  end.

Fixpoint run (v : variant) (s : state) (l : list action) : option state :=
  match l with
  | [] => Some s
  | a :: l' => match step v s a with Some s' => run v s' l' | None => None end
  end.

Inductive reachable (v : variant) : state -> Prop :=
| reach_init : reachable v init
| reach_step : forall s a s', reachable v s -> step v s a = Some s' -> reachable v s'.

(* an arrival: a client decides to make a call (an edge out of Idle), or the owner of a Transaction handle
   decides to use it for a Put/Get (IdleTr -> TP1); Commit / Discard by the owner are NOT arrivals: closing
   the transaction is the owner's documented obligation *)
Definition is_arrival (v : variant) (s : state) (a : action) : bool :=
  match a with
  | ACli i k _ =>
      match cli s i with
      | Idle => true
      | IdleTr => match nth_error (cedges v IdleTr) k with Some (_, TP1) => true | _ => false end
      | _ => false
      end
  | _ => false
  end.

Definition pending (s : state) : Prop := exists i, cli s i <> Idle.

(* ---------------------------------------------------------------- what a program counter holds *)

(* call sites of compTriggerWait that are reached with the write lock held by the caller *)
Definition site_holdsW (s : tsite) : bool :=
  match s with SRot0 _ | SRot2 _ | SFlushPause _ | SOtFrozen _ | SOtWc _ => true | _ => false end.

(* the client holds writeLockC itself (not through its Transaction) *)
Definition cW (pc : cpc) : bool :=
  match pc with
  | WF _ | WM _ | WMs _ | WJ _ | WR _ | WU _ => true
  | TrigS _ s | TrigW _ s => site_holdsW s
  | Rot1 _ | Rot2 _ => true
  | OT2 _ | OT3 _ | OT4 _ | OTE _ => true
  | CR2 | CR3 | CR3e | CR6 => true
  | RO2 | RO3 => true
  | _ => false
  end.

(* the client holds compCommitLk *)
Definition cC (pc : cpc) : bool :=
  match pc with CM5 _ _ | CM6 _ _ | CM6c _ | CM5f _ | CM7 _ | CM8 _ => true | _ => false end.
Definition mC (pc : mpc) : bool := match pc with MD _ | MD1 _ | MDs _ _ | ME _ | MXu => true | _ => false end.
Definition tC (pc : tpc) : bool := match pc with TD _ | TD1 _ | TDs _ _ | TE _ | TXu => true | _ => false end.

(* the client may hold tr.lk here (it does when the transaction it operates on is the open one) *)
Definition cTl (pc : cpc) : bool :=
  match pc with
  | LB2 | LB3 _ => true
  | CM2 _ | CM3 _ | CM4 _ | CM5 _ _ | CM6 _ _ | CM6c _ | CM5f _ | CM7 _ | CM8 _ | CM8b _ | CM9 _ | CM10 _ | CMFu _ => true
  | TrigS _ (SCmWc _) | TrigW _ (SCmWc _) => true
  | DC1 _ | DC2 _ | DC3 _ => true
  | OT7 _ | OT7d _ | OT8 _ => true
  | TP2 | TP3 => true
  | _ => false
  end.

(* locks held by client i in state s *)
Definition holdsW (s : state) (i : nat) : bool := wl_is s (PCli i).
Definition holdsC (s : state) (i : nat) : bool := cl_is s (PCli i).
Definition holdsT (s : state) (i : nat) : bool := onat_eqb (tl s) (Some i).

(* ---------------------------------------------------------------- trace acceptor (correspondence K)

   The implementation reports, through the verifEvent points of leveldb/verif_events_locks.go, the events
   (thread, kind, site): write lock acquired / released / handed over, compCommitLk locked / unlocked, call
   begin / end, closeC closed, closeW.Wait returned.  [accepts] replays such a trace on
     (1) the clients' control-flow graphs [cedges fixed]: the events of one goroutine must spell a path of the
         graph; labels the hooks do not report are skipped (their guards -- channel partners, storage outcomes,
         flags -- are not checked: this is the OPEN-SYSTEM reading of the graphs);
     (2) the lock discipline of [lsem]: the write lock is taken only when free, released only by its holder
         (or on behalf of the Transaction / by compactionError after a hand-over), handed over in pairs;
         compCommitLk alternates lock / unlock by the same goroutine. *)

Scheme Equality for bg.
Scheme Equality for ctx.
Scheme Equality for r3.
Scheme Equality for errk.
Scheme Equality for rsite.
Scheme Equality for tsite.
Scheme Equality for cpc.

(* the event (kind, site) a label is reported as; top = the innermost call of the goroutine *)
Definition obs (l : lbl) (top : nat) : option (nat * nat) :=
  match l with
  | LBegin c => Some (220, c)
  | LEnd => Some (221, top)
  | LAcqW | LAcqWRO | LAcqWClose => Some (200, top)
  | LRelW => Some (201, top)
  | LRelWU => Some (201, 10)
  | LGiveW => Some (202, 10)
  | LWToTr => Some (204, 3)
  | LSendErrSetRO => Some (205, 7)
  | LRelWTr => Some (201, 11)
  | LLockC => Some (210, 4)
  | LUnlockC => Some (211, 4)
  | LCloseChan => Some (230, 8)
  | LWaitBg => Some (231, 8)
  | _ => None
  end.

(* moves a client makes as the passive partner of a rendezvous: (Some kind = reported as that event) *)
Definition passive (pc : cpc) : list (option nat * cpc) :=
  match pc with
  | W1 true => [ (None, W2) ]
  | W2 => [ (None, W3); (Some 203, WF true) ]
  | W3 => [ (None, Ret) ]
  | TrigW _ s => [ (None, on_ok s); (None, on_err s) ]
  | _ => []
  end.

Definition mem_cpc (pc : cpc) (l : list cpc) : bool := existsb (cpc_beq pc) l.
Definition add_cpc (pc : cpc) (l : list cpc) : list cpc := if mem_cpc pc l then l else pc :: l.

Definition silent_succ (pc : cpc) : list cpc :=
  fold_right (fun e acc => match obs (fst e) 0 with None => snd e :: acc | Some _ => acc end) [] (cedges fixed pc)
  ++ fold_right (fun e acc => match fst e with None => snd e :: acc | Some _ => acc end) [] (passive pc).

(* closure under unreported steps: work-list with fuel *)
Fixpoint clos (fuel : nat) (todo seen : list cpc) : list cpc :=
  match fuel with
  | O => seen
  | S f =>
      match todo with
      | [] => seen
      | pc :: rest =>
          let new := filter (fun q => negb (mem_cpc q seen) && negb (mem_cpc q rest)) (silent_succ pc) in
          let new := fold_right add_cpc [] new in
          clos f (new ++ rest) (new ++ seen)
      end
  end.
Definition closure (l : list cpc) : list cpc := clos 1000 l l.

Definition pair_eqb (a b : nat * nat) : bool := Nat.eqb (fst a) (fst b) && Nat.eqb (snd a) (snd b).

(* all program counters reachable by unreported steps followed by the step reported as (k, a) *)
Definition fire (pcs : list cpc) (k a top : nat) : list cpc :=
  fold_right (fun pc acc =>
    let own := fold_right (fun e acc' =>
                 match obs (fst e) top with
                 | Some ev => if pair_eqb ev (k, a) then add_cpc (snd e) acc' else acc'
                 | None => acc'
                 end) acc (cedges fixed pc) in
    fold_right (fun e acc' =>
                 match fst e with
                 | Some k' => if Nat.eqb k' k then add_cpc (snd e) acc' else acc'
                 | None => acc'
                 end) own (passive pc))
    [] (closure pcs).

Inductive kwlock := KFree | KThread (t : nat) | KGiving | KTr | KCE | KClosed.
Inductive kthread := KClient (pcs : list cpc) (stack : list nat) | KBg | KCErr.

Record kstate := { kwl : kwlock; kcl : option nat; kths : list (nat * kthread) }.
Definition kinit : kstate := {| kwl := KFree; kcl := None; kths := [] |}.

Fixpoint kget (t : nat) (l : list (nat * kthread)) : option kthread :=
  match l with [] => None | (t', x) :: l' => if Nat.eqb t t' then Some x else kget t l' end.
Fixpoint kset (t : nat) (x : kthread) (l : list (nat * kthread)) : list (nat * kthread) :=
  match l with
  | [] => [ (t, x) ]
  | (t', y) :: l' => if Nat.eqb t t' then (t, x) :: l' else (t', y) :: kset t x l'
  end.

(* the lock monitor *)
Definition kw_step (w : kwlock) (t k a : nat) : option kwlock :=
  match k with
  | 200 => match w with
           | KFree => Some (match a with 8 => KClosed | 9 => KCE | _ => KThread t end)
           | _ => None end
  | 201 => match a, w with
           | 11, KTr => Some KFree
           | 9, KCE => Some KFree
           | 11, _ | 9, _ => None
           | _, KThread t' => if Nat.eqb t t' then Some KFree else None
           | _, _ => None
           end
  | 202 => match w with KThread t' => if Nat.eqb t t' then Some KGiving else None | _ => None end
  | 203 => match w with KGiving => Some (KThread t) | _ => None end
  | 204 => match w with KThread t' => if Nat.eqb t t' then Some KTr else None | _ => None end
  | 205 => match w with KThread t' => if Nat.eqb t t' then Some KCE else None | _ => None end
  | _ => Some w
  end.
Definition kc_step (c : option nat) (t k : nat) : option (option nat) :=
  match k with
  | 210 => match c with None => Some (Some t) | Some _ => None end
  | 211 => match c with Some t' => if Nat.eqb t t' then Some None else None | None => None end
  | _ => Some c
  end.

Definition is_bg_site (a : nat) : bool := Nat.eqb a 12.
Definition is_ce_site (a : nat) : bool := Nat.eqb a 9.

(* one event of thread t *)
Definition kth_step (th : option kthread) (k a : nat) : option kthread :=
  match th with
  | None =>
      if is_bg_site a then Some KBg else if is_ce_site a then Some KCErr
      else match k with
           | 220 => match fire [Idle] 220 a 0 with [] => None | pcs => Some (KClient pcs [a]) end
           | _ => None
           end
  | Some KBg => if is_bg_site a then Some KBg else None
  | Some KCErr => if is_ce_site a then Some KCErr else None
  | Some (KClient pcs st) =>
      match k with
      | 220 => match fire pcs 220 a (hd 0 st) with [] => None | pcs' => Some (KClient pcs' (a :: st)) end
      | 221 => match st with
               | top :: st' => if Nat.eqb top a
                               then match fire pcs 221 a top with [] => None | pcs' => Some (KClient pcs' st') end
                               else None
               | [] => None
               end
      | _ => match fire pcs k a (hd 0 st) with [] => None | pcs' => Some (KClient pcs' st) end
      end
  end.

Definition kstep (s : kstate) (e : nat * nat * nat) : option kstate :=
  let '(t, k, a) := e in
  match kw_step (kwl s) t k a, kc_step (kcl s) t k, kth_step (kget t (kths s)) k a with
  | Some w, Some c, Some th => Some {| kwl := w; kcl := c; kths := kset t th (kths s) |}
  | _, _, _ => None
  end.

(* index of the first rejected event (None = the whole trace is accepted) *)
Fixpoint krun (s : kstate) (i : nat) (tr : list (nat * nat * nat)) : option nat * kstate :=
  match tr with
  | [] => (None, s)
  | e :: tr' => match kstep s e with Some s' => krun s' (S i) tr' | None => (Some i, s) end
  end.

(* at the end of a complete run (every call returned, Close returned) nothing is held by a client *)
Definition kfinal_ok (s : kstate) : bool :=
  match kwl s with KClosed => true | _ => false end && is_none (kcl s) &&
  forallb (fun x => match snd x with
                    | KClient pcs st => is_nil st && (mem_cpc Idle pcs || mem_cpc IdleTr pcs)
                    | _ => true end) (kths s).

Definition accepts (complete : bool) (tr : list (nat * nat * nat)) : bool :=
  match krun kinit 0 tr with
  | (None, s) => if complete then kfinal_ok s else true
  | (Some _, _) => false
  end.
