(* Conc/WriteMergeDataTrace.v — the data acceptor of Corr/C10DataRun.v only ever moves by [xstep]:
   an accepted trace (events + observed data) is the visible part of a run of the data-carrying
   system of Conc/WriteMergeData.v, ending in a state where every call has returned. *)
From Coq Require Import List NArith Bool Arith Lia.
From GL Require Import Conc.WriteMerge Conc.WriteMergeProofs Conc.WriteMergeData Conc.WriteMergeDataProofs
  Gen.InstC10 Corr.C10Run Conc.WriteMergeTrace Corr.C10DataRun.
Import ListNotations.

(* actions without a data effect (and without a side condition on the request table) *)
Definition dirr (a : action) : bool :=
  match a with
  | ACall _ _ _ _ | AFlushOk _ _ | ASelMerge _ _ | AJournalOk _ | AJournalFail _ _ | AApply _ | APublish _ => false
  | _ => true
  end.

Section Sound.
Variable reqs : list wreq.
Notation rqt := (rq reqs).
Notation xs := (xstep wmp v_real rqt).
Notation xr := (xrun wmp v_real rqt).

Definition mkx (s : state) (d : dstate) : xstate := {| xb := s; xd := d |}.

Lemma xrun_trans x l1 x1 l2 x2 : xr x l1 = Some x1 -> xr x1 l2 = Some x2 -> xr x (l1 ++ l2) = Some x2.
Proof. intros H1 H2. rewrite xrun_app, H1. exact H2. Qed.

Lemma irr_step s a s' d : dirr a = true -> step wmp s a = Some s' -> xs (mkx s d) (XA a) = Some (mkx s' d).
Proof.
  intros Hi Hs. unfold xstep. cbn [xb xd mkx].
  assert (Hc : call_ok rqt a = true) by (destruct a; try reflexivity; discriminate). rewrite Hc, Hs.
  destruct a; try discriminate; reflexivity.
Qed.

Lemma irr_run acts : forall s s' d, forallb dirr acts = true -> run wmp s acts = Some s' ->
  xr (mkx s d) (map XA acts) = Some (mkx s' d).
Proof.
  induction acts as [|a acts IH]; intros s s' d Hi Hr.
  - simpl in Hr. inversion Hr; subst. reflexivity.
  - cbn [forallb] in Hi. cbn [run] in Hr. apply andb_true_iff in Hi. destruct Hi as [Ha Hi].
    destruct (step wmp s a) as [s1|] eqn:E; [|discriminate].
    cbn [map xrun]. rewrite (irr_step s a s1 d Ha E). apply IH; auto.
Qed.

Lemma one_step s a s' d : call_ok rqt a = true -> step wmp s a = Some s' ->
  xr (mkx s d) [XA a] = Some (mkx s' (dstep wmp v_real rqt s d a)).
Proof. intros Hc Hs. cbn [xrun]. unfold xstep. cbn [xb xd mkx]. rewrite Hc, Hs. reflexivity. Qed.

Lemma force_acks_irr f : forall l s s', force_acks f l s = Some s' ->
  exists acts, run wmp s acts = Some s' /\ forallb dirr acts = true.
Proof.
  induction f; cbn [force_acks]; intros l s s' H.
  - inversion H; subst. exists []. auto.
  - destruct (getw s l); try discriminate. destruct (pc w); try discriminate.
    destruct (i <? lmerged c).
    + destruct (find_w is_waitack s); try discriminate.
      destruct (step wmp s (AAck l n)) eqn:E; try discriminate.
      destruct (IHf _ _ _ H) as [acts [Ha Hi]]. exists (AAck l n :: acts). cbn [run forallb dirr]. rewrite E. auto.
    + inversion H; subst. exists []. auto.
Qed.

Lemma run_single s a s' : run wmp s [a] = Some s' -> step wmp s a = Some s'.
Proof. simpl. destruct (step wmp s a); intros H; inversion H; auto. Qed.

Ltac kill_lists :=
  repeat match goal with
  | |- context [match ?x with _ => _ end] => destruct x
  end; try reflexivity.

(* events whose actions have no data effect *)
Definition erel (e : event) : bool :=
  match e with
  | ECall _ _ _ _ | EFlushOk _ _ | EMergeRecv _ _ | EJournalOk _ _ | EJournalFail _ _ | EApplied _ | EPublish _ _ => true
  | _ => false
  end.

Lemma feed_irr x e y : erel e = false -> feed x e = Some y ->
  exists acts, run wmp (st x) acts = Some (st y) /\ forallb dirr acts = true.
Proof.
  intros He H. destruct e; try discriminate; unfold feed in H; dmt;
  repeat match goal with
  | H : Some _ = Some _ |- _ => inversion H; subst; clear H
  end;
  repeat match goal with
  | H : runa _ _ = Some _ |- _ => apply runa_sound in H; cbn [st mk] in H
  | H : force_acks _ _ _ = Some _ |- _ => apply force_acks_irr in H; destruct H as [? [H ?]]
  end; cbn [st mk] in *;
  try (exists []; split; reflexivity);
  try (eexists; split; [eassumption|]; unfold unlock_prefix, close_prefix; kill_lists; fail);
  try (eexists; split; [eapply run_trans; eassumption|]; rewrite forallb_app; apply andb_true_iff; split; [assumption|];
       unfold unlock_prefix, close_prefix; kill_lists; fail).
Qed.

Lemma dapply_irr s d e : erel e = false -> dapply reqs s d e = d.
Proof. destruct e; try discriminate; reflexivity. Qed.

(* one event of the base vocabulary, with its data effect *)
Lemma dfeed_base_sound x e y d :
  (match e with ECall i _ put _ => Bool.eqb put (req_put (rqt i)) = true | _ => True end) ->
  feed x e = Some y ->
  exists xacts, xr (mkx (st x) d) xacts = Some (mkx (st y) (dapply reqs (st x) d e)).
Proof.
  intros Hcall H. destruct (erel e) eqn:Er.
  2:{ destruct (feed_irr x e y Er H) as (acts & Hr & Hi). rewrite dapply_irr by auto.
      exists (map XA acts). apply irr_run; auto. }
  destruct e; try discriminate; unfold feed in H; cbn [dapply].
  - (* ECall *) apply runa_sound in H. apply run_single in H. exists [XA (ACall i m put sz)].
    rewrite (one_step (st x) (ACall i m put sz) (st y) d Hcall H). reflexivity.
  - (* EFlushOk *) apply runa_sound in H. apply run_single in H. eexists. apply one_step; auto.
  - (* EMergeRecv *) apply runa_sound in H. apply run_single in H. eexists. apply one_step; auto.
  - (* EJournalOk *)
    dmt. inversion H; subst; clear H. apply runa_sound in E. cbn [st mk].
    destruct (getw (st x) l) as [wl|]; [destruct (pc wl)|]; cbn [app] in E;
    try (apply run_single in E; eexists; apply one_step; auto; fail).
    cbn [run] in E. destruct (step wmp (st x) (AMergeDone l)) as [s1|] eqn:E1; [|discriminate].
    destruct (step wmp s1 (AJournalOk l)) as [s2|] eqn:E2; [|discriminate]. inversion E; subst.
    exists ([XA (AMergeDone l)] ++ [XA (AJournalOk l)]). eapply xrun_trans.
    + apply (irr_run [AMergeDone l] (st x) s1 d); auto. cbn [run]. rewrite E1. reflexivity.
    + rewrite (one_step s1 (AJournalOk l) (st a) d eq_refl E2). reflexivity.
  - (* EJournalFail *)
    dmt. inversion H; subst; clear H. apply runa_sound in E. cbn [st mk].
    destruct (getw (st x) l) as [wl|]; [destruct (pc wl)|]; cbn [app] in E;
    try (apply run_single in E; eexists; apply one_step; auto; fail).
    cbn [run] in E. destruct (step wmp (st x) (AMergeDone l)) as [s1|] eqn:E1; [|discriminate].
    destruct (step wmp s1 (AJournalFail l r)) as [s2|] eqn:E2; [|discriminate]. inversion E; subst.
    exists ([XA (AMergeDone l)] ++ [XA (AJournalFail l r)]). eapply xrun_trans.
    + apply (irr_run [AMergeDone l] (st x) s1 d); auto. cbn [run]. rewrite E1. reflexivity.
    + rewrite (one_step s1 (AJournalFail l r) (st a) d eq_refl E2). reflexivity.
  - (* EApplied *) apply runa_sound in H. apply run_single in H. eexists. apply one_step; auto.
  - (* EPublish *) apply runa_sound in H. apply run_single in H. eexists. apply one_step; auto.
Qed.


Lemma dfeed_sound y e y' : dfeed reqs y e = Some y' ->
  exists xacts, xr (mkx (st (ax y)) (ad y)) xacts = Some (mkx (st (ax y')) (ad y')).
Proof.
  intros H. destruct e as [e|l i k sz sy|l nb cnt bytes q sy|first q n|q]; unfold dfeed in H.
  - destruct (pre_ok reqs y e) eqn:Ep; [|discriminate]. destruct (feed (ax y) e) as [a'|] eqn:Ef; [|discriminate].
    inversion H; subst; clear H. cbn [ax ad mkd]. apply dfeed_base_sound; auto.
    destruct e; auto.
  - dmt. inversion H; subst. exists []. reflexivity.
  - dmt. inversion H; subst. exists []. reflexivity.
  - inversion H; subst. exists []. reflexivity.
  - set (pre := match tflush (st (ax y)), topen (st (ax y)) with S _, O => [ATxnFlushOk] | _, _ => [] end) in *.
    destruct (runa (ax y) pre) as [a'|] eqn:Er; [|discriminate].
    destruct (xstep wmp v_real rqt {| xb := st a'; xd := ad y |} (XTxnSeq q)) as [x'|] eqn:Ex; [|discriminate].
    inversion H; subst; clear H. cbn [ax ad mkd]. apply runa_sound in Er.
    pose proof (xstep_txn _ _ _ _ _ _ Ex) as (Hb & _). cbn [xb] in Hb.
    exists (map XA pre ++ [XTxnSeq q]). eapply xrun_trans.
    + eapply (irr_run _ _ _ (ad y)); [|exact Er]. unfold pre. destruct (tflush (st (ax y))); [reflexivity|]. destruct (topen (st (ax y))); reflexivity.
    + cbn [xrun]. unfold mkx. rewrite Ex. destruct x' as [xb' xd']. cbn [xb xd] in *. subst xb'. reflexivity.
Qed.

Theorem dfeed_all_sound l : forall y y', dfeed_all reqs y l = Some y' ->
  exists xacts, xr (mkx (st (ax y)) (ad y)) xacts = Some (mkx (st (ax y')) (ad y')).
Proof.
  induction l as [|e l IH]; simpl; intros y y' H.
  - inversion H; subst. exists []. reflexivity.
  - destruct (dfeed reqs y e) as [y1|] eqn:E; [|discriminate].
    destruct (dfeed_sound _ _ _ E) as [a1 H1]. destruct (IH _ _ H) as [a2 H2].
    exists (a1 ++ a2). eapply xrun_trans; eauto.
Qed.

End Sound.

(* an accepted case is a reachable state of the data-carrying system (n writers, the request table of
   the case, db.seq = q0 at the start) in which every call has returned, and whose journal log
   [files_ok]-matches the records read back from the journal files *)
Theorem run_dcase_sound n q0 reqs evs files complete : run_dcase (CDTrace n q0 reqs evs files complete) = true ->
  exists x, xreachable wmp v_real (rq reqs) n q0 x /\ quiescent (xb x) = true /\
            files_ok complete (djl (xd x)) files = true.
Proof.
  unfold run_dcase. destruct (dfeed_all reqs (dinit n q0) evs) as [y|] eqn:E; [|discriminate].
  intros H. apply andb_true_iff in H. destruct H as [H Hf]. apply andb_true_iff in H. destruct H as [H _].
  apply andb_true_iff in H. destruct H as [Hq _].
  destruct (dfeed_all_sound reqs _ _ _ E) as [acts Ha].
  exists (mkx (st (ax y)) (ad y)). repeat split; auto. exists acts. exact Ha.
Qed.
