(* Conc/CacheProofs.v — the invariant of the sequential cache model is preserved by every
   micro-step (mBucket.get, Node.unRefInternal/External, Cache.delete, callFinalizer, the lru
   methods) and hence by every operation; the property statements of C17 are derived from it.
   Proof file. *)
From GL Require Import Conc.Cache Conc.CacheLemmas Conc.CacheInv.
From Coq Require Import Lia.

Ltac sred := cbn [s_nodes s_cacher s_cap s_used s_order s_handles s_closed s_forced s_stat_nodes
  s_stat_size s_next_nid s_next_vid s_next_hid s_next_did s_log s_panic set_nodes set_cap set_used
  set_order set_handles set_closed set_stats set_next_nid set_next_vid set_next_hid set_next_did
  set_log set_panic emit upd_node] in *.

Section WithZq.
Variable zq : N -> bool.

Record Inv (p : N -> Z) (s : state) : Prop := {
  inv_s : InvS s; inv_r : InvR zq p s; inv_l : InvL s; inv_np : s_panic s = false }.

Definition CapOk (s : state) : Prop := (s_used s <= Z.of_N (s_cap s))%Z.



Lemma Inv_pext p q s : (forall y, p y = q y) -> Inv p s -> Inv q s.
Proof. intros E [A B C D]. split; auto. eapply RInv_pext; eauto. Qed.

Lemma forced_false_of_open p s : Inv p s -> s_closed s = false -> s_forced s = false.
Proof.
  intros H Hc. destruct (s_forced s) eqn:E; auto. pose proof (ri_fc _ _ _ _ _ _ _ _ _ (inv_r _ _ H) E). congruence.
Qed.

Lemma p_nonneg_of_padd x p : (forall y, 0 <= padd x 1 p y)%Z -> (0 <= p x)%Z -> forall y, (0 <= p y)%Z.
Proof.
  intros H Hx y. destruct (N.eq_dec y x) as [->|ne]; auto. specialize (H y). now rewrite padd_other in H.
Qed.

Lemma remove_upd x f l : pres f -> remove_id x (upd_id x f l) = remove_id x l.
Proof.
  intro Hf. unfold remove_id, upd_id. induction l as [|a l IH]; cbn; auto.
  destruct (n_id a =? x) eqn:E.
  - rewrite (proj1 (Hf a)), E. cbn. auto.
  - rewrite E. cbn. f_equal. auto.
Qed.

Lemma upd_upd x f g l : pres f -> upd_id x g (upd_id x f l) = upd_id x (fun n => g (f n)) l.
Proof.
  intro Hf. unfold upd_id. rewrite map_map. apply map_ext. intro a.
  destruct (n_id a =? x) eqn:E; [rewrite (proj1 (Hf a)), E|rewrite E]; reflexivity.
Qed.

(* ---------------------------------------------------------------- frame facts *)

(* what the reference-dropping steps leave alone *)
Definition same_lru (s s' : state) : Prop :=
  s_cap s' = s_cap s /\ s_used s' = s_used s /\ s_order s' = s_order s /\ s_closed s' = s_closed s /\
  s_forced s' = s_forced s /\ s_cacher s' = s_cacher s /\ s_handles s' = s_handles s /\
  s_next_hid s' = s_next_hid s /\ s_next_nid s' = s_next_nid s /\ s_next_vid s' = s_next_vid s /\
  s_next_did s' = s_next_did s.

Lemma same_lru_refl s : same_lru s s.
Proof. repeat split. Qed.
Lemma same_lru_trans a b c : same_lru a b -> same_lru b c -> same_lru a c.
Proof.
  unfold same_lru. intros (a1 & a2 & a3 & a4 & a5 & a6 & a7 & a8 & a9 & a10 & a11)
    (b1 & b2 & b3 & b4 & b5 & b6 & b7 & b8 & b9 & b10 & b11). repeat split; congruence.
Qed.

Lemma cache_delete_same ns key s : same_lru s (cache_delete ns key s).
Proof.
  unfold cache_delete. destruct (find_key ns key (s_nodes s)); [|apply same_lru_refl].
  destruct (n_ref n =? 0)%Z; [|apply same_lru_refl]. repeat split.
Qed.

Lemma call_finalizer_same f x s : same_lru s (call_finalizer f x s).
Proof.
  unfold call_finalizer. destruct (find_id x (s_nodes s)); [|apply same_lru_refl]. repeat split.
Qed.

Lemma unref_internal_same x s : same_lru s (unref_internal x s).
Proof.
  unfold unref_internal. destruct (find_id x (s_nodes s)); [|apply same_lru_refl].
  destruct (n_ref n - 1 =? 0)%Z; [|repeat split].
  eapply same_lru_trans; [|apply cache_delete_same]. repeat split.
Qed.

Lemma unref_external_same x s : same_lru s (unref_external x s).
Proof.
  unfold unref_external. destruct (find_id x (s_nodes s)); [|apply same_lru_refl].
  destruct (n_ref n - 1 =? 0)%Z; [|repeat split]. destruct (s_closed s).
  - eapply same_lru_trans; [|apply call_finalizer_same]. repeat split.
  - eapply same_lru_trans; [|apply cache_delete_same]. repeat split.
Qed.

Lemma release_all_same ev s : same_lru s (release_all ev s).
Proof.
  unfold release_all. revert s. induction ev as [|x ev IH]; intro s; cbn; [apply same_lru_refl|].
  eapply same_lru_trans; [apply unref_external_same|apply IH].
Qed.

Lemma same_lru_capok s s' : same_lru s s' -> CapOk s -> CapOk s'.
Proof. unfold CapOk. intros (a & b & _). now rewrite a, b. Qed.

(* ---------------------------------------------------------------- dropping a reference *)

(* the last reference of a node of the open cache is dropped: the node is unlinked and finalised *)
Lemma unref_zero_ok p s x n :
  Inv (padd x 1 p) s -> (0 <= p x)%Z -> s_closed s = false -> In n (s_nodes s) -> n_id n = x -> n_ref n = 1%Z ->
  Inv p (cache_delete (n_ns n) (n_key n) (upd_node x (nd_ref 0%Z) s)).
Proof.
  intros H Hpx Hc Hn Hx Hr. pose proof (forced_false_of_open _ _ H Hc) as Hfo.
  destruct H as [HS HR HL HP]. unfold InvS, InvR, InvL in *.
  pose proof (ri_ref _ _ _ _ _ _ _ _ _ HR Hfo n Hn) as E. rewrite Hx, padd_same, Hr in E.
  pose proof (hcount_nonneg x (s_handles s)). pose proof (rcount_nonneg n).
  assert (hcount x (s_handles s) = 0%Z /\ rcount n = 0%Z /\ p x = 0%Z) as (Hh0 & Hrc & Hp0) by lia.
  assert (resident n = false) as Hres by (unfold rcount in Hrc; destruct (resident n); [lia|auto]).
  unfold cache_delete. sred.
  rewrite find_key_upd by auto with cache. rewrite (SInv_find_key _ _ _ _ _ HS Hn).
  rewrite Hx, N.eqb_refl. cbn [n_ref nd_ref Z.eqb n_id n_size n_val n_dels].
  rewrite Hx, remove_upd by auto with cache. rewrite <- Hx.
  split; unfold InvS, InvR, InvL; sred; auto.
  - apply SInv_remove; auto.
  - eapply RInv_remove; eauto. apply (si_ids _ _ _ _ HS).
    + now rewrite Hx.
    + intros y ne. rewrite Hx in ne. now rewrite padd_other.
    + now rewrite Hx.
  - apply (LInv_fin (s_nodes s) _ (s_log s) _ _ _ _ n false); auto. apply (si_ids _ _ _ _ HS).
    + intros m Hm. apply in_remove in Hm. left. exact Hm.
    + intros m0 Hm0 ne. apply in_remove. auto.
Qed.

Lemma unref_ext_int_open x s : s_closed s = false -> unref_external x s = unref_internal x s.
Proof.
  intro Hc. unfold unref_external, unref_internal. destruct (find_id x (s_nodes s)); auto. now rewrite Hc.
Qed.

Lemma dec_ok p s x n :
  Inv (padd x 1 p) s -> (0 <= p x)%Z -> In n (s_nodes s) -> n_id n = x -> (n_ref n - 1 <> 0)%Z ->
  Inv p (upd_node x (nd_ref (n_ref n - 1)%Z) s).
Proof.
  intros [HS HR HL HP] Hpx Hn Hx Hne. unfold InvS, InvR, InvL in *.
  split; unfold InvS, InvR, InvL; sred; auto.
  - eapply (SInv_upd _ _ _ _ x _ n); eauto with cache; try reflexivity.
    intro Hr. cbn. apply (si_resval _ _ _ _ HS n Hn Hr).
  - eapply (RInv_upd zq (padd x 1 p) p _ _ _ _ _ _ _ _ x _ n); eauto with cache.
    + apply (si_ids _ _ _ _ HS).
    + apply (p_nonneg_of_padd x); auto. apply (ri_p _ _ _ _ _ _ _ _ _ HR).
    + intros y ne. now rewrite padd_other.
    + intro Hfo. pose proof (ri_ref _ _ _ _ _ _ _ _ _ HR Hfo n Hn) as E. rewrite Hx, padd_same in E.
      change (n_ref n - 1 = hcount x (s_handles s) + rcount n + p x)%Z. lia.
    + intros Hfo _. cbn. pose proof (ri_ref _ _ _ _ _ _ _ _ _ HR Hfo n Hn) as E. rewrite Hx, padd_same in E.
      pose proof (hcount_nonneg x (s_handles s)). pose proof (rcount_nonneg n). lia.
    + intros Hfo Hh. cbn. apply (ri_hval _ _ _ _ _ _ _ _ _ HR Hfo n Hn). now rewrite Hx.
    + intros _. unfold scontrib. cbn. lia.
    + intros Hc. cbn. apply (ri_size0 _ _ _ _ _ _ _ _ _ HR Hc n Hn).
  - apply LInv_upd_same; auto with cache.
Qed.

Lemma unref_internal_ok p s x :
  Inv (padd x 1 p) s -> (0 <= p x)%Z -> s_closed s = false -> Inv p (unref_internal x s).
Proof.
  intros H Hpx Hc. unfold unref_internal. destruct (find_id x (s_nodes s)) as [n|] eqn:F.
  - apply find_id_some in F. destruct F as [Hn Hx].
    destruct (Z.eqb_spec (n_ref n - 1) 0) as [e|ne].
    + rewrite e. apply unref_zero_ok; auto. lia.
    + apply dec_ok; auto.
  - apply find_id_none in F. pose proof (ri_pdom _ _ _ _ _ _ _ _ _ (inv_r _ _ H) x F) as E.
    rewrite padd_same in E. lia.
Qed.

(* finalisation in place (closed cache) *)
Lemma finalize_inplace q p s x n g fl :
  Inv q s -> s_closed s = true -> In n (s_nodes s) -> n_id n = x -> resident n = false ->
  pres g -> n_lru (g n) = n_lru n -> n_size (g n) = n_size n -> n_val (g n) = None -> n_dels (g n) = [] ->
  (forall y, 0 <= p y)%Z -> (forall y, y <> x -> p y = q y) ->
  (s_forced s = false -> n_ref (g n) = (hcount x (s_handles s) + p x)%Z /\ hcount x (s_handles s) = 0%Z) ->
  Inv p (set_log (fin_log n fl (s_log s)) (set_nodes (upd_id x g (s_nodes s)) s)).
Proof.
  intros [HS HR HL HP] Hc Hn Hx Hres Hg Hlru Hsz Hval Hdels Hp Hpq Href. unfold InvS, InvR, InvL in *.
  assert (resident (g n) = false) as Hres' by (unfold resident in *; now rewrite Hlru).
  split; unfold InvS, InvR, InvL; sred; auto.
  - eapply (SInv_upd _ _ _ _ x g n); [exact HS|exact Hn|exact Hx|exact Hg| | | ].
    + congruence.
    + unfold ucontrib. now rewrite Hres, Hres'.
    + congruence.
  - eapply (RInv_upd zq q p _ _ _ _ _ _ _ _ x g n); [exact HR|apply (si_ids _ _ _ _ HS)|exact Hn|exact Hx|exact Hg|exact Hp|exact Hpq| | | | | ].
    + intro Hfo. destruct (Href Hfo) as [a b]. unfold rcount. rewrite Hres'. lia.
    + intros Hfo [e|[e|e]]; congruence.
    + intros Hfo Hh. destruct (Href Hfo). lia.
    + congruence.
    + congruence.
  - apply (LInv_fin (s_nodes s) _ (s_log s) _ _ _ _ n fl); auto. apply (si_ids _ _ _ _ HS).
    + intros m Hm. apply in_upd in Hm. destruct Hm as (m0 & Hm0 & ->).
      destruct (N.eqb_spec (n_id m0) x) as [e|ne].
      * right. assert (m0 = n) as -> by (eapply same_id_eq; eauto; [apply (si_ids _ _ _ _ HS)|congruence]).
        rewrite (proj1 (Hg n)). auto.
      * left. split; auto. congruence.
    + intros m0 Hm0 ne. apply in_upd_other; auto. congruence.
Qed.

Lemma unref_external_ok p s x :
  Inv (padd x 1 p) s -> (0 <= p x)%Z ->
  (s_forced s = true -> forall n, In n (s_nodes s) -> n_id n = x -> (n_ref n <= 0)%Z) ->
  Inv p (unref_external x s).
Proof.
  intros H Hpx Hfo. destruct (s_closed s) eqn:Hc.
  2: { rewrite unref_ext_int_open by auto. now apply unref_internal_ok. }
  unfold unref_external. rewrite Hc. destruct (find_id x (s_nodes s)) as [n|] eqn:F.
  2: { apply find_id_none in F. pose proof (ri_pdom _ _ _ _ _ _ _ _ _ (inv_r _ _ H) x F) as E.
       rewrite padd_same in E. lia. }
  destruct (find_id_some _ _ _ F) as [Hn Hx].
  destruct (Z.eqb_spec (n_ref n - 1) 0) as [e|ne]; [|apply dec_ok; auto].
  destruct (s_forced s) eqn:Hf; [specialize (Hfo eq_refl n Hn Hx); lia|].
  pose proof H as [HS HR HL HP]. unfold InvS, InvR, InvL in *.
  pose proof (ri_ref _ _ _ _ _ _ _ _ _ HR Hf n Hn) as E. rewrite Hx, padd_same in E.
  pose proof (hcount_nonneg x (s_handles s)). pose proof (rcount_nonneg n).
  assert (hcount x (s_handles s) = 0%Z /\ rcount n = 0%Z /\ p x = 0%Z) as (Hh0 & Hrc & Hp0) by lia.
  assert (resident n = false) as Hres by (unfold rcount in Hrc; destruct (resident n); [lia|auto]).
  unfold call_finalizer. sred. rewrite find_id_upd by auto with cache.
  rewrite F, Hx, N.eqb_refl. cbv beta iota. unfold upd_node. sred. rewrite upd_upd by auto with cache.
  change (dels_ev (n_dels (nd_ref (n_ref n - 1) n)) (final_ev (n_val (nd_ref (n_ref n - 1) n)) false (s_log s)))
    with (fin_log n false (s_log s)).
  eapply (finalize_inplace (padd x 1 p) p s x n); eauto.
  - intro m. repeat split.
  - apply (p_nonneg_of_padd x); auto. apply (ri_p _ _ _ _ _ _ _ _ _ HR).
  - intros y ne. now rewrite padd_other.
  - intros _. cbn. split; lia.
Qed.

(* ---------------------------------------------------------------- lru.go *)

Definition padds (ev : list N) (p : N -> Z) : N -> Z :=
  fun y => (p y + Z.of_nat (count_occ N.eq_dec ev y))%Z.

Lemma padds_nil p y : padds [] p y = p y.
Proof. unfold padds. cbn. lia. Qed.

Lemma padds_cons x ev p y : padds (x :: ev) p y = padd x 1 (padds ev p) y.
Proof.
  unfold padds, padd. cbn [count_occ]. destruct (N.eq_dec x y) as [->|ne].
  - rewrite N.eqb_refl. lia.
  - assert (y <> x) as ne' by congruence. apply N.eqb_neq in ne'. rewrite ne'. lia.
Qed.

Lemma padds_cons' x ev p y : padds (x :: ev) p y = padds ev (padd x 1 p) y.
Proof.
  unfold padds, padd. cbn [count_occ]. destruct (N.eq_dec x y) as [->|ne].
  - rewrite N.eqb_refl. lia.
  - assert (y <> x) as ne' by congruence. apply N.eqb_neq in ne'. rewrite ne'. lia.
Qed.

Lemma padds_nonneg ev p : (forall y, 0 <= p y)%Z -> forall y, (0 <= padds ev p y)%Z.
Proof. intros H y. unfold padds. specialize (H y). lia. Qed.

Lemma nsum_zero g l : (forall n, In n l -> g n = 0%Z) -> nsum g l = 0%Z.
Proof.
  induction l as [|a l IH]; cbn; intro H; auto.
  rewrite (H a (or_introl eq_refl)), IH; [reflexivity|]. intros m Hm. apply H. now right.
Qed.

Lemma evict_one_ok p s x n ord' :
  Inv p s -> s_order s = x :: ord' -> find_id x (s_nodes s) = Some n ->
  Inv (padd x 1 p) (evict_one x n ord' s).
Proof.
  intros [HS HR HL HP] Ho F. destruct (find_id_some _ _ _ F) as [Hn Hx]. unfold InvS, InvR, InvL in *.
  assert (resident n = true) as Hres.
  { destruct (proj1 (si_ord _ _ _ _ HS x)) as (m & Hm & Hmx & Hr); [rewrite Ho; now left|].
    assert (m = n) as <- by (eapply same_id_eq; eauto; [apply (si_ids _ _ _ _ HS)|congruence]). exact Hr. }
  unfold evict_one. split; unfold InvS, InvR, InvL; sred; auto.
  - rewrite <- (remove_order_head x ord') by (rewrite <- Ho; apply (si_ord_nd _ _ _ _ HS)).
    rewrite <- Ho. apply SInv_unlink; auto. discriminate.
  - eapply (RInv_upd zq p (padd x 1 p) _ _ _ _ _ _ _ _ x _ n); [exact HR|apply (si_ids _ _ _ _ HS)|exact Hn|exact Hx|auto with cache| | | | | | | ].
    + intro y. unfold padd. pose proof (ri_p _ _ _ _ _ _ _ _ _ HR y). destruct (y =? x); lia.
    + intros y ne. now rewrite padd_other.
    + intro Hfo. pose proof (ri_ref _ _ _ _ _ _ _ _ _ HR Hfo n Hn) as E. rewrite Hx in E. rewrite padd_same.
      unfold rcount in *. rewrite Hres in E. cbn. lia.
    + intros Hfo Hc. cbn in *. apply (ri_pos _ _ _ _ _ _ _ _ _ HR Hfo n Hn Hc).
    + intros Hfo Hh. cbn. apply (ri_hval _ _ _ _ _ _ _ _ _ HR Hfo n Hn). now rewrite Hx.
    + intros _. unfold scontrib. cbn. lia.
    + intros Hc. cbn. apply (ri_size0 _ _ _ _ _ _ _ _ _ HR Hc n Hn).
  - apply LInv_upd_same; auto with cache.
Qed.

Definition same_misc (s s' : state) : Prop :=
  s_cap s' = s_cap s /\ s_closed s' = s_closed s /\ s_forced s' = s_forced s /\ s_cacher s' = s_cacher s /\
  s_handles s' = s_handles s /\ s_next_hid s' = s_next_hid s /\ s_next_did s' = s_next_did s /\
  s_next_vid s' = s_next_vid s.

Lemma same_lru_misc s s' : same_lru s s' -> same_misc s s'.
Proof. unfold same_lru, same_misc. tauto. Qed.
Lemma same_misc_refl s : same_misc s s.
Proof. repeat split. Qed.
Lemma same_misc_trans a b c : same_misc a b -> same_misc b c -> same_misc a c.
Proof. unfold same_misc. intros (a1 & a2 & a3 & a4 & a5 & a6 & a7 & a8) (b1 & b2 & b3 & b4 & b5 & b6 & b7 & b8). repeat split; congruence. Qed.

Lemma evict_loop_ok ord : forall p s s' ev,
  Inv p s -> s_order s = ord -> evict_loop ord s = (s', ev) ->
  Inv (padds ev p) s' /\ CapOk s' /\ same_misc s s'.
Proof.
  induction ord as [|x ord' IH]; intros p s s' ev H Ho E; cbn [evict_loop] in E.
  - destruct (Z.of_N (s_cap s) <? s_used s)%Z eqn:C.
    + exfalso. pose proof (inv_s _ _ H) as HS. unfold InvS in HS. apply Z.ltb_lt in C.
      rewrite (si_used _ _ _ _ HS), nsum_zero in C; [lia|].
      intros n Hn. unfold ucontrib. destruct (resident n) eqn:R; auto. exfalso.
      assert (In (n_id n) (s_order s)) as Hin by (apply (si_ord _ _ _ _ HS); eauto). rewrite Ho in Hin. destruct Hin.
    + inversion E; subst. split; [|split].
      * eapply Inv_pext; [|exact H]. intro y. now rewrite padds_nil.
      * unfold CapOk. apply Z.ltb_ge in C. lia.
      * apply same_misc_refl.
  - destruct (Z.of_N (s_cap s) <? s_used s)%Z eqn:C.
    + destruct (find_id x (s_nodes s)) as [n|] eqn:F.
      * destruct (evict_loop ord' (evict_one x n ord' s)) as [s1 ev1] eqn:E1. inversion E; subst.
        assert (Inv (padd x 1 p) (evict_one x n ord' s)) as H1 by (now apply evict_one_ok).
        destruct (IH (padd x 1 p) (evict_one x n ord' s) s' ev1 H1 eq_refl E1) as (A & B & D).
        split; [|split].
        -- eapply Inv_pext; [|exact A]. intro y. now rewrite padds_cons'.
        -- exact B.
        -- eapply same_misc_trans; [|exact D]. repeat split.
      * exfalso. apply find_id_none in F. pose proof (inv_s _ _ H) as HS. unfold InvS in HS.
        destruct (proj1 (si_ord _ _ _ _ HS x)) as (m & Hm & Hmx & _); [rewrite Ho; now left|].
        apply F. rewrite <- Hmx. now apply in_ids.
    + inversion E; subst. split; [|split].
      * eapply Inv_pext; [|exact H]. intro y. now rewrite padds_nil.
      * unfold CapOk. apply Z.ltb_ge in C. lia.
      * apply same_misc_refl.
Qed.

Lemma release_all_ok ev : forall p s,
  Inv (padds ev p) s -> (forall y, 0 <= p y)%Z -> s_forced s = false -> Inv p (release_all ev s).
Proof.
  unfold release_all. induction ev as [|x ev IH]; intros p s H Hp Hf; cbn [fold_left].
  - eapply Inv_pext; [|exact H]. intro y. now rewrite padds_nil.
  - apply IH; auto.
    + apply unref_external_ok.
      * eapply Inv_pext; [|exact H]. intro y. now rewrite padds_cons.
      * now apply padds_nonneg.
      * intro; congruence.
    + destruct (unref_external_same x s) as (_ & _ & _ & _ & e & _). congruence.
Qed.

Lemma capok_setcap_irrelevant s s' : same_lru s s' -> CapOk s -> CapOk s'.
Proof. apply same_lru_capok. Qed.

(* lru.SetCapacity on a cache that was not force-closed *)
Lemma lru_set_capacity_ok p s c :
  Inv p s -> s_forced s = false ->
  Inv p (lru_set_capacity c s) /\ CapOk (lru_set_capacity c s) /\ same_misc (set_cap c s) (lru_set_capacity c s).
Proof.
  intros H Hf. unfold lru_set_capacity, run_evict_loop.
  destruct (evict_loop (s_order (set_cap c s)) (set_cap c s)) as [s1 ev] eqn:E.
  assert (Inv p (set_cap c s)) as H' by (destruct H; split; auto).
  destruct (evict_loop_ok _ _ _ _ _ H' eq_refl E) as (A & B & D).
  assert (s_forced s1 = false) as Hf1 by (destruct D as (_ & _ & e & _); sred; congruence).
  split; [|split].
  - apply release_all_ok; auto. apply (ri_p _ _ _ _ _ _ _ _ _ (inv_r _ _ H)).
  - eapply same_lru_capok; [apply release_all_same|exact B].
  - eapply same_misc_trans; [exact D|]. apply same_lru_misc, release_all_same.
Qed.

(* lru.Promote, called by Get with its own reference on the node *)
Lemma lru_promote_ok p s x n :
  Inv p s -> CapOk s -> s_closed s = false -> In n (s_nodes s) -> n_id n = x -> (1 <= p x)%Z -> n_val n <> None ->
  Inv p (lru_promote x s) /\ CapOk (lru_promote x s) /\ same_misc s (lru_promote x s).
Proof.
  intros H Hcap Hc Hn Hx Hpx Hv. pose proof (forced_false_of_open _ _ H Hc) as Hfo.
  pose proof H as [HS HR HL HP]. unfold InvS, InvR, InvL in *.
  unfold lru_promote. rewrite <- Hx, (find_id_in _ n (si_ids _ _ _ _ HS) Hn), Hx.
  destruct (n_lru n) eqn:L.
  - (* not linked *)
    destruct (n_size n <=? s_cap s) eqn:Csz; [|split; [|split]; auto using same_misc_refl].
    pose proof (ri_ref _ _ _ _ _ _ _ _ _ HR Hfo n Hn) as E. rewrite Hx in E.
    pose proof (hcount_nonneg x (s_handles s)). pose proof (rcount_nonneg n).
    assert (n_ref n + 1 <=? 1 = false)%Z as -> by (apply Z.leb_gt; lia).
    assert (resident n = false) as Hres by (unfold resident; now rewrite L).
    set (f := fun n0 : node => nd_lru LResident (nd_ref (n_ref n0 + 1)%Z n0)).
    unfold run_evict_loop.
    set (s2 := set_used _ _).
    assert (Inv p s2) as H2.
    { subst s2. split; unfold InvS, InvR, InvL; unfold upd_node; sred; auto.
      - assert (pres f) as Hpf by (intro m; repeat split).
        apply (SInv_link _ _ _ _ x f n); auto.
      - assert (pres f) as Hpf by (intro m; repeat split).
        eapply (RInv_upd zq p p _ _ _ _ _ _ _ _ x f n); [exact HR|apply (si_ids _ _ _ _ HS)|exact Hn|exact Hx|exact Hpf|apply (ri_p _ _ _ _ _ _ _ _ _ HR)|auto| | | | | ].
        + intros _. unfold rcount in *. rewrite Hres in E. subst f. cbn. lia.
        + intros _ _. subst f. cbn. lia.
        + intros _ _. exact Hv.
        + intros _. unfold scontrib. subst f. cbn. lia.
        + intros _ e. subst f. cbn in e. congruence.
      - apply LInv_upd_same; auto. intro m; repeat split. }
    destruct (evict_loop (s_order s2) s2) as [s3 ev] eqn:E3.
    destruct (evict_loop_ok _ _ _ _ _ H2 eq_refl E3) as (A & B & D).
    assert (s_forced s3 = false) as Hf3 by (destruct D as (_ & _ & e & _); subst s2; unfold upd_node in e; sred; congruence).
    split; [|split].
    + apply release_all_ok; auto. apply (ri_p _ _ _ _ _ _ _ _ _ HR).
    + eapply same_lru_capok; [apply release_all_same|exact B].
    + eapply same_misc_trans; [|apply same_lru_misc, release_all_same].
      eapply same_misc_trans; [|exact D]. subst s2. unfold upd_node. repeat split.
  - (* linked: move to the most recent end *)
    assert (In x (s_order s)) as Hin.
    { apply (si_ord _ _ _ _ HS). exists n. repeat split; auto. unfold resident. now rewrite L. }
    unfold order_remove. rewrite (proj2 (in_order_true x (s_order s)) Hin). sred.
    split; [|split].
    + split; unfold InvS, InvR, InvL; sred; auto. now apply SInv_touch.
    + exact Hcap.
    + repeat split.
  - split; [|split]; auto using same_misc_refl.
Qed.

(* lru.Ban *)
Lemma lru_ban_ok p s x n :
  Inv p s -> s_closed s = false -> In n (s_nodes s) -> n_id n = x ->
  Inv p (lru_ban x s) /\ same_misc s (lru_ban x s) /\ (CapOk s -> CapOk (lru_ban x s)).
Proof.
  intros H Hc Hn Hx. pose proof (forced_false_of_open _ _ H Hc) as Hfo.
  pose proof H as [HS HR HL HP]. unfold InvS, InvR, InvL in *.
  unfold lru_ban. rewrite <- Hx, (find_id_in _ n (si_ids _ _ _ _ HS) Hn), Hx.
  destruct (n_lru n) eqn:L.
  - assert (resident n = false) as Hres by (unfold resident; now rewrite L).
    split; [|split]; [|repeat split|auto].
    split; unfold InvS, InvR, InvL; unfold upd_node; sred; auto.
    + eapply (SInv_upd _ _ _ _ x _ n); eauto with cache.
      * unfold ucontrib. cbn. unfold resident in *. cbn. now rewrite L.
      * congruence.
    + eapply (RInv_upd zq p p _ _ _ _ _ _ _ _ x _ n); [exact HR|apply (si_ids _ _ _ _ HS)|exact Hn|exact Hx|auto with cache|apply (ri_p _ _ _ _ _ _ _ _ _ HR)|auto| | | | | ].
      * intros _. pose proof (ri_ref _ _ _ _ _ _ _ _ _ HR Hfo n Hn) as E. rewrite Hx in E.
        unfold rcount in *. rewrite Hres in E. cbn. lia.
      * intros _ Hq. cbn in *. apply (ri_pos _ _ _ _ _ _ _ _ _ HR Hfo n Hn Hq).
      * intros _ Hh. cbn. apply (ri_hval _ _ _ _ _ _ _ _ _ HR Hfo n Hn). now rewrite Hx.
      * intros _. unfold scontrib. cbn. lia.
      * intros _. cbn. apply (ri_size0 _ _ _ _ _ _ _ _ _ HR Hc n Hn).
    + apply LInv_upd_same; auto with cache.
  - assert (resident n = true) as Hres by (unfold resident; now rewrite L).
    assert (In x (s_order s)) as Hin by (apply (si_ord _ _ _ _ HS); exists n; auto).
    unfold order_remove. rewrite (proj2 (in_order_true x (s_order s)) Hin).
    set (s2 := set_used _ _).
    assert (Inv (padd x 1 p) s2) as H2.
    { subst s2. split; unfold InvS, InvR, InvL; unfold upd_node; sred; auto.
      - apply SInv_unlink; auto. discriminate.
      - eapply (RInv_upd zq p (padd x 1 p) _ _ _ _ _ _ _ _ x _ n); [exact HR|apply (si_ids _ _ _ _ HS)|exact Hn|exact Hx|auto with cache| | | | | | | ].
        + intro y. unfold padd. pose proof (ri_p _ _ _ _ _ _ _ _ _ HR y). destruct (y =? x); lia.
        + intros y ne. now rewrite padd_other.
        + intros _. pose proof (ri_ref _ _ _ _ _ _ _ _ _ HR Hfo n Hn) as E. rewrite Hx in E. rewrite padd_same.
          unfold rcount in *. rewrite Hres in E. cbn. lia.
        + intros _ Hq. cbn in *. apply (ri_pos _ _ _ _ _ _ _ _ _ HR Hfo n Hn Hq).
        + intros _ Hh. cbn. apply (ri_hval _ _ _ _ _ _ _ _ _ HR Hfo n Hn). now rewrite Hx.
        + intros _. unfold scontrib. cbn. lia.
        + intros _. cbn. apply (ri_size0 _ _ _ _ _ _ _ _ _ HR Hc n Hn).
      - apply LInv_upd_same; auto with cache. }
    split; [|split].
    + apply unref_external_ok; auto. apply (ri_p _ _ _ _ _ _ _ _ _ HR).
      subst s2. unfold upd_node. sred. intro; congruence.
    + eapply same_misc_trans; [|apply same_lru_misc, unref_external_same]. subst s2. unfold upd_node. repeat split.
    + intro Hcap. eapply same_lru_capok; [apply unref_external_same|]. subst s2. unfold CapOk, upd_node in *. sred. lia.
  - split; [|split]; auto using same_misc_refl.
Qed.

(* lru.Evict *)
Lemma lru_evict_ok p s x :
  Inv p s -> (s_forced s = true -> forall n, In n (s_nodes s) -> n_id n = x -> (n_ref n <= 0)%Z) ->
  Inv p (lru_evict x s) /\ same_misc s (lru_evict x s) /\ (CapOk s -> CapOk (lru_evict x s)) /\
  s_order (lru_evict x s) = remove_order x (s_order s).
Proof.
  intros H Hforced. pose proof H as [HS HR HL HP]. unfold InvS, InvR, InvL in *.
  assert (forall l, ~ In x l -> remove_order x l = l) as Rid.
  { intros l Hl. unfold remove_order. apply filter_all_id. intros y Hy. apply negb_true_iff, N.eqb_neq. intro; subst; tauto. }
  unfold lru_evict. destruct (find_id x (s_nodes s)) as [n|] eqn:F.
  2: { split; [|split; [|split]]; auto using same_misc_refl. symmetry. apply Rid. intro Hin.
       apply (si_ord _ _ _ _ HS) in Hin. destruct Hin as (m & Hm & Hmx & _). apply find_id_none in F. apply F.
       rewrite <- Hmx. now apply in_ids. }
  destruct (find_id_some _ _ _ F) as [Hn Hx].
  assert (resident n = false -> ~ In x (s_order s)) as Nres.
  { intros Hr Hin. apply (si_ord _ _ _ _ HS) in Hin. destruct Hin as (m & Hm & Hmx & Hmr).
    assert (m = n) as -> by (eapply same_id_eq; eauto; [apply (si_ids _ _ _ _ HS)|congruence]). congruence. }
  destruct (n_lru n) eqn:L.
  - split; [|split; [|split]]; auto using same_misc_refl. symmetry. apply Rid, Nres. unfold resident. now rewrite L.
  - assert (resident n = true) as Hres by (unfold resident; now rewrite L).
    assert (In x (s_order s)) as Hin by (apply (si_ord _ _ _ _ HS); exists n; auto).
    unfold order_remove. rewrite (proj2 (in_order_true x (s_order s)) Hin).
    set (s2 := set_used _ _).
    assert (Inv (padd x 1 p) s2) as H2.
    { subst s2. split; unfold InvS, InvR, InvL; unfold upd_node; sred; auto.
      - apply SInv_unlink; auto. discriminate.
      - eapply (RInv_upd zq p (padd x 1 p) _ _ _ _ _ _ _ _ x _ n); [exact HR|apply (si_ids _ _ _ _ HS)|exact Hn|exact Hx|auto with cache| | | | | | | ].
        + intro y. unfold padd. pose proof (ri_p _ _ _ _ _ _ _ _ _ HR y). destruct (y =? x); lia.
        + intros y ne. now rewrite padd_other.
        + intros Hfo. pose proof (ri_ref _ _ _ _ _ _ _ _ _ HR Hfo n Hn) as E. rewrite Hx in E. rewrite padd_same.
          unfold rcount in *. rewrite Hres in E. cbn. lia.
        + intros Hfo Hq. cbn in *. apply (ri_pos _ _ _ _ _ _ _ _ _ HR Hfo n Hn Hq).
        + intros Hfo Hh. cbn. apply (ri_hval _ _ _ _ _ _ _ _ _ HR Hfo n Hn). now rewrite Hx.
        + intros _. unfold scontrib. cbn. lia.
        + intros Hc. cbn. apply (ri_size0 _ _ _ _ _ _ _ _ _ HR Hc n Hn).
      - apply LInv_upd_same; auto with cache. }
    split; [|split; [|split]].
    + apply unref_external_ok; auto. apply (ri_p _ _ _ _ _ _ _ _ _ HR).
      subst s2. unfold upd_node. sred. intros Hfo m Hm Hmx. apply in_upd in Hm. destruct Hm as (m0 & Hm0 & ->).
      destruct (N.eqb_spec (n_id m0) x) as [e|ne]; [cbn|]; apply (Hforced Hfo m0 Hm0); auto.
    + eapply same_misc_trans; [|apply same_lru_misc, unref_external_same]. subst s2. unfold upd_node. repeat split.
    + intro Hcap. eapply same_lru_capok; [apply unref_external_same|]. subst s2. unfold CapOk, upd_node in *. sred. lia.
    + destruct (unref_external_same x s2) as (_ & _ & e & _). rewrite e. subst s2. unfold upd_node. sred. reflexivity.
  - split; [|split; [|split]]; auto using same_misc_refl. symmetry. apply Rid, Nres. unfold resident. now rewrite L.
Qed.

(* ---------------------------------------------------------------- two-state facts *)

(* what every step guarantees about the nodes that existed before it: a node is never re-created
   under an old identity, a ban mark is never removed, a constructed value is never replaced
   (it only disappears through finalisation, which on an open cache also unlinks the node) *)
Definition ExtN (l : list node) (nn : N) (c : bool) (l' : list node) (nn' : N) (c' : bool) : Prop :=
  nn <= nn' /\ (c = true -> c' = true) /\
  forall m', In m' l' -> n_id m' < nn ->
    exists m, In m l /\ n_id m = n_id m' /\ keyof m = keyof m' /\
              (n_lru m = LBanned -> n_lru m' = LBanned) /\
              (n_val m <> None -> n_val m' = n_val m \/ c' = true).

Definition Ext (s s' : state) : Prop :=
  ExtN (s_nodes s) (s_next_nid s) (s_closed s) (s_nodes s') (s_next_nid s') (s_closed s').

Lemma Ext_refl s : (forall n, In n (s_nodes s) -> n_id n < s_next_nid s) -> Ext s s.
Proof.
  intro F. split; [lia|]. split; auto. intros m' Hm _. exists m'. repeat split; auto.
Qed.

Lemma ExtN_refl l nn c : ExtN l nn c l nn c.
Proof. split; [lia|]. split; auto. intros m' Hm _. exists m'. repeat split; auto. Qed.

Lemma ExtN_trans l nn c l' nn' c' l'' nn'' c'' :
  ExtN l nn c l' nn' c' -> ExtN l' nn' c' l'' nn'' c'' -> ExtN l nn c l'' nn'' c''.
Proof.
  intros (A1 & A2 & A3) (B1 & B2 & B3). split; [lia|]. split; auto.
  intros m'' Hm'' Hid. destruct (B3 m'' Hm'') as (m' & Hm' & i' & k' & b' & v'); [lia|].
  destruct (A3 m' Hm') as (m & Hm & i & k & b & v); [lia|].
  exists m. repeat split; auto; try congruence. intro Hv.
  destruct (v Hv) as [e|e]; [|right; auto]. assert (n_val m' <> None) as Hv' by congruence.
  destruct (v' Hv') as [e'|e']; [left; congruence|now right].
Qed.

Lemma Ext_trans a b c : Ext a b -> Ext b c -> Ext a c.
Proof. apply ExtN_trans. Qed.

Lemma ExtN_upd l nn c x f :
  pres f ->
  (forall m, In m l -> n_id m = x -> (n_lru m = LBanned -> n_lru (f m) = LBanned) /\
                                      (n_val m <> None -> n_val (f m) = n_val m \/ c = true)) ->
  ExtN l nn c (upd_id x f l) nn c.
Proof.
  intros Hf H. split; [lia|]. split; auto. intros m' Hm' _. apply in_upd in Hm'.
  destruct Hm' as (m & Hm & ->). exists m. destruct (N.eqb_spec (n_id m) x) as [e|ne].
  - destruct (Hf m) as (i & a & b). destruct (H m Hm e). repeat split; auto. unfold keyof. congruence.
  - repeat split; auto.
Qed.

Lemma ExtN_remove l nn c x : ExtN l nn c (remove_id x l) nn c.
Proof.
  split; [lia|]. split; auto. intros m' Hm' _. apply in_remove in Hm'. exists m'. repeat split; tauto.
Qed.

Lemma ExtN_insert l nn c ns key r v sz d lr :
  ExtN l nn c (insert_node (mkNode ns key nn r v sz d lr) l) (nn + 1) c.
Proof.
  split; [lia|]. split; auto. intros m' Hm' Hid. apply in_insert in Hm'. destruct Hm' as [->|Hm'].
  - cbn in Hid. lia.
  - exists m'. repeat split; auto.
Qed.

Lemma cache_delete_ext ns key s : Ext s (cache_delete ns key s).
Proof.
  unfold cache_delete, Ext. destruct (find_key ns key (s_nodes s)); [|apply ExtN_refl].
  destruct (n_ref n =? 0)%Z; [|apply ExtN_refl]. sred. apply ExtN_remove.
Qed.

Lemma call_finalizer_ext f x s : s_closed s = true -> Ext s (call_finalizer f x s).
Proof.
  intro Hc. unfold call_finalizer, Ext. destruct (find_id x (s_nodes s)); [|apply ExtN_refl].
  unfold upd_node. sred. apply ExtN_upd.
  - intro m; repeat split.
  - intros m _ _. split; auto.
Qed.

Lemma ref_upd_ext x r s : Ext s (upd_node x (nd_ref r) s).
Proof. unfold Ext, upd_node. sred. apply ExtN_upd; [auto with cache|]. intros m _ _. split; auto. Qed.

Lemma unref_internal_ext x s : Ext s (unref_internal x s).
Proof.
  unfold unref_internal. destruct (find_id x (s_nodes s)); [|apply ExtN_refl].
  destruct (n_ref n - 1 =? 0)%Z; [|apply ref_upd_ext].
  eapply Ext_trans; [apply ref_upd_ext|apply cache_delete_ext].
Qed.

Lemma unref_external_ext x s : Ext s (unref_external x s).
Proof.
  unfold unref_external. destruct (find_id x (s_nodes s)); [|apply ExtN_refl].
  destruct (n_ref n - 1 =? 0)%Z; [|apply ref_upd_ext]. destruct (s_closed s) eqn:Hc.
  - eapply Ext_trans; [apply ref_upd_ext|apply call_finalizer_ext]. unfold upd_node. sred. exact Hc.
  - eapply Ext_trans; [apply ref_upd_ext|apply cache_delete_ext].
Qed.

Lemma release_all_ext ev s : Ext s (release_all ev s).
Proof.
  unfold release_all. revert s. induction ev as [|x ev IH]; intro s; cbn; [apply ExtN_refl|].
  eapply Ext_trans; [apply unref_external_ext|apply IH].
Qed.

(* changing the lru mark of a node that is not banned *)
Lemma lru_upd_ext x l s n :
  find_id x (s_nodes s) = Some n -> n_lru n <> LBanned -> NoDup (ids (s_nodes s)) ->
  ExtN (s_nodes s) (s_next_nid s) (s_closed s) (upd_id x (nd_lru l) (s_nodes s)) (s_next_nid s) (s_closed s).
Proof.
  intros F Hl Hnd. destruct (find_id_some _ _ _ F) as [Hn Hx]. apply ExtN_upd; auto with cache.
  intros m Hm Hmx. assert (m = n) as -> by (eapply same_id_eq; eauto; congruence). split; auto. tauto.
Qed.

Lemma resident_lru n : resident n = true -> n_lru n = LResident.
Proof. unfold resident. destruct (n_lru n); auto; discriminate. Qed.

Lemma evict_loop_ext ord : forall p s s' ev,
  Inv p s -> s_order s = ord -> evict_loop ord s = (s', ev) -> Ext s s'.
Proof.
  induction ord as [|x ord' IH]; intros p s s' ev H Ho E; cbn [evict_loop] in E.
  - destruct (Z.of_N (s_cap s) <? s_used s)%Z; inversion E; subst; apply ExtN_refl.
  - destruct (Z.of_N (s_cap s) <? s_used s)%Z; [|inversion E; subst; apply ExtN_refl].
    destruct (find_id x (s_nodes s)) as [n|] eqn:F; [|inversion E; subst; apply ExtN_refl].
    destruct (evict_loop ord' (evict_one x n ord' s)) as [s1 ev1] eqn:E1. inversion E; subst.
    pose proof (inv_s _ _ H) as HS. unfold InvS in HS. destruct (find_id_some _ _ _ F) as [Hn Hx].
    assert (resident n = true) as Hres.
    { destruct (proj1 (si_ord _ _ _ _ HS x)) as (m & Hm & Hmx & Hr); [rewrite Ho; now left|].
      assert (m = n) as <- by (eapply same_id_eq; eauto; [apply (si_ids _ _ _ _ HS)|congruence]). exact Hr. }
    assert (Inv (padd x 1 p) (evict_one x n ord' s)) as H1 by (now apply evict_one_ok).
    eapply Ext_trans; [|apply (IH (padd x 1 p) (evict_one x n ord' s) s' ev1 H1 eq_refl E1)].
    unfold Ext, evict_one, upd_node. sred. eapply lru_upd_ext; eauto.
    + rewrite (resident_lru _ Hres). discriminate.
    + apply (si_ids _ _ _ _ HS).
Qed.

Definition promote_link (x : N) (n : node) (s : state) : state :=
  let s1 := upd_node x (fun n0 => nd_lru LResident (nd_ref (n_ref n0 + 1)%Z n0)) s in
  set_used (s_used s1 + Z.of_N (n_size n))%Z (set_order (s_order s1 ++ [x]) s1).

Lemma promote_link_ok p s x n :
  Inv p s -> s_closed s = false -> In n (s_nodes s) -> n_id n = x -> n_val n <> None -> n_lru n = LAbsent ->
  Inv p (promote_link x n s).
Proof.
  intros H Hc Hn Hx Hv L. pose proof (forced_false_of_open _ _ H Hc) as Hfo.
  pose proof H as [HS HR HL HP]. unfold InvS, InvR, InvL in *.
  pose proof (ri_ref _ _ _ _ _ _ _ _ _ HR Hfo n Hn) as E. rewrite Hx in E.
  pose proof (hcount_nonneg x (s_handles s)). pose proof (rcount_nonneg n).
  assert (resident n = false) as Hres by (unfold resident; now rewrite L).
  set (f := fun n0 : node => nd_lru LResident (nd_ref (n_ref n0 + 1)%Z n0)).
  assert (pres f) as Hpf by (intro m; repeat split).
  unfold promote_link. fold f. split; unfold InvS, InvR, InvL; unfold upd_node; sred; auto.
  - apply (SInv_link _ _ _ _ x f n); auto.
  - eapply (RInv_upd zq p p _ _ _ _ _ _ _ _ x f n); [exact HR|apply (si_ids _ _ _ _ HS)|exact Hn|exact Hx|exact Hpf|apply (ri_p _ _ _ _ _ _ _ _ _ HR)|auto| | | | | ].
    + intros _. unfold rcount in *. rewrite Hres in E. subst f. cbn. lia.
    + intros _ _. subst f. cbn. pose proof (ri_p _ _ _ _ _ _ _ _ _ HR x). lia.
    + intros _ _. exact Hv.
    + intros _. unfold scontrib. subst f. cbn. lia.
    + intros _ e. subst f. cbn in e. congruence.
  - apply LInv_upd_same; auto.
Qed.

Lemma lru_promote_ext p s x n :
  Inv p s -> s_closed s = false -> In n (s_nodes s) -> n_id n = x -> (1 <= p x)%Z -> n_val n <> None ->
  Ext s (lru_promote x s).
Proof.
  intros H Hc Hn Hx Hpx Hv. pose proof H as [HS HR HL HP]. unfold InvS, InvR, InvL in *.
  pose proof (forced_false_of_open _ _ H Hc) as Hfo.
  unfold lru_promote. rewrite <- Hx, (find_id_in _ n (si_ids _ _ _ _ HS) Hn), Hx.
  destruct (n_lru n) eqn:L; [|unfold Ext, order_remove; destruct (in_order x (s_order s)); sred; apply ExtN_refl|apply ExtN_refl].
  destruct (n_size n <=? s_cap s); [|apply ExtN_refl].
  pose proof (ri_ref _ _ _ _ _ _ _ _ _ HR Hfo n Hn) as E. rewrite Hx in E.
  pose proof (hcount_nonneg x (s_handles s)). pose proof (rcount_nonneg n).
  assert (n_ref n + 1 <=? 1 = false)%Z as -> by (apply Z.leb_gt; lia).
  change (Ext s (let (s3, ev) := run_evict_loop (promote_link x n s) in release_all ev s3)).
  unfold run_evict_loop.
  destruct (evict_loop (s_order (promote_link x n s)) (promote_link x n s)) as [s3 ev] eqn:E3.
  assert (Inv p (promote_link x n s)) as H2 by (apply promote_link_ok; auto).
  eapply Ext_trans; [|eapply Ext_trans; [apply (evict_loop_ext _ _ _ _ _ H2 eq_refl E3)|apply release_all_ext]].
  unfold Ext, promote_link, upd_node. sred. apply ExtN_upd; [intro m; repeat split|].
  intros m Hm Hmx. assert (m = n) as -> by (eapply same_id_eq; eauto; [apply (si_ids _ _ _ _ HS)|congruence]).
  split; [rewrite L; discriminate|auto].
Qed.

Lemma lru_ban_ext p s x n :
  Inv p s -> In n (s_nodes s) -> n_id n = x -> Ext s (lru_ban x s).
Proof.
  intros H Hn Hx. pose proof H as [HS HR HL HP]. unfold InvS, InvR, InvL in *.
  unfold lru_ban. rewrite <- Hx, (find_id_in _ n (si_ids _ _ _ _ HS) Hn), Hx.
  assert (forall s', s_nodes s' = upd_id x (nd_lru LBanned) (s_nodes s) -> s_next_nid s' = s_next_nid s ->
            s_closed s' = s_closed s -> Ext s s') as Q.
  { intros s' e1 e2 e3. unfold Ext. rewrite e1, e2, e3. apply ExtN_upd; [auto with cache|]. intros m _ _. split; auto. }
  destruct (n_lru n) eqn:L.
  - apply Q; reflexivity.
  - eapply Ext_trans; [|apply unref_external_ext]. apply Q; unfold order_remove;
      destruct (in_order x (s_order s)); reflexivity.
  - apply ExtN_refl.
Qed.

Lemma lru_evict_ext p s x :
  Inv p s -> Ext s (lru_evict x s).
Proof.
  intros H. pose proof H as [HS HR HL HP]. unfold InvS, InvR, InvL in *.
  unfold lru_evict. destruct (find_id x (s_nodes s)) as [n|] eqn:F; [|apply ExtN_refl].
  destruct (n_lru n) eqn:L; try apply ExtN_refl.
  eapply Ext_trans; [|apply unref_external_ext].
  unfold Ext, order_remove. destruct (in_order x (s_order s)); unfold upd_node; sred;
    (eapply lru_upd_ext; eauto; [rewrite L; discriminate|apply (si_ids _ _ _ _ HS)]).
Qed.

(* ---------------------------------------------------------------- cache.go operations *)

Lemma padd_nonneg x p : (forall y, 0 <= p y)%Z -> forall y, (0 <= padd x 1 p y)%Z.
Proof. intros H y. unfold padd. specialize (H y). destruct (y =? x); lia. Qed.

Lemma bucket_get_ok p s ns key go s' r :
  Inv p s -> s_closed s = false -> bucket_get ns key go s = (s', r) ->
  same_misc s s' /\ s_used s' = s_used s /\ s_order s' = s_order s /\ Ext s s' /\
  s_next_did s' = s_next_did s /\
  match r with
  | Some x => Inv (padd x 1 p) s' /\ exists n, In n (s_nodes s') /\ n_id n = x /\ n_ns n = ns /\ n_key n = key
  | None => s' = s
  end.
Proof.
  intros H Hc E. pose proof (forced_false_of_open _ _ H Hc) as Hfo.
  pose proof H as [HS HR HL HP]. unfold InvS, InvR, InvL in *.
  unfold bucket_get in E. destruct (find_key ns key (s_nodes s)) as [n|] eqn:F.
  - destruct (find_key_some _ _ _ _ F) as (Hn & Hns & Hkey). inversion E; subst s' r. clear E.
    split; [repeat split|]. split; [reflexivity|]. split; [reflexivity|]. split; [apply ref_upd_ext|]. split; [reflexivity|].
    split.
    + split; unfold InvS, InvR, InvL; unfold upd_node; sred; auto.
      * eapply (SInv_upd _ _ _ _ (n_id n) _ n); eauto with cache; try reflexivity.
        intro Hr. cbn. apply (si_resval _ _ _ _ HS n Hn Hr).
      * eapply (RInv_upd zq p (padd (n_id n) 1 p) _ _ _ _ _ _ _ _ (n_id n) _ n);
          [exact HR|apply (si_ids _ _ _ _ HS)|exact Hn|reflexivity|auto with cache| | | | | | | ].
        -- apply padd_nonneg. apply (ri_p _ _ _ _ _ _ _ _ _ HR).
        -- intros y ne. now rewrite padd_other.
        -- intros _. pose proof (ri_ref _ _ _ _ _ _ _ _ _ HR Hfo n Hn) as E. rewrite padd_same.
           change (n_ref n + 1 = hcount (n_id n) (s_handles s) + rcount n + (p (n_id n) + 1))%Z. lia.
        -- intros _ _ _. cbn. pose proof (ri_ref _ _ _ _ _ _ _ _ _ HR Hfo n Hn) as E.
           pose proof (hcount_nonneg (n_id n) (s_handles s)). pose proof (rcount_nonneg n). pose proof (ri_p _ _ _ _ _ _ _ _ _ HR (n_id n)). lia.
        -- intros _ Hh. cbn. apply (ri_hval _ _ _ _ _ _ _ _ _ HR Hfo n Hn Hh).
        -- intros _. unfold scontrib. cbn. lia.
        -- intros _. cbn. apply (ri_size0 _ _ _ _ _ _ _ _ _ HR Hc n Hn).
      * apply LInv_upd_same; auto with cache.
    + exists (nd_ref (n_ref n + 1) n). split; [|repeat split; cbn; auto].
      unfold upd_node. sred. apply in_upd_same; auto.
  - destruct go.
    + inversion E; subst. split; [apply same_misc_refl|]. split; [reflexivity|]. split; [reflexivity|].
      split; [apply ExtN_refl|]. split; reflexivity.
    + inversion E; subst s' r. clear E.
      split; [repeat split|]. split; [reflexivity|]. split; [reflexivity|].
      split; [unfold Ext; sred; apply ExtN_insert|]. split; [reflexivity|].
      split.
      * split; unfold InvS, InvR, InvL; sred; auto.
        -- apply SInv_insert; auto.
        -- rewrite Hc in *. apply RInv_insert; auto. apply (si_fresh _ _ _ _ HS).
        -- apply LInv_neutral; [|exact I]. apply LInv_insert; auto. apply (si_fresh _ _ _ _ HS).
      * eexists. split; [sred; apply in_insert; left; reflexivity|]. repeat split.
Qed.

Lemma construct_ok p s x n sz :
  Inv p s -> s_closed s = false -> In n (s_nodes s) -> n_id n = x -> n_val n = None ->
  let s' := set_stats (s_stat_nodes s) (s_stat_size s + Z.of_N sz)%Z
              (emit (EvConstruct x (s_next_vid s) sz)
                 (set_next_vid (s_next_vid s + 1) (upd_node x (nd_val (Some (s_next_vid s)) sz) s))) in
  Inv p s' /\ Ext s s'.
Proof.
  intros H Hc Hn Hx Hv. pose proof (forced_false_of_open _ _ H Hc) as Hfo.
  pose proof H as [HS HR HL HP]. unfold InvS, InvR, InvL in *.
  assert (resident n = false) as Hres.
  { destruct (resident n) eqn:R; auto. exfalso. apply (si_resval _ _ _ _ HS n Hn R Hv). }
  cbv zeta. split.
  - split; unfold InvS, InvR, InvL; unfold upd_node; sred; auto.
    + eapply (SInv_upd _ _ _ _ x _ n); eauto with cache; try reflexivity.
      * unfold ucontrib. change (resident (nd_val (Some (s_next_vid s)) sz n)) with (resident n). now rewrite Hres.
      * congruence.
    + eapply (RInv_upd zq p p _ _ _ _ _ _ _ _ x _ n);
        [exact HR|apply (si_ids _ _ _ _ HS)|exact Hn|exact Hx|auto with cache|apply (ri_p _ _ _ _ _ _ _ _ _ HR)|auto| | | | | ].
      * intros _. rewrite <- Hx. apply (ri_ref _ _ _ _ _ _ _ _ _ HR Hfo n Hn).
      * intros _ _. cbn. apply (ri_pos _ _ _ _ _ _ _ _ _ HR Hfo n Hn (or_introl Hc)).
      * intros _ _. cbn. discriminate.
      * intros _. unfold scontrib. cbn. rewrite (ri_size0 _ _ _ _ _ _ _ _ _ HR Hc n Hn Hv). lia.
      * intros _. cbn. discriminate.
    + rewrite Hc in *. apply LInv_construct with (n := n); auto. apply (si_ids _ _ _ _ HS).
      rewrite <- Hx. apply (si_fresh _ _ _ _ HS n Hn).
  - unfold Ext, upd_node. sred. apply ExtN_upd; [auto with cache|].
    intros m Hm Hmx. assert (m = n) as -> by (eapply same_id_eq; eauto; [apply (si_ids _ _ _ _ HS)|congruence]).
    split; [auto|intro Hq; congruence].
Qed.

Lemma setnil_ok p s x n :
  Inv p s -> s_closed s = false -> In n (s_nodes s) -> n_id n = x -> n_val n = None ->
  let s' := emit (EvSetNil x) (upd_node x (nd_val None 0) s) in
  Inv p s' /\ Ext s s'.
Proof.
  intros H Hc Hn Hx Hv. pose proof (forced_false_of_open _ _ H Hc) as Hfo.
  pose proof H as [HS HR HL HP]. unfold InvS, InvR, InvL in *.
  assert (resident n = false) as Hres.
  { destruct (resident n) eqn:R; auto. exfalso. apply (si_resval _ _ _ _ HS n Hn R Hv). }
  cbv zeta. split.
  - split; unfold InvS, InvR, InvL; unfold upd_node; sred; auto.
    + eapply (SInv_upd _ _ _ _ x _ n); eauto with cache; try reflexivity.
      * unfold ucontrib. change (resident (nd_val None 0 n)) with (resident n). now rewrite Hres.
      * congruence.
    + eapply (RInv_upd zq p p _ _ _ _ _ _ _ _ x _ n);
        [exact HR|apply (si_ids _ _ _ _ HS)|exact Hn|exact Hx|auto with cache|apply (ri_p _ _ _ _ _ _ _ _ _ HR)|auto| | | | | ].
      * intros _. rewrite <- Hx. apply (ri_ref _ _ _ _ _ _ _ _ _ HR Hfo n Hn).
      * intros _ _. cbn. apply (ri_pos _ _ _ _ _ _ _ _ _ HR Hfo n Hn (or_introl Hc)).
      * intros _ Hh. exfalso. apply (ri_hval _ _ _ _ _ _ _ _ _ HR Hfo n Hn); auto. now rewrite Hx.
      * intros _. unfold scontrib. cbn. rewrite (ri_size0 _ _ _ _ _ _ _ _ _ HR Hc n Hn Hv). lia.
      * intros _ _. reflexivity.
    + apply LInv_neutral; [|exact I]. apply LInv_upd_same; auto with cache.
      intros m Hm Hmx. assert (m = n) as -> by (eapply same_id_eq; eauto; [apply (si_ids _ _ _ _ HS)|congruence]).
      cbn. split; [congruence|]. split; [reflexivity|]. intro Hq. congruence.
  - unfold Ext, upd_node. sred. apply ExtN_upd; [auto with cache|].
    intros m Hm Hmx. assert (m = n) as -> by (eapply same_id_eq; eauto; [apply (si_ids _ _ _ _ HS)|congruence]).
    split; [auto|intro Hq; congruence].
Qed.

Definition ClosedRest (s : state) : Prop :=
  s_closed s = true ->
  s_order s = [] /\
  (s_forced s = true -> forall n, In n (s_nodes s) -> (n_ref n <= 0)%Z /\ n_val n = None /\ n_dels n = []).

Definition Rest (s : state) : Prop := Inv p0 s /\ CapOk s /\ ClosedRest s.

Lemma closedrest_open s : s_closed s = false -> ClosedRest s.
Proof. intros H H'. congruence. Qed.

Lemma node_of_pend p s x : Inv p s -> (0 < p x)%Z -> exists n, In n (s_nodes s) /\ n_id n = x.
Proof.
  intros H Hp. destruct (in_dec N.eq_dec x (ids (s_nodes s))) as [Hin|Hnin].
  - unfold ids in Hin. apply in_map_iff in Hin. destruct Hin as (n & e & Hn). eauto.
  - pose proof (ri_pdom _ _ _ _ _ _ _ _ _ (inv_r _ _ H) x Hnin). lia.
Qed.

Lemma get_finish_ok s x n :
  Inv (padd x 1 p0) s -> CapOk s -> s_closed s = false -> In n (s_nodes s) -> n_id n = x -> n_val n <> None ->
  Inv p0 (fst (get_finish x s)) /\ CapOk (fst (get_finish x s)) /\ s_closed (fst (get_finish x s)) = false /\
  Ext s (fst (get_finish x s)) /\ s_next_did (fst (get_finish x s)) = s_next_did s.
Proof.
  intros H Hcap Hc Hn Hx Hv. unfold get_finish.
  set (s1 := if s_cacher s then lru_promote x s else s).
  assert (Inv (padd x 1 p0) s1 /\ CapOk s1 /\ same_misc s s1 /\ Ext s s1 /\ s_next_did s1 = s_next_did s) as (H1 & Hcap1 & M1 & E1 & D1).
  { subst s1. destruct (s_cacher s).
    - destruct (lru_promote_ok (padd x 1 p0) s x n) as (A & B & C); auto. { rewrite padd_same. unfold p0. lia. }
      split; auto. split; auto. split; auto. split.
      + eapply lru_promote_ext; eauto. rewrite padd_same. unfold p0. lia.
      + destruct C as (_ & _ & _ & _ & _ & _ & e & _). exact e.
    - split; auto. split; auto. split; [apply same_misc_refl|]. split; [apply ExtN_refl|reflexivity]. }
  destruct M1 as (m1 & m2 & m3 & m4 & m5 & m6 & m7 & m8).
  destruct (node_of_pend _ _ x H1) as (n1 & Hn1 & Hx1). { rewrite padd_same. unfold p0. lia. }
  pose proof (inv_s _ _ H1) as HS1. unfold InvS in HS1.
  rewrite <- Hx1, (find_id_in _ n1 (si_ids _ _ _ _ HS1) Hn1), Hx1.
  assert (n_val n1 <> None) as Hv1.
  { destruct E1 as (_ & _ & E1). destruct (E1 n1 Hn1) as (m & Hm & i & _ & _ & v).
    - rewrite Hx1, <- Hx. apply (si_fresh _ _ _ _ (inv_s _ _ H) n Hn).
    - assert (m = n) as -> by (eapply same_id_eq; eauto; [apply (si_ids _ _ _ _ (inv_s _ _ H))|congruence]).
      destruct (v Hv) as [e|e]; congruence. }
  destruct (n_val n1) as [v|] eqn:V; [|congruence]. cbn [fst].
  pose proof H1 as [_ HR1 HL1 HP1]. unfold InvR, InvL in *.
  split; [|split; [|split; [|split]]].
  - split; unfold InvS, InvR, InvL; sred; auto.
    eapply RInv_pext; [|eapply (RInv_hadd _ _ _ _ _ _ _ _ _ x n1); eauto].
    + intro y. unfold padd, p0. destruct (y =? x); lia.
    + rewrite padd_same. unfold p0. lia.
    + intros _. congruence.
    + apply (si_ids _ _ _ _ HS1).
  - unfold CapOk in *. sred. exact Hcap1.
  - sred. congruence.
  - unfold Ext in *. sred. exact E1.
  - sred. exact D1.
Qed.

Lemma capok_same s s' : s_used s' = s_used s -> s_cap s' = s_cap s -> CapOk s -> CapOk s'.
Proof. unfold CapOk. intros -> ->. auto. Qed.

Lemma cache_get_ok s ns key sf :
  Rest s -> Rest (fst (cache_get ns key sf s)) /\ Ext s (fst (cache_get ns key sf s)) /\
            s_next_did (fst (cache_get ns key sf s)) = s_next_did s.
Proof.
  intros (H & Hcap & Hcr). unfold cache_get. destruct (s_closed s) eqn:Hc.
  { cbn. split; [split; auto|]. split; [apply ExtN_refl|reflexivity]. }
  destruct (bucket_get ns key match sf with SfNil => true | SfRet _ _ => false end s) as [s1 r] eqn:B.
  destruct (bucket_get_ok p0 s _ _ _ _ _ H Hc B) as (M & U & O & E & D & R).
  pose proof M as (m1 & m2 & m3 & m4 & m5 & m6 & m7 & m8).
  assert (s_closed s1 = false) as Hc1 by congruence.
  assert (CapOk s1) as Hcap1 by (eapply capok_same; eauto).
  destruct r as [x|].
  2: { subst s1. cbn. split; [split; auto|]. split; [apply ExtN_refl|reflexivity]. }
  destruct R as (H1 & n & Hn & Hx & Hns & Hkey).
  pose proof (inv_s _ _ H1) as HS1. unfold InvS in HS1.
  rewrite <- Hx, (find_id_in _ n (si_ids _ _ _ _ HS1) Hn), Hx.
  assert (forall s2, Inv p0 s2 -> CapOk s2 -> s_closed s2 = false -> Ext s s2 -> s_next_did s2 = s_next_did s ->
            Rest s2 /\ Ext s s2 /\ s_next_did s2 = s_next_did s) as Fin.
  { intros s2 A B' C' D' F'. split; [split; [auto|split; [auto|now apply closedrest_open]]|]. auto. }
  destruct (n_val n) as [v|] eqn:V.
  - destruct (get_finish_ok s1 x n) as (A & B' & C' & D' & F'); auto; [congruence|].
    apply Fin; auto. eapply Ext_trans; eauto. congruence.
  - destruct sf as [|sz [|]]; cbn [fst].
    + assert (Inv p0 (unref_internal x s1)) as A by (apply unref_internal_ok; auto; unfold p0; lia).
      destruct (unref_internal_same x s1) as (a1 & a2 & a3 & a4 & a5 & a6 & a7 & a8 & a9 & a10 & a11).
      apply Fin; auto.
      * eapply capok_same; eauto.
      * congruence.
      * eapply Ext_trans; [exact E|apply unref_internal_ext].
      * congruence.
    + destruct (construct_ok _ s1 x n sz H1 Hc1 Hn Hx V) as (A & A').
      match goal with |- context [get_finish x ?z] => set (s2 := z) in * end.
      destruct (get_finish_ok s2 x (nd_val (Some (s_next_vid s1)) sz n)) as (P1 & P2 & P3 & P4 & P5); auto.
      * subst s2. unfold upd_node. sred. apply in_upd_same; auto.
      * cbn. discriminate.
      * apply Fin; auto.
        -- eapply Ext_trans; [exact E|]. eapply Ext_trans; [exact A'|exact P4].
        -- rewrite P5. subst s2. sred. exact D.
    + destruct (setnil_ok _ s1 x n H1 Hc1 Hn Hx V) as (A & A').
      match goal with |- context [unref_internal x ?z] => set (s2 := z) in * end.
      assert (s_closed s2 = false) as Hc2 by (subst s2; unfold upd_node; sred; exact Hc1).
      assert (Inv p0 (unref_internal x s2)) as A2 by (apply unref_internal_ok; auto; unfold p0; lia).
      destruct (unref_internal_same x s2) as (a1 & a2 & a3 & a4 & a5 & a6 & a7 & a8 & a9 & a10 & a11).
      apply Fin; auto.
      * eapply capok_same; [exact a2|exact a1|]. subst s2. unfold CapOk, upd_node in *. sred. exact Hcap1.
      * congruence.
      * eapply Ext_trans; [exact E|]. eapply Ext_trans; [exact A'|apply unref_internal_ext].
      * rewrite a11. subst s2. unfold upd_node. sred. exact D.
Qed.

(* ---------------------------------------------------------------- "nothing comes back" frame *)

(* steps that only drop references / finalise: reference counts do not grow, an absent value stays
   absent, an empty delFunc list stays empty *)
Definition DecN (l l' : list node) : Prop :=
  forall m', In m' l' -> exists m, In m l /\ n_id m = n_id m' /\ (n_ref m' <= n_ref m)%Z /\
     (n_val m = None -> n_val m' = None) /\ (n_dels m = [] -> n_dels m' = []).
Definition Dec (s s' : state) : Prop := DecN (s_nodes s) (s_nodes s').

Lemma DecN_refl l : DecN l l.
Proof. intros m Hm. exists m. repeat split; auto. lia. Qed.
Lemma DecN_trans a b c : DecN a b -> DecN b c -> DecN a c.
Proof.
  intros A B m'' Hm''. destruct (B m'' Hm'') as (m' & Hm' & i' & r' & v' & d').
  destruct (A m' Hm') as (m & Hm & i & r & v & d). exists m. repeat split; auto; try congruence. lia.
Qed.
Lemma DecN_upd l x f : pres f ->
  (forall m, (n_ref (f m) <= n_ref m)%Z /\ (n_val m = None -> n_val (f m) = None) /\ (n_dels m = [] -> n_dels (f m) = [])) ->
  DecN l (upd_id x f l).
Proof.
  intros Hf H m' Hm'. apply in_upd in Hm'. destruct Hm' as (m & Hm & ->). exists m. split; auto.
  destruct (n_id m =? x); [|repeat split; auto; lia]. destruct (Hf m) as (i & _). destruct (H m) as (a & b & c). auto.
Qed.
Lemma DecN_remove l x : DecN l (remove_id x l).
Proof. intros m' Hm'. apply in_remove in Hm'. exists m'. repeat split; try tauto. lia. Qed.

Lemma cache_delete_dec ns key s : Dec s (cache_delete ns key s).
Proof.
  unfold cache_delete, Dec. destruct (find_key ns key (s_nodes s)); [|apply DecN_refl].
  destruct (n_ref n =? 0)%Z; [|apply DecN_refl]. sred. apply DecN_remove.
Qed.
Lemma call_finalizer_dec f x s : Dec s (call_finalizer f x s).
Proof.
  unfold call_finalizer, Dec. destruct (find_id x (s_nodes s)); [|apply DecN_refl].
  unfold upd_node. sred. apply DecN_upd; [intro m; repeat split|]. intro m. cbn. repeat split; auto. lia.
Qed.
Lemma ref_dec_dec x s n :
  NoDup (ids (s_nodes s)) -> find_id x (s_nodes s) = Some n -> Dec s (upd_node x (nd_ref (n_ref n - 1)) s).
Proof.
  intros Hnd F. destruct (find_id_some _ _ _ F) as [Hn Hx].
  unfold Dec, upd_node. sred. intros m' Hm'. apply in_upd in Hm'. destruct Hm' as (m & Hm & ->). exists m. split; auto.
  destruct (N.eqb_spec (n_id m) x) as [e|ne]; [|repeat split; auto; lia].
  assert (m = n) as -> by (eapply same_id_eq; eauto; congruence). cbn. repeat split; auto. lia.
Qed.

Lemma unref_external_dec x s : NoDup (ids (s_nodes s)) -> Dec s (unref_external x s).
Proof.
  intro Hnd. unfold unref_external. destruct (find_id x (s_nodes s)) as [n|] eqn:F; [|apply DecN_refl].
  pose proof (ref_dec_dec x s n Hnd F) as A.
  destruct (n_ref n - 1 =? 0)%Z; [|exact A]. destruct (s_closed s).
  - eapply DecN_trans; [exact A|apply call_finalizer_dec].
  - eapply DecN_trans; [exact A|apply cache_delete_dec].
Qed.

Lemma lru_evict_dec x s : NoDup (ids (s_nodes s)) -> Dec s (lru_evict x s).
Proof.
  intro Hnd. unfold lru_evict. destruct (find_id x (s_nodes s)) as [n|] eqn:F; [|apply DecN_refl].
  destruct (n_lru n); try apply DecN_refl.
  eapply DecN_trans; [|apply unref_external_dec].
  - unfold Dec, order_remove. destruct (in_order x (s_order s)); unfold upd_node; sred;
      (apply DecN_upd; [auto with cache|]; intro m; cbn; repeat split; auto; lia).
  - unfold order_remove. destruct (in_order x (s_order s)); unfold upd_node; sred; rewrite ids_upd; auto with cache.
Qed.

(* the property of force-closed states that Release and SetCapacity must keep *)
Definition all_dead (l : list node) : Prop :=
  forall n, In n l -> (n_ref n <= 0)%Z /\ n_val n = None /\ n_dels n = [].

Lemma all_dead_dec l l' : DecN l l' -> all_dead l -> all_dead l'.
Proof.
  intros D A m' Hm'. destruct (D m' Hm') as (m & Hm & _ & r & v & d). destruct (A m Hm) as (a & b & c).
  repeat split; auto. lia.
Qed.

Lemma handle_release_ok s h :
  Rest s -> Rest (handle_release h s) /\ Ext s (handle_release h s) /\
            s_next_did (handle_release h s) = s_next_did s.
Proof.
  intros (H & Hcap & Hcr). unfold handle_release.
  destruct (find (fun p => fst p =? h) (s_handles s)) as [[h' x]|] eqn:F.
  2: { split; [split; auto|]. split; [apply ExtN_refl|reflexivity]. }
  destruct (find_handle_some _ _ _ F) as [Hin Hh]. cbn in Hh. subst h'. cbn [snd].
  set (s0 := set_handles _ s).
  pose proof H as [HS HR HL HP]. unfold InvS, InvR, InvL in *.
  assert (Inv (padd x 1 p0) s0) as H0.
  { subst s0. split; unfold InvS, InvR, InvL; sred; auto. apply (RInv_hdel _ _ _ _ _ _ _ _ _ h x HR Hin). }
  assert (s_forced s0 = true -> forall n, In n (s_nodes s0) -> n_id n = x -> (n_ref n <= 0)%Z) as Hfo.
  { subst s0. sred. intros Hf n Hn _. assert (s_closed s = true) as Hc by (apply (ri_fc _ _ _ _ _ _ _ _ _ HR Hf)).
    destruct (Hcr Hc) as (_ & D). apply (D Hf n Hn). }
  pose proof (unref_external_ok p0 s0 x H0 ltac:(unfold p0; lia) Hfo) as H1.
  destruct (unref_external_same x s0) as (a1 & a2 & a3 & a4 & a5 & a6 & a7 & a8 & a9 & a10 & a11).
  split; [split; [exact H1|split]|split].
  - eapply capok_same; [exact a2|exact a1|]. subst s0. unfold CapOk in *. sred. exact Hcap.
  - intro Hc. rewrite a4 in Hc. subst s0. sred. destruct (Hcr Hc) as (O & D). split; [congruence|].
    intros Hf. rewrite a5 in Hf. sred. eapply all_dead_dec; [apply unref_external_dec|exact (D Hf)].
    sred. apply (si_ids _ _ _ _ HS).
  - eapply Ext_trans; [|apply unref_external_ext]. subst s0. unfold Ext. sred. apply ExtN_refl.
  - rewrite a11. reflexivity.
Qed.

Lemma bucket_get_next_did ns key z s :
  bucket_get ns key true (set_next_did z s) =
  (set_next_did z (fst (bucket_get ns key true s)), snd (bucket_get ns key true s)).
Proof. unfold bucket_get. sred. destruct (find_key ns key (s_nodes s)); reflexivity. Qed.

Lemma delreg_ok p s x n :
  Inv p s -> s_closed s = false -> In n (s_nodes s) -> n_id n = x ->
  let s' := emit (EvDelReg (s_next_did s) x)
              (upd_node x (nd_dels (n_dels n ++ [s_next_did s])) (set_next_did (s_next_did s + 1) s)) in
  Inv p s' /\ Ext s s'.
Proof.
  intros H Hc Hn Hx. pose proof (forced_false_of_open _ _ H Hc) as Hfo.
  pose proof H as [HS HR HL HP]. unfold InvS, InvR, InvL in *. cbv zeta. split.
  - split; unfold InvS, InvR, InvL; unfold upd_node; sred; auto.
    + eapply (SInv_upd _ _ _ _ x _ n); eauto with cache; try reflexivity.
      intro Hr. cbn. apply (si_resval _ _ _ _ HS n Hn Hr).
    + eapply (RInv_upd zq p p _ _ _ _ _ _ _ _ x _ n);
        [exact HR|apply (si_ids _ _ _ _ HS)|exact Hn|exact Hx|auto with cache|apply (ri_p _ _ _ _ _ _ _ _ _ HR)|auto| | | | | ].
      * intros _. rewrite <- Hx. apply (ri_ref _ _ _ _ _ _ _ _ _ HR Hfo n Hn).
      * intros _ _. cbn. apply (ri_pos _ _ _ _ _ _ _ _ _ HR Hfo n Hn (or_introl Hc)).
      * intros _ Hh. cbn. apply (ri_hval _ _ _ _ _ _ _ _ _ HR Hfo n Hn). now rewrite Hx.
      * intros _. unfold scontrib. cbn. lia.
      * intros _. cbn. apply (ri_size0 _ _ _ _ _ _ _ _ _ HR Hc n Hn).
    + rewrite Hc in *. apply LInv_delreg; auto. apply (si_ids _ _ _ _ HS).
      rewrite <- Hx. apply (si_fresh _ _ _ _ HS n Hn).
  - unfold Ext, upd_node. sred. apply ExtN_upd; [auto with cache|]. intros m _ _. split; auto.
Qed.

Lemma delete_tail s2 x n2 :
  Inv (padd x 1 p0) s2 -> CapOk s2 -> s_closed s2 = false -> In n2 (s_nodes s2) -> n_id n2 = x ->
  let s4 := unref_internal x (if s_cacher s2 then lru_ban x s2 else s2) in
  Inv p0 s4 /\ CapOk s4 /\ s_closed s4 = false /\ Ext s2 s4.
Proof.
  intros H2 Hcap2 Hc2 Hn2 Hx2. cbv zeta.
  set (s3 := if s_cacher s2 then lru_ban x s2 else s2).
  assert (Inv (padd x 1 p0) s3 /\ Ext s2 s3 /\ same_misc s2 s3 /\ CapOk s3) as (H3 & E3 & M3 & Hcap3).
  { subst s3. destruct (s_cacher s2).
    - destruct (lru_ban_ok _ s2 x n2 H2 Hc2 Hn2 Hx2) as (A & A' & A''). split; auto. split; [eapply lru_ban_ext; eauto|auto].
    - split; auto. split; [apply ExtN_refl|]. split; [apply same_misc_refl|auto]. }
  pose proof M3 as (j1 & j2 & j3 & j4 & j5 & j6 & j7 & j8).
  assert (s_closed s3 = false) as Hc3 by congruence.
  destruct (unref_internal_same x s3) as (a1 & a2 & a3 & a4 & a5 & a6 & a7 & a8 & a9 & a10 & a11).
  split; [|split; [|split]].
  - apply unref_internal_ok; auto. unfold p0. lia.
  - eapply capok_same; eauto.
  - congruence.
  - eapply Ext_trans; [exact E3|apply unref_internal_ext].
Qed.

Lemma cache_delete_op_ok s ns key wd :
  Rest s -> Rest (fst (cache_delete_op ns key wd s)) /\ Ext s (fst (cache_delete_op ns key wd s)).
Proof.
  intros (H & Hcap & Hcr). unfold cache_delete_op. destruct (s_closed s) eqn:Hc.
  { cbn. split; [split; auto|apply ExtN_refl]. }
  assert (forall s2, Inv p0 s2 -> CapOk s2 -> s_closed s2 = false -> Ext s s2 -> Rest s2 /\ Ext s s2) as Fin.
  { intros s2 A B' C' D'. split; [split; [auto|split; [auto|now apply closedrest_open]]|]. auto. }
  destruct (bucket_get ns key true s) as [s1 r] eqn:B.
  destruct (bucket_get_ok p0 s _ _ _ _ _ H Hc B) as (M & U & O & E & D & R).
  pose proof M as (m1 & m2 & m3 & m4 & m5 & m6 & m7 & m8).
  assert (s_closed s1 = false) as Hc1 by congruence.
  assert (CapOk s1) as Hcap1 by (eapply capok_same; eauto).
  destruct wd.
  - rewrite bucket_get_next_did, B. cbn [fst snd]. destruct r as [x|].
    + destruct R as (H1 & n & Hn & Hx & _).
      pose proof (inv_s _ _ H1) as HS1. unfold InvS in HS1. sred.
      rewrite <- Hx, (find_id_in _ n (si_ids _ _ _ _ HS1) Hn), Hx.
      destruct (delreg_ok _ s1 x n H1 Hc1 Hn Hx) as (A & A'). cbv zeta in A, A'. rewrite D in A, A'.
      match type of A with Inv _ ?z => set (s2 := z) in * end.
      assert (CapOk s2) as Q1 by (eapply capok_same; [| |exact Hcap1]; subst s2; unfold upd_node; reflexivity).
      assert (s_closed s2 = false) as Q2 by (subst s2; unfold upd_node; sred; exact Hc1).
      assert (In (nd_dels (n_dels n ++ [s_next_did s]) n) (s_nodes s2)) as Q3
        by (subst s2; unfold upd_node; sred; apply in_upd_same; auto).
      destruct (delete_tail s2 x (nd_dels (n_dels n ++ [s_next_did s]) n) A Q1 Q2 Q3 Hx) as (P1 & P2 & P3 & P4).
      cbn [fst]. apply Fin; auto. eapply Ext_trans; [exact E|]. eapply Ext_trans; [exact A'|exact P4].
    + subst s1. cbn [fst]. apply Fin.
      * pose proof H as [HS HR HL HP]. unfold InvS, InvR, InvL in *. split; unfold InvS, InvR, InvL; sred; auto.
        now apply LInv_delrun_now.
      * unfold CapOk in *. sred. exact Hcap.
      * sred. exact Hc.
      * unfold Ext. sred. apply ExtN_refl.
  - rewrite B. destruct r as [x|].
    + destruct R as (H1 & n & Hn & Hx & _).
      destruct (delete_tail s1 x n) as (P1 & P2 & P3 & P4); auto.
      cbn [fst]. apply Fin; auto. eapply Ext_trans; [exact E|exact P4].
    + subst s1. cbn [fst]. apply Fin; auto; apply ExtN_refl.
Qed.

Lemma cache_evict_op_ok s ns key :
  Rest s -> Rest (fst (cache_evict_op ns key s)) /\ Ext s (fst (cache_evict_op ns key s)).
Proof.
  intros (H & Hcap & Hcr). unfold cache_evict_op. destruct (s_closed s) eqn:Hc.
  { cbn. split; [split; auto|apply ExtN_refl]. }
  assert (forall s2, Inv p0 s2 -> CapOk s2 -> s_closed s2 = false -> Ext s s2 -> Rest s2 /\ Ext s s2) as Fin.
  { intros s2 A B' C' D'. split; [split; [auto|split; [auto|now apply closedrest_open]]|]. auto. }
  destruct (bucket_get ns key true s) as [s1 r] eqn:B.
  destruct (bucket_get_ok p0 s _ _ _ _ _ H Hc B) as (M & U & O & E & D & R).
  pose proof M as (m1 & m2 & m3 & m4 & m5 & m6 & m7 & m8).
  assert (s_closed s1 = false) as Hc1 by congruence.
  assert (CapOk s1) as Hcap1 by (eapply capok_same; eauto).
  destruct r as [x|]; cbn [fst].
  2: { subst s1. apply Fin; auto; apply ExtN_refl. }
  destruct R as (H1 & n & Hn & Hx & _).
  pose proof (forced_false_of_open _ _ H1 Hc1) as Hfo1.
  set (s2 := if s_cacher s1 then lru_evict x s1 else s1).
  assert (Inv (padd x 1 p0) s2 /\ Ext s1 s2 /\ same_misc s1 s2 /\ CapOk s2) as (H2 & E2 & M2 & Hcap2).
  { subst s2. destruct (s_cacher s1).
    - destruct (lru_evict_ok _ s1 x H1) as (A & A' & A'' & _); [intro; congruence|].
      split; auto. split; [eapply lru_evict_ext; eauto|auto].
    - split; auto. split; [apply ExtN_refl|]. split; [apply same_misc_refl|auto]. }
  pose proof M2 as (j1 & j2 & j3 & j4 & j5 & j6 & j7 & j8).
  assert (s_closed s2 = false) as Hc2 by congruence.
  destruct (unref_internal_same x s2) as (a1 & a2 & a3 & a4 & a5 & a6 & a7 & a8 & a9 & a10 & a11).
  apply Fin.
  - apply unref_internal_ok; auto. unfold p0. lia.
  - eapply capok_same; eauto.
  - congruence.
  - eapply Ext_trans; [exact E|]. eapply Ext_trans; [exact E2|apply unref_internal_ext].
Qed.

Lemma evict_ids_ok l : forall s,
  Inv p0 s -> CapOk s -> s_forced s = false ->
  Inv p0 (evict_ids l s) /\ CapOk (evict_ids l s) /\ same_misc s (evict_ids l s) /\ Ext s (evict_ids l s) /\
  (forall y, In y (s_order (evict_ids l s)) -> In y (s_order s) /\ ~ In y l).
Proof.
  unfold evict_ids. induction l as [|x l IH]; intros s H Hcap Hf; cbn [fold_left].
  - split; auto. split; auto. split; [apply same_misc_refl|]. split; [apply ExtN_refl|]. intros y Hy. split; auto.
  - destruct (lru_evict_ok _ s x H) as (A & A' & A'' & A3); [intro; congruence|].
    pose proof A' as (j1 & j2 & j3 & j4 & j5 & j6 & j7 & j8).
    destruct (IH (lru_evict x s) A (A'' Hcap) ltac:(congruence)) as (B1 & B2 & B3 & B4 & B5).
    split; auto. split; auto. split; [eapply same_misc_trans; eauto|].
    split; [eapply Ext_trans; [eapply lru_evict_ext; eauto|exact B4]|].
    intros y Hy. destruct (B5 y Hy) as [C1 C2]. rewrite A3 in C1. apply in_remove_order in C1.
    split; [tauto|]. intros [e|e]; [subst; tauto|tauto].
Qed.

Lemma cache_evict_ns_ok s ns : Rest s -> Rest (cache_evict_ns ns s) /\ Ext s (cache_evict_ns ns s).
Proof.
  intros (H & Hcap & Hcr). unfold cache_evict_ns. destruct (s_closed s) eqn:Hc.
  { split; [split; auto|apply ExtN_refl]. }
  destruct (s_cacher s); [|split; [split; auto|apply ExtN_refl]].
  destruct (evict_ids_ok (ids_of_ns ns (s_nodes s)) s H Hcap (forced_false_of_open _ _ H Hc)) as (A & B & C & D & _).
  split; auto. split; auto. split; auto. apply closedrest_open. destruct C as (_ & e & _). congruence.
Qed.

Lemma cache_evict_all_ok s : Rest s -> Rest (cache_evict_all s) /\ Ext s (cache_evict_all s).
Proof.
  intros (H & Hcap & Hcr). unfold cache_evict_all. destruct (s_closed s) eqn:Hc.
  { split; [split; auto|apply ExtN_refl]. }
  destruct (s_cacher s); [|split; [split; auto|apply ExtN_refl]].
  destruct (evict_ids_ok (map n_id (s_nodes s)) s H Hcap (forced_false_of_open _ _ H Hc)) as (A & B & C & D & _).
  split; auto. split; auto. split; auto. apply closedrest_open. destruct C as (_ & e & _). congruence.
Qed.

Lemma used_zero_of_empty_order p s : Inv p s -> s_order s = [] -> s_used s = 0%Z.
Proof.
  intros H Ho. pose proof (inv_s _ _ H) as HS. unfold InvS in HS.
  rewrite (si_used _ _ _ _ HS). apply nsum_zero. intros n Hn. unfold ucontrib.
  destruct (resident n) eqn:R; auto. exfalso.
  assert (In (n_id n) (s_order s)) as Hin by (apply (si_ord _ _ _ _ HS); eauto). rewrite Ho in Hin. destruct Hin.
Qed.

Lemma cache_set_capacity_ok s c : Rest s -> Rest (cache_set_capacity c s) /\ Ext s (cache_set_capacity c s).
Proof.
  intros (H & Hcap & Hcr). unfold cache_set_capacity.
  destruct (s_cacher s); [|split; [split; auto|apply ExtN_refl]].
  destruct (s_closed s) eqn:Hc.
  - (* closed: nothing is linked, the loop does not run *)
    destruct (Hcr Hc) as (Ho & D). pose proof (used_zero_of_empty_order _ _ H Ho) as Hu.
    assert (lru_set_capacity c s = set_cap c s) as ->.
    { unfold lru_set_capacity, run_evict_loop. sred. rewrite Ho. cbn [evict_loop]. sred. rewrite Hu.
      assert ((Z.of_N c <? 0)%Z = false) as -> by (apply Z.ltb_ge; lia). reflexivity. }
    split; [|unfold Ext; sred; apply ExtN_refl].
    split; [destruct H; split; auto|]. split.
    + unfold CapOk. sred. rewrite Hu. lia.
    + intro Hc'. sred. auto.
  - pose proof (forced_false_of_open _ _ H Hc) as Hf.
    destruct (lru_set_capacity_ok p0 s c H Hf) as (A & B & C).
    split.
    + split; auto. split; auto. apply closedrest_open. destruct C as (_ & e & _). sred. congruence.
    + unfold lru_set_capacity, run_evict_loop.
      destruct (evict_loop (s_order (set_cap c s)) (set_cap c s)) as [s1 ev] eqn:E.
      assert (Inv p0 (set_cap c s)) as H' by (destruct H; split; auto).
      eapply Ext_trans; [|apply release_all_ext].
      eapply Ext_trans; [|apply (evict_loop_ext _ _ _ _ _ H' eq_refl E)]. unfold Ext. sred. apply ExtN_refl.
Qed.

(* ---------------------------------------------------------------- Close *)

Definition dead (n : node) : Prop := (n_ref n <= 0)%Z /\ n_val n = None /\ n_dels n = [].

Lemma set_closed_ok s force :
  Inv p0 s -> s_closed s = false -> Inv p0 (set_closed true force s).
Proof.
  intros H Hc. pose proof (forced_false_of_open _ _ H Hc) as Hf.
  destruct H as [HS HR HL HP]. unfold InvS, InvR, InvL in *.
  split; unfold InvS, InvR, InvL; sred; auto.
  - rewrite Hc, Hf in HR. now apply RInv_close.
  - rewrite Hc in HL. now apply LInv_close.
Qed.

Lemma close_node_false_ok s x :
  Inv p0 s -> CapOk s -> s_forced s = false ->
  Inv p0 (close_node false s x) /\ CapOk (close_node false s x) /\ same_misc s (close_node false s x) /\
  Ext s (close_node false s x) /\
  (s_cacher s = true -> s_order (close_node false s x) = remove_order x (s_order s)).
Proof.
  intros H Hcap Hf. unfold close_node. destruct (s_cacher s).
  - destruct (lru_evict_ok _ s x H) as (A & A' & A'' & A3); [intro; congruence|].
    split; auto. split; auto. split; auto. split; [eapply lru_evict_ext; eauto|auto].
  - split; auto. split; auto. split; [apply same_misc_refl|]. split; [apply ExtN_refl|discriminate].
Qed.

Definition NoCacher (s : state) : Prop := s_cacher s = false -> s_order s = [].

Lemma upd_absent x f l : ~ In x (ids l) -> upd_id x f l = l.
Proof.
  intro F. unfold upd_id. rewrite <- (map_id l) at 2. apply map_ext_in.
  intros a Ha. destruct (N.eqb_spec (n_id a) x) as [e|ne]; auto. exfalso. apply F. rewrite <- e. now apply in_ids.
Qed.

Lemma close_node_true_ok s x :
  Inv p0 s -> CapOk s -> s_forced s = true -> NoCacher s ->
  Inv p0 (close_node true s x) /\ CapOk (close_node true s x) /\ same_misc s (close_node true s x) /\
  Ext s (close_node true s x) /\
  (forall y, In y (s_order (close_node true s x)) -> In y (s_order s) /\ y <> x) /\
  (forall m', In m' (s_nodes (close_node true s x)) ->
      (n_id m' = x /\ dead m') \/
      (n_id m' <> x /\ exists m, In m (s_nodes s) /\ n_id m = n_id m' /\ (dead m -> dead m'))).
Proof.
  intros H Hcap Hf Hnc. pose proof H as [HS HR HL HP]. unfold InvS, InvR, InvL in *.
  assert (s_closed s = true) as Hc by (apply (ri_fc _ _ _ _ _ _ _ _ _ HR Hf)).
  unfold close_node.
  (* 1. ref := 0 *)
  set (s1 := upd_node x (nd_ref 0%Z) s).
  assert (Inv p0 s1) as H1.
  { subst s1. destruct (find_id x (s_nodes s)) as [n|] eqn:F.
    - destruct (find_id_some _ _ _ F) as [Hn Hx].
      split; unfold InvS, InvR, InvL; unfold upd_node; sred; auto.
      + eapply (SInv_upd _ _ _ _ x _ n); eauto with cache; try reflexivity.
        intro Hr. cbn. apply (si_resval _ _ _ _ HS n Hn Hr).
      + eapply (RInv_upd zq p0 p0 _ _ _ _ _ _ _ _ x _ n);
          [exact HR|apply (si_ids _ _ _ _ HS)|exact Hn|exact Hx|auto with cache|apply (ri_p _ _ _ _ _ _ _ _ _ HR)|auto| | | | | ];
          try (intro; congruence).
      + apply LInv_upd_same; auto with cache.
    - apply find_id_none in F. split; unfold InvS, InvR, InvL; unfold upd_node; sred; rewrite ?(upd_absent x _ _ F); auto. }
  assert (forall m1, In m1 (s_nodes s1) -> (n_id m1 = x /\ n_ref m1 = 0%Z) \/ (n_id m1 <> x /\ In m1 (s_nodes s))) as N1.
  { subst s1. unfold upd_node. sred. intros m1 Hm1. apply in_upd in Hm1. destruct Hm1 as (m & Hm & ->).
    destruct (N.eqb_spec (n_id m) x) as [e|ne]; [left; cbn; auto|right; auto]. }
  assert (CapOk s1) as Hcap1 by (subst s1; unfold CapOk, upd_node in *; sred; exact Hcap).
  assert (same_misc s s1) as M1 by (subst s1; unfold upd_node; repeat split).
  assert (Ext s s1) as E1 by (subst s1; apply ref_upd_ext).
  assert (s_order s1 = s_order s) as Oss1 by (subst s1; unfold upd_node; reflexivity).
  (* 2. evict *)
  set (s2 := if s_cacher s1 then lru_evict x s1 else s1).
  pose proof (inv_s _ _ H1) as HS1. unfold InvS in HS1.
  pose proof M1 as (i1 & i2 & i3 & i4 & i5 & i6 & i7 & i8).
  assert (Inv p0 s2 /\ CapOk s2 /\ same_misc s1 s2 /\ Ext s1 s2 /\ Dec s1 s2 /\
          (forall y, In y (s_order s2) -> In y (s_order s) /\ y <> x)) as (H2 & Hcap2 & M2 & E2 & D2 & O2).
  { subst s2. destruct (s_cacher s1) eqn:Cc.
    - destruct (lru_evict_ok _ s1 x H1) as (A & A' & A'' & A3).
      { intros _ m Hm Hmx. destruct (N1 m Hm) as [[_ e]|[ne _]]; [lia|congruence]. }
      split; auto. split; auto. split; auto. split; [eapply lru_evict_ext; eauto|].
      split; [apply lru_evict_dec; apply (si_ids _ _ _ _ HS1)|].
      intros y Hy. rewrite A3, Oss1 in Hy. apply in_remove_order in Hy. exact Hy.
    - split; auto. split; auto. split; [apply same_misc_refl|]. split; [apply ExtN_refl|].
      split; [apply DecN_refl|]. intros y Hy. rewrite Oss1, (Hnc ltac:(congruence)) in Hy. destruct Hy. }
  pose proof M2 as (j1 & j2 & j3 & j4 & j5 & j6 & j7 & j8).
  (* 3. callFinalizer *)
  pose proof (inv_s _ _ H2) as HS2. unfold InvS in HS2.
  assert (s_closed s2 = true) as Hc2 by congruence.
  assert (s_forced s2 = true) as Hf2 by congruence.
  assert (forall m2, In m2 (s_nodes s2) ->
            (n_id m2 = x /\ (n_ref m2 <= 0)%Z) \/
            (n_id m2 <> x /\ exists m, In m (s_nodes s) /\ n_id m = n_id m2 /\ (dead m -> dead m2))) as N2.
  { intros m2 Hm2. destruct (D2 m2 Hm2) as (m1 & Hm1 & i & r & v & d).
    destruct (N1 m1 Hm1) as [[e r0]|[ne Hm]].
    - left. split; [congruence|lia].
    - right. split; [congruence|]. exists m1. split; auto. split; auto. intros (a & b & c). repeat split; auto. lia. }
  unfold call_finalizer. destruct (find_id x (s_nodes s2)) as [n2|] eqn:F2.
  - destruct (find_id_some _ _ _ F2) as [Hn2 Hx2].
    assert (resident n2 = false) as Hres2.
    { destruct (resident n2) eqn:R; auto. exfalso.
      assert (In x (s_order s2)) as Hin by (apply (si_ord _ _ _ _ HS2); eauto).
      apply O2 in Hin. tauto. }
    set (g := fun n : node => nd_dels [] (nd_val None (n_size n) n)).
    change (dels_ev (n_dels n2) (final_ev (n_val n2) true (s_log s2))) with (fin_log n2 true (s_log s2)).
    assert (Inv p0 (set_log (fin_log n2 true (s_log s2)) (set_nodes (upd_id x g (s_nodes s2)) s2))) as H3.
    { apply (finalize_inplace p0 p0 s2 x n2 g true); auto.
      - intro m; repeat split.
      - apply (ri_p _ _ _ _ _ _ _ _ _ HR).
      - intro; congruence. }
    split; [exact H3|]. split; [unfold CapOk, upd_node in *; sred; exact Hcap2|].
    split; [eapply same_misc_trans; [exact M1|]; eapply same_misc_trans; [exact M2|]; unfold upd_node; repeat split|].
    split; [eapply Ext_trans; [exact E1|]; eapply Ext_trans; [exact E2|];
            unfold Ext, upd_node; sred; apply ExtN_upd; [intro m; repeat split|]; intros m _ _; split; auto|].
    split; [unfold upd_node; sred; exact O2|].
    unfold upd_node. sred. intros m' Hm'. apply in_upd in Hm'. destruct Hm' as (m2 & Hm2 & ->).
    destruct (N.eqb_spec (n_id m2) x) as [e|ne].
    + left. split; [exact e|]. destruct (N2 m2 Hm2) as [[_ r]|[ne _]]; [|congruence]. repeat split; auto.
    + right. destruct (N2 m2 Hm2) as [[e _]|[_ Q]]; [congruence|]. split; auto.
  - split; [exact H2|]. split; [exact Hcap2|]. split; [eapply same_misc_trans; [exact M1|exact M2]|].
    split; [eapply Ext_trans; [exact E1|exact E2]|]. split; [exact O2|].
    intros m' Hm'. destruct (N2 m' Hm') as [[e _]|Q]; [|right; exact Q].
    exfalso. apply find_id_none in F2. apply F2. rewrite <- e. now apply in_ids.
Qed.

Lemma close_loop_false l : forall s,
  Inv p0 s -> CapOk s -> s_forced s = false ->
  let s' := fold_left (close_node false) l s in
  Inv p0 s' /\ CapOk s' /\ same_misc s s' /\ Ext s s' /\
  (s_cacher s = true -> forall y, In y (s_order s') -> In y (s_order s) /\ ~ In y l) /\
  (s_cacher s = false -> s' = s).
Proof.
  induction l as [|x l IH]; intros s H Hcap Hf; cbn [fold_left].
  - split; auto. split; auto. split; [apply same_misc_refl|]. split; [apply ExtN_refl|]. split; auto.
  - destruct (close_node_false_ok s x H Hcap Hf) as (A & B & C & D & O).
    pose proof C as (j1 & j2 & j3 & j4 & j5 & j6 & j7 & j8).
    destruct (IH (close_node false s x) A B ltac:(congruence)) as (A' & B' & C' & D' & O' & N').
    split; auto. split; auto. split; [eapply same_misc_trans; eauto|]. split; [eapply Ext_trans; eauto|]. split.
    + intros Hca y Hy. destruct (O' ltac:(congruence) y Hy) as [P1 P2]. rewrite (O Hca) in P1.
      apply in_remove_order in P1. split; [tauto|]. intros [e|e]; [subst; tauto|tauto].
    + intro Hca. rewrite N' by congruence. unfold close_node. now rewrite Hca.
Qed.

Lemma close_loop_true l : forall s,
  Inv p0 s -> CapOk s -> s_forced s = true -> NoCacher s ->
  (forall n, In n (s_nodes s) -> In (n_id n) l \/ dead n) ->
  let s' := fold_left (close_node true) l s in
  Inv p0 s' /\ CapOk s' /\ same_misc s s' /\ Ext s s' /\
  (forall y, In y (s_order s') -> In y (s_order s) /\ ~ In y l) /\ all_dead (s_nodes s').
Proof.
  induction l as [|x l IH]; intros s H Hcap Hf Hnc Hd; cbn [fold_left].
  - split; auto. split; auto. split; [apply same_misc_refl|]. split; [apply ExtN_refl|]. split; [auto|].
    intros n Hn. destruct (Hd n Hn) as [[]|Q]. exact Q.
  - destruct (close_node_true_ok s x H Hcap Hf Hnc) as (A & B & C & D & O & N).
    pose proof C as (j1 & j2 & j3 & j4 & j5 & j6 & j7 & j8).
    assert (NoCacher (close_node true s x)) as Hnc'.
    { intro Hca. rewrite j4 in Hca. specialize (Hnc Hca).
      destruct (s_order (close_node true s x)) as [|y r] eqn:E; auto.
      destruct (O y) as [P _]; [try rewrite E; now left|]. rewrite Hnc in P. destruct P. }
    destruct (IH (close_node true s x) A B ltac:(congruence) Hnc') as (A' & B' & C' & D' & O' & N').
    { intros m' Hm'. destruct (N m' Hm') as [[e Q]|[ne (m & Hm & i & Q)]]; [right; exact Q|].
      destruct (Hd m Hm) as [[e|e]|Q']; [congruence|left; congruence|right; auto]. }
    split; auto. split; auto. split; [eapply same_misc_trans; eauto|]. split; [eapply Ext_trans; eauto|]. split; auto.
    intros y Hy. destruct (O' y Hy) as [P1 P2]. destruct (O y P1) as [P3 P4].
    split; auto. intros [e|e]; [subst; tauto|tauto].
Qed.

Lemma cache_close_ok s force :
  Rest s -> NoCacher s -> Rest (cache_close force s) /\ Ext s (cache_close force s) /\ NoCacher (cache_close force s).
Proof.
  intros (H & Hcap & Hcr) Hnc. unfold cache_close. destruct (s_closed s) eqn:Hc.
  { split; [split; auto|]. split; [apply ExtN_refl|auto]. }
  set (s0 := set_closed true force s).
  assert (Inv p0 s0) as H0 by (apply set_closed_ok; auto).
  assert (CapOk s0) as Hcap0 by (unfold CapOk in *; exact Hcap).
  assert (Ext s s0) as E0. { unfold Ext. subst s0. sred. split; [lia|]. split; auto. intros m' Hm' _. exists m'. repeat split; auto. }
  pose proof (inv_s _ _ H0) as HS0. unfold InvS in HS0.
  assert (forall s', (forall y, In y (s_order s') -> In y (s_order s0) /\ ~ In y (map n_id (s_nodes s))) -> s_order s' = []) as Oempty.
  { intros s' P. destruct (s_order s') as [|y r] eqn:E; auto. exfalso.
    destruct (P y) as [P1 P2]; [now left|]. apply (si_ord _ _ _ _ HS0) in P1. destruct P1 as (n & Hn & e & _).
    apply P2. rewrite <- e. subst s0. sred. now apply in_map. }
  destruct force.
  - destruct (close_loop_true (map n_id (s_nodes s)) s0 H0 Hcap0 eq_refl Hnc) as (A & B & C & D & O & N).
    { intros n Hn. left. subst s0. sred. now apply in_map. }
    pose proof C as (j1 & j2 & j3 & j4 & j5 & j6 & j7 & j8).
    split; [split; [exact A|split; [exact B|]]|split].
    + intros _. split; [apply Oempty; exact O|]. intros _. exact N.
    + eapply Ext_trans; eauto.
    + intros _. apply Oempty. exact O.
  - destruct (close_loop_false (map n_id (s_nodes s)) s0 H0 Hcap0 eq_refl) as (A & B & C & D & O & N).
    pose proof C as (j1 & j2 & j3 & j4 & j5 & j6 & j7 & j8).
    assert (s_order (fold_left (close_node false) (map n_id (s_nodes s)) s0) = []) as Oe.
    { destruct (s_cacher s0) eqn:Ca.
      - apply Oempty. apply O. reflexivity.
      - rewrite (N eq_refl). apply Hnc. exact Ca. }
    split; [split; [exact A|split; [exact B|]]|split].
    + intros _. split; [exact Oe|]. intro Q. rewrite j3 in Q. discriminate.
    + eapply Ext_trans; eauto.
    + intros _. exact Oe.
Qed.

(* ---------------------------------------------------------------- the cacher flag never changes;
   without a cacher nothing is ever linked *)

Definition KK (s s' : state) : Prop :=
  s_cacher s' = s_cacher s /\ (s_cacher s = false -> s_order s' = s_order s).

Lemma KK_refl s : KK s s. Proof. split; auto. Qed.
Lemma KK_trans a b c : KK a b -> KK b c -> KK a c.
Proof. intros [A1 A2] [B1 B2]. split; [congruence|]. intro H. rewrite B2, A2; auto. congruence. Qed.
Lemma KK_same_lru s s' : same_lru s s' -> KK s s'.
Proof. intros (_ & _ & o & _ & _ & c & _). split; auto. Qed.
Lemma KK_of_true s s' : s_cacher s = true -> s_cacher s' = s_cacher s -> KK s s'.
Proof. intros H E. split; auto. congruence. Qed.

Lemma evict_loop_C ord : forall s s' ev, evict_loop ord s = (s', ev) -> s_cacher s' = s_cacher s.
Proof.
  induction ord as [|x ord IH]; intros s s' ev E; cbn [evict_loop] in E.
  - destruct (Z.of_N (s_cap s) <? s_used s)%Z; inversion E; reflexivity.
  - destruct (Z.of_N (s_cap s) <? s_used s)%Z; [|inversion E; reflexivity].
    destruct (find_id x (s_nodes s)); [|inversion E; reflexivity].
    destruct (evict_loop ord (evict_one x n ord s)) as [s1 ev1] eqn:E1. inversion E; subst.
    rewrite (IH _ _ _ E1). reflexivity.
Qed.

Lemma release_all_C ev s : s_cacher (release_all ev s) = s_cacher s.
Proof. destruct (release_all_same ev s) as (_ & _ & _ & _ & _ & c & _). exact c. Qed.
Lemma unref_external_C x s : s_cacher (unref_external x s) = s_cacher s.
Proof. destruct (unref_external_same x s) as (_ & _ & _ & _ & _ & c & _). exact c. Qed.

Lemma lru_promote_C x s : s_cacher (lru_promote x s) = s_cacher s.
Proof.
  unfold lru_promote. destruct (find_id x (s_nodes s)); auto. destruct (n_lru n); auto.
  - destruct (n_size n <=? s_cap s); auto. unfold run_evict_loop.
    match goal with |- context [evict_loop ?o ?z] => destruct (evict_loop o z) as [s3 ev] eqn:E3 end.
    rewrite release_all_C, (evict_loop_C _ _ _ _ E3). destruct (n_ref n + 1 <=? 1)%Z; reflexivity.
  - unfold order_remove. destruct (in_order x (s_order s)); reflexivity.
Qed.
Lemma lru_ban_C x s : s_cacher (lru_ban x s) = s_cacher s.
Proof.
  unfold lru_ban. destruct (find_id x (s_nodes s)); auto. destruct (n_lru n); auto.
  rewrite unref_external_C. unfold order_remove. destruct (in_order x (s_order s)); reflexivity.
Qed.
Lemma lru_evict_C x s : s_cacher (lru_evict x s) = s_cacher s.
Proof.
  unfold lru_evict. destruct (find_id x (s_nodes s)); auto. destruct (n_lru n); auto.
  rewrite unref_external_C. unfold order_remove. destruct (in_order x (s_order s)); reflexivity.
Qed.
Lemma lru_set_capacity_C c s : s_cacher (lru_set_capacity c s) = s_cacher s.
Proof.
  unfold lru_set_capacity, run_evict_loop.
  destruct (evict_loop (s_order (set_cap c s)) (set_cap c s)) as [s1 ev] eqn:E.
  rewrite release_all_C, (evict_loop_C _ _ _ _ E). reflexivity.
Qed.
Lemma evict_ids_C l : forall s, s_cacher (evict_ids l s) = s_cacher s.
Proof.
  unfold evict_ids. induction l as [|x l IH]; intro s; cbn; auto. rewrite IH. apply lru_evict_C.
Qed.

Lemma bucket_get_KK ns key go s : KK s (fst (bucket_get ns key go s)).
Proof.
  unfold bucket_get. destruct (find_key ns key (s_nodes s)); [split; reflexivity|]. destruct go; split; reflexivity.
Qed.

Lemma get_finish_KK x s : KK s (fst (get_finish x s)).
Proof.
  unfold get_finish. destruct (s_cacher s) eqn:C.
  - apply KK_of_true; auto. transitivity (s_cacher (lru_promote x s)); [|apply lru_promote_C].
    cbv zeta. destruct (find_id x (s_nodes (lru_promote x s))); [destruct (n_val n)|]; reflexivity.
  - destruct (find_id x (s_nodes s)); [destruct (n_val n)|]; split; cbn; auto.
Qed.

Lemma cache_get_KK ns key sf s : KK s (fst (cache_get ns key sf s)).
Proof.
  unfold cache_get. destruct (s_closed s); [apply KK_refl|].
  pose proof (bucket_get_KK ns key match sf with SfNil => true | SfRet _ _ => false end s) as B.
  destruct (bucket_get ns key match sf with SfNil => true | SfRet _ _ => false end s) as [s1 r]. cbn [fst] in B.
  destruct r as [x|]; [|exact B]. eapply KK_trans; [exact B|].
  destruct (find_id x (s_nodes s1)); [|split; reflexivity].
  destruct (n_val n); [apply get_finish_KK|]. destruct sf as [|sz [|]]; cbn [fst].
  - apply KK_same_lru, unref_internal_same.
  - eapply KK_trans; [|apply get_finish_KK]. unfold upd_node. split; reflexivity.
  - eapply KK_trans; [|apply KK_same_lru, unref_internal_same]. unfold upd_node. split; reflexivity.
Qed.

Lemma handle_release_KK h s : KK s (handle_release h s).
Proof.
  unfold handle_release. destruct (find (fun p => fst p =? h) (s_handles s)); [|apply KK_refl].
  eapply KK_trans; [|apply KK_same_lru, unref_external_same]. split; reflexivity.
Qed.

Lemma delete_tail_KK x s : KK s (unref_internal x (if s_cacher s then lru_ban x s else s)).
Proof.
  destruct (s_cacher s) eqn:C.
  - apply KK_of_true; auto. destruct (unref_internal_same x (lru_ban x s)) as (_ & _ & _ & _ & _ & c & _).
    rewrite c. apply lru_ban_C.
  - apply KK_same_lru, unref_internal_same.
Qed.

Lemma cache_delete_op_KK ns key wd s : KK s (fst (cache_delete_op ns key wd s)).
Proof.
  unfold cache_delete_op. destruct (s_closed s); [apply KK_refl|].
  set (s0 := if wd then _ else s). assert (KK s s0) as K0 by (subst s0; destruct wd; split; reflexivity).
  pose proof (bucket_get_KK ns key true s0) as B. destruct (bucket_get ns key true s0) as [s1 r]. cbn [fst] in B.
  eapply KK_trans; [exact K0|]. eapply KK_trans; [exact B|]. destruct r as [x|]; cbn [fst].
  - set (s2 := if wd then _ else s1).
    assert (KK s1 s2) as K2.
    { subst s2. destruct wd; [|apply KK_refl]. destruct (find_id x (s_nodes s1)); unfold upd_node; split; reflexivity. }
    eapply KK_trans; [exact K2|apply delete_tail_KK].
  - destruct wd; split; reflexivity.
Qed.

Lemma cache_evict_op_KK ns key s : KK s (fst (cache_evict_op ns key s)).
Proof.
  unfold cache_evict_op. destruct (s_closed s); [apply KK_refl|].
  pose proof (bucket_get_KK ns key true s) as B. destruct (bucket_get ns key true s) as [s1 r]. cbn [fst] in B.
  eapply KK_trans; [exact B|]. destruct r as [x|]; cbn [fst]; [|apply KK_refl].
  destruct (s_cacher s1) eqn:C.
  - apply KK_of_true; auto. destruct (unref_internal_same x (lru_evict x s1)) as (_ & _ & _ & _ & _ & c & _).
    rewrite c. apply lru_evict_C.
  - apply KK_same_lru, unref_internal_same.
Qed.

Lemma close_fold_KK force l : forall s, KK s (fold_left (close_node force) l s).
Proof.
  induction l as [|x l IH]; intro s; cbn [fold_left]; [apply KK_refl|].
  eapply KK_trans; [|apply IH]. unfold close_node.
  set (s1 := if force then upd_node x (nd_ref 0%Z) s else s).
  assert (KK s s1) as K1 by (subst s1; destruct force; unfold upd_node; split; reflexivity).
  eapply KK_trans; [exact K1|].
  set (s2 := if s_cacher s1 then lru_evict x s1 else s1).
  assert (KK s1 s2) as K2.
  { subst s2. destruct (s_cacher s1) eqn:C; [|apply KK_refl]. apply KK_of_true; auto. apply lru_evict_C. }
  eapply KK_trans; [exact K2|]. destruct force; [|apply KK_refl]. apply KK_same_lru, call_finalizer_same.
Qed.

Lemma step_raw_KK s o : KK s (fst (step_raw s o)).
Proof.
  destruct o; cbn [step_raw fst].
  - apply cache_get_KK.
  - apply handle_release_KK.
  - apply cache_delete_op_KK.
  - apply cache_evict_op_KK.
  - unfold cache_evict_ns. destruct (s_closed s); [apply KK_refl|]. destruct (s_cacher s) eqn:C; [|apply KK_refl].
    apply KK_of_true; auto. apply evict_ids_C.
  - unfold cache_evict_all. destruct (s_closed s); [apply KK_refl|]. destruct (s_cacher s) eqn:C; [|apply KK_refl].
    apply KK_of_true; auto. apply evict_ids_C.
  - unfold cache_set_capacity. destruct (s_cacher s) eqn:C; [|apply KK_refl].
    apply KK_of_true; auto. apply lru_set_capacity_C.
  - unfold cache_close. destruct (s_closed s); [apply KK_refl|].
    eapply KK_trans; [|apply close_fold_KK]. split; reflexivity.
Qed.

Lemma NoCacher_KK s s' : KK s s' -> NoCacher s -> NoCacher s'.
Proof. intros [A B] H C. rewrite A in C. rewrite B; auto. Qed.

(* ---------------------------------------------------------------- every reachable state *)

Definition Good (s : state) : Prop := Rest s /\ NoCacher s.

Lemma init_good cacher cap : Good (init cacher cap).
Proof.
  unfold init. split; [split; [|split]|].
  - split; unfold InvS, InvR, InvL; sred; auto.
    + split; cbn.
      * constructor.
      * constructor.
      * intros n [].
      * constructor.
      * intro y. split; [intros []|intros (n & [] & _)].
      * reflexivity.
      * intros n [].
    + split; cbn.
      * intro y. unfold p0. lia.
      * intros; reflexivity.
      * intros _ n [].
      * intros _ n [].
      * discriminate.
      * constructor.
      * intros h y [].
      * intros h y [].
      * intros _ n [].
      * intros _. split; reflexivity.
      * intros _ n [].
    + split; cbn.
      * intros n v [].
      * intros n m v [].
      * intro v. unfold cf, count_ev. cbn. lia.
      * intros v f [].
      * intros y v sz [].
      * intro v. unfold ccv, count_ev. cbn. lia.
      * intro y. unfold ccn, count_ev. cbn. lia.
      * intros _ n [].
      * intros y v sz [].
      * intros n d [].
      * intros n [].
      * intros n m d [].
      * intros n d [].
      * intro d. unfold cdr, count_ev. cbn. lia.
      * intros d [].
      * intros d Hd. lia.
      * intros d y [].
  - unfold CapOk. cbn. lia.
  - intro H. discriminate.
  - intro H. reflexivity.
Qed.

Lemma step_raw_fst s o : fst (step s o) = fst (step_raw s o).
Proof. unfold step. destruct (step_raw s o). reflexivity. Qed.

Lemma step_good s o : Good s -> Good (fst (step s o)) /\ Ext s (fst (step s o)).
Proof.
  intros [R NC]. rewrite step_raw_fst.
  assert (NoCacher (fst (step_raw s o))) as NC' by (eapply NoCacher_KK; [apply step_raw_KK|exact NC]).
  destruct o; cbn [step_raw fst] in *.
  - destruct (cache_get_ok s ns key sf R) as (A & B & _). split; [split|]; auto.
  - destruct (handle_release_ok s h R) as (A & B & _). split; [split|]; auto.
  - destruct (cache_delete_op_ok s ns key with_del R) as (A & B). split; [split|]; auto.
  - destruct (cache_evict_op_ok s ns key R) as (A & B). split; [split|]; auto.
  - destruct (cache_evict_ns_ok s ns R) as (A & B). split; [split|]; auto.
  - destruct (cache_evict_all_ok s R) as (A & B). split; [split|]; auto.
  - destruct (cache_set_capacity_ok s c R) as (A & B). split; [split|]; auto.
  - destruct (cache_close_ok s force R NC) as (A & B & C). split; [split|]; auto.
Qed.

Lemma run_good ops : forall s, Good s -> Good (run s ops) /\ Ext s (run s ops).
Proof.
  unfold run. induction ops as [|o ops IH]; intros s G; cbn [fold_left].
  - split; auto. apply ExtN_refl.
  - destruct (step_good s o G) as [G1 E1]. destruct (IH _ G1) as [G2 E2]. split; auto. eapply Ext_trans; eauto.
Qed.

Definition reachable (s : state) : Prop := exists cacher cap ops, s = run (init cacher cap) ops.

Lemma reachable_good s : reachable s -> Good s.
Proof. intros (c & cap & ops & ->). apply run_good, init_good. Qed.

Lemma reachable_step s o : reachable s -> reachable (fst (step s o)).
Proof.
  intros (c & cap & ops & ->). exists c, cap, (ops ++ [o]). unfold run. rewrite fold_left_app. reflexivity.
Qed.

Lemma step_raw_panic s o : snd (step_raw s o) = RPanic -> s_panic (fst (step_raw s o)) = true.
Proof.
  destruct o; cbn [step_raw fst snd]; try discriminate.
  - unfold cache_get. destruct (s_closed s); [discriminate|].
    destruct (bucket_get ns key match sf with SfNil => true | SfRet _ _ => false end s) as [s1 [x|]]; [|discriminate].
    assert (forall z, snd (get_finish x z) = RPanic -> s_panic (fst (get_finish x z)) = true) as GF.
    { intros z. unfold get_finish. cbv zeta.
      destruct (find_id x (s_nodes (if s_cacher z then lru_promote x z else z))); [destruct (n_val n)|]; cbn; auto; discriminate. }
    destruct (find_id x (s_nodes s1)); [|reflexivity].
    destruct (n_val n); [apply GF|]. destruct sf as [|sz [|]]; cbn [snd]; try discriminate. apply GF.
  - unfold cache_delete_op. destruct (s_closed s); [discriminate|].
    destruct (bucket_get ns key true (if with_del then set_next_did (s_next_did s + 1) s else s)) as [s1 [x|]]; discriminate.
  - unfold cache_evict_op. destruct (s_closed s); [discriminate|].
    destruct (bucket_get ns key true s) as [s1 [x|]]; discriminate.
Qed.

Lemma step_no_panic s o : Good s -> snd (step s o) <> RPanic /\ s_panic (fst (step s o)) = false.
Proof.
  intro G. destruct (step_good s o G) as [[(H & _) _] _].
  pose proof (inv_np _ _ H) as P. split; auto.
  rewrite step_raw_fst in P. unfold step. pose proof (step_raw_panic s o) as Q.
  destruct (step_raw s o) as [s' r]. cbn [fst snd] in *. rewrite P. intro e. specialize (Q e). congruence.
Qed.

End WithZq.
