(* Conc/RefLoopInv.v — the coupling invariant between the environment protocol's state (env_step) and
   the reference loop's state, and the accounting lemmas (independent of the loop's maps) about the
   counters and the removed tables. *)
From Coq Require Import NArith List Bool Lia.
From GL Require Import Conc.RefLoop Conc.RefLoopLemmas.
Import ListNotations.
Open Scope N_scope.

(* ---------- well-formedness of the protocol state ---------- *)

(* tables of a version that the deltas applied so far account for *)
Definition counted (c : ver) : list N := ldiff (v_files c) (v_late c).

(* what EDelta checked, in semantic form: d is the delta of c, n the successor *)
Definition trans_ok (c : ver) (d : delta) (n : ver) : Prop :=
  NoDup (d_added d) /\ NoDup (d_deleted d) /\
  incl (d_deleted d) (counted c) /\ incl (v_late c) (d_added d) /\
  (forall f, ind (counted n) f + ind (d_deleted d) f = ind (counted c) f + ind (d_added d) f) /\
  (forall f, In f (v_late n) -> ~ In f (v_files c)) /\
  (forall f, In f (d_added d) -> In f (v_files c) \/ In f (v_files n)).

Fixpoint chain_wf (ch : list ver) : Prop :=
  match ch with
  | [] => True
  | n :: rest =>
      NoDup (v_files n) /\ incl (v_late n) (v_files n) /\ (v_rel n = true -> has_delta n = true) /\
      match rest with
      | [] => v_files n = []
      | c :: _ =>
          v_id c < v_id n /\
          match v_delta c with Some d => trans_ok c d n | None => v_late n = [] end /\
          (forall f, In f (v_files n) -> ~ In f (v_files c) -> forall x, In x rest -> ~ In f (v_files x))
      end /\
      chain_wf rest
  end.

(* the current version has no delta yet and is not released; only it and its predecessor may lack a delta *)
Definition head_ok (ch : list ver) : Prop :=
  match ch with
  | [] => True
  | h :: rest =>
      v_delta h = None /\ v_rel h = false /\
      match rest with
      | [] => True
      | _ :: rest2 => Forall (fun x => has_delta x = true) rest2
      end
  end.

Definition env_wf (e : envst) : Prop :=
  chain_wf (e_chain e) /\ head_ok (e_chain e) /\
  (forall c, In c (e_chain e) -> v_id c < e_nid e) /\
  (forall c, In c (e_chain e) -> incl (v_files c) (e_seen e)) /\
  NoDup (e_seen e).

(* ---------- the loop's maps as functions of the protocol state and [next] ---------- *)

Fixpoint find_ver (ch : list ver) (v : N) : option ver :=
  match ch with
  | [] => None
  | c :: ch' => if v_id c =? v then Some c else find_ver ch' v
  end.

(* the delta of c has been applied to the counters *)
Definition applied (nx : N) (c : ver) : bool := has_delta c && (v_id c <? nx).

Definition hold1 (nx : N) (c : ver) (f : N) : N :=
  if negb (v_rel c) && (v_id c <? nx) then ind (v_files c) f else 0.

(* references held for converted, unreleased versions *)
Fixpoint holds (ch : list ver) (nx : N) (f : N) : N :=
  match ch with
  | [] => 0
  | c :: ch' => hold1 nx c f + holds ch' nx f
  end.

(* f belongs to a version whose delta is not applied yet *)
Definition Un (ch : list ver) (nx : N) (f : N) : Prop :=
  exists x, In x ch /\ applied nx x = false /\ In f (v_files x).

Definition maps_ok (e : envst) (s : state) : Prop :=
  (forall v, mget (ref s) v =
     match find_ver (e_chain e) v with
     | Some c => if negb (v_rel c) && (next s <=? v) then Some (v_files c) else None
     | None => None
     end) /\
  (forall v, mget (deltas s) v =
     match find_ver (e_chain e) v with
     | Some c => if negb (v_rel c) && (next s <=? v) then v_delta c else None
     | None => None
     end) /\
  (forall v, mget (released s) v =
     match find_ver (e_chain e) v with
     | Some c => if v_rel c && (next s <=? v) then Some (v_delta c) else None
     | None => None
     end) /\
  (forall v, smem (referenced s) v =
     match find_ver (e_chain e) v with
     | Some c => negb (v_rel c) && (v <? next s)
     | None => false
     end) /\
  (forall v, smem (abandoned s) v =
     match find_ver (e_chain e) v with
     | Some _ => false
     | None => (next s <=? v) && (v <? e_nid e)
     end) /\
  next s <= e_nid e /\
  last s = match e_chain e with c :: _ => v_id c | [] => 0 end.

(* ---------- accounting: counters, removed tables, tables ever seen ---------- *)

Record acct (fr : list (N * N)) (rm : list N) (seen : list N) (U : N -> Prop) : Prop := {
  ac_rm : forall f, In f rm -> cnt fr f = 0 /\ In f seen /\ ~ U f;
  ac_seen : forall f, In f seen -> In f rm \/ 1 <= cnt fr f \/ U f;
  ac_nodup : NoDup rm }.

Definition Inv (e : envst) (s : state) (rm : list N) : Prop :=
  env_wf e /\ maps_ok e s /\
  (exists U b A,
     e_chain e = U ++ b :: A /\
     Forall (fun c => applied (next s) c = true) A /\
     Forall (fun c => applied (next s) c = false) (U ++ [b]) /\
     (forall f, cnt (fileRef s) f = ind (counted b) f + holds (e_chain e) (next s) f)) /\
  acct (fileRef s) rm (e_seen e) (Un (e_chain e) (next s)).

(* before the first reference (newSession has not run yet) *)
Definition Inv0 (e : envst) (s : state) (rm : list N) : Prop :=
  e = env_init /\ s = init /\ rm = [].

(* ---------- accounting lemmas ---------- *)

Lemma NoDup_app_intro : forall (a b : list N),
  NoDup a -> NoDup b -> (forall x, In x a -> In x b -> False) -> NoDup (a ++ b).
Proof.
  induction a as [|x a IH]; intros b Ha Hb Hd; cbn; auto.
  inversion Ha; subst. constructor.
  - intros Hin. apply in_app_or in Hin. destruct Hin; [contradiction|]. apply (Hd x); [left|]; auto.
  - apply IH; auto. intros y Hy. apply Hd. right; auto.
Qed.

Lemma acct_iff : forall fr rm seen (U U' : N -> Prop),
  (forall f, U f <-> U' f) -> acct fr rm seen U -> acct fr rm seen U'.
Proof.
  intros fr rm seen U U' H [H1 H2 H3]. constructor; auto.
  - intros f Hf. destruct (H1 f Hf) as (? & ? & ?). repeat split; auto. rewrite <- H. auto.
  - intros f Hf. destruct (H2 f Hf) as [?|[?|?]]; auto. right; right. apply H; auto.
Qed.

(* a new version: its tables that the current version does not hold are new *)
Lemma acct_new_version : forall fr rm seen (U U' : N -> Prop) cur new,
  acct fr rm seen U ->
  (forall f, In f cur -> U f) ->
  (forall f, U' f <-> U f \/ In f new) ->
  (forall f, In f (ldiff new cur) -> ~ In f seen) ->
  acct fr rm (ldiff new cur ++ seen) U'.
Proof.
  intros fr rm seen U U' cur new [H1 H2 H3] Hcur HU' Hfresh. constructor; auto.
  - intros f Hf. destruct (H1 f Hf) as (Hc & Hs & Hn). repeat split; auto.
    + apply in_or_app; auto.
    + rewrite HU'. intros [Hu|Hin]; [contradiction|].
      destruct (in_dec N.eq_dec f cur) as [Hi|Hi]; [apply Hn, Hcur; auto|].
      apply (Hfresh f); auto. apply ldiff_In; auto.
  - intros f Hf. apply in_app_or in Hf. destruct Hf as [Hf|Hf].
    + right; right. apply HU'. right. apply ldiff_In in Hf. tauto.
    + destruct (H2 f Hf) as [?|[?|?]]; auto. right; right. apply HU'; auto.
Qed.

(* the delta d of the oldest version c whose delta is not applied is applied; n is c's successor *)
Lemma delta_core : forall fr rm seen (U U' : N -> Prop) (Hf : N -> N) c d n,
  acct fr rm seen U ->
  trans_ok c d n ->
  (forall f, cnt fr f = ind (counted c) f + Hf f) ->
  (forall f, In f (v_files c) -> U f) ->
  (forall f, In f (v_files n) -> U' f) ->
  (forall f, U' f -> U f) ->
  (forall f, U f -> U' f \/ In f (v_files c)) ->
  (forall f, In f (v_files c) -> ~ In f (v_files n) -> ~ U' f) ->
  incl (v_files c) seen ->
  incl (v_late c) (v_files c) ->
  exists fr' out, applyDelta fr d = Ok (fr', out)
    /\ (forall f, cnt fr' f = ind (counted n) f + Hf f)
    /\ acct fr' (rm ++ out) seen U'.
Proof.
  intros fr rm seen U U' Hf c [a dl] n [H1 H2 H3] (NDa & NDd & HD & HL & Heq & Hlate & HA) Hcnt HcU HnU HU'U HUU' Hgone Hseen Hlc.
  cbn in *.
  destruct (applyDelta_spec fr a dl NDa NDd) as (fr' & out & Happ & Hc' & Hout & NDout).
  { intros f Hin. apply HD in Hin. rewrite Hcnt. rewrite (ind_In _ _ Hin). lia. }
  exists fr', out. split; [exact Happ|].
  assert (Hcnt' : forall f, cnt fr' f = ind (counted n) f + Hf f).
  { intros f. specialize (Hc' f). specialize (Heq f). rewrite Hcnt in Hc'. lia. }
  split; [exact Hcnt'|].
  (* a removed table of before is not touched by the delta *)
  assert (Hold : forall f, In f rm -> cnt fr' f = 0).
  { intros f Hin. destruct (H1 f Hin) as (Hz & _ & HnU').
    assert (~ In f a).
    { intros Hia. destruct (HA f Hia) as [Hc|Hn]; [apply HnU', HcU; auto|apply HnU', HU'U, HnU; auto]. }
    specialize (Hc' f). rewrite (ind_nIn a f H) in Hc'. lia. }
  constructor.
  - intros f Hin. apply in_app_or in Hin. destruct Hin as [Hin|Hin].
    + destruct (H1 f Hin) as (Hz & Hs & HnU'). repeat split; auto.
    + apply Hout in Hin. destruct Hin as [Hd Hz]. repeat split; auto.
      * apply Hseen. apply HD in Hd. apply ldiff_In in Hd. tauto.
      * assert (Hfc : In f (v_files c)) by (apply HD in Hd; apply ldiff_In in Hd; tauto).
        apply Hgone; auto. intros Hfn.
        specialize (Hcnt' f). rewrite Hz in Hcnt'.
        destruct (ind_cases (counted n) f) as [[Hi _]|[Hi _]].
        -- rewrite (ind_In _ _ Hi) in Hcnt'. lia.
        -- apply Hi. apply ldiff_In. split; auto. intros Hl. apply (Hlate f Hl); auto.
  - intros f Hs. destruct (in_dec N.eq_dec f (rm ++ out)) as [Hi|Hi]; [left; auto|].
    destruct (N.eq_dec (cnt fr' f) 0) as [Hz|Hz]; [|right; left; lia].
    right; right.
    assert (Hnd : ~ In f dl).
    { intros Hd. apply Hi. apply in_or_app. right. apply Hout. auto. }
    assert (Hnr : ~ In f rm) by (intros Hr; apply Hi, in_or_app; auto).
    specialize (Hc' f). rewrite Hz, (ind_nIn dl f Hnd) in Hc'.
    destruct (H2 f Hs) as [Hr|[Hp|Hu]]; [contradiction|lia|].
    destruct (HUU' f Hu) as [?|Hfc]; auto.
    (* f in the old base version, count 0 after: f is late in c, hence added: impossible *)
    exfalso. specialize (Hcnt f).
    assert (cnt fr f = 0) by lia. assert (Hia : ind a f = 0) by lia.
    destruct (ind_cases (counted c) f) as [[_ Hi1]|[Hi0 _]]; [lia|].
    assert (Hl : In f (v_late c)).
    { destruct (in_dec N.eq_dec f (v_late c)); auto. exfalso. apply Hi0. apply ldiff_In. auto. }
    apply HL in Hl. rewrite (ind_In _ _ Hl) in Hia. lia.
  - apply NoDup_app_intro; auto. intros f Hr Ho. apply Hout in Ho. destruct Ho as [Hd _].
    destruct (H1 f Hr) as (_ & _ & HnU'). apply HnU', HcU. apply HD in Hd. apply ldiff_In in Hd. tauto.
Qed.

(* a converted version is released: its tables lose the reference held for it *)
Lemma rel_core : forall fr rm seen (U : N -> Prop) F (Hr : N -> N),
  acct fr rm seen U -> NoDup F -> incl F seen ->
  (forall f, cnt fr f = ind F f + Hr f) ->
  (forall f, In f F -> Hr f = 0 -> ~ U f) ->
  exists fr' out, del_all fr F = Ok (fr', out)
    /\ (forall f, cnt fr' f = Hr f)
    /\ acct fr' (rm ++ out) seen U.
Proof.
  intros fr rm seen U F Hr [H1 H2 H3] ND Hseen Hcnt Hgone.
  destruct (del_all_spec F fr ND) as (fr' & out & Hd & Hc & Hout & NDout).
  { intros f Hin. rewrite Hcnt, (ind_In _ _ Hin). lia. }
  exists fr', out. split; [exact Hd|].
  assert (Hcnt' : forall f, cnt fr' f = Hr f).
  { intros f. specialize (Hc f). rewrite Hcnt in Hc. lia. }
  split; [exact Hcnt'|]. constructor.
  - intros f Hin. apply in_app_or in Hin. destruct Hin as [Hin|Hin].
    + destruct (H1 f Hin) as (Hz & Hs & Hn). repeat split; auto. specialize (Hc f). lia.
    + apply Hout in Hin. destruct Hin as [Hf Hz]. repeat split; auto.
      apply Hgone; auto. rewrite <- Hcnt'. auto.
  - intros f Hs. destruct (H2 f Hs) as [Hr0|[Hp|Hu]]; auto.
    + left. apply in_or_app; auto.
    + destruct (N.eq_dec (cnt fr' f) 0) as [Hz|Hz]; [|right; left; lia].
      left. apply in_or_app. right. apply Hout. split; auto.
      specialize (Hc f). destruct (ind_cases F f) as [[Hi _]|[_ Hi]]; auto. lia.
  - apply NoDup_app_intro; auto. intros f Hr0 Ho. apply Hout in Ho. destruct Ho as [Hf _].
    destruct (H1 f Hr0) as (Hz & _ & _). specialize (Hcnt f). rewrite (ind_In _ _ Hf) in Hcnt. lia.
Qed.

(* a queued version is converted: one more reference for each of its tables *)
Lemma convert_core : forall fr rm seen (U : N -> Prop) F,
  acct fr rm seen U -> NoDup F -> (forall f, In f F -> U f) ->
  acct (add_all fr F) rm seen U.
Proof.
  intros fr rm seen U F [H1 H2 H3] ND HU. constructor; auto.
  - intros f Hin. destruct (H1 f Hin) as (Hz & Hs & Hn). repeat split; auto.
    rewrite add_all_cnt by auto. rewrite ind_nIn; [lia|]. intros Hf. apply Hn, HU; auto.
  - intros f Hs. destruct (H2 f Hs) as [?|[Hp|?]]; auto. right; left. rewrite add_all_cnt by auto. lia.
Qed.
