(* Conc/VersionLayer.v — executable model of the version layer that feeds session.refLoop:
   leveldb/version.go (newVersion, incref, releaseNB/release, versionStaging.commit/finish, spawn,
   fillRecord), leveldb/session_util.go (session.version, setVersion and the vDelta it sends),
   leveldb/session.go (newSession, create, recover, commit incl. the failing commit that abandons the
   id it consumed).  Definitions only (proofs: Conc/VersionLayerProofs.v).

   State, as in the code: the current version (id, tables per level, reference count, released
   flag), the replaced versions that are still referenced by readers (iterators, gets, compactions;
   in the code they are reachable only from their holders), session.ntVersionID, and whether the
   session has a manifest writer (s.manifest != nil: decides whether commit goes through
   newManifest(r, nv), whose fillRecord re-lists every table of the new version in the very record
   setVersion turns into the delta).

   Every operation returns the events it sends on refCh / relCh / deltaCh / abandon, in order, as
   values of RefLoop.event.  One operation = one critical section of session.vmu (session.version,
   version.release, setVersion) or the part of session.commit between its own version()/release()
   pair (VInstall: commits are serialised by the callers, so the version spawned from is the version
   replaced); VCommit is the whole of session.commit (acquire; install; release).

   Internal keys are abstracted to numbers ordered like icmp.Compare orders them; a table is its file
   number and the two bounds finish() sorts and bisects by.  panic()s are explicit results. *)
From Coq Require Import NArith List Bool.
From GL Require Import Conc.RefLoop.
Import ListNotations.
Open Scope N_scope.

(* ---------- tables, versions, records ---------- *)

Record tbl := { t_num : N; t_min : N; t_max : N }.

Definition levels : Type := list (list tbl).

(* what vTask.files carries, as the loop reads it: table numbers level by level *)
Definition flat (lv : levels) : list N := flat_map (map t_num) lv.

Record vrec := {
  vr_id : N;
  vr_levels : levels;
  vr_ref : N;
  vr_released : bool }.

(* sessionRecord: addedTables (level, table), deletedTables (level, num) *)
Record srec := { r_added : list (N * tbl); r_deleted : list (N * N) }.

Definition added_nums (r : srec) : list N := map (fun x => t_num (snd x)) (r_added r).
Definition deleted_nums (r : srec) : list N := map snd (r_deleted r).

Record vstate := {
  vs_cur : vrec;            (* session.stVersion *)
  vs_olds : list vrec;      (* replaced versions with ref > 0 *)
  vs_nvid : N;              (* session.ntVersionID *)
  vs_manifest : bool }.     (* session.manifest != nil *)

Inductive vpanic :=
| AlreadyReleased           (* incref: panic("already released") *)
| NegativeVersionRef        (* releaseNB: panic("negative version ref") *)
| UnknownVersion.           (* release of a version whose count already reached zero (the model drops those;
                               in the code the same releaseNB panics with "negative version ref") *)

Inductive vresult (A : Type) := VOk (a : A) | VPanic (p : vpanic).
Arguments VOk {A} a.
Arguments VPanic {A} p.

(* ---------- version.incref / version.releaseNB ---------- *)

Definition set_ref (v : vrec) (n : N) (rel : bool) : vrec :=
  {| vr_id := vr_id v; vr_levels := vr_levels v; vr_ref := n; vr_released := rel |}.

(* v.ref++; the first reference sends the reference task *)
Definition incref (v : vrec) : vresult (vrec * list event) :=
  if vr_released v then VPanic AlreadyReleased
  else VOk (set_ref v (vr_ref v + 1) false,
            if vr_ref v =? 0 then [ERef (vr_id v) (flat (vr_levels v))] else []).

(* v.ref--; at zero the release task is sent and the version is marked released *)
Definition releaseNB (v : vrec) : vresult (vrec * list event) :=
  if vr_ref v =? 0 then VPanic NegativeVersionRef
  else if vr_ref v =? 1 then VOk (set_ref v 0 true, [ERel (vr_id v) (flat (vr_levels v))])
  else VOk (set_ref v (vr_ref v - 1) (vr_released v), []).

(* ---------- versionStaging ---------- *)

(* tablesScratch: added map[num]atRecord, deleted map[num]struct{} *)
Record scratch := { sc_added : list tbl; sc_deleted : list N }.
Definition sc_empty : scratch := {| sc_added := []; sc_deleted := [] |}.

Definition tdel (l : list tbl) (n : N) : list tbl := filter (fun t => negb (t_num t =? n)) l.
Definition tmem (l : list tbl) (n : N) : bool := existsb (fun t => t_num t =? n) l.

(* getScratch(level) followed by an update of that scratch: p.levels grows to level+1 *)
Fixpoint upd_scratch (p : list scratch) (l : nat) (f : scratch -> scratch) : list scratch :=
  match l, p with
  | O, [] => [f sc_empty]
  | O, s :: p' => f s :: p'
  | S l', [] => sc_empty :: upd_scratch [] l' f
  | S l', s :: p' => s :: upd_scratch p' l' f
  end.

Definition level_nonempty (base : levels) (l : nat) : bool :=
  match nth l base [] with [] => false | _ :: _ => true end.

(* versionStaging.commit, deleted tables: recorded only if the base level has tables; always taken
   out of the scratch's added map *)
Definition stage_del (base : levels) (p : list scratch) (d : N * N) : list scratch :=
  upd_scratch p (N.to_nat (fst d)) (fun s =>
    {| sc_added := tdel (sc_added s) (snd d);
       sc_deleted := if level_nonempty base (N.to_nat (fst d)) then sadd (sc_deleted s) (snd d)
                     else sc_deleted s |}).

(* versionStaging.commit, new tables: added[num] = r; delete(deleted, num) *)
Definition stage_add (p : list scratch) (a : N * tbl) : list scratch :=
  upd_scratch p (N.to_nat (fst a)) (fun s =>
    {| sc_added := snd a :: tdel (sc_added s) (t_num (snd a));
       sc_deleted := sdel (sc_deleted s) (t_num (snd a)) |}).

Definition stage_commit (base : levels) (p : list scratch) (r : srec) : list scratch :=
  fold_left stage_add (r_added r) (fold_left (stage_del base) (r_deleted r) p).

(* sort.Sort with a total order = insertion sort *)
Fixpoint insert_by (le : tbl -> tbl -> bool) (x : tbl) (l : list tbl) : list tbl :=
  match l with
  | [] => [x]
  | y :: l' => if le x y then x :: l else y :: insert_by le x l'
  end.
Definition sort_by (le : tbl -> tbl -> bool) (l : list tbl) : list tbl := fold_right (insert_by le) [] l.

(* tFiles.lessByNum (descending file number), tFiles.lessByKey (imin, then file number) *)
Definition le_num_desc (a b : tbl) : bool := t_num b <=? t_num a.
Definition le_key (a b : tbl) : bool :=
  (t_min a <? t_min b) || ((t_min a =? t_min b) && (t_num a <=? t_num b)).

(* sort.Search(n, f): i, j := 0, n; for i < j { h := (i+j)/2; if !f(h) { i = h+1 } else { j = h } }.
   j - i shrinks in every round, so n+1 rounds are enough. *)
Fixpoint bsearch (fuel : nat) (f : nat -> bool) (i j : nat) : nat :=
  match fuel with
  | O => i
  | S fuel' =>
      if Nat.ltb i j then
        let h := Nat.div (i + j) 2 in
        if f h then bsearch fuel' f i h else bsearch fuel' f (S h) j
      else i
  end.
Definition go_search (n : nat) (f : nat -> bool) : nat := bsearch (S n) f 0 n.

Definition nth_tbl (l : list tbl) (i : nat) : tbl := nth i l {| t_num := 0; t_min := 0; t_max := 0 |}.

(* tFiles.searchNumLess(num), tFiles.searchMin(icmp, ikey) *)
Definition search_num_less (nt : list tbl) (num : N) : nat :=
  go_search (length nt) (fun i => t_num (nth_tbl nt i) <? num).
Definition search_min (nt : list tbl) (k : N) : nat :=
  go_search (length nt) (fun i => k <=? t_min (nth_tbl nt i)).

(* the imax part of tFiles.getRange *)
Definition max_of (l : list tbl) : N := fold_left (fun m t => if m <? t_max t then t_max t else m) l 0.

Definition insert_at (nt : list tbl) (i : nat) (batch : list tbl) : list tbl :=
  firstn i nt ++ batch ++ skipn i nt.

(* one level of versionStaging.finish *)
Definition finish_level (trivial : bool) (lvl : nat) (base : list tbl) (s : scratch) : list tbl :=
  match sc_added s, sc_deleted s with
  | [], [] => base                                  (* no change at all *)
  | _, _ =>
      let nt := filter (fun t => negb (smem (sc_deleted s) (t_num t)) && negb (tmem (sc_added s) (t_num t))) base in
      match sc_added s with
      | [] => nt                                    (* only deletions: no resort *)
      | _ :: _ =>
          if trivial then
            match lvl with
            | O =>
                let added := sort_by le_num_desc (sc_added s) in
                insert_at nt (search_num_less nt (t_num (nth_tbl added (length added - 1)))) added
            | S _ =>
                let added := sort_by le_key (sc_added s) in
                insert_at nt (search_min nt (max_of added)) added
            end
          else
            match lvl with
            | O => sort_by le_num_desc (nt ++ sc_added s)
            | S _ => sort_by le_key (nt ++ sc_added s)
            end
      end
  end.

(* "Trim levels": trailing empty levels are cut *)
Fixpoint trim (lv : levels) : levels :=
  match lv with
  | [] => []
  | x :: lv' =>
      match x, trim lv' with
      | [], [] => []
      | _, t => x :: t
      end
  end.

(* versionStaging.finish without the id: a level beyond p.levels keeps the base tables, which is what
   an empty scratch does too *)
Definition finish (trivial : bool) (base : levels) (p : list scratch) : levels :=
  trim (map (fun lvl => finish_level trivial lvl (nth lvl base []) (nth lvl p sc_empty))
            (seq 0 (Nat.max (length p) (length base)))).

(* version.spawn(r, trivial) *)
Definition spawn (base : levels) (r : srec) (trivial : bool) : levels :=
  finish trivial base (stage_commit base [] r).

(* version.fillRecord (with the repair "do not list a table twice in the record that creates the
   manifest"): every table of v that the record does not already add is appended to addedTables *)
Fixpoint fill_levels (listed : list N) (lvl : N) (lv : levels) : list (N * tbl) :=
  match lv with
  | [] => []
  | tables :: lv' =>
      map (fun t => (lvl, t)) (filter (fun t => negb (smem listed (t_num t))) tables)
        ++ fill_levels listed (lvl + 1) lv'
  end.

Definition fill_record (r : srec) (lv : levels) : srec :=
  {| r_added := r_added r ++ fill_levels (added_nums r) 0 lv; r_deleted := r_deleted r |}.

(* ---------- operations ---------- *)

(* how session.commit ended: nil / an error with the manifest writer as it was / an error returned by
   newManifest after it had already switched to the new manifest (removing the old manifest file
   failed: the deferred block assigns err after installing the new writer) *)
Inductive outcome := COk | CFail | CFailSwitched.

Inductive vop :=
| VAcquire                                           (* session.version() *)
| VRelease (v : N)                                   (* version.release() by a holder of version v *)
| VInstall (r : srec) (trivial : bool) (oc : outcome) (* session.commit between its version()/release() *)
| VCommit (r : srec) (trivial : bool) (oc : outcome). (* session.commit *)

Definition set_cur (st : vstate) (c : vrec) : vstate :=
  {| vs_cur := c; vs_olds := vs_olds st; vs_nvid := vs_nvid st; vs_manifest := vs_manifest st |}.

Definition acquire (st : vstate) : vresult (vstate * list event) :=
  match incref (vs_cur st) with
  | VOk (c, evs) => VOk (set_cur st c, evs)
  | VPanic q => VPanic q
  end.

(* releaseNB on the version object with id v, found among the replaced versions *)
Fixpoint release_old (olds : list vrec) (v : N) : vresult (list vrec * list event) :=
  match olds with
  | [] => VPanic UnknownVersion
  | o :: olds' =>
      if vr_id o =? v then
        match releaseNB o with
        | VOk (o', evs) => VOk (if vr_ref o' =? 0 then olds' else o' :: olds', evs)
        | VPanic q => VPanic q
        end
      else
        match release_old olds' v with
        | VOk (olds2, evs) => VOk (o :: olds2, evs)
        | VPanic q => VPanic q
        end
  end.

Definition release (st : vstate) (v : N) : vresult (vstate * list event) :=
  if vr_id (vs_cur st) =? v then
    match releaseNB (vs_cur st) with
    | VOk (c, evs) => VOk (set_cur st c, evs)
    | VPanic q => VPanic q
    end
  else
    match release_old (vs_olds st) v with
    | VOk (olds, evs) =>
        VOk ({| vs_cur := vs_cur st; vs_olds := olds; vs_nvid := vs_nvid st; vs_manifest := vs_manifest st |}, evs)
    | VPanic q => VPanic q
    end.

(* setVersion(r, nv) with a current version and a record: incref nv FIRST, send the delta carrying
   the id of the version being replaced, releaseNB the replaced version, s.stVersion = nv *)
Definition set_version (st : vstate) (r : srec) (nv : vrec) : vresult (vstate * list event) :=
  match incref nv with
  | VOk (nv1, ev1) =>
      let ev2 := [EDelta (vr_id (vs_cur st)) (added_nums r) (deleted_nums r)] in
      match releaseNB (vs_cur st) with
      | VOk (c1, ev3) =>
          VOk ({| vs_cur := nv1;
                  vs_olds := if vr_ref c1 =? 0 then vs_olds st else c1 :: vs_olds st;
                  vs_nvid := vs_nvid st; vs_manifest := vs_manifest st |},
               ev1 ++ ev2 ++ ev3)
      | VPanic q => VPanic q
      end
  | VPanic q => VPanic q
  end.

(* nv := v.spawn(r, trivial) consumes an id; then newManifest(r, nv) (no manifest writer yet; it
   extends r by fillRecord) or flushManifest(r) / newManifest(nr, nv) (r unchanged); on success
   setVersion(r, nv), on failure s.abandon <- nv.id *)
Definition install (st : vstate) (r : srec) (trivial : bool) (oc : outcome) : vresult (vstate * list event) :=
  let lv := spawn (vr_levels (vs_cur st)) r trivial in
  let id := vs_nvid st in
  let st1 := {| vs_cur := vs_cur st; vs_olds := vs_olds st; vs_nvid := id + 1; vs_manifest := vs_manifest st |} in
  match oc with
  | COk =>
      let r' := if vs_manifest st then r else fill_record r lv in
      match set_version st1 r' {| vr_id := id; vr_levels := lv; vr_ref := 0; vr_released := false |} with
      | VOk (st2, evs) =>
          VOk ({| vs_cur := vs_cur st2; vs_olds := vs_olds st2; vs_nvid := vs_nvid st2; vs_manifest := true |}, evs)
      | VPanic q => VPanic q
      end
  | CFail => VOk (st1, [EAbandon id])
  | CFailSwitched =>
      VOk ({| vs_cur := vs_cur st1; vs_olds := vs_olds st1; vs_nvid := vs_nvid st1; vs_manifest := true |},
           [EAbandon id])
  end.

(* session.commit: v := s.version(); defer v.release(); ...; the abandon is sent by a deferred
   function registered later, hence before v.release() *)
Definition commit (st : vstate) (r : srec) (trivial : bool) (oc : outcome) : vresult (vstate * list event) :=
  match acquire st with
  | VOk (st1, ev1) =>
      match install st1 r trivial oc with
      | VOk (st2, ev2) =>
          match release st2 (vr_id (vs_cur st)) with
          | VOk (st3, ev3) => VOk (st3, ev1 ++ ev2 ++ ev3)
          | VPanic q => VPanic q
          end
      | VPanic q => VPanic q
      end
  | VPanic q => VPanic q
  end.

Definition vl_step (st : vstate) (op : vop) : vresult (vstate * list event) :=
  match op with
  | VAcquire => acquire st
  | VRelease v => release st v
  | VInstall r t oc => install st r t oc
  | VCommit r t oc => commit st r t oc
  end.

(* ---------- opening a session ---------- *)

(* newSession, then create() (nothing on storage) or recover() over the records read from the
   manifest.  recover stages every record on the empty first version, resets the record's table lists
   after each one (so the record it hands to setVersion lists no table), and does not create a
   manifest writer. *)
Inductive vopen := OCreate | ORecover (manifest : list srec).

(* newSession: setVersion(nil, newVersion(s)) with no current version: incref only *)
Definition new_session : vstate * list event :=
  ({| vs_cur := {| vr_id := 0; vr_levels := []; vr_ref := 1; vr_released := false |};
      vs_olds := []; vs_nvid := 1; vs_manifest := false |},
   [ERef 0 []]).

Definition empty_rec : srec := {| r_added := []; r_deleted := [] |}.

Definition recovered_levels (recs : list srec) : levels :=
  finish false [] (fold_left (stage_commit []) recs []).

Definition vl_start (o : vopen) : vresult (vstate * list event) :=
  let '(st0, ev0) := new_session in
  match o with
  | OCreate =>
      (* newManifest(nil, nil): v = s.version(); defer v.release() - no event; s.manifest is set *)
      VOk ({| vs_cur := vs_cur st0; vs_olds := vs_olds st0; vs_nvid := vs_nvid st0; vs_manifest := true |}, ev0)
  | ORecover recs =>
      let id := vs_nvid st0 in
      let st1 := {| vs_cur := vs_cur st0; vs_olds := vs_olds st0; vs_nvid := id + 1; vs_manifest := false |} in
      match set_version st1 empty_rec
              {| vr_id := id; vr_levels := recovered_levels recs; vr_ref := 0; vr_released := false |} with
      | VOk (st2, evs) => VOk (st2, ev0 ++ evs)
      | VPanic q => VPanic q
      end
  end.

Fixpoint vl_run_from (st : vstate) (ops : list vop) : vresult (vstate * list event) :=
  match ops with
  | [] => VOk (st, [])
  | op :: ops' =>
      match vl_step st op with
      | VOk (st1, ev1) =>
          match vl_run_from st1 ops' with
          | VOk (st2, ev2) => VOk (st2, ev1 ++ ev2)
          | VPanic q => VPanic q
          end
      | VPanic q => VPanic q
      end
  end.

(* a session: open, then the operations; all events sent to the loop, in order *)
Definition vl_run (o : vopen) (ops : list vop) : vresult (vstate * list event) :=
  match vl_start o with
  | VOk (st0, ev0) =>
      match vl_run_from st0 ops with
      | VOk (st, evs) => VOk (st, ev0 ++ evs)
      | VPanic q => VPanic q
      end
  | VPanic q => VPanic q
  end.

(* ---------- the API discipline the DB follows ----------

   Ghost bookkeeping (not state of the code): the references handed out by session.version() and not
   yet given back, and every table number that has belonged to a version of this session.
   - a release gives back a reference obtained earlier on that version (db.go, db_iter.go,
     db_snapshot.go, db_compaction.go: every s.version() is paired with exactly one release);
   - a record's added table numbers are pairwise different, so are the deleted ones; a deleted entry
     names a table of the current version at the level it is in (compactions and trivial moves delete
     the tables they read from the version they were picked in, commits are serialised); an added
     table is new (its number never belonged to a version: allocFileNum) unless the same record
     deletes it (trivial move: same number deleted at one level and added at the next);
   - while the session has no manifest writer (after recover, until the first successful commit) a
     record deletes nothing: that commit is openDB's recoverJournal, which only adds the tables
     flushed from the journals; and a commit failing there ends the session (Open fails), which
     excludes the outcome "failed but switched" at that point;
   - the manifest read by recover lists no table number twice in the version it describes. *)

Record ghost := { g_held : list N; g_seen : list N }.

Fixpoint rem1 (l : list N) (k : N) : list N :=
  match l with
  | [] => []
  | x :: l' => if x =? k then l' else x :: rem1 l' k
  end.

Definition rec_ok (st : vstate) (g : ghost) (r : srec) : bool :=
  nodupb (added_nums r) && nodupb (deleted_nums r)
  && forallb (fun d => tmem (nth (N.to_nat (fst d)) (vr_levels (vs_cur st)) []) (snd d)) (r_deleted r)
  && forallb (fun n => smem (deleted_nums r) n || negb (smem (g_seen g) n)) (added_nums r)
  && (vs_manifest st || match r_deleted r with [] => true | _ :: _ => false end).

Definition install_ok (st : vstate) (g : ghost) (r : srec) (oc : outcome) : bool :=
  rec_ok st g r && (vs_manifest st || match oc with CFailSwitched => false | _ => true end).

Definition disc_op (st : vstate) (g : ghost) (op : vop) : bool :=
  match op with
  | VAcquire => true
  | VRelease v => smem (g_held g) v
  | VInstall r _ oc => install_ok st g r oc
  | VCommit r _ oc => install_ok st g r oc
  end.

(* tables that enter the versions with a successful install: the new version's tables that the
   replaced one did not have *)
Definition seen_after (st : vstate) (g : ghost) (r : srec) (trivial : bool) (oc : outcome) : list N :=
  match oc with
  | COk => ldiff (flat (spawn (vr_levels (vs_cur st)) r trivial)) (flat (vr_levels (vs_cur st))) ++ g_seen g
  | _ => g_seen g
  end.

Definition ghost_step (st : vstate) (g : ghost) (op : vop) : ghost :=
  match op with
  | VAcquire => {| g_held := vr_id (vs_cur st) :: g_held g; g_seen := g_seen g |}
  | VRelease v => {| g_held := rem1 (g_held g) v; g_seen := g_seen g |}
  | VInstall r t oc => {| g_held := g_held g; g_seen := seen_after st g r t oc |}
  | VCommit r t oc => {| g_held := g_held g; g_seen := seen_after st g r t oc |}
  end.

Definition ghost_start (st : vstate) : ghost :=
  {| g_held := []; g_seen := flat (vr_levels (vs_cur st)) |}.

Fixpoint disc_from (st : vstate) (g : ghost) (ops : list vop) : bool :=
  match ops with
  | [] => true
  | op :: ops' =>
      disc_op st g op &&
      match vl_step st op with
      | VOk (st1, _) => disc_from st1 (ghost_step st g op) ops'
      | VPanic _ => false
      end
  end.

Fixpoint ghost_from (st : vstate) (g : ghost) (ops : list vop) : ghost :=
  match ops with
  | [] => g
  | op :: ops' =>
      match vl_step st op with
      | VOk (st1, _) => ghost_from st1 (ghost_step st g op) ops'
      | VPanic _ => g
      end
  end.

Definition vl_disciplined (o : vopen) (ops : list vop) : bool :=
  match vl_start o with
  | VOk (st0, _) => nodupb (flat (vr_levels (vs_cur st0))) && disc_from st0 (ghost_start st0) ops
  | VPanic _ => false
  end.

(* every table number that has belonged to a version of the session *)
Definition vl_seen (o : vopen) (ops : list vop) : list N :=
  match vl_start o with
  | VOk (st0, _) => g_seen (ghost_from st0 (ghost_start st0) ops)
  | VPanic _ => []
  end.

(* ---------- the loop's input: the emitted events with ticks in between ---------- *)

Definition is_tick (e : event) : bool := match e with ETick => true | _ => false end.

(* timer.C and fileRefCh requests reach the loop at any time, also inside setVersion *)
Definition untick (evs : list event) : list event := filter (fun e => negb (is_tick e)) evs.
