(* Conc/RefLoopChain.v — structural facts about the protocol state's version chain (ordering of ids,
   lookup, "a table that left the versions never comes back", positions of versions without a
   delta) and about the functions of the chain the invariant is stated with. *)
From Coq Require Import NArith List Bool Lia.
From GL Require Import Conc.RefLoop Conc.RefLoopLemmas Conc.RefLoopInv.
Import ListNotations.
Open Scope N_scope.

(* ---------- chain_wf ---------- *)

Lemma chain_wf_tail : forall c ch, chain_wf (c :: ch) -> chain_wf ch.
Proof. intros c ch H. cbn in H. tauto. Qed.

Lemma chain_wf_app : forall X Y, chain_wf (X ++ Y) -> chain_wf Y.
Proof. induction X as [|x X IH]; intros Y H; cbn in *; auto. apply IH. tauto. Qed.

Lemma chain_wf_head_lt : forall c ch, chain_wf (c :: ch) -> forall y, In y ch -> v_id y < v_id c.
Proof.
  intros c ch; revert c. induction ch as [|d ch IH]; intros c H y Hy; [contradiction|].
  cbn in H. destruct H as (_ & _ & _ & (Hlt & _ & _) & Hwf).
  destruct Hy as [<-|Hy]; auto.
  specialize (IH d Hwf y Hy). lia.
Qed.

Lemma chain_wf_sorted : forall X c Y, chain_wf (X ++ c :: Y) -> forall x, In x X -> v_id c < v_id x.
Proof.
  induction X as [|x0 X IH]; intros c Y H x Hx; [contradiction|].
  destruct Hx as [<-|Hx].
  - apply (chain_wf_head_lt x0 (X ++ c :: Y)); auto. apply in_or_app. right; left; auto.
  - apply (IH c Y); auto. apply chain_wf_tail in H. auto.
Qed.

Lemma chain_wf_older_lt : forall X c Y, chain_wf (X ++ c :: Y) -> forall y, In y Y -> v_id y < v_id c.
Proof. intros X c Y H. apply chain_wf_app in H. apply chain_wf_head_lt; auto. Qed.

Lemma chain_wf_elem : forall ch c, chain_wf ch -> In c ch ->
  NoDup (v_files c) /\ incl (v_late c) (v_files c) /\ (v_rel c = true -> has_delta c = true).
Proof.
  induction ch as [|x ch IH]; intros c H Hin; [contradiction|].
  destruct Hin as [<-|Hin]; [cbn in H; tauto|]. apply IH; auto. apply chain_wf_tail in H; auto.
Qed.

(* adjacent versions n (newer), c *)
Lemma chain_wf_adj : forall X n c Y, chain_wf (X ++ n :: c :: Y) ->
  match v_delta c with Some d => trans_ok c d n | None => v_late n = [] end /\
  (forall f, In f (v_files n) -> ~ In f (v_files c) -> forall x, In x (c :: Y) -> ~ In f (v_files x)).
Proof. intros X n c Y H. apply chain_wf_app in H. cbn in H. tauto. Qed.

Lemma chain_wf_oldest : forall X c, chain_wf (X ++ [c]) -> v_files c = [] /\ v_late c = [].
Proof.
  intros X c H. apply chain_wf_app in H. cbn in H. destruct H as (_ & Hl & _ & Hf & _).
  split; auto. rewrite Hf in Hl. destruct (v_late c) as [|x l]; auto. exfalso. apply (Hl x). left; auto.
Qed.

(* ---------- lookup ---------- *)

Lemma find_ver_In : forall ch v c, find_ver ch v = Some c -> In c ch /\ v_id c = v.
Proof.
  induction ch as [|x ch IH]; intros v c H; cbn in H; [discriminate|].
  destruct (v_id x =? v) eqn:E.
  - inversion H; subst. apply N.eqb_eq in E. split; auto. left; auto.
  - destruct (IH v c H). split; auto. right; auto.
Qed.

Lemma find_ver_None : forall ch v, find_ver ch v = None <-> (forall c, In c ch -> v_id c <> v).
Proof.
  induction ch as [|x ch IH]; intros v; cbn; [split; auto; intros; contradiction|].
  destruct (v_id x =? v) eqn:E.
  - apply N.eqb_eq in E. split; [discriminate|]. intros H. exfalso. apply (H x); auto.
  - apply N.eqb_neq in E. rewrite IH. split.
    + intros H c [<-|Hc]; auto.
    + intros H c Hc. apply H. right; auto.
Qed.

Lemma find_ver_mid : forall X c Y, chain_wf (X ++ c :: Y) -> find_ver (X ++ c :: Y) (v_id c) = Some c.
Proof.
  induction X as [|x X IH]; intros c Y H; cbn.
  - rewrite N.eqb_refl. reflexivity.
  - assert (Hlt : v_id c < v_id x) by (apply (chain_wf_sorted (x :: X) c Y); auto; left; auto).
    destruct (v_id x =? v_id c) eqn:E; [apply N.eqb_eq in E; lia|].
    apply IH. apply chain_wf_tail in H. auto.
Qed.

Lemma find_ver_split : forall ch v c, find_ver ch v = Some c -> exists X Y, ch = X ++ c :: Y.
Proof. intros ch v c H. apply find_ver_In in H. destruct H as [H _]. apply in_split in H. auto. Qed.

(* lookup in a chain where the element with id (v_id c) was replaced by c' of the same id *)
Lemma find_ver_replace : forall X c c' Y v, chain_wf (X ++ c :: Y) -> v_id c' = v_id c ->
  find_ver (X ++ c' :: Y) v = if v_id c =? v then Some c' else find_ver (X ++ c :: Y) v.
Proof.
  induction X as [|x X IH]; intros c c' Y v H Hid; cbn.
  - rewrite Hid. destruct (v_id c =? v); auto.
  - assert (Hlt : v_id c < v_id x) by (apply (chain_wf_sorted (x :: X) c Y); auto; left; auto).
    destruct (v_id x =? v) eqn:E.
    + apply N.eqb_eq in E. destruct (v_id c =? v) eqn:E2; [apply N.eqb_eq in E2; lia|]. reflexivity.
    + apply IH; auto. apply chain_wf_tail in H; auto.
Qed.

(* ---------- a table that left the versions never comes back ---------- *)

Lemma gone_adj : forall X n c Y f, chain_wf (X ++ n :: c :: Y) ->
  In f (v_files c) -> ~ In f (v_files n) -> forall x, In x X -> ~ In f (v_files x).
Proof.
  induction X as [|x0 X IH]; intros n c Y f H Hc Hn x Hx; [contradiction|].
  assert (Htail : forall y, In y X -> ~ In f (v_files y)).
  { intros y Hy. apply (IH n c Y f); auto. apply chain_wf_tail in H; auto. }
  assert (H0 : ~ In f (v_files x0)).
  { intros Hf0.
    (* the version right after x0 does not hold f, yet c (older) does *)
    destruct X as [|z X'].
    - cbn in H. destruct H as (_ & _ & _ & (_ & _ & Hfresh) & _).
      apply (Hfresh f Hf0 Hn c); auto; try (right; left; reflexivity).
    - cbn in H. destruct H as (_ & _ & _ & (_ & _ & Hfresh) & _).
      apply (Hfresh f Hf0 (Htail z (or_introl eq_refl)) c); auto.
      right. apply in_or_app. right. right; left; reflexivity. }
  destruct Hx as [<-|Hx]; auto.
Qed.

Lemma gone : forall M X p c Y f, chain_wf (X ++ p :: M ++ c :: Y) ->
  In f (v_files c) -> ~ In f (v_files p) -> forall x, In x X -> ~ In f (v_files x).
Proof.
  induction M as [|m M IH] using rev_ind; intros X p c Y f H Hc Hp x Hx.
  - cbn in H. apply (gone_adj X p c Y f); auto.
  - rewrite <- app_assoc in H. cbn in H.
    destruct (in_dec N.eq_dec f (v_files m)) as [Hm|Hm].
    + apply (IH X p m (c :: Y) f); auto.
    + (* f left between c and m *)
      assert (H' : chain_wf ((X ++ p :: M) ++ m :: c :: Y)) by (rewrite <- app_assoc; cbn; auto).
      apply (gone_adj (X ++ p :: M) m c Y f H' Hc Hm). apply in_or_app. auto.
Qed.

(* ---------- versions without a delta sit at the front ---------- *)

Lemma nodelta_pos : forall X c Y, head_ok (X ++ c :: Y) -> v_delta c = None -> X = [] \/ exists h, X = [h].
Proof.
  intros X c Y H Hc. destruct X as [|h X]; auto. right.
  destruct X as [|h2 X]; eauto. exfalso.
  cbn in H. destruct H as (_ & _ & H). rewrite Forall_forall in H.
  assert (has_delta c = true) by (apply H; apply in_or_app; right; left; auto).
  unfold has_delta in H0. rewrite Hc in H0. discriminate.
Qed.

Lemma head_nodelta : forall c Y, head_ok (c :: Y) -> v_delta c = None /\ v_rel c = false.
Proof. intros c Y H. cbn in H. tauto. Qed.

(* ---------- applied / holds / Un under a step of [next] ---------- *)

Lemma applied_mono : forall nx c, applied nx c = true -> applied (nx + 1) c = true.
Proof.
  intros nx c H. unfold applied in *. apply andb_true_iff in H. destruct H as [H1 H2].
  rewrite H1. apply N.ltb_lt in H2. cbn. apply N.ltb_lt. lia.
Qed.

Lemma applied_step_neq : forall nx c, v_id c <> nx -> applied (nx + 1) c = applied nx c.
Proof.
  intros nx c H. unfold applied. f_equal.
  destruct (v_id c <? nx) eqn:E; [apply N.ltb_lt in E; apply N.ltb_lt; lia|apply N.ltb_ge in E; apply N.ltb_ge; lia].
Qed.

Lemma hold1_step_neq : forall nx c f, v_id c <> nx -> hold1 (nx + 1) c f = hold1 nx c f.
Proof.
  intros nx c f H. unfold hold1.
  replace (v_id c <? nx + 1) with (v_id c <? nx); auto.
  destruct (v_id c <? nx) eqn:E; symmetry; [apply N.ltb_lt in E; apply N.ltb_lt; lia|apply N.ltb_ge in E; apply N.ltb_ge; lia].
Qed.

Lemma holds_app : forall X Y nx f, holds (X ++ Y) nx f = holds X nx f + holds Y nx f.
Proof. induction X as [|x X IH]; intros; cbn; auto. rewrite IH. lia. Qed.

Lemma holds_step_neq : forall ch nx f, (forall c, In c ch -> v_id c <> nx) -> holds ch (nx + 1) f = holds ch nx f.
Proof.
  induction ch as [|x ch IH]; intros nx f H; cbn; auto.
  rewrite hold1_step_neq by (apply H; left; auto). rewrite IH; auto. intros c Hc. apply H. right; auto.
Qed.

(* holds when [next] passes the id of c *)
Lemma holds_step_at : forall X c Y f, chain_wf (X ++ c :: Y) ->
  holds (X ++ c :: Y) (v_id c + 1) f =
  holds (X ++ c :: Y) (v_id c) f + (if negb (v_rel c) then ind (v_files c) f else 0).
Proof.
  intros X c Y f H. rewrite !holds_app. cbn.
  rewrite (holds_step_neq X) by (intros x Hx; pose proof (chain_wf_sorted X c Y H x Hx); lia).
  rewrite (holds_step_neq Y) by (intros y Hy; pose proof (chain_wf_older_lt X c Y H y Hy); lia).
  unfold hold1. rewrite N.ltb_irrefl.
  replace (v_id c <? v_id c + 1) with true by (symmetry; apply N.ltb_lt; lia).
  rewrite andb_true_r, andb_false_r. lia.
Qed.

Lemma Un_intro : forall ch nx f x, In x ch -> applied nx x = false -> In f (v_files x) -> Un ch nx f.
Proof. intros. exists x. auto. Qed.

Lemma holds_ext : forall ch ch' nx f,
  Forall2 (fun c c' => v_id c' = v_id c /\ v_rel c' = v_rel c /\ v_files c' = v_files c) ch ch' ->
  holds ch' nx f = holds ch nx f.
Proof.
  intros ch ch' nx f H. induction H as [|c c' ch ch' (Hi & Hr & Hf) _ IH]; cbn; auto.
  unfold hold1. rewrite Hi, Hr, Hf, IH. reflexivity.
Qed.
