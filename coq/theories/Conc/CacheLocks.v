(* Conc/CacheLocks.v — the lock protocol between Cache.Close and the other operations, on top of the
   interleaved semantics of Conc/CacheLts.v.  Model file: definitions only; proofs in
   Conc/CacheLocksProofs.v.

   Conc/CacheLts.v abstracts the locks to "Close's flag section runs when no goroutine is inside a
   Get/Delete/Evict/EvictNS/EvictAll" — enough for safety, silent about blocking.  This layer adds what
   sync.RWMutex does: Lock first ANNOUNCES the writer — from then on every new RLock blocks — and then
   waits for the readers that are inside; RLock blocks while a writer is announced or inside.

   Two protocols ([two] = false / true):

   * the code as found (one lock, Cache.mu): the operations hold mu.RLock from entry to exit;
     Node.unRefExternal's zero branch ([IZero _ _ _ true]) takes mu.RLock AGAIN — also when it runs nested
     inside such an operation (lru.Promote / Ban / Evict releasing a handle); Close takes mu.Lock.
   * the repair ("fix: cache: Close must not deadlock with an operation whose cacher step releases a
     handle"; two locks): the operations hold opMu.RLock from entry to exit; unRefExternal takes mu.RLock;
     Close takes opMu.Lock, then (holding it) mu.Lock, sets the flag, releases both.

   State added to the LTS: the announced writer, and whether it already holds the operations' lock
   exclusively and is now announced on mu (repaired protocol only).  mu's READ sections are the single
   atomic action IZero, so at action boundaries mu has no reader.
   Actions: KReq t (Close calls Lock: announce), KAcq t (repaired protocol: opMu acquired, mu.Lock
   called), and the actions of the LTS, each guarded by the lock it needs:
     - starting Get/Delete/Evict/EvictNS/EvictAll needs the operations' lock shared: no announced writer;
     - [IZero _ _ _ true] needs mu shared: one lock — no announced writer at all; two locks — no writer
       announced on mu (i.e. no Close that already holds opMu);
     - Close's flag section ([AStart t (OClose f)]) needs: one lock — t announced and no reader inside;
       two locks — t holds opMu and is announced on mu (no reader of mu exists at an action boundary);
     - a goroutine waiting inside Close does nothing else. *)
From GL Require Export Conc.CacheLts.

Inductive kaction :=
| KReq (t : N)               (* Close: the first Lock() is called *)
| KAcq (t : N)               (* repaired protocol: opMu.Lock() returned, mu.Lock() is called *)
| KAct (a : action).         (* an action of the LTS *)

Record kstate := mkK {
  k_L : lstate;
  k_w : option (N * bool) }. (* announced writer; true: it holds the operations' lock and is announced on mu *)

Definition takes_oplock (o : op) : bool :=
  match o with
  | OGet _ _ _ | ODelete _ _ _ | OEvict _ _ | OEvictNS _ | OEvictAll => true
  | _ => false
  end.
Definition needs_mu (i : instr) : bool := match i with IZero _ _ _ true => true | _ => false end.
Definition is_writer (t : N) (w : option (N * bool)) : bool :=
  match w with Some (x, _) => x =? t | None => false end.
Definition mu_announced (two : bool) (w : option (N * bool)) : bool :=
  match w with
  | None => false
  | Some (_, acquired) => if two then acquired else true
  end.
Definition lift (w : option (N * bool)) (r : option lstate) : option kstate :=
  match r with Some L' => Some (mkK L' w) | None => None end.

Definition kstep (two : bool) (K : kstate) (a : kaction) : option kstate :=
  let thr := l_thr (k_L K) in
  match a with
  | KReq t =>
      match t_code (get_thr t thr), k_w K with
      | [], None => Some (mkK (k_L K) (Some (t, false)))
      | _, _ => None
      end
  | KAcq t =>
      match k_w K with
      | Some (x, false) =>
          if two && (x =? t) && negb (rlocked_other t thr) then Some (mkK (k_L K) (Some (t, true))) else None
      | _ => None
      end
  | KAct (AStart t o) =>
      match o with
      | OClose _ =>
          match k_w K with
          | Some (x, acquired) =>
              if (x =? t) && Bool.eqb acquired two && negb (rlocked_other t thr)
              then lift None (lstep (k_L K) (AStart t o)) else None
          | None => None
          end
      | _ =>
          if is_writer t (k_w K) then None else
          if takes_oplock o && match k_w K with Some _ => true | None => false end then None
          else lift (k_w K) (lstep (k_L K) (AStart t o))
      end
  | KAct (AStep t) =>
      match t_code (get_thr t thr) with
      | [] => None
      | i :: _ =>
          if needs_mu i && mu_announced two (k_w K) then None
          else lift (k_w K) (lstep (k_L K) (AStep t))
      end
  end.

Definition kinit (cacher : bool) (cap : N) : kstate := mkK (linit cacher cap) None.

Fixpoint krun (two : bool) (K : kstate) (tr : list kaction) : option kstate :=
  match tr with
  | [] => Some K
  | a :: tr' => match kstep two K a with Some K' => krun two K' tr' | None => None end
  end.

Inductive kreach (two : bool) : kstate -> Prop :=
| kr_init cacher cap : kreach two (kinit cacher cap)
| kr_step K a K' : kreach two K -> kstep two K a = Some K' -> kreach two K'.

(* everything except force-close (the scope of the interleaved safety theorems) *)
Definition k_force (a : kaction) : bool := match a with KAct a' => is_force_close a' | _ => false end.
Inductive kreach_c (two : bool) : kstate -> Prop :=
| kc_init cacher cap : kreach_c two (kinit cacher cap)
| kc_step K a K' : kreach_c two K -> k_force a = false -> kstep two K a = Some K' -> kreach_c two K'.

(* the schedule of known finding cache-close-rlock-reentry (capacity 1): goroutine 1 puts (0,0) into the LRU
   and releases its handle; its Get of (0,1) promotes the new node and evicts (0,0) (the lru handle is to be
   released: IDec, then the zero branch); goroutine 2 calls Close before that release *)
Definition deadlock_trace : list kaction :=
  [KAct (AStart 1 (OGet 0 0 (SfRet 1 true))); KAct (AStep 1); KAct (AStep 1); KAct (AStep 1);
   KAct (AStart 1 (ORelease 0)); KAct (AStep 1);
   KAct (AStart 1 (OGet 0 1 (SfRet 1 true))); KAct (AStep 1); KAct (AStep 1);
   KReq 2; KAct (AStep 1)].

(* goroutine 1 is inside an operation, about to re-enter the lock; goroutine 2 is announced *)
Definition dead12 (K : kstate) : Prop :=
  k_w K = Some (2, false) /\
  t_rl (get_thr 1 (l_thr (k_L K))) = true /\
  exists x ns key k, t_code (get_thr 1 (l_thr (k_L K))) = IZero x ns key true :: k.
