(* Conc/ReadCut.v — C05: the labelled transition system of the read-cut protocol.
   Shared state: db.seq, the memdb objects (live / frozen, held by reference), the current version's entries,
   the registered snapshot sequence numbers, the writer side's progress, the readers' private captures.
   One action = one critical section / atomic operation of the Go code:

     writer      AIns (memdb.Put of one record, db_write.go writeLocked / batch.putMem), APublish (db.addSeq),
                 ARotate (db_state.go newMem under memMu)
     flush       AInstallTable (db_compaction.go memCompaction -> compactionCommit -> session.setVersion under vmu),
                 ADropFrozen (db_state.go dropFrozenMem under memMu)
     compaction  AInstallRewrite (table compaction / trivial move commit: setVersion under vmu)
     transaction ATxnInstall (db_transaction.go Commit -> session.commit), ASetSeq (db.setSeq)
     reader r    ARSeq (db_snapshot.go acquireSnapshot under snapsMu: reads db.seq and registers it),
                 ARMems (db_state.go getMems under memMu.RLock), ARVersion (session.version under vmu),
                 ARLookup (memGet on the captured buffers, then version.get on the captured version),
                 ARRelease (releaseSnapshot), ARDone
   A reader session is any of: DB.Get / DB.Has (ARSeq ARMems [ARVersion] ARLookup ARRelease ARDone — the version is
   not taken when a buffer holds the key), a Snapshot (ARSeq, then per read ARMems [ARVersion] ARLookup, finally
   ARRelease ARDone), an iterator (ARSeq ARMems ARVersion ARRelease, then its scan = one ARLookup per key on the
   captured triple, ARDone; the memdbs are captured by reference and keep growing, the version is immutable).
   Actions carry what the harness observed; `step` returns None when the observation is impossible in the
   model, so `accepts` is trace inclusion.  Not modelled (other properties): the layout inside the version
   (C01), the write lock's hand-over and merging (C10; here: one group at a time, as a precondition), memdb reuse
   through the pool (C18), errors, Close.  Model file: definitions only (proofs in ReadCutProofs.v). *)
From GL Require Export Lsm.Lsm.

Inductive phase := PIdle | PSeq | PMems | PVer | PVerOnly.   (* PVerOnly: alternative LTS only *)

Record reader := {
  r_ph : phase;
  r_reg : bool;              (* its sequence number is in the snapshot list *)
  r_s : N;                   (* the sequence number it fixed *)
  r_m : nat;                 (* captured live memdb (by reference) *)
  r_f : option nat;          (* captured frozen memdb *)
  r_v : list entry;          (* captured version (immutable) *)
  r_h0 : list entry          (* ghost: the history at the instant of its ARSeq *)
}.

Definition idle_reader : reader :=
  {| r_ph := PIdle; r_reg := false; r_s := 0; r_m := O; r_f := None; r_v := []; r_h0 := [] |}.

(* one logged read: reader, its sequence number, ghost history at its ARSeq, key, answer *)
Definition rlogent := (nat * N * list entry * bytes * option bytes)%type.
(* one published group: lower bound (exclusive), upper bound (inclusive), its entries *)
Definition group := (N * N * list entry)%type.

Record state := {
  d_seq : N;                      (* db.seq *)
  d_hp : nat -> list entry;       (* memdb objects by identity, entries in insertion order *)
  d_cur : nat;                    (* db.mem *)
  d_frz : option nat;             (* db.frozenMem *)
  d_fl : bool;                    (* the frozen memdb's table has been installed (flush committed, drop pending) *)
  d_ver : list entry;             (* entries of the tables of session.stVersion *)
  d_snaps : list (nat * N);       (* db.snapsList: who registered which sequence number *)
  d_holder : option nat;          (* the write lock's holder while a group / transaction commit is in progress *)
  d_wn : N;                       (* records of the current group inserted so far, not yet published *)
  d_tn : N;                       (* records of the committing transaction installed, db.seq not yet set *)
  d_rd : nat -> reader;
  d_hist : list entry;            (* ghost: every entry ever written, in order *)
  d_pend : list entry;            (* ghost: entries of the group in progress *)
  d_glog : list group;            (* ghost: published groups, newest first *)
  d_rlog : list rlogent;          (* ghost: every answered read *)
  d_dropped : option nat          (* alternative LTS only: frozen memdb dropped before its flush was installed *)
}.

Definition empty_hp : nat -> list entry := fun _ => [].
Definition no_readers : nat -> reader := fun _ => idle_reader.

Definition init : state :=
  {| d_seq := 0; d_hp := empty_hp; d_cur := O; d_frz := None; d_fl := false; d_ver := []; d_snaps := [];
     d_holder := None; d_wn := 0; d_tn := 0; d_rd := no_readers; d_hist := []; d_pend := []; d_glog := [];
     d_rlog := []; d_dropped := None |}.

Inductive action :=
| AIns (w : nat) (e : entry)
| APublish (w : nat) (n : N)
| ARotate (w : nat)
| AInstallTable (es : list entry)
| ADropFrozen
| AInstallRewrite (m : N) (v' : list entry)
| ATxnInstall (w : nat) (es : list entry)
| ASetSeq (w : nat) (s' : N)
| ARSeq (r : nat) (s : N)
| ARMems (r : nat)
| ARVersion (r : nat)
| ARLookup (r : nat) (k : bytes) (ans : option bytes)
| ARRelease (r : nat)
| ARDone (r : nat).

(* ---- small executable helpers ---- *)
Definition entry_eqb (a b : entry) : bool :=
  beq (e_uk a) (e_uk b) && (e_seq a =? e_seq b) && (e_kind a =? e_kind b) && beq (e_val a) (e_val b).

Definition mem_entry (e : entry) (l : list entry) : bool := existsb (entry_eqb e) l.
Definition sub_entries (a b : list entry) : bool := forallb (fun e => mem_entry e b) a.
Definition same_entries (a b : list entry) : bool :=
  Nat.eqb (length a) (length b) && sub_entries a b && sub_entries b a.

Definition opt_bytes_eqb (a b : option bytes) : bool :=
  match a, b with
  | None, None => true
  | Some x, Some y => beq x y
  | _, _ => false
  end.

Fixpoint nodupN (l : list N) : bool :=
  match l with
  | [] => true
  | x :: l' => negb (existsb (N.eqb x) l') && nodupN l'
  end.

Definition is_nil {A} (l : list A) : bool := match l with [] => true | _ => false end.

Definition upd {A} (f : nat -> A) (i : nat) (x : A) : nat -> A := fun j => if Nat.eqb j i then x else f j.

Definition hpo (hp : nat -> list entry) (f : option nat) : list entry :=
  match f with Some i => hp i | None => [] end.

Definition lock_free_or (h : option nat) (w : nat) : bool :=
  match h with None => true | Some w' => Nat.eqb w w' end.
Definition lock_held (h : option nat) (w : nat) : bool :=
  match h with None => false | Some w' => Nat.eqb w w' end.

Definition unregister (r : nat) (l : list (nat * N)) : list (nat * N) :=
  filter (fun x => negb (Nat.eqb (fst x) r)) l.

(* ---- field updates ---- *)
Definition with_writer (st : state) (hp : nat -> list entry) (holder : option nat) (wn : N) (hist pend : list entry) : state :=
  {| d_seq := d_seq st; d_hp := hp; d_cur := d_cur st; d_frz := d_frz st; d_fl := d_fl st; d_ver := d_ver st;
     d_snaps := d_snaps st; d_holder := holder; d_wn := wn; d_tn := d_tn st; d_rd := d_rd st; d_hist := hist;
     d_pend := pend; d_glog := d_glog st; d_rlog := d_rlog st; d_dropped := d_dropped st |}.

Definition with_publish (st : state) (s' : N) (g : group) : state :=
  {| d_seq := s'; d_hp := d_hp st; d_cur := d_cur st; d_frz := d_frz st; d_fl := d_fl st; d_ver := d_ver st;
     d_snaps := d_snaps st; d_holder := None; d_wn := 0; d_tn := 0; d_rd := d_rd st; d_hist := d_hist st;
     d_pend := []; d_glog := g :: d_glog st; d_rlog := d_rlog st; d_dropped := d_dropped st |}.

Definition with_mems (st : state) (cur : nat) (frz : option nat) (fl : bool) (dropped : option nat) : state :=
  {| d_seq := d_seq st; d_hp := d_hp st; d_cur := cur; d_frz := frz; d_fl := fl; d_ver := d_ver st;
     d_snaps := d_snaps st; d_holder := d_holder st; d_wn := d_wn st; d_tn := d_tn st; d_rd := d_rd st;
     d_hist := d_hist st; d_pend := d_pend st; d_glog := d_glog st; d_rlog := d_rlog st; d_dropped := dropped |}.

Definition with_ver (st : state) (v : list entry) (fl : bool) (dropped : option nat) : state :=
  {| d_seq := d_seq st; d_hp := d_hp st; d_cur := d_cur st; d_frz := d_frz st; d_fl := fl; d_ver := v;
     d_snaps := d_snaps st; d_holder := d_holder st; d_wn := d_wn st; d_tn := d_tn st; d_rd := d_rd st;
     d_hist := d_hist st; d_pend := d_pend st; d_glog := d_glog st; d_rlog := d_rlog st; d_dropped := dropped |}.

Definition with_txn (st : state) (v hist pend : list entry) (holder : option nat) (tn : N) : state :=
  {| d_seq := d_seq st; d_hp := d_hp st; d_cur := d_cur st; d_frz := d_frz st; d_fl := d_fl st; d_ver := v;
     d_snaps := d_snaps st; d_holder := holder; d_wn := d_wn st; d_tn := tn; d_rd := d_rd st;
     d_hist := hist; d_pend := pend; d_glog := d_glog st; d_rlog := d_rlog st; d_dropped := d_dropped st |}.

Definition with_reader (st : state) (r : nat) (x : reader) (snaps : list (nat * N)) (rlog : list rlogent) : state :=
  {| d_seq := d_seq st; d_hp := d_hp st; d_cur := d_cur st; d_frz := d_frz st; d_fl := d_fl st; d_ver := d_ver st;
     d_snaps := snaps; d_holder := d_holder st; d_wn := d_wn st; d_tn := d_tn st; d_rd := upd (d_rd st) r x;
     d_hist := d_hist st; d_pend := d_pend st; d_glog := d_glog st; d_rlog := rlog; d_dropped := d_dropped st |}.

Definition set_phase (x : reader) (ph : phase) : reader :=
  {| r_ph := ph; r_reg := r_reg x; r_s := r_s x; r_m := r_m x; r_f := r_f x; r_v := r_v x; r_h0 := r_h0 x |}.
Definition set_mems (x : reader) (ph : phase) (m : nat) (f : option nat) : reader :=
  {| r_ph := ph; r_reg := r_reg x; r_s := r_s x; r_m := m; r_f := f; r_v := r_v x; r_h0 := r_h0 x |}.
Definition set_version (x : reader) (ph : phase) (v : list entry) : reader :=
  {| r_ph := ph; r_reg := r_reg x; r_s := r_s x; r_m := r_m x; r_f := r_f x; r_v := v; r_h0 := r_h0 x |}.
Definition set_reg (x : reader) (b : bool) : reader :=
  {| r_ph := r_ph x; r_reg := b; r_s := r_s x; r_m := r_m x; r_f := r_f x; r_v := r_v x; r_h0 := r_h0 x |}.

Section WithComparer.
  Variable c : comparer.
  Variable p : kparams.

  (* what the API returns for the entry a lookup selected: Some value / None = ErrNotFound *)
  Definition res (z : option entry) : option bytes := api_of (group_res p z).

  (* the state of the database at sequence number s, judged on the history: newest entry of k with seq <= s *)
  Definition spec (h : list entry) (k : bytes) (s : N) : option bytes := res (newest c k s h None).

  (* DB.get on a captured triple: live buffer, else frozen buffer, else the version — the FIRST hit wins
     (memGet returns as soon as a buffer holds the key; version.get is only reached on two misses) *)
  Definition cutget (M F V : list entry) (k : bytes) (s : N) : option entry :=
    match newest c k s M None with
    | Some e => Some e
    | None => match newest c k s F None with
              | Some e => Some e
              | None => newest c k s V None
              end
    end.

  (* an admissible rewrite of the version by a table compaction that read minSeq = m: m is not above db.seq
     nor above any registered sequence number; nothing is invented; every lookup at a sequence number >= m
     answers as before (it suffices to test the keys present and the sequence numbers at which a visible set
     changes: rewrite_okb_sound) — this is what C03 proves of the code's merge + drop rule *)
  Definition rewrite_okb (st : state) (m : N) (v' : list entry) : bool :=
    (m <=? d_seq st)
    && forallb (fun rs => m <=? snd rs) (d_snaps st)
    && sub_entries v' (d_ver st)
    && (let ss := m :: map e_seq (filter (fun e => m <=? e_seq e) (d_ver st)) in
        forallb (fun e => forallb (fun s =>
                   opt_bytes_eqb (res (newest c (e_uk e) s v' None)) (res (newest c (e_uk e) s (d_ver st) None))) ss)
                (d_ver st)).

  (* the entries of a committing transaction occupy exactly the sequence numbers seq+1 .. seq+n *)
  Definition txn_seqs_ok (sq : N) (es : list entry) : bool :=
    let n := N.of_nat (length es) in
    forallb (fun e => (sq <? e_seq e) && (e_seq e <=? sq + n)) es && nodupN (map e_seq es).

  Definition step (st : state) (a : action) : option state :=
    match a with
    | AIns w e =>
        (* writeLocked holds the write lock; seq := db.seq + 1 and counting up through the group *)
        if lock_free_or (d_holder st) w && (d_tn st =? 0) && (e_seq e =? d_seq st + d_wn st + 1)
        then Some (with_writer st (upd (d_hp st) (d_cur st) (d_hp st (d_cur st) ++ [e])) (Some w) (d_wn st + 1)
                               (d_hist st ++ [e]) (d_pend st ++ [e]))
        else None
    | APublish w n =>
        (* db.addSeq(batchesLen(batches)) *)
        if lock_held (d_holder st) w && (n =? d_wn st) && (0 <? n) && (d_tn st =? 0)
        then Some (with_publish st (d_seq st + n) (d_seq st, d_seq st + n, d_pend st))
        else None
    | ARotate w =>
        (* newMem: refuses while a frozen memdb exists; only between groups *)
        if lock_free_or (d_holder st) w && (d_wn st =? 0) && (d_tn st =? 0)
        then match d_frz st with
             | None => Some (with_mems st (S (d_cur st)) (Some (d_cur st)) false (d_dropped st))
             | Some _ => None
             end
        else None
    | AInstallTable es =>
        (* the flush writes every entry of the frozen memdb into one table and commits it: the observed table
           must hold exactly the frozen memdb's entries (in any order) *)
        match d_frz st with
        | Some f => if negb (d_fl st) && same_entries es (d_hp st f)
                    then Some (with_ver st (d_ver st ++ d_hp st f) true (d_dropped st))
                    else None
        | None => None
        end
    | ADropFrozen =>
        (* only after the commit (or at once for an empty memdb: memCompaction skips the flush) *)
        match d_frz st with
        | Some f => if d_fl st || is_nil (d_hp st f)
                    then Some (with_mems st (d_cur st) None false (d_dropped st))
                    else None
        | None => None
        end
    | AInstallRewrite m v' =>
        if rewrite_okb st m v' then Some (with_ver st v' (d_fl st) (d_dropped st)) else None
    | ATxnInstall w es =>
        (* OpenTransaction took the write lock and waited until the live memdb is empty and no frozen one exists;
           nothing is written to the memdbs while the transaction is open *)
        if lock_free_or (d_holder st) w && (d_wn st =? 0) && (d_tn st =? 0)
           && is_nil (d_hp st (d_cur st)) && negb (is_nil es) && txn_seqs_ok (d_seq st) es
        then match d_frz st with
             | None => Some (with_txn st (d_ver st ++ es) (d_hist st ++ es) es (Some w) (N.of_nat (length es)))
             | Some _ => None
             end
        else None
    | ASetSeq w s' =>
        if lock_held (d_holder st) w && (0 <? d_tn st) && (s' =? d_seq st + d_tn st) && (d_wn st =? 0)
        then Some (with_publish st s' (d_seq st, s', d_pend st))
        else None
    | ARSeq r s =>
        match r_ph (d_rd st r) with
        | PIdle => if s =? d_seq st
                   then Some (with_reader st r {| r_ph := PSeq; r_reg := true; r_s := s; r_m := O; r_f := None;
                                                  r_v := []; r_h0 := d_hist st |}
                                          ((r, s) :: d_snaps st) (d_rlog st))
                   else None
        | _ => None
        end
    | ARMems r =>
        (* a snapshot's next read captures afresh, whatever the previous read got as far as *)
        let x := d_rd st r in
        match r_ph x with
        | PSeq | PMems | PVer =>
            if r_reg x
            then Some (with_reader st r (set_mems x PMems (d_cur st) (d_frz st)) (d_snaps st) (d_rlog st))
            else None
        | _ => None
        end
    | ARVersion r =>
        let x := d_rd st r in
        match r_ph x with
        | PMems => Some (with_reader st r (set_version x PVer (d_ver st)) (d_snaps st) (d_rlog st))
        | _ => None
        end
    | ARLookup r k ans =>
        let x := d_rd st r in
        match r_ph x with
        | PVer => let a := res (cutget (d_hp st (r_m x)) (hpo (d_hp st) (r_f x)) (r_v x) k (r_s x)) in
                  if opt_bytes_eqb a ans
                  then Some (with_reader st r x (d_snaps st) ((r, r_s x, r_h0 x, k, a) :: d_rlog st))
                  else None
        | PMems =>
            (* DB.get returns as soon as a buffer holds the key: the version is never taken *)
            match cutget (d_hp st (r_m x)) (hpo (d_hp st) (r_f x)) [] k (r_s x) with
            | Some e => if opt_bytes_eqb (res (Some e)) ans
                        then Some (with_reader st r x (d_snaps st) ((r, r_s x, r_h0 x, k, res (Some e)) :: d_rlog st))
                        else None
            | None => None
            end
        | _ => None
        end
    | ARRelease r =>
        let x := d_rd st r in
        match r_ph x with
        | PSeq | PVer => if r_reg x
                         then Some (with_reader st r (set_reg x false) (unregister r (d_snaps st)) (d_rlog st))
                         else None
        | PMems =>
            (* Get answered from a buffer and releases: the capture is finished with *)
            Some (with_reader st r (set_reg (set_phase x PSeq) false) (unregister r (d_snaps st)) (d_rlog st))
        | _ => None
        end
    | ARDone r =>
        let x := d_rd st r in
        match r_ph x with
        | PSeq | PVer => if r_reg x then None
                         else Some (with_reader st r idle_reader (d_snaps st) (d_rlog st))
        | _ => None
        end
    end.

  Fixpoint run (st : state) (tr : list action) : option state :=
    match tr with
    | [] => Some st
    | a :: tr' => match step st a with
                  | Some st' => run st' tr'
                  | None => None
                  end
    end.

  (* trace inclusion: the observed sequence of actions is an execution of the LTS *)
  Definition accepts (tr : list action) : bool :=
    match run init tr with Some _ => true | None => false end.

  (* index of the first action the LTS refuses (None = accepted): for diagnostics *)
  Fixpoint first_refused (st : state) (tr : list action) (i : N) : option N :=
    match tr with
    | [] => None
    | a :: tr' => match step st a with
                  | Some st' => first_refused st' tr' (i + 1)
                  | None => Some i
                  end
    end.

  (* some logged read differs from the state of the history at its sequence number *)
  Definition wrong_read (st : state) (x : rlogent) : bool :=
    match x with (_, s, _, k, a) => negb (opt_bytes_eqb a (spec (d_hist st) k s)) end.
  Definition violation (st : state) : bool := existsb (wrong_read st) (d_rlog st).

  (* ---- the alternative LTS: the same system with one of the four publication orders reversed ---- *)
  Inductive variant :=
  | VReaderVersionFirst    (* the reader takes the version before the buffers *)
  | VDropBeforeInstall     (* the flusher drops the frozen memdb before committing its table *)
  | VPublishBeforeInsert   (* the writer advances db.seq before inserting the group *)
  | VSetSeqBeforeInstall.  (* the transaction sets db.seq before installing its tables *)

  Definition stepv (v : variant) (st : state) (a : action) : option state :=
    match v, a with
    | VReaderVersionFirst, ARVersion r =>
        let x := d_rd st r in
        match r_ph x with
        | PSeq | PVer => if r_reg x
                         then Some (with_reader st r (set_version x PVerOnly (d_ver st)) (d_snaps st) (d_rlog st))
                         else None
        | _ => None
        end
    | VReaderVersionFirst, ARMems r =>
        let x := d_rd st r in
        match r_ph x with
        | PVerOnly => Some (with_reader st r (set_mems x PVer (d_cur st) (d_frz st)) (d_snaps st) (d_rlog st))
        | _ => None
        end
    | VDropBeforeInstall, ADropFrozen =>
        match d_frz st, d_dropped st with
        | Some f, None => Some (with_mems st (d_cur st) None false (Some f))
        | _, _ => None
        end
    | VDropBeforeInstall, AInstallTable es =>
        match d_dropped st with
        | Some f => if same_entries es (d_hp st f) then Some (with_ver st (d_ver st ++ d_hp st f) false None) else None
        | None => None
        end
    | VPublishBeforeInsert, APublish w n =>
        (* d_wn counts the records still to insert *)
        if lock_free_or (d_holder st) w && (d_wn st =? 0) && (0 <? n) && (d_tn st =? 0)
        then Some {| d_seq := d_seq st + n; d_hp := d_hp st; d_cur := d_cur st; d_frz := d_frz st; d_fl := d_fl st;
                     d_ver := d_ver st; d_snaps := d_snaps st; d_holder := Some w; d_wn := n; d_tn := 0;
                     d_rd := d_rd st; d_hist := d_hist st; d_pend := []; d_glog := d_glog st; d_rlog := d_rlog st;
                     d_dropped := d_dropped st |}
        else None
    | VPublishBeforeInsert, AIns w e =>
        if lock_held (d_holder st) w && (0 <? d_wn st) && (e_seq e + d_wn st =? d_seq st + 1)
        then Some (with_writer st (upd (d_hp st) (d_cur st) (d_hp st (d_cur st) ++ [e]))
                               (if d_wn st =? 1 then None else Some w) (d_wn st - 1) (d_hist st ++ [e]) (d_pend st ++ [e]))
        else None
    | VSetSeqBeforeInstall, ASetSeq w s' =>
        (* d_tn counts the records still to install *)
        if lock_free_or (d_holder st) w && (d_tn st =? 0) && (d_wn st =? 0) && (d_seq st <? s')
        then Some {| d_seq := s'; d_hp := d_hp st; d_cur := d_cur st; d_frz := d_frz st; d_fl := d_fl st;
                     d_ver := d_ver st; d_snaps := d_snaps st; d_holder := Some w; d_wn := 0; d_tn := s' - d_seq st;
                     d_rd := d_rd st; d_hist := d_hist st; d_pend := []; d_glog := d_glog st; d_rlog := d_rlog st;
                     d_dropped := d_dropped st |}
        else None
    | VSetSeqBeforeInstall, ATxnInstall w es =>
        if lock_held (d_holder st) w && (N.of_nat (length es) =? d_tn st) && (0 <? d_tn st)
           && txn_seqs_ok (d_seq st - d_tn st) es
        then Some (with_txn st (d_ver st ++ es) (d_hist st ++ es) es None 0)
        else None
    | _, _ => step st a
    end.

  Fixpoint runv (v : variant) (st : state) (tr : list action) : option state :=
    match tr with
    | [] => Some st
    | a :: tr' => match stepv v st a with
                  | Some st' => runv v st' tr'
                  | None => None
                  end
    end.
End WithComparer.
