(* Conc/RefLoop.v — executable model of session.refLoop (leveldb/session_util.go), the table-file
   reference tracker, as a pure event-driven state machine, and of the event protocol that
   version.go / session.go / session_util.go guarantee about its input (env_ok).
   Definitions only (proofs: Conc/RefLoopProofs.v).

   Go code modelled, line by line:
     refLoop state     fileRef ref deltas referenced released abandoned next last
     addFileRef        ref += fileRef[f]; >0 store, =0 delete, <0 panic("negative ref")
     skipAbandoned, applyDelta (adds first, then deletes; remove when a count reaches 0)
     processTasks      loop 1: skip abandoned / stop at a released or unknown id / stop while
                       last-next < maxCachedNumber and the task is younger than maxCachedTime /
                       otherwise convert ref[next] into full file references (+ its delta if known)
                       loop 2: apply the deltas of released versions strictly in id order
     select cases      refCh, deltaCh, relCh, abandon, timer.C / fileRefCh (no state change)
   processTasks runs after every event.  The age test time.Since(created) >= maxCachedTime is
   not computed: every input carries the list of version ids for which the test holds during the
   processTasks run that follows it (a free oracle; theorems quantify over all oracles).
   tOps.remove(f) is the output.  The panics are explicit Panic results; the two loops take fuel
   (enough by construction, proved) and return OutOfFuel when it is exhausted. *)
From Coq Require Import NArith List Bool.
Import ListNotations.
Open Scope N_scope.

(* ---------- finite maps and sets over N as lists ---------- *)

Section NMap.
  Context {V : Type}.
  Fixpoint mget (m : list (N * V)) (k : N) : option V :=
    match m with
    | [] => None
    | (k', v) :: m' => if k' =? k then Some v else mget m' k
    end.
  Fixpoint mdel (m : list (N * V)) (k : N) : list (N * V) :=
    match m with
    | [] => []
    | (k', v) :: m' => if k' =? k then mdel m' k else (k', v) :: mdel m' k
    end.
  Definition mset (m : list (N * V)) (k : N) (v : V) : list (N * V) := (k, v) :: mdel m k.
  Definition mhas (m : list (N * V)) (k : N) : bool :=
    match mget m k with Some _ => true | None => false end.
End NMap.

Fixpoint smem (s : list N) (k : N) : bool :=
  match s with [] => false | x :: s' => (x =? k) || smem s' k end.
Fixpoint sdel (s : list N) (k : N) : list N :=
  match s with [] => [] | x :: s' => if x =? k then sdel s' k else x :: sdel s' k end.
Definition sadd (s : list N) (k : N) : list N := if smem s k then s else k :: s.

(* ---------- the loop ---------- *)

Record rlparams := { maxCachedNumber : N }.

Record delta := { d_added : list N; d_deleted : list N }.

Record state := {
  fileRef : list (N * N);               (* table number -> reference count (> 0) *)
  ref : list (N * list N);              (* version id -> tables of the queued reference task *)
  deltas : list (N * delta);
  referenced : list N;                  (* versions converted to full file references *)
  released : list (N * option delta);   (* released versions waiting for processing; None = nil delta *)
  abandoned : list N;
  next : N;
  last : N }.

Definition init : state :=
  {| fileRef := []; ref := []; deltas := []; referenced := []; released := []; abandoned := [];
     next := 0; last := 0 |}.

Inductive panic := NegativeRef (f : N) | DuplicateRef | InvalidDelta | InvalidRelease.

Inductive result (A : Type) := Ok (a : A) | Panic (p : panic) | OutOfFuel.
Arguments Ok {A} a.
Arguments Panic {A} p.
Arguments OutOfFuel {A}.

Definition cnt (fr : list (N * N)) (f : N) : N :=
  match mget fr f with Some c => c | None => 0 end.

(* addFileRef(fnum, +1 / -1): the new map and the new count *)
Definition addFileRef (fr : list (N * N)) (f : N) (up : bool) : result (list (N * N) * N) :=
  let c := cnt fr f in
  if up then Ok (mset fr f (c + 1), c + 1)
  else if c =? 0 then Panic (NegativeRef f)
  else if c =? 1 then Ok (mdel fr f, 0)
  else Ok (mset fr f (c - 1), c - 1).

(* for _, t := range l { addFileRef(t, 1) } *)
Fixpoint add_all (fr : list (N * N)) (l : list N) : list (N * N) :=
  match l with
  | [] => fr
  | t :: l' => add_all (mset fr t (cnt fr t + 1)) l'
  end.

(* for _, t := range l { if addFileRef(t, -1) == 0 { remove(t) } }: new map, removes in order *)
Fixpoint del_all (fr : list (N * N)) (l : list N) : result (list (N * N) * list N) :=
  match l with
  | [] => Ok (fr, [])
  | t :: l' =>
      match addFileRef fr t false with
      | Ok (fr1, c) =>
          match del_all fr1 l' with
          | Ok (fr2, rm) => Ok (fr2, if c =? 0 then t :: rm else rm)
          | Panic p => Panic p
          | OutOfFuel => OutOfFuel
          end
      | Panic p => Panic p
      | OutOfFuel => OutOfFuel
      end
  end.

Definition applyDelta (fr : list (N * N)) (d : delta) : result (list (N * N) * list N) :=
  del_all (add_all fr (d_added d)) (d_deleted d).

Definition set_fileRef (s : state) (fr : list (N * N)) : state :=
  {| fileRef := fr; ref := ref s; deltas := deltas s; referenced := referenced s;
     released := released s; abandoned := abandoned s; next := next s; last := last s |}.

(* skipAbandoned() succeeded: delete(abandoned, next); next++ *)
Definition skip_abandoned (s : state) : state :=
  {| fileRef := fileRef s; ref := ref s; deltas := deltas s; referenced := referenced s;
     released := released s; abandoned := sdel (abandoned s) (next s); next := next s + 1; last := last s |}.

(* end of a conversion: referenced[next] = {}; delete(ref, next); delete(deltas, next); next++ *)
Definition converted (s : state) (fr : list (N * N)) : state :=
  {| fileRef := fr; ref := mdel (ref s) (next s); deltas := mdel (deltas s) (next s);
     referenced := sadd (referenced s) (next s); released := released s; abandoned := abandoned s;
     next := next s + 1; last := last s |}.

(* loop 2 body for a released id: delete(released, next); next++ *)
Definition pop_released (s : state) (fr : list (N * N)) : state :=
  {| fileRef := fr; ref := ref s; deltas := deltas s; referenced := referenced s;
     released := mdel (released s) (next s); abandoned := abandoned s; next := next s + 1; last := last s |}.

(* first loop of processTasks; exp = ids whose task is older than maxCachedTime now *)
Fixpoint loop1 (fuel : nat) (p : rlparams) (exp : list N) (s : state) : result (state * list N) :=
  match fuel with
  | O => OutOfFuel
  | S fuel' =>
      if smem (abandoned s) (next s) then loop1 fuel' p exp (skip_abandoned s)
      else if mhas (released s) (next s) then Ok (s, [])
      else match mget (ref s) (next s) with
           | None => Ok (s, [])
           | Some files =>
               if (last s - next s <? maxCachedNumber p) && negb (smem exp (next s)) then Ok (s, [])
               else
                 let fr1 := add_all (fileRef s) files in
                 match (match mget (deltas s) (next s) with
                        | Some d => applyDelta fr1 d
                        | None => Ok (fr1, [])
                        end) with
                 | Ok (fr2, rm) =>
                     match loop1 fuel' p exp (converted s fr2) with
                     | Ok (s', rm') => Ok (s', rm ++ rm')
                     | Panic q => Panic q
                     | OutOfFuel => OutOfFuel
                     end
                 | Panic q => Panic q
                 | OutOfFuel => OutOfFuel
                 end
           end
  end.

(* second loop of processTasks *)
Fixpoint loop2 (fuel : nat) (s : state) : result (state * list N) :=
  match fuel with
  | O => OutOfFuel
  | S fuel' =>
      if smem (abandoned s) (next s) then loop2 fuel' (skip_abandoned s)
      else match mget (released s) (next s) with
           | None => Ok (s, [])
           | Some od =>
               match (match od with
                      | Some d => applyDelta (fileRef s) d
                      | None => Ok (fileRef s, [])
                      end) with
               | Ok (fr2, rm) =>
                   match loop2 fuel' (pop_released s fr2) with
                   | Ok (s', rm') => Ok (s', rm ++ rm')
                   | Panic q => Panic q
                   | OutOfFuel => OutOfFuel
                   end
               | Panic q => Panic q
               | OutOfFuel => OutOfFuel
               end
           end
  end.

Definition fuel1 (s : state) : nat := S (length (abandoned s) + length (ref s)).
Definition fuel2 (s : state) : nat := S (length (abandoned s) + length (released s)).

Definition processTasks (p : rlparams) (exp : list N) (s : state) : result (state * list N) :=
  match loop1 (fuel1 s) p exp s with
  | Ok (s1, rm1) =>
      match loop2 (fuel2 s1) s1 with
      | Ok (s2, rm2) => Ok (s2, rm1 ++ rm2)
      | Panic q => Panic q
      | OutOfFuel => OutOfFuel
      end
  | Panic q => Panic q
  | OutOfFuel => OutOfFuel
  end.

(* ---------- events ---------- *)

Inductive event :=
| ERef (v : N) (files : list N)            (* refCh: first reference of version v (tables flattened level by level) *)
| ERel (v : N) (files : list N)            (* relCh: last release of version v *)
| EDelta (v : N) (added deleted : list N)  (* deltaCh: change from version v to its successor *)
| EAbandon (v : N)                         (* abandon: id consumed by a failed commit *)
| ETick.                                   (* timer.C or a fileRefCh request: processTasks only *)

(* an input = an event and the expiry oracle for the processTasks run that follows it *)
Definition input : Type := event * list N.

(* the select case; the removes it issues itself (release of a converted version, late delta) *)
Definition handle (s : state) (e : event) : result (state * list N) :=
  match e with
  | ERef v files =>
      if mhas (ref s) v then Panic DuplicateRef
      else Ok ({| fileRef := fileRef s; ref := mset (ref s) v files; deltas := deltas s;
                  referenced := referenced s; released := released s; abandoned := abandoned s;
                  next := next s; last := if last s <? v then v else last s |}, [])
  | EDelta v a d =>
      if mhas (ref s) v then
        Ok ({| fileRef := fileRef s; ref := ref s; deltas := mset (deltas s) v {| d_added := a; d_deleted := d |};
               referenced := referenced s; released := released s; abandoned := abandoned s;
               next := next s; last := last s |}, [])
      else if smem (referenced s) v then
        match applyDelta (fileRef s) {| d_added := a; d_deleted := d |} with
        | Ok (fr, rm) => Ok (set_fileRef s fr, rm)
        | Panic q => Panic q
        | OutOfFuel => OutOfFuel
        end
      else Panic InvalidDelta
  | ERel v files =>
      if smem (referenced s) v then
        match del_all (fileRef s) files with
        | Ok (fr, rm) =>
            Ok ({| fileRef := fr; ref := ref s; deltas := deltas s; referenced := sdel (referenced s) v;
                   released := released s; abandoned := abandoned s; next := next s; last := last s |}, rm)
        | Panic q => Panic q
        | OutOfFuel => OutOfFuel
        end
      else if mhas (ref s) v then
        Ok ({| fileRef := fileRef s; ref := mdel (ref s) v; deltas := mdel (deltas s) v;
               referenced := referenced s; released := mset (released s) v (mget (deltas s) v);
               abandoned := abandoned s; next := next s; last := last s |}, [])
      else Panic InvalidRelease
  | EAbandon v =>
      Ok (if next s <=? v
          then {| fileRef := fileRef s; ref := ref s; deltas := deltas s; referenced := referenced s;
                  released := released s; abandoned := sadd (abandoned s) v; next := next s; last := last s |}
          else s, [])
  | ETick => Ok (s, [])
  end.

Definition step (p : rlparams) (s : state) (i : input) : result (state * list N) :=
  match handle s (fst i) with
  | Ok (s1, rm1) =>
      match processTasks p (snd i) s1 with
      | Ok (s2, rm2) => Ok (s2, rm1 ++ rm2)
      | Panic q => Panic q
      | OutOfFuel => OutOfFuel
      end
  | Panic q => Panic q
  | OutOfFuel => OutOfFuel
  end.

(* all removes issued while consuming ins from s, in order *)
Fixpoint run_from (p : rlparams) (s : state) (ins : list input) : result (state * list N) :=
  match ins with
  | [] => Ok (s, [])
  | i :: ins' =>
      match step p s i with
      | Ok (s1, rm1) =>
          match run_from p s1 ins' with
          | Ok (s2, rm2) => Ok (s2, rm1 ++ rm2)
          | Panic q => Panic q
          | OutOfFuel => OutOfFuel
          end
      | Panic q => Panic q
      | OutOfFuel => OutOfFuel
      end
  end.

Definition run (p : rlparams) (ins : list input) : result (state * list N) := run_from p init ins.

(* ---------- the environment protocol ----------

   What version.incref/releaseNB, session.setVersion, session.commit and newSession/recover
   guarantee about the events (all sends happen under session.vmu except abandon, and commits
   are serialised by the callers):
   - version ids are consecutive: every id is either the next installed version (ERef) or was
     consumed by a failed commit (EAbandon), announced before any later id is used;
   - the first version (id 0, newSession) has no tables;
   - setVersion references the new version first, then sends the delta of the version being
     replaced, and only then drops the session's own reference of the old version: between
     ERef new and EDelta old nothing but timer ticks / counter queries reaches the loop, and
     ERel old comes after EDelta old (at any later time, once the last reader is gone);
   - the delta of the old version is the change to the new one: deleted tables belong to the old
     version, tables listed in both added and deleted stay (trivial move), other added tables are
     not in the old version;  tables of the new version that the delta does not list ("late",
     session.recover installs the recovered version with a record whose table lists were reset)
     are new and are listed as added by the NEXT delta, and are not deleted by it;
   - a table number that left the versions is not used again (the code may reuse the number of
     a table only after the loop removed the file; such histories are outside env_ok and are
     covered by the correspondence check only);
   - ERel carries the same table list as the ERef of that version (the same v.levels). *)

Fixpoint nodupb (l : list N) : bool :=
  match l with [] => true | x :: l' => negb (smem l' x) && nodupb l' end.
Definition inclb (a b : list N) : bool := forallb (smem b) a.
Definition disjb (a b : list N) : bool := forallb (fun x => negb (smem b x)) a.
Definition ldiff (a b : list N) : list N := filter (fun x => negb (smem b x)) a.
Fixpoint leqb (a b : list N) : bool :=
  match a, b with
  | [], [] => true
  | x :: a', y :: b' => (x =? y) && leqb a' b'
  | _, _ => false
  end.

Record ver := {
  v_id : N;
  v_files : list N;
  v_late : list N;          (* tables of this version not listed by the delta that led to it *)
  v_delta : option delta;   (* the delta sent for this version (change to its successor) *)
  v_rel : bool }.           (* ERel seen *)

Record envst := {
  e_nid : N;                (* next unused version id *)
  e_chain : list ver;       (* installed versions, newest first *)
  e_seen : list N }.        (* every table number that ever belonged to a version *)

Definition env_init : envst := {| e_nid := 0; e_chain := []; e_seen := [] |}.

Definition set_delta (c : ver) (d : delta) : ver :=
  {| v_id := v_id c; v_files := v_files c; v_late := v_late c; v_delta := Some d; v_rel := v_rel c |}.
Definition set_late (c : ver) (l : list N) : ver :=
  {| v_id := v_id c; v_files := v_files c; v_late := l; v_delta := v_delta c; v_rel := v_rel c |}.
Definition set_rel (c : ver) : ver :=
  {| v_id := v_id c; v_files := v_files c; v_late := v_late c; v_delta := v_delta c; v_rel := true |}.

Definition has_delta (c : ver) : bool := match v_delta c with Some _ => true | None => false end.

(* no setVersion is in flight: the version before the current one has its delta *)
Definition settled (ch : list ver) : bool :=
  match ch with
  | _ :: c :: _ => has_delta c
  | _ => true
  end.

Fixpoint rel_in (ch : list ver) (v : N) (files : list N) : option (list ver) :=
  match ch with
  | [] => None
  | c :: ch' =>
      if v_id c =? v then
        if negb (v_rel c) && has_delta c && leqb files (v_files c) then Some (set_rel c :: ch') else None
      else match rel_in ch' v files with Some ch2 => Some (c :: ch2) | None => None end
  end.

Definition env_step (e : envst) (ev : event) : option envst :=
  match ev with
  | ERef v files =>
      if (v =? e_nid e) && nodupb files && settled (e_chain e) then
        match e_chain e with
        | [] =>
            match files with
            | [] => Some {| e_nid := v + 1;
                            e_chain := [{| v_id := v; v_files := []; v_late := []; v_delta := None; v_rel := false |}];
                            e_seen := e_seen e |}
            | _ => None
            end
        | c :: _ =>
            let fresh := ldiff files (v_files c) in
            if negb (has_delta c) && disjb fresh (e_seen e) then
              Some {| e_nid := v + 1;
                      e_chain := {| v_id := v; v_files := files; v_late := []; v_delta := None; v_rel := false |} :: e_chain e;
                      e_seen := fresh ++ e_seen e |}
            else None
        end
      else None
  | EDelta o a d =>
      match e_chain e with
      | n :: c :: rest =>
          let a' := ldiff a (v_late c) in
          let t := ldiff (v_files c) d ++ a' in            (* counted tables of the new version *)
          let late_n := ldiff (v_files n) t in
          if (v_id c =? o) && negb (has_delta c) && nodupb a && nodupb d
             && inclb d (ldiff (v_files c) (v_late c)) && inclb (v_late c) a
             && disjb a' (ldiff (v_files c) d) && inclb t (v_files n) && disjb late_n (v_files c)
          then Some {| e_nid := e_nid e;
                       e_chain := set_late n late_n :: set_delta c {| d_added := a; d_deleted := d |} :: rest;
                       e_seen := e_seen e |}
          else None
      | _ => None
      end
  | ERel v files =>
      match rel_in (e_chain e) v files with
      | Some ch => Some {| e_nid := e_nid e; e_chain := ch; e_seen := e_seen e |}
      | None => None
      end
  | EAbandon v =>
      if (v =? e_nid e) && settled (e_chain e) && negb (match e_chain e with [] => true | _ => false end)
      then Some {| e_nid := v + 1; e_chain := e_chain e; e_seen := e_seen e |}
      else None
  | ETick => Some e
  end.

Fixpoint env_run_from (e : envst) (ins : list input) : option envst :=
  match ins with
  | [] => Some e
  | i :: ins' => match env_step e (fst i) with Some e' => env_run_from e' ins' | None => None end
  end.

Definition env_run (ins : list input) : option envst := env_run_from env_init ins.

Definition env_ok (ins : list input) : bool :=
  match env_run ins with Some _ => true | None => false end.

(* versions referenced and not yet released *)
Definition live (e : envst) : list ver := filter (fun c => negb (v_rel c)) (e_chain e).

(* nothing in flight and every version but the current one released *)
Definition quiescent (e : envst) : bool :=
  settled (e_chain e) &&
  match e_chain e with
  | [] => true
  | _ :: older => forallb v_rel older
  end.

Definition cur_files (e : envst) : list N :=
  match e_chain e with c :: _ => v_files c | [] => [] end.
