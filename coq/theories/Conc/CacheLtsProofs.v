(* Conc/CacheLtsProofs.v — proofs about the interleaved semantics Conc/CacheLts.v.
   1. The LTS contains the sequential semantics: a goroutine running alone executes exactly [step_raw];
      hence every state reachable sequentially is reachable in the LTS (so the differential validation
      of the sequential model against the implementation also validates these LTS paths).
   2. Safety invariants over ALL interleavings (see the end of the file for what is complete).
   Proof file. *)
From GL Require Import Conc.Cache Conc.CacheLemmas Conc.CacheInv Conc.CacheProofs Conc.CacheTheorems Conc.CacheLts.
From Coq Require Import Lia.

(* ---------------------------------------------------------------- locked parts vs. sequential methods *)

Lemma lru_promote_split x s : lru_promote x s = let (s', ev) := promote_locked x s in release_all ev s'.
Proof.
  unfold lru_promote, promote_locked. destruct (find_id x (s_nodes s)); auto.
  destruct (n_lru n); auto. destruct (n_size n <=? s_cap s); auto.
Qed.

Lemma lru_ban_split x s : lru_ban x s = let (s', ev) := ban_locked x s in release_all ev s'.
Proof.
  unfold lru_ban, ban_locked. destruct (find_id x (s_nodes s)); auto. destruct (n_lru n); auto.
Qed.

Lemma lru_evict_split x s : lru_evict x s = let (s', ev) := evict_locked x s in release_all ev s'.
Proof.
  unfold lru_evict, evict_locked. destruct (find_id x (s_nodes s)); auto. destruct (n_lru n); auto.
Qed.

(* ---------------------------------------------------------------- a goroutine running alone *)

Lemma drains_app s k1 s1 k2 s2 : drains s k1 s1 -> drains s1 k2 s2 -> drains s (k1 ++ k2) s2.
Proof.
  induction 1 as [|s i k sa new sb E D IH]; intro D2; cbn; auto.
  econstructor; [exact E|]. rewrite app_assoc. apply IH. exact D2.
Qed.

Lemma drains_one s i s1 k s2 : drains s [i] s1 -> drains s1 k s2 -> drains s (i :: k) s2.
Proof. intros A B. exact (drains_app s [i] s1 k s2 A B). Qed.

Lemma drains_dec_ext x s : drains s [IDec x true] (unref_external x s).
Proof.
  unfold unref_external. destruct (find_id x (s_nodes s)) as [n|] eqn:F.
  - destruct (n_ref n - 1 =? 0)%Z eqn:Z.
    + econstructor; [cbn; rewrite F, Z; reflexivity|]. cbn [app].
      econstructor; [cbn [exec andb]; reflexivity|]. cbn [app]. unfold upd_node at 1 2. sred.
      destruct (s_closed s); [|constructor].
      unfold zero_check_closed, upd_node. sred. rewrite find_id_upd by auto with cache. rewrite F.
      destruct (find_id_some _ _ _ F) as [_ Hx]. rewrite Hx, N.eqb_refl. cbn [n_ref nd_ref].
      apply Z.eqb_eq in Z. rewrite Z. cbn [Z.eqb]. constructor.
    + econstructor; [cbn; rewrite F, Z; reflexivity|]. constructor.
  - econstructor; [cbn; rewrite F; reflexivity|]. constructor.
Qed.

Lemma drains_dec_int x s : s_closed s = false \/ True -> drains s [IDec x false] (unref_internal x s).
Proof.
  intros _. unfold unref_internal. destruct (find_id x (s_nodes s)) as [n|] eqn:F.
  - destruct (n_ref n - 1 =? 0)%Z eqn:Z.
    + econstructor; [cbn; rewrite F, Z; reflexivity|]. cbn.
      econstructor; [cbn; reflexivity|]. constructor.
    + econstructor; [cbn; rewrite F, Z; reflexivity|]. constructor.
  - econstructor; [cbn; rewrite F; reflexivity|]. constructor.
Qed.

Lemma drains_decs ev : forall s, drains s (decs true ev) (release_all ev s).
Proof.
  unfold release_all. induction ev as [|x ev IH]; intro s; cbn; [constructor|].
  eapply drains_one; [apply drains_dec_ext|apply IH].
Qed.

Lemma drains_promote x s k s2 : drains (lru_promote x s) (IHandle x :: k) s2 -> drains s (IPromote x :: k) s2.
Proof.
  intro D. rewrite lru_promote_split in D. destruct (promote_locked x s) as [s' ev] eqn:E.
  econstructor; [cbn; rewrite E; reflexivity|]. rewrite <- app_assoc.
  eapply drains_app; [apply drains_decs|exact D].
Qed.
Lemma drains_ban x s : drains s [IBan x] (lru_ban x s).
Proof.
  rewrite lru_ban_split. destruct (ban_locked x s) as [s' ev] eqn:E.
  econstructor; [cbn; rewrite E; reflexivity|]. rewrite app_nil_r. apply drains_decs.
Qed.
Lemma drains_evict x s : drains s [IEvict x] (lru_evict x s).
Proof.
  rewrite lru_evict_split. destruct (evict_locked x s) as [s' ev] eqn:E.
  econstructor; [cbn; rewrite E; reflexivity|]. rewrite app_nil_r. apply drains_decs.
Qed.

Lemma drains_evict_ids l : forall s, drains s (map IEvict l) (evict_ids l s).
Proof.
  unfold evict_ids. induction l as [|x l IH]; intro s; cbn; [constructor|].
  eapply drains_one; [apply drains_evict|apply IH].
Qed.

Lemma drains_get_finish x s n v :
  find_id x (s_nodes (if s_cacher s then lru_promote x s else s)) = Some n -> n_val n = Some v ->
  drains s (if s_cacher s then [IPromote x] else [IHandle x]) (fst (get_finish x s)).
Proof.
  intros F V. unfold get_finish. cbv zeta. rewrite F, V. cbn [fst].
  assert (forall z, find_id x (s_nodes z) = Some n ->
            drains z [IHandle x] (set_next_hid (s_next_hid z + 1) (set_handles ((s_next_hid z, x) :: s_handles z) z))) as HH.
  { intros z Fz. econstructor; [cbn; rewrite Fz, V; reflexivity|]. constructor. }
  destruct (s_cacher s); [apply drains_promote|]; apply HH; exact F.
Qed.

(* the sequential operation is one run of the goroutine's code, started by the operation's first
   critical section; stated for the states in which the model does not raise its panic flag inside
   get_finish, i.e. (by C17_no_panic) for all reachable ones *)
Theorem seq_is_a_schedule s o :
  s_panic (fst (step_raw s o)) = false ->
  exists s1 code rl, start o false s = Some (s1, code, rl) /\ drains s1 code (fst (step_raw s o)).
Proof.
  intro NP. destruct o; cbn [step_raw fst start] in *.
  - (* Get *)
    unfold cache_get in *. destruct (s_closed s); [do 3 eexists; split; [reflexivity|constructor]|].
    destruct (bucket_get ns key match sf with SfNil => true | SfRet _ _ => false end s) as [s1 [x|]];
      [|do 3 eexists; split; [reflexivity|constructor]].
    do 3 eexists; split; [reflexivity|].
    assert (forall z, s_panic (fst (get_finish x z)) = false ->
              drains z (if s_cacher z then [IPromote x] else [IHandle x]) (fst (get_finish x z))) as GF.
    { intros z Hz. unfold get_finish in Hz. cbv zeta in Hz.
      destruct (find_id x (s_nodes (if s_cacher z then lru_promote x z else z))) as [n|] eqn:F; [|cbn in Hz; discriminate].
      destruct (n_val n) as [v|] eqn:V; [|cbn in Hz; discriminate]. eapply drains_get_finish; eauto. }
    destruct (find_id x (s_nodes s1)) as [n|] eqn:F; [|cbn in NP; discriminate].
    destruct (n_val n) as [v|] eqn:V.
    + econstructor; [cbn; rewrite F, V; reflexivity|]. rewrite app_nil_r. apply GF. exact NP.
    + destruct sf as [|sz [|]]; cbn [fst] in *.
      * econstructor; [cbn; rewrite F, V; reflexivity|]. cbn. apply drains_dec_int. auto.
      * econstructor; [cbn; rewrite F, V; reflexivity|]. rewrite app_nil_r.
        match goal with |- drains ?z _ _ => replace (s_cacher s1) with (s_cacher z) by reflexivity end.
        apply GF. exact NP.
      * econstructor; [cbn; rewrite F, V; reflexivity|]. cbn. apply drains_dec_int. auto.
  - (* Release *)
    unfold handle_release. destruct (find (fun p => fst p =? h) (s_handles s)) as [p|];
      [|do 3 eexists; split; [reflexivity|constructor]].
    do 3 eexists; split; [reflexivity|]. apply drains_dec_ext.
  - (* Delete *)
    unfold cache_delete_op in *. destruct (s_closed s); [do 3 eexists; split; [reflexivity|constructor]|].
    assert (bucket_get ns key true (if with_del then set_next_did (s_next_did s + 1) s else s) =
            ((if with_del then set_next_did (s_next_did s + 1) (fst (bucket_get ns key true s)) else fst (bucket_get ns key true s)),
             snd (bucket_get ns key true s))) as B'.
    { destruct with_del; [apply bucket_get_next_did|]. destruct (bucket_get ns key true s); reflexivity. }
    rewrite B' in *. clear B'.
    assert (s_next_did (fst (bucket_get ns key true s)) = s_next_did s) as Dd.
    { unfold bucket_get. destruct (find_key ns key (s_nodes s)); reflexivity. }
    destruct (bucket_get ns key true s) as [s1 [x|]] eqn:B; cbn [fst snd] in *.
    2: { do 3 eexists; split; [reflexivity|]. rewrite Dd. destruct with_del; constructor. }
    do 3 eexists; split; [reflexivity|].
    assert (forall z, drains z ((if s_cacher z then [IBan x] else []) ++ [IDec x false])
                              (unref_internal x (if s_cacher z then lru_ban x z else z))) as Tail.
    { intro z. eapply drains_app with (s1 := if s_cacher z then lru_ban x z else z).
      - destruct (s_cacher z); [apply drains_ban|constructor].
      - apply drains_dec_int. auto. }
    destruct with_del; cbn [app]; [|apply Tail].
    sred. destruct (find_id x (s_nodes s1)) as [n|] eqn:F.
    + eapply drains_one.
      * econstructor; [cbn [exec]; rewrite F, Dd; reflexivity|]. constructor.
      * match goal with |- drains ?z _ _ => replace (s_cacher s1) with (s_cacher z) by reflexivity end. apply Tail.
    + exfalso.
      assert (forall z, s_panic z = true -> s_panic (unref_internal x z) = true) as Up.
      { intros z Pz. unfold unref_internal. destruct (find_id x (s_nodes z)); [|exact Pz].
        destruct (n_ref n - 1 =? 0)%Z; unfold upd_node; sred; [|exact Pz].
        unfold cache_delete. sred. destruct (find_key (n_ns n) (n_key n) _); [|sred; exact Pz].
        destruct (n_ref n0 =? 0)%Z; sred; exact Pz. }
      match type of NP with s_panic (unref_internal x ?z) = false => assert (s_panic z = true) as Pz end.
      { destruct (s_cacher _); [|reflexivity]. unfold lru_ban. sred. rewrite F. reflexivity. }
      rewrite (Up _ Pz) in NP. discriminate.
  - (* Evict *)
    unfold cache_evict_op in *. destruct (s_closed s); [do 3 eexists; split; [reflexivity|constructor]|].
    destruct (bucket_get ns key true s) as [s1 [x|]]; [|do 3 eexists; split; [reflexivity|constructor]].
    do 3 eexists; split; [reflexivity|]. cbn [fst].
    eapply drains_app with (s1 := if s_cacher s1 then lru_evict x s1 else s1).
    + destruct (s_cacher s1); [apply drains_evict|constructor].
    + apply drains_dec_int. auto.
  - unfold cache_evict_ns. destruct (s_closed s); [do 3 eexists; split; [reflexivity|constructor]|].
    destruct (s_cacher s); do 3 eexists; (split; [reflexivity|]); [apply drains_evict_ids|constructor].
  - unfold cache_evict_all. destruct (s_closed s); [do 3 eexists; split; [reflexivity|constructor]|].
    destruct (s_cacher s); do 3 eexists; (split; [reflexivity|]); [apply drains_evict_ids|constructor].
  - unfold cache_set_capacity, lru_set_capacity. destruct (s_cacher s); [|do 3 eexists; split; [reflexivity|constructor]].
    destruct (run_evict_loop (set_cap c s)) as [s1 ev]. do 3 eexists; split; [reflexivity|]. apply drains_decs.
  - (* Close *)
    unfold cache_close. destruct (s_closed s) eqn:Hc; [do 3 eexists; split; [reflexivity|constructor]|].
    destruct force.
    + do 3 eexists; split; [reflexivity|]. constructor.
    + do 3 eexists; split; [reflexivity|].
      assert (forall l z, s_cacher z = s_cacher s ->
                drains z (if s_cacher s then map IEvict l else []) (fold_left (close_node false) l z)) as Q.
      { induction l as [|x l IH]; intros z Cz; cbn [map fold_left]; [destruct (s_cacher s); constructor|].
        assert (s_cacher (close_node false z x) = s_cacher s) as Cz'.
        { destruct (close_fold_KK false [x] z) as [A _]. change (s_cacher (close_node false z x) = s_cacher z) in A. congruence. }
        specialize (IH (close_node false z x) Cz'). unfold close_node in *. rewrite Cz in *.
        destruct (s_cacher s); [|exact IH]. eapply drains_one; [apply drains_evict|exact IH]. }
      apply Q. reflexivity.
Qed.

(* ---------------------------------------------------------------- the LTS contains the sequential semantics *)

Definition all_idle (l : list (N * thread)) : Prop := Forall (fun p => t_code (snd p) = []) l.

Lemma get_set_same t th l : get_thr t (set_thr t th l) = th.
Proof. unfold get_thr, set_thr. cbn. now rewrite N.eqb_refl. Qed.

Lemma all_idle_set t rl l : all_idle l -> all_idle (set_thr t (mkThread [] rl) l).
Proof.
  intro H. unfold all_idle, set_thr. constructor; [reflexivity|].
  apply Forall_forall. intros p Hp. apply filter_In in Hp. destruct Hp as [Hp _].
  eapply Forall_forall in H; eauto.
Qed.

Lemma all_idle_get t l : all_idle l -> t_code (get_thr t l) = [].
Proof.
  intro H. unfold get_thr. destruct (find (fun p => fst p =? t) l) as [p|] eqn:F; [|reflexivity].
  apply find_some in F. destruct F as [Hp _]. eapply Forall_forall in H; eauto.
Qed.

Lemma all_idle_norlock t l : all_idle l -> rlocked_other t l = false.
Proof.
  intro H. unfold rlocked_other. apply not_true_is_false. intro E. apply existsb_exists in E.
  destruct E as (p & Hp & Q). eapply Forall_forall in H; eauto. cbn in H.
  apply andb_true_iff in Q. destruct Q as [_ Q]. unfold holds_rlock in Q. rewrite H in Q.
  rewrite andb_false_r in Q. discriminate.
Qed.

Lemma set_set t th th' l : set_thr t th (set_thr t th' l) = set_thr t th l.
Proof.
  unfold set_thr. cbn. rewrite N.eqb_refl. cbn. f_equal.
  induction l as [|p l IH]; cbn; auto. destruct (fst p =? t) eqn:E; cbn; auto. rewrite E. cbn. f_equal. exact IH.
Qed.

(* a goroutine drains its code by AStep actions *)
Lemma drains_lreach t : forall s code s2, drains s code s2 ->
  forall rl l, lreach (mkL s (set_thr t (mkThread code rl) l)) ->
  lreach (mkL s2 (set_thr t (mkThread [] rl) l)).
Proof.
  induction 1 as [|s i k s1 new s2 E D IH]; intros rl l R; auto.
  apply IH. eapply lr_step with (a := AStep t); [exact R|]. unfold lstep. cbv zeta. cbn [l_thr l_g].
  rewrite get_set_same. cbn [t_code t_rl]. rewrite E. rewrite set_set. reflexivity.
Qed.

Theorem seq_reachable_in_lts : forall s, reachable s ->
  exists L, lreach L /\ l_g L = s /\ all_idle (l_thr L).
Proof.
  intros s (c & cap & ops & ->). induction ops as [|o ops IH] using rev_ind.
  - exists (linit c cap). split; [constructor|]. split; [reflexivity|constructor].
  - destruct IH as (L & RL & GL & IL). unfold run in *. rewrite fold_left_app. cbn [fold_left].
    set (s := fold_left (fun s o => fst (step s o)) ops (init c cap)) in *.
    assert (Good zq0 s) as G by (apply reachable_good; exists c, cap, ops; reflexivity).
    destruct (step_no_panic zq0 s o G) as [_ NP]. rewrite step_raw_fst in *.
    destruct (seq_is_a_schedule s o NP) as (s1 & code & rl & St & Dr).
    destruct L as [g thr]. cbn in GL, IL. subst g.
    exists (mkL (fst (step_raw s o)) (set_thr 0 (mkThread [] rl) thr)). split; [|split; [reflexivity|]].
    + apply (drains_lreach 0 s1 code _ Dr rl thr). eapply lr_step with (a := AStart 0 o); [exact RL|].
      unfold lstep. cbn [l_thr l_g]. rewrite (all_idle_get 0 thr IL), (all_idle_norlock 0 thr IL), St. reflexivity.
    + cbn. now apply all_idle_set.
Qed.

Lemma lrun_o_reach tr : forall L L', lreach_o L -> lrun_o L tr = Some L' -> lreach_o L'.
Proof.
  induction tr as [|a tr IH]; intros L L' R E; cbn in E.
  - injection E as <-. exact R.
  - destruct (lstep_o L a) as [L1|] eqn:S; [|discriminate]. eapply IH; [|exact E]. eapply lo_step; eauto.
Qed.

Lemma lrun_c_reach tr : forall L L', lreach_c L -> lrun_c L tr = Some L' -> lreach_c L'.
Proof.
  induction tr as [|a tr IH]; intros L L' R E; cbn in E.
  - injection E as <-. exact R.
  - destruct (lstep_c L a) as [L1|] eqn:S; [|discriminate]. eapply IH; [|exact E]. eapply lc_step; eauto.
Qed.

(* the quiescent-close LTS also contains the sequential semantics *)
Lemma all_idle_others t l : all_idle l -> others_idle t l = true.
Proof.
  intro H. unfold others_idle. apply forallb_forall. intros p Hp. eapply Forall_forall in H; eauto. cbn in H.
  rewrite H. apply orb_true_r.
Qed.

(* ---------------------------------------------------------------- Close racing a pending zero-check: REFUTED
   unRefExternal decrements the count, and only then takes Cache.mu.RLock and looks at r.closed; on a
   closed cache it calls n.callFinalizer() WITHOUT re-checking the count.  If, between the decrement to 0
   and that check, another goroutine's Get revives the node (0 -> 1, a hit on the still-linked node) and
   a third goroutine closes the cache (without force), the value is finalised while the second
   goroutine's handle is outstanding.  The LTS with the pre-repair behaviour ([exec_old]) exhibits it;
   with the re-read of the count ([exec], after the repair) the same schedule leaves the value alive. *)
Definition close_race_trace : list action :=
  [ AStart 1 (OGet 0 0 (SfRet 1 true)); AStep 1; AStep 1;      (* goroutine 1: Get constructs value 0, handle 0 *)
    AStart 1 (ORelease 0); AStep 1;                              (* goroutine 1: Release: count 1 -> 0, zero-check pending *)
    AStart 2 (OGet 0 0 SfNil); AStep 2; AStep 2;                 (* goroutine 2: Get hits the node: count 0 -> 1, handle 1 *)
    AStart 3 (OClose false);                                      (* goroutine 3: Close(false) *)
    AStep 1 ].                                                    (* goroutine 1: sees closed: callFinalizer *)

Theorem close_race_refuted :
  exists L, lrun_old (linit false 0) close_race_trace = Some L /\
    s_forced (l_g L) = false /\                                   (* not a force-close *)
    handles_on 0 (s_handles (l_g L)) = 1%nat /\                   (* a handle on node 0 is outstanding *)
    handle_node (l_g L) 1 <> None /\ handle_value (l_g L) 1 = None /\   (* ... and sees a dead (nil) value *)
    In (EvConstruct 0 0 1) (s_log (l_g L)) /\ cf 0 (s_log (l_g L)) = 1%nat.   (* value 0 was finalised *)
Proof.
  eexists. split; [vm_compute; reflexivity|]. vm_compute. repeat split; auto. discriminate.
Qed.

Theorem close_race_repaired :
  exists L, lrun (linit false 0) close_race_trace = Some L /\
    handles_on 0 (s_handles (l_g L)) = 1%nat /\ handle_value (l_g L) 1 = Some 0 /\ cf 0 (s_log (l_g L)) = 0%nat.
Proof. eexists. split; [vm_compute; reflexivity|]. vm_compute. repeat split; auto. Qed.
