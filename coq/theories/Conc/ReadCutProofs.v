(* Conc/ReadCutProofs.v — C05: every interleaving of the read-cut LTS gives every reader the state of the
   database at the instant it fixed its sequence number; publications are the linearisation points. *)
From GL Require Import Base.Order Base.BytesProofs Base.OrderProofs Codec.IKey Codec.BytesCmp Lsm.Lsm Lsm.LsmProofs
  Conc.ReadCut Gen.Inst.
From Coq Require Import Lia ZifyN ZifyNat ZifyBool PeanoNat.

Ltac sim :=
  cbn [d_seq d_hp d_cur d_frz d_fl d_ver d_snaps d_holder d_wn d_tn d_rd d_hist d_pend d_glog d_rlog d_dropped
       with_writer with_publish with_mems with_ver with_txn with_reader
       r_ph r_reg r_s r_m r_f r_v r_h0 set_phase set_mems set_version set_reg idle_reader fst snd] in *.

Section Proofs.
  Variable c : comparer.
  Hypothesis ok : comparer_ok c.
  Variable p : kparams.

  Notation newest := (newest c).
  Notation vis := (vis c).
  Notation res := (res p).
  Notation spec := (spec c p).
  Notation cutget := (cutget c).
  Notation step := (step c p).
  Notation run := (run c p).

  (* ---------------------------------------------------------------- facts about newest *)
  Lemma vis_above k s e : s < e_seq e -> vis k s e = false.
  Proof.
    intros H. unfold Lsm.vis. destruct (cmp c (e_uk e) k); [|reflexivity|reflexivity].
    apply N.leb_gt. exact H.
  Qed.

  Lemma vis_le k s e : vis k s e = true -> e_seq e <= s.
  Proof.
    unfold Lsm.vis. destruct (cmp c (e_uk e) k); [|discriminate|discriminate]. apply N.leb_le.
  Qed.

  Lemma invisible_above k s l : (forall x, In x l -> s < e_seq x) -> forall x, In x l -> vis k s x = false.
  Proof. intros H x Hx. apply vis_above. apply H. exact Hx. Qed.

  Lemma newest_app_invis k s l x acc : (forall e, In e x -> vis k s e = false) ->
    newest k s (l ++ x) acc = newest k s l acc.
  Proof. intros H. rewrite (newest_app c). apply (newest_none c). exact H. Qed.

  Lemma newest_none_iff k s l : newest k s l None = None <-> (forall x, In x l -> vis k s x = false).
  Proof.
    split.
    - induction l as [|e l IH]; intros H x Hx; [destruct Hx|]. cbn [Lsm.newest] in H.
      destruct (vis k s e) eqn:V.
      + cbn [newer] in H. exfalso.
        assert (forall l a, newest k s l (Some a) <> None) as N.
        { clear. induction l as [|y l IH]; intros a; cbn [Lsm.newest]; [discriminate|].
          destruct (vis k s y); [|apply IH]. cbn [newer]. destruct (e_seq a <? e_seq y); apply IH. }
        exact (N _ _ H).
      + destruct Hx as [<-|Hx]; [exact V|]. apply IH; assumption.
    - intros H. apply (newest_none c). exact H.
  Qed.

  (* a visible entry newer than everything before it is the answer *)
  Lemma newest_snoc_top k s l e : vis k s e = true -> (forall x, In x l -> e_seq x < e_seq e) ->
    newest k s (l ++ [e]) None = Some e.
  Proof.
    intros V H. rewrite (newest_app c). cbn [Lsm.newest]. rewrite V.
    destruct (newest k s l None) as [a|] eqn:A; cbn [newer]; [|reflexivity].
    apply (newest_in c) in A as [A|[A _]]; [discriminate|].
    replace (e_seq a <? e_seq e) with true; [reflexivity|]. symmetry. apply N.ltb_lt. apply H. exact A.
  Qed.

  (* an accumulator older than every visible element does not matter once there is a visible element *)
  Lemma newest_acc_none k s l a :
    (forall x, In x l -> vis k s x = true -> e_seq a < e_seq x) ->
    (exists x, In x l /\ vis k s x = true) ->
    newest k s l (Some a) = newest k s l None.
  Proof.
    induction l as [|e l IH]; intros H [x [Hx Vx]]; [destruct Hx|]. cbn [Lsm.newest].
    destruct (vis k s e) eqn:V.
    - cbn [newer]. pose proof (H e (or_introl eq_refl) V) as Ha.
      replace (e_seq a <? e_seq e) with true by (symmetry; apply N.ltb_lt; exact Ha). reflexivity.
    - apply IH.
      + intros y Hy. apply H. right; exact Hy.
      + destruct Hx as [<-|Hx]; [congruence|]. exists x. split; assumption.
  Qed.

  Lemma newest_some_vis k s l a : newest k s l None = Some a -> In a l /\ vis k s a = true.
  Proof. intros H. apply (newest_in c) in H as [H|H]; [discriminate|exact H]. Qed.

  Lemma newest_exists k s l : newest k s l None <> None -> exists x, In x l /\ vis k s x = true.
  Proof.
    intros H. destruct (newest k s l None) as [a|] eqn:A; [|congruence].
    exists a. apply newest_some_vis. exact A.
  Qed.

  (* appending a block of strictly newer entries to two collections that answer alike *)
  Lemma newest_append_newer k s l1 l2 es :
    res (newest k s l1 None) = res (newest k s l2 None) ->
    (forall a x, (In a l1 \/ In a l2) -> In x es -> e_seq a < e_seq x) ->
    res (newest k s (l1 ++ es) None) = res (newest k s (l2 ++ es) None).
  Proof.
    intros Hr Hnew. rewrite !(newest_app c).
    destruct (newest k s es None) as [y|] eqn:Y.
    - assert (E : forall l, (forall a, In a l -> In a l1 \/ In a l2) ->
                  newest k s es (newest k s l None) = newest k s es None).
      { intros l Hl. destruct (newest k s l None) as [a|] eqn:A; [|reflexivity].
        apply newest_some_vis in A as [Ha _].
        apply newest_acc_none.
        - intros x Hx _. apply (Hnew a x); [apply Hl; exact Ha|exact Hx].
        - exists y. apply newest_some_vis. exact Y. }
      rewrite (E l1) by (intros; left; assumption). rewrite (E l2) by (intros; right; assumption). reflexivity.
    - rewrite newest_none_iff in Y. rewrite !(newest_none c k s es Y). exact Hr.
  Qed.

  (* spec only looks at entries with seq <= s *)
  Lemma spec_app_above h tl k s : (forall x, In x tl -> s < e_seq x) -> spec (h ++ tl) k s = spec h k s.
  Proof.
    intros H. unfold ReadCut.spec. rewrite newest_app_invis; [reflexivity|]. apply invisible_above. exact H.
  Qed.

  (* ---------------------------------------------------------------- facts about cutget *)
  Lemma cutget_ver M F V V' k s : res (newest k s V None) = res (newest k s V' None) ->
    res (cutget M F V k s) = res (cutget M F V' k s).
  Proof.
    intros H. unfold ReadCut.cutget. destruct (newest k s M None); [reflexivity|].
    destruct (newest k s F None); [reflexivity|]. exact H.
  Qed.

  Lemma cutget_M_invis M X F V k s : (forall e, In e X -> vis k s e = false) ->
    cutget (M ++ X) F V k s = cutget M F V k s.
  Proof. intros H. unfold ReadCut.cutget. rewrite newest_app_invis by exact H. reflexivity. Qed.

  Lemma cutget_F_invis M X F V k s : (forall e, In e X -> vis k s e = false) ->
    cutget M (F ++ X) V k s = cutget M F V k s.
  Proof. intros H. unfold ReadCut.cutget. rewrite (newest_app_invis k s F) by exact H. reflexivity. Qed.

  Lemma cutget_V_invis M X F V k s : (forall e, In e X -> vis k s e = false) ->
    cutget M F (V ++ X) k s = cutget M F V k s.
  Proof. intros H. unfold ReadCut.cutget. rewrite (newest_app_invis k s V) by exact H. reflexivity. Qed.

  Lemma cutget_rotate M V k s : cutget [] M V k s = cutget M [] V k s.
  Proof. unfold ReadCut.cutget. cbn [Lsm.newest]. destruct (newest k s M None); reflexivity. Qed.

  (* skipping the buffers when both miss *)
  Lemma cutget_miss M F V k s : newest k s M None = None -> newest k s F None = None ->
    cutget M F V k s = newest k s V None.
  Proof. intros A B. unfold ReadCut.cutget. rewrite A, B. reflexivity. Qed.

  Lemma cutget_hitM M F V V' k s e : newest k s M None = Some e -> cutget M F V k s = cutget M F V' k s.
  Proof. intros A. unfold ReadCut.cutget. rewrite A. reflexivity. Qed.

  Lemma cutget_hitF M F V V' k s e : newest k s F None = Some e -> cutget M F V k s = cutget M F V' k s.
  Proof. intros A. unfold ReadCut.cutget. destruct (newest k s M None); [reflexivity|]. rewrite A. reflexivity. Qed.

  (* adding to the version a block X none of whose entries is visible unless a buffer (M or F) already holds
     a visible entry of the key *)
  Lemma cutget_install M F V X k s :
    (newest k s M None = None -> newest k s F None = None -> forall e, In e X -> vis k s e = false) ->
    cutget M F (V ++ X) k s = cutget M F V k s.
  Proof.
    intros H. unfold ReadCut.cutget. destruct (newest k s M None) eqn:A; [reflexivity|].
    destruct (newest k s F None) eqn:B; [reflexivity|]. apply newest_app_invis. apply H; reflexivity.
  Qed.

  (* ---------------------------------------------------------------- executable helpers are sound *)
  Lemma entry_eqb_eq a b : entry_eqb a b = true -> a = b.
  Proof.
    unfold entry_eqb. intros H. apply andb_prop in H as [H H4]. apply andb_prop in H as [H H3].
    apply andb_prop in H as [H1 H2]. apply beq_eq in H1. apply beq_eq in H4.
    apply N.eqb_eq in H2. apply N.eqb_eq in H3. destruct a, b; cbn in *; subst; reflexivity.
  Qed.

  Lemma sub_entries_in a b : sub_entries a b = true -> forall e, In e a -> In e b.
  Proof.
    unfold sub_entries, mem_entry. intros H e He. rewrite forallb_forall in H. specialize (H e He).
    apply existsb_exists in H as [y [Hy E]]. apply entry_eqb_eq in E. subst. exact Hy.
  Qed.

  Lemma opt_bytes_eqb_eq a b : opt_bytes_eqb a b = true -> a = b.
  Proof. destruct a, b; cbn; try discriminate; try reflexivity. intros H. apply beq_eq in H. subst. reflexivity. Qed.

  Lemma is_nil_true {A} (l : list A) : is_nil l = true -> l = [].
  Proof. destruct l; [reflexivity|discriminate]. Qed.

  Lemma upd_same {A} (f : nat -> A) i x : upd f i x i = x.
  Proof. unfold upd. rewrite Nat.eqb_refl. reflexivity. Qed.
  Lemma upd_other {A} (f : nat -> A) i j x : j <> i -> upd f i x j = f j.
  Proof. unfold upd. intros H. destruct (Nat.eqb_spec j i); [contradiction|reflexivity]. Qed.

  Lemma unregister_in r l r' s : In (r', s) (unregister r l) -> In (r', s) l.
  Proof. unfold unregister. intros H. apply filter_In in H. tauto. Qed.
  Lemma unregister_other r l r' s : r' <> r -> In (r', s) l -> In (r', s) (unregister r l).
  Proof.
    unfold unregister. intros N H. apply filter_In. split; [exact H|]. cbn.
    destruct (Nat.eqb_spec r' r); [contradiction|reflexivity].
  Qed.

  (* the visible set of a list only changes at the sequence numbers of its entries *)
  Lemma vis_floor k s s0 e : s0 <= s -> (s0 < e_seq e -> s < e_seq e) -> vis k s e = vis k s0 e.
  Proof.
    intros H1 H2. unfold Lsm.vis. destruct (cmp c (e_uk e) k); [|reflexivity|reflexivity].
    destruct (e_seq e <=? s) eqn:A; destruct (e_seq e <=? s0) eqn:B; try reflexivity; lia.
  Qed.

  Lemma newest_floor k s s0 l acc : s0 <= s -> (forall e, In e l -> s0 < e_seq e -> s < e_seq e) ->
    newest k s l acc = newest k s0 l acc.
  Proof.
    intros H1. revert acc. induction l as [|e l IH]; intros acc H; cbn [Lsm.newest]; [reflexivity|].
    rewrite (vis_floor k s s0 e H1) by (apply H; left; reflexivity).
    apply IH. intros x Hx. apply H. right; exact Hx.
  Qed.

  (* among m and the sequence numbers >= m of l, the largest one <= s *)
  Fixpoint floor_of (s : N) (best : N) (cands : list N) : N :=
    match cands with
    | [] => best
    | x :: r => floor_of s (if (x <=? s) && (best <? x) then x else best) r
    end.

  Lemma floor_of_spec s cands : forall best, best <= s ->
    let f := floor_of s best cands in
    best <= f /\ f <= s /\ (f = best \/ In f cands) /\ (forall x, In x cands -> x <= s -> x <= f).
  Proof.
    induction cands as [|x r IH]; intros best Hb; cbn [floor_of].
    - cbn. split; [lia|]. split; [exact Hb|]. split; [left; reflexivity|]. intros x [].
    - destruct ((x <=? s) && (best <? x)) eqn:E.
      + apply andb_prop in E as [E1 E2]. apply N.leb_le in E1. apply N.ltb_lt in E2.
        destruct (IH x E1) as [A [B [C D]]]. cbn zeta in *. repeat split; try lia.
        * destruct C as [C|C]; [right; left; symmetry; exact C|right; right; exact C].
        * intros y [<-|Hy] Hys; [lia|]. apply D; assumption.
      + destruct (IH best Hb) as [A [B [C D]]]. cbn zeta in *. repeat split; try lia.
        * destruct C as [C|C]; [left; exact C|right; right; exact C].
        * intros y [<-|Hy] Hys; [|apply D; assumption].
          apply andb_false_iff in E as [E|E]; [apply N.leb_gt in E; lia|apply N.ltb_ge in E; lia].
  Qed.

  Lemma cmp_eq_vis k k' s e : cmp c k' k = Eq -> vis k s e = vis k' s e.
  Proof. intros H. apply (cmp_eq c ok) in H. subst. reflexivity. Qed.

  Definition rewrite_ok (st : state) (m : N) (v' : list entry) : Prop :=
    m <= d_seq st /\ (forall r s, In (r, s) (d_snaps st) -> m <= s) /\
    (forall e, In e v' -> In e (d_ver st)) /\
    (forall k s, m <= s -> res (newest k s v' None) = res (newest k s (d_ver st) None)).

  Lemma rewrite_okb_sound st m v' : rewrite_okb c p st m v' = true -> rewrite_ok st m v'.
  Proof.
    unfold rewrite_okb. intros H. apply andb_prop in H as [H H4]. apply andb_prop in H as [H H3].
    apply andb_prop in H as [H1 H2]. apply N.leb_le in H1.
    pose proof (sub_entries_in _ _ H3) as Sub.
    split; [exact H1|]. split; [|split; [exact Sub|]].
    - intros r s Hin. rewrite forallb_forall in H2. specialize (H2 (r, s) Hin). cbn in H2. apply N.leb_le in H2. exact H2.
    - intros k s Hs. cbn zeta in H4. rewrite forallb_forall in H4.
      set (V := d_ver st) in *.
      set (cands := map e_seq (filter (fun e => m <=? e_seq e) V)) in *.
      (* does any stored entry carry the key? *)
      destruct (existsb (fun e => match cmp c (e_uk e) k with Eq => true | _ => false end) V) eqn:EX.
      + apply existsb_exists in EX as [e0 [He0 Ek]].
        destruct (cmp c (e_uk e0) k) eqn:Ek'; try discriminate. clear Ek.
        specialize (H4 e0 He0). rewrite forallb_forall in H4.
        destruct (floor_of_spec s cands m Hs) as [A [B [C D]]]. cbn zeta in *.
        set (s0 := floor_of s m cands) in *.
        assert (Hin : In s0 (m :: cands)) by (destruct C as [C|C]; [left; symmetry; exact C|right; exact C]).
        specialize (H4 s0 Hin). apply opt_bytes_eqb_eq in H4.
        assert (Fl : forall l, (forall e, In e l -> In e V) -> newest k s l None = newest k s0 l None).
        { intros l Hl. apply newest_floor; [exact B|]. intros e He Hlt.
          destruct (N.lt_ge_cases s (e_seq e)) as [G|G]; [exact G|exfalso].
          assert (In (e_seq e) cands).
          { unfold cands. apply in_map. apply filter_In. split; [apply Hl; exact He|]. apply N.leb_le. lia. }
          specialize (D _ H G). lia. }
        rewrite (Fl v' Sub), (Fl V (fun e H => H)).
        assert (Kk : forall l, newest k s0 l None = newest (e_uk e0) s0 l None).
        { intros l. generalize (@None entry). induction l as [|x l IH]; intros acc; cbn [Lsm.newest]; [reflexivity|].
          rewrite (cmp_eq_vis k (e_uk e0) s0 x Ek'). apply IH. }
        rewrite !Kk. exact H4.
      + assert (NV : forall l, (forall e, In e l -> In e V) -> newest k s l None = None).
        { intros l Hl. apply newest_none_iff. intros x Hx. unfold Lsm.vis.
          destruct (cmp c (e_uk x) k) eqn:E; try reflexivity. exfalso.
          assert (existsb (fun e => match cmp c (e_uk e) k with Eq => true | _ => false end) V = true).
          { apply existsb_exists. exists x. split; [apply Hl; exact Hx|]. rewrite E. reflexivity. }
          congruence. }
        rewrite (NV v' Sub), (NV V (fun e H => H)). reflexivity.
  Qed.

  (* ---------------------------------------------------------------- the invariant *)
  Definition top (st : state) : N := d_seq st + d_wn st + d_tn st.

  (* sequence numbers a reader may still fix or have fixed and registered *)
  Definition prot (st : state) (s : N) : Prop := (exists r, In (r, s) (d_snaps st)) \/ d_seq st <= s.

  Definition hist_ext (st : state) (h0 : list entry) (s : N) : Prop :=
    exists tl, d_hist st = h0 ++ tl /\ forall e, In e tl -> s < e_seq e.

  Definition cap_ok (st : state) (x : reader) (V : list entry) : Prop :=
    forall k, res (cutget (d_hp st (r_m x)) (hpo (d_hp st) (r_f x)) V k (r_s x)) = spec (d_hist st) k (r_s x).

  Record rinv (st : state) (r : nat) (x : reader) : Prop := {
    ri_alt : r_ph x <> PVerOnly;
    ri_base : r_ph x <> PIdle -> r_s x <= d_seq st /\ hist_ext st (r_h0 x) (r_s x);
    ri_reg : r_reg x = true -> r_ph x <> PIdle /\ In (r, r_s x) (d_snaps st);
    ri_mems : r_ph x = PMems ->
      r_reg x = true /\ (r_m x <= d_cur st)%nat /\
      (forall j e, (r_m x < j)%nat -> In e (d_hp st j) -> r_s x < e_seq e) /\
      (r_m x = d_cur st -> d_frz st = None \/ r_f x = d_frz st) /\
      cap_ok st x (d_ver st);
    ri_ver : r_ph x = PVer -> cap_ok st x (r_v x)
  }.

  Record inv (st : state) : Prop := {
    i_hist : forall e, In e (d_hist st) -> e_seq e <= top st;
    i_hp : forall j e, In e (d_hp st j) -> e_seq e <= d_seq st + d_wn st;
    i_ver : forall e, In e (d_ver st) -> e_seq e <= top st;
    i_z : forall j, (d_cur st < j)%nat -> d_hp st j = [];
    i_frz : forall f, d_frz st = Some f -> S f = d_cur st;
    i_fl : d_fl st = true -> d_frz st <> None;
    i_fc : forall f x y, d_frz st = Some f -> In x (d_hp st f) -> In y (d_hp st (d_cur st)) -> e_seq x < e_seq y;
    i_l1 : forall x y, In x (d_ver st) -> In y (d_hp st (d_cur st)) -> e_seq x < e_seq y;
    i_l2 : forall f x y, d_frz st = Some f -> d_fl st = false -> In x (d_ver st) -> In y (d_hp st f) -> e_seq x < e_seq y;
    i_a : forall k s, prot st s ->
      res (cutget (d_hp st (d_cur st)) (hpo (d_hp st) (d_frz st)) (d_ver st) k s) = spec (d_hist st) k s;
    i_b : d_fl st = true -> forall k s, prot st s ->
      res (cutget [] (hpo (d_hp st) (d_frz st)) (d_ver st) k s) = res (newest k s (d_ver st) None);
    i_rd : forall r, rinv st r (d_rd st r);
    i_rlog : forall r s h0 k a, In (r, s, h0, k, a) (d_rlog st) ->
      a = spec (d_hist st) k s /\ s <= d_seq st /\ hist_ext st h0 s
  }.

  Lemma inv_init : inv init.
  Proof.
    constructor; unfold init, top, prot; sim.
    - intros e [].
    - intros j e [].
    - intros e [].
    - reflexivity.
    - discriminate.
    - discriminate.
    - discriminate.
    - intros x y [].
    - discriminate.
    - intros k s _. reflexivity.
    - discriminate.
    - intros r. unfold no_readers. constructor; sim; try discriminate; try congruence.
    - intros r s h0 k a [].
  Qed.

  (* ---------------------------------------------------------------- inversion of step *)
  Ltac boolsplit H :=
    repeat match type of H with
           | (_ && _) = true => let H1 := fresh H in apply andb_prop in H as [H H1]
           end.

  Lemma step_ins st w e st' : step st (AIns w e) = Some st' ->
    d_tn st = 0 /\ e_seq e = d_seq st + d_wn st + 1 /\
    st' = with_writer st (upd (d_hp st) (d_cur st) (d_hp st (d_cur st) ++ [e])) (Some w) (d_wn st + 1)
                      (d_hist st ++ [e]) (d_pend st ++ [e]).
  Proof.
    cbn [ReadCut.step]. destruct (_ && _) eqn:E; [|discriminate]. intros H. injection H as <-.
    boolsplit E. apply N.eqb_eq in E0, E1. auto.
  Qed.

  Lemma step_publish st w n st' : step st (APublish w n) = Some st' ->
    n = d_wn st /\ 0 < n /\ d_tn st = 0 /\ st' = with_publish st (d_seq st + n) (d_seq st, d_seq st + n, d_pend st).
  Proof.
    cbn [ReadCut.step]. destruct (_ && _) eqn:E; [|discriminate]. intros H. injection H as <-.
    boolsplit E. apply N.eqb_eq in E0, E2. apply N.ltb_lt in E1. auto.
  Qed.

  Lemma step_rotate st w st' : step st (ARotate w) = Some st' ->
    d_wn st = 0 /\ d_tn st = 0 /\ d_frz st = None /\
    st' = with_mems st (S (d_cur st)) (Some (d_cur st)) false (d_dropped st).
  Proof.
    cbn [ReadCut.step]. destruct (_ && _) eqn:E; [|discriminate]. destruct (d_frz st) eqn:F; [discriminate|].
    intros H. injection H as <-. boolsplit E. apply N.eqb_eq in E0, E1. auto.
  Qed.

  Lemma step_install st es st' : step st (AInstallTable es) = Some st' ->
    exists f, d_frz st = Some f /\ d_fl st = false /\ st' = with_ver st (d_ver st ++ d_hp st f) true (d_dropped st).
  Proof.
    cbn [ReadCut.step]. destruct (d_frz st) as [f|] eqn:F; [|discriminate].
    destruct (_ && _) eqn:E; [|discriminate]. intros H. injection H as <-.
    boolsplit E. exists f. split; [reflexivity|]. split; [destruct (d_fl st); [discriminate|reflexivity]|reflexivity].
  Qed.

  Lemma step_drop st st' : step st ADropFrozen = Some st' ->
    exists f, d_frz st = Some f /\ (d_fl st = true \/ d_hp st f = []) /\
              st' = with_mems st (d_cur st) None false (d_dropped st).
  Proof.
    cbn [ReadCut.step]. destruct (d_frz st) as [f|] eqn:F; [|discriminate].
    destruct (_ || _) eqn:E; [|discriminate]. intros H. injection H as <-.
    exists f. split; [reflexivity|]. split; [|reflexivity].
    apply orb_prop in E as [E|E]; [left; exact E|right; apply is_nil_true; exact E].
  Qed.

  Lemma step_rewrite st m v' st' : step st (AInstallRewrite m v') = Some st' ->
    rewrite_ok st m v' /\ st' = with_ver st v' (d_fl st) (d_dropped st).
  Proof.
    cbn [ReadCut.step]. destruct (rewrite_okb c p st m v') eqn:E; [|discriminate]. intros H. injection H as <-.
    split; [apply rewrite_okb_sound; exact E|reflexivity].
  Qed.

  Lemma step_txn st w es st' : step st (ATxnInstall w es) = Some st' ->
    d_wn st = 0 /\ d_tn st = 0 /\ d_hp st (d_cur st) = [] /\ d_frz st = None /\
    (forall e, In e es -> d_seq st < e_seq e <= d_seq st + N.of_nat (length es)) /\
    st' = with_txn st (d_ver st ++ es) (d_hist st ++ es) es (Some w) (N.of_nat (length es)).
  Proof.
    cbn [ReadCut.step]. destruct (_ && _) eqn:E; [|discriminate]. destruct (d_frz st) eqn:F; [discriminate|].
    intros H. injection H as <-. boolsplit E. apply N.eqb_eq in E3, E4. apply is_nil_true in E2.
    unfold txn_seqs_ok in E0. apply andb_prop in E0 as [E0 _]. rewrite forallb_forall in E0.
    repeat split; auto; specialize (E0 e H); apply andb_prop in E0 as [A B];
      [apply N.ltb_lt in A; exact A|apply N.leb_le in B; exact B].
  Qed.

  Lemma step_setseq st w s' st' : step st (ASetSeq w s') = Some st' ->
    0 < d_tn st /\ s' = d_seq st + d_tn st /\ d_wn st = 0 /\ st' = with_publish st s' (d_seq st, s', d_pend st).
  Proof.
    cbn [ReadCut.step]. destruct (_ && _) eqn:E; [|discriminate]. intros H. injection H as <-.
    boolsplit E. apply N.eqb_eq in E0, E1. apply N.ltb_lt in E2. auto.
  Qed.

  Lemma step_rseq st r s st' : step st (ARSeq r s) = Some st' ->
    r_ph (d_rd st r) = PIdle /\ s = d_seq st /\
    st' = with_reader st r {| r_ph := PSeq; r_reg := true; r_s := s; r_m := O; r_f := None; r_v := []; r_h0 := d_hist st |}
                      ((r, s) :: d_snaps st) (d_rlog st).
  Proof.
    cbn [ReadCut.step]. destruct (r_ph (d_rd st r)) eqn:P; try discriminate.
    destruct (s =? d_seq st) eqn:E; [|discriminate]. intros H. injection H as <-. apply N.eqb_eq in E. auto.
  Qed.

  Lemma step_rmems st r st' : step st (ARMems r) = Some st' ->
    r_ph (d_rd st r) <> PIdle /\ r_reg (d_rd st r) = true /\
    st' = with_reader st r (set_mems (d_rd st r) PMems (d_cur st) (d_frz st)) (d_snaps st) (d_rlog st).
  Proof.
    cbn [ReadCut.step]. cbn zeta. destruct (r_ph (d_rd st r)) eqn:P; try discriminate;
      (destruct (r_reg (d_rd st r)) eqn:R; [|discriminate]); intros H; injection H as <-;
      (split; [discriminate|auto]).
  Qed.

  Lemma step_rversion st r st' : step st (ARVersion r) = Some st' ->
    r_ph (d_rd st r) = PMems /\
    st' = with_reader st r (set_version (d_rd st r) PVer (d_ver st)) (d_snaps st) (d_rlog st).
  Proof.
    cbn [ReadCut.step]. cbn zeta. destruct (r_ph (d_rd st r)) eqn:P; try discriminate.
    intros H; injection H as <-; auto.
  Qed.

  Lemma cutget_hit_any M F V k s e : cutget M F [] k s = Some e -> cutget M F V k s = Some e.
  Proof.
    unfold ReadCut.cutget. destruct (newest k s M None); [auto|]. destruct (newest k s F None); [auto|].
    cbn [Lsm.newest]. discriminate.
  Qed.

  Lemma step_rlookup st r k ans st' : step st (ARLookup r k ans) = Some st' ->
    let x := d_rd st r in
    exists a,
      ((r_ph x = PVer /\ a = res (cutget (d_hp st (r_m x)) (hpo (d_hp st) (r_f x)) (r_v x) k (r_s x))) \/
       (r_ph x = PMems /\ a = res (cutget (d_hp st (r_m x)) (hpo (d_hp st) (r_f x)) (d_ver st) k (r_s x)))) /\
      a = ans /\
      st' = with_reader st r x (d_snaps st) ((r, r_s x, r_h0 x, k, a) :: d_rlog st).
  Proof.
    cbn [ReadCut.step]. cbn zeta. destruct (r_ph (d_rd st r)) eqn:P; try discriminate.
    - destruct (cutget _ _ [] k _) as [e|] eqn:C; [|discriminate].
      destruct (opt_bytes_eqb _ ans) eqn:E; [|discriminate]. intros H; injection H as <-.
      apply opt_bytes_eqb_eq in E. exists (res (Some e)). split; [|split; [exact E|reflexivity]].
      right. split; [reflexivity|]. rewrite (cutget_hit_any _ _ (d_ver st) _ _ _ C). reflexivity.
    - destruct (opt_bytes_eqb _ ans) eqn:E; [|discriminate]. intros H; injection H as <-.
      apply opt_bytes_eqb_eq in E. eexists. split; [left; split; reflexivity|]. split; [exact E|reflexivity].
  Qed.

  Lemma step_rrelease st r st' : step st (ARRelease r) = Some st' ->
    r_ph (d_rd st r) <> PIdle /\
    exists x', r_ph x' <> PMems /\ r_ph x' <> PIdle /\ r_ph x' <> PVerOnly /\ r_reg x' = false /\
               r_s x' = r_s (d_rd st r) /\ r_h0 x' = r_h0 (d_rd st r) /\
               (r_ph x' = PVer -> r_ph (d_rd st r) = PVer /\ r_m x' = r_m (d_rd st r) /\ r_f x' = r_f (d_rd st r) /\
                                  r_v x' = r_v (d_rd st r)) /\
               st' = with_reader st r x' (unregister r (d_snaps st)) (d_rlog st).
  Proof.
    cbn [ReadCut.step]. cbn zeta. destruct (r_ph (d_rd st r)) eqn:P; try discriminate.
    - destruct (r_reg (d_rd st r)) eqn:R; [|discriminate]. intros H; injection H as <-.
      split; [discriminate|]. exists (set_reg (d_rd st r) false). sim. rewrite P.
      split; [discriminate|]. split; [discriminate|]. split; [discriminate|]. split; [reflexivity|].
      split; [reflexivity|]. split; [reflexivity|]. split; [intros Q; discriminate Q|reflexivity].
    - intros H; injection H as <-.
      split; [discriminate|]. exists (set_reg (set_phase (d_rd st r) PSeq) false). sim.
      split; [discriminate|]. split; [discriminate|]. split; [discriminate|]. split; [reflexivity|].
      split; [reflexivity|]. split; [reflexivity|]. split; [intros Q; discriminate Q|reflexivity].
    - destruct (r_reg (d_rd st r)) eqn:R; [|discriminate]. intros H; injection H as <-.
      split; [discriminate|]. exists (set_reg (d_rd st r) false). sim. rewrite P.
      split; [discriminate|]. split; [discriminate|]. split; [discriminate|]. split; [reflexivity|].
      split; [reflexivity|]. split; [reflexivity|]. split; [intros _; auto|reflexivity].
  Qed.

  Lemma step_rdone st r st' : step st (ARDone r) = Some st' ->
    st' = with_reader st r idle_reader (d_snaps st) (d_rlog st).
  Proof.
    cbn [ReadCut.step]. cbn zeta. destruct (r_ph (d_rd st r)) eqn:P; try discriminate;
      (destruct (r_reg (d_rd st r)) eqn:R; [discriminate|]); intros H; injection H as <-; auto.
  Qed.

  (* ---------------------------------------------------------------- inserting an invisible entry *)
  Lemma newest_upd_ins hp cur e k s i : s < e_seq e ->
    newest k s (upd hp cur (hp cur ++ [e]) i) None = newest k s (hp i) None.
  Proof.
    intros H. unfold upd. destruct (Nat.eqb_spec i cur) as [->|N]; [|reflexivity].
    apply newest_app_invis. intros x [<-|[]]. apply vis_above. exact H.
  Qed.

  Lemma cutget_ins hp cur e k s m f V : s < e_seq e ->
    cutget (upd hp cur (hp cur ++ [e]) m) (hpo (upd hp cur (hp cur ++ [e])) f) V k s = cutget (hp m) (hpo hp f) V k s.
  Proof.
    intros H. unfold ReadCut.cutget. rewrite newest_upd_ins by exact H.
    destruct f as [f|]; cbn [hpo]; [rewrite newest_upd_ins by exact H|]; reflexivity.
  Qed.

  Lemma hist_ext_grow st h0 s tl' : hist_ext st h0 s -> (forall e, In e tl' -> s < e_seq e) ->
    exists tl, d_hist st ++ tl' = h0 ++ tl /\ forall e, In e tl -> s < e_seq e.
  Proof.
    intros [tl [E H]] H'. exists (tl ++ tl'). split; [rewrite E, app_assoc; reflexivity|].
    intros e He. apply in_app_or in He as [He|He]; auto.
  Qed.

  (* ---------------------------------------------------------------- preservation, action by action *)
  Lemma hpo_upd_frz st X : inv st ->
    hpo (upd (d_hp st) (d_cur st) X) (d_frz st) = hpo (d_hp st) (d_frz st).
  Proof.
    intros I. destruct (d_frz st) as [f|] eqn:F; [|reflexivity]. cbn [hpo].
    apply upd_other. pose proof (i_frz st I f F). lia.
  Qed.

  Lemma inv_ins st w e st' : inv st -> step st (AIns w e) = Some st' -> inv st'.
  Proof.
    intros I H. apply step_ins in H as [Ht [He ->]].
    set (hp' := upd (d_hp st) (d_cur st) (d_hp st (d_cur st) ++ [e])).
    assert (HpIn : forall j x, In x (hp' j) -> In x (d_hp st j) \/ (j = d_cur st /\ x = e)).
    { intros j x. unfold hp', upd. destruct (Nat.eqb_spec j (d_cur st)) as [->|N]; [|auto].
      intros Hx. apply in_app_or in Hx as [Hx|[<-|[]]]; auto. }
    assert (Hcur : hp' (d_cur st) = d_hp st (d_cur st) ++ [e]) by apply upd_same.
    assert (Bh : forall x, In x (d_hist st) -> e_seq x < e_seq e).
    { intros x Hx. pose proof (i_hist st I x Hx). unfold top in *. lia. }
    assert (Bv : forall x, In x (d_ver st) -> e_seq x < e_seq e).
    { intros x Hx. pose proof (i_ver st I x Hx). unfold top in *. lia. }
    assert (Bp : forall j x, In x (d_hp st j) -> e_seq x < e_seq e).
    { intros j x Hx. pose proof (i_hp st I j x Hx). lia. }
    assert (Hfrz : hpo hp' (d_frz st) = hpo (d_hp st) (d_frz st)) by (apply hpo_upd_frz; exact I).
    constructor; unfold top, prot in *; sim; fold hp'.
    - intros x Hx. apply in_app_or in Hx as [Hx|[<-|[]]]; [pose proof (i_hist st I x Hx); unfold top in *; lia|lia].
    - intros j x Hx. apply HpIn in Hx as [Hx|[_ ->]]; [pose proof (i_hp st I j x Hx); lia|lia].
    - intros x Hx. pose proof (i_ver st I x Hx). unfold top in *. lia.
    - intros j Hj. unfold hp'. rewrite upd_other by lia. apply (i_z st I). exact Hj.
    - apply (i_frz st I).
    - apply (i_fl st I).
    - intros f x y F Hx Hy. pose proof (i_frz st I f F) as Sf.
      unfold hp' in Hx. rewrite upd_other in Hx by lia. rewrite Hcur in Hy.
      apply in_app_or in Hy as [Hy|[<-|[]]]; [apply (i_fc st I f x y F Hx Hy)|apply (Bp f); exact Hx].
    - intros x y Hx Hy. rewrite Hcur in Hy.
      apply in_app_or in Hy as [Hy|[<-|[]]]; [apply (i_l1 st I x y Hx Hy)|apply Bv; exact Hx].
    - intros f x y F Fl Hx Hy. pose proof (i_frz st I f F) as Sf.
      unfold hp' in Hy. rewrite upd_other in Hy by lia. apply (i_l2 st I f x y F Fl Hx Hy).
    - intros k s Hs. rewrite Hfrz, Hcur. destruct (vis k s e) eqn:V.
      + unfold ReadCut.cutget, ReadCut.spec.
        rewrite (newest_snoc_top k s _ e V (Bp (d_cur st))).
        rewrite (newest_snoc_top k s _ e V Bh). reflexivity.
      + rewrite cutget_M_invis by (intros x [<-|[]]; exact V).
        unfold ReadCut.spec. rewrite newest_app_invis by (intros x [<-|[]]; exact V).
        apply (i_a st I). exact Hs.
    - intros Fl k s Hs. rewrite Hfrz. apply (i_b st I Fl). exact Hs.
    - intros r. pose proof (i_rd st I r) as R. set (x := d_rd st r) in *.
      destruct (r_ph x) eqn:P.
      + constructor; sim; try congruence. intros Rg. destruct (ri_reg _ _ _ R Rg). congruence.
      + destruct (ri_base _ _ _ R ltac:(congruence)) as [Sle Hx].
        constructor; sim; try congruence.
        * intros _. split; [exact Sle|]. apply hist_ext_grow; [exact Hx|]. intros y [<-|[]]. lia.
        * apply (ri_reg _ _ _ R).
      + destruct (ri_base _ _ _ R ltac:(congruence)) as [Sle Hx].
        destruct (ri_mems _ _ _ R P) as [Rg [Mle [D [E C]]]].
        constructor; sim; try congruence.
        * intros _. split; [exact Sle|]. apply hist_ext_grow; [exact Hx|]. intros y [<-|[]]. lia.
        * apply (ri_reg _ _ _ R).
        * intros _. split; [exact Rg|]. split; [exact Mle|]. split; [|split; [exact E|]].
          -- intros j y Hj Hy. apply HpIn in Hy as [Hy|[_ ->]]; [apply (D j y Hj Hy)|lia].
          -- intros k. unfold cap_ok in *; sim. fold hp'. unfold hp'. rewrite cutget_ins by lia.
             unfold ReadCut.spec. rewrite newest_app_invis by (intros y [<-|[]]; apply vis_above; lia).
             apply C.
      + destruct (ri_base _ _ _ R ltac:(congruence)) as [Sle Hx].
        pose proof (ri_ver _ _ _ R P) as C.
        constructor; sim; try congruence.
        * intros _. split; [exact Sle|]. apply hist_ext_grow; [exact Hx|]. intros y [<-|[]]. lia.
        * apply (ri_reg _ _ _ R).
        * intros _ k. unfold cap_ok in *; sim. fold hp'. unfold hp'. rewrite cutget_ins by lia.
          unfold ReadCut.spec. rewrite newest_app_invis by (intros y [<-|[]]; apply vis_above; lia).
          apply C.
      + destruct (ri_alt _ _ _ R P).
    - intros r s h0 k a Hin. destruct (i_rlog st I r s h0 k a Hin) as [A [B C]].
      split; [|split; [exact B|]].
      + unfold ReadCut.spec. rewrite newest_app_invis by (intros y [<-|[]]; apply vis_above; lia). exact A.
      + apply hist_ext_grow; [exact C|]. intros y [<-|[]]. lia.
  Qed.

  Definition mems_ok (st : state) (x : reader) : Prop :=
    (r_m x <= d_cur st)%nat /\
    (forall j e, (r_m x < j)%nat -> In e (d_hp st j) -> r_s x < e_seq e) /\
    (r_m x = d_cur st -> d_frz st = None \/ r_f x = d_frz st) /\
    cap_ok st x (d_ver st).

  (* what a step must re-establish for a reader it does not touch *)
  Lemma rinv_frame st st' r x :
    rinv st r x ->
    d_seq st <= d_seq st' ->
    (exists tl, d_hist st' = d_hist st ++ tl /\ forall e, In e tl -> d_seq st < e_seq e) ->
    (r_reg x = true -> In (r, r_s x) (d_snaps st) -> In (r, r_s x) (d_snaps st')) ->
    (r_ph x = PMems -> r_s x <= d_seq st -> In (r, r_s x) (d_snaps st) -> mems_ok st x -> mems_ok st' x) ->
    (r_ph x = PVer -> r_s x <= d_seq st -> cap_ok st x (r_v x) -> cap_ok st' x (r_v x)) ->
    rinv st' r x.
  Proof.
    intros R Hs [tl [Hh Htl]] Hsn Hm Hv. constructor.
    - apply (ri_alt _ _ _ R).
    - intros P. destruct (ri_base _ _ _ R P) as [A [tl0 [B C]]]. split; [lia|].
      exists (tl0 ++ tl). split; [rewrite Hh, B, app_assoc; reflexivity|].
      intros e He. apply in_app_or in He as [He|He]; [apply C; exact He|specialize (Htl e He); lia].
    - intros Rg. destruct (ri_reg _ _ _ R Rg) as [A B]. split; [exact A|apply Hsn; assumption].
    - intros P. destruct (ri_mems _ _ _ R P) as [Rg M].
      destruct (ri_base _ _ _ R ltac:(congruence)) as [A _]. destruct (ri_reg _ _ _ R Rg) as [_ B].
      split; [exact Rg|]. apply (Hm P A B). exact M.
    - intros P. destruct (ri_base _ _ _ R ltac:(congruence)) as [A _]. apply (Hv P A). apply (ri_ver _ _ _ R P).
  Qed.

  Lemma hist_same st : exists tl, d_hist st = d_hist st ++ tl /\ forall e, In e tl -> d_seq st < e_seq e.
  Proof. exists []. split; [rewrite app_nil_r; reflexivity|intros e []]. Qed.

  (* ---- publication (addSeq / setSeq) ---- *)
  Lemma inv_pub st s' g : inv st -> d_seq st + d_wn st <= s' -> s' = top st -> inv (with_publish st s' g).
  Proof.
    intros I H1 H2. unfold top in H2.
    assert (Pr : forall s, prot (with_publish st s' g) s -> prot st s).
    { unfold prot; sim. intros s [A|A]; [left; exact A|right; lia]. }
    constructor; unfold top; sim.
    - intros e He. pose proof (i_hist st I e He). unfold top in *. lia.
    - intros j e He. pose proof (i_hp st I j e He). lia.
    - intros e He. pose proof (i_ver st I e He). unfold top in *. lia.
    - apply (i_z st I).
    - apply (i_frz st I).
    - apply (i_fl st I).
    - apply (i_fc st I).
    - apply (i_l1 st I).
    - apply (i_l2 st I).
    - intros k s Hs. apply (i_a st I). apply Pr. exact Hs.
    - intros Fl k s Hs. apply (i_b st I Fl). apply Pr. exact Hs.
    - intros r. apply (rinv_frame st); sim; auto; try lia.
      + apply (i_rd st I).
      + apply hist_same.
    - intros r s h0 k a Hin. destruct (i_rlog st I r s h0 k a Hin) as [A [B C]]. split; [exact A|]. split; [lia|exact C].
  Qed.

  Lemma inv_publish st w n st' : inv st -> step st (APublish w n) = Some st' -> inv st'.
  Proof.
    intros I H. apply step_publish in H as [Hn [Hp [Ht ->]]]. apply inv_pub; [exact I|lia|unfold top; lia].
  Qed.

  Lemma inv_setseq st w s' st' : inv st -> step st (ASetSeq w s') = Some st' -> inv st'.
  Proof.
    intros I H. apply step_setseq in H as [Hp [Hs [Hw ->]]]. apply inv_pub; [exact I|lia|unfold top; lia].
  Qed.

  (* ---- rotation ---- *)
  Lemma inv_rotate st w st' : inv st -> step st (ARotate w) = Some st' -> inv st'.
  Proof.
    intros I H. apply step_rotate in H as [Hw [Ht [F ->]]].
    assert (Z : d_hp st (S (d_cur st)) = []) by (apply (i_z st I); lia).
    constructor; unfold top, prot; sim.
    - apply (i_hist st I).
    - apply (i_hp st I).
    - apply (i_ver st I).
    - intros j Hj. apply (i_z st I). lia.
    - intros f E. injection E as <-. reflexivity.
    - discriminate.
    - intros f x y E Hx Hy. rewrite Z in Hy. destruct Hy.
    - intros x y Hx Hy. rewrite Z in Hy. destruct Hy.
    - intros f x y E _ Hx Hy. injection E as <-. apply (i_l1 st I x y Hx Hy).
    - intros k s Hs. rewrite Z. cbn [hpo]. rewrite cutget_rotate.
      pose proof (i_a st I k s Hs) as A. rewrite F in A. cbn [hpo] in A. exact A.
    - discriminate.
    - intros r. apply (rinv_frame st); sim; auto; try lia.
      + apply (i_rd st I).
      + apply hist_same.
      + intros P Sle Hin [M [D [E C]]]. unfold mems_ok; sim. split; [lia|]. split; [exact D|]. split; [intros; lia|exact C].
    - apply (i_rlog st I).
  Qed.

  (* ---- flush: install, then drop ---- *)
  Lemma inv_install st es st' : inv st -> step st (AInstallTable es) = Some st' -> inv st'.
  Proof.
    intros I H. apply step_install in H as [f [F [Fl ->]]].
    pose proof (i_frz st I f F) as Sf.
    constructor; unfold top, prot; sim.
    - apply (i_hist st I).
    - apply (i_hp st I).
    - intros e He. apply in_app_or in He as [He|He]; [apply (i_ver st I e He)|].
      pose proof (i_hp st I f e He). unfold top. lia.
    - apply (i_z st I).
    - apply (i_frz st I).
    - intros _. congruence.
    - apply (i_fc st I).
    - intros x y Hx Hy. apply in_app_or in Hx as [Hx|Hx]; [apply (i_l1 st I x y Hx Hy)|apply (i_fc st I f x y F Hx Hy)].
    - discriminate.
    - intros k s Hs. rewrite cutget_install; [apply (i_a st I k s Hs)|].
      intros _ B. rewrite F in B. cbn [hpo] in B. apply newest_none_iff. exact B.
    - intros _ k s Hs. rewrite F. cbn [hpo]. unfold ReadCut.cutget. cbn [Lsm.newest].
      rewrite (newest_app c). destruct (newest k s (d_hp st f) None) as [y|] eqn:Y.
      + destruct (newest k s (d_ver st) None) as [a|] eqn:A; [|rewrite Y; reflexivity].
        apply newest_some_vis in A as [Ha _].
        rewrite newest_acc_none; [rewrite Y; reflexivity| |].
        * intros x Hx _. apply (i_l2 st I f a x F Fl Ha Hx).
        * exists y. apply newest_some_vis. exact Y.
      + rewrite newest_none_iff in Y. rewrite (newest_none c k s _ Y). reflexivity.
    - intros r. apply (rinv_frame st); sim; auto; try lia.
      + apply (i_rd st I).
      + apply hist_same.
      + intros P Sle Hin [M [D [E C]]]. unfold mems_ok; sim. split; [exact M|]. split; [exact D|]. split; [exact E|].
        intros k. unfold cap_ok in *; sim. rewrite cutget_install; [apply C|].
        intros A B. set (x := d_rd st r) in *.
        destruct (Nat.lt_trichotomy f (r_m x)) as [Lt|[Eq|Gt]].
        * assert (r_m x = d_cur st) as Em by lia. destruct (E Em) as [E'|E']; [congruence|].
          rewrite E', F in B. cbn [hpo] in B. apply newest_none_iff. exact B.
        * subst f. apply newest_none_iff. exact A.
        * apply invisible_above. intros e He. apply (D f e Gt He).
    - apply (i_rlog st I).
  Qed.

  Lemma inv_drop st st' : inv st -> step st ADropFrozen = Some st' -> inv st'.
  Proof.
    intros I H. apply step_drop in H as [f [F [Hd ->]]].
    constructor; unfold top, prot; sim.
    - apply (i_hist st I).
    - apply (i_hp st I).
    - apply (i_ver st I).
    - apply (i_z st I).
    - discriminate.
    - discriminate.
    - discriminate.
    - apply (i_l1 st I).
    - discriminate.
    - intros k s Hs. pose proof (i_a st I k s Hs) as A. rewrite <- A. rewrite F. cbn [hpo].
      destruct Hd as [Fl|E].
      + pose proof (i_b st I Fl k s Hs) as B. rewrite F in B. cbn [hpo] in B.
        unfold ReadCut.cutget in *. cbn [Lsm.newest] in *.
        destruct (newest k s (d_hp st (d_cur st)) None); [reflexivity|]. symmetry. exact B.
      + rewrite E. reflexivity.
    - discriminate.
    - intros r. apply (rinv_frame st); sim; auto; try lia.
      + apply (i_rd st I).
      + apply hist_same.
      + intros P Sle Hin [M [D [E C]]]. unfold mems_ok; sim. split; [exact M|]. split; [exact D|]. split; [intros; left; reflexivity|exact C].
    - apply (i_rlog st I).
  Qed.

  (* ---- table compaction / trivial move: an admissible rewrite of the version ---- *)
  Lemma inv_rewrite st m v' st' : inv st -> step st (AInstallRewrite m v') = Some st' -> inv st'.
  Proof.
    intros I H. apply step_rewrite in H as [[Hm [Hsn [Sub Hres]]] ->].
    assert (Pm : forall s, prot st s -> m <= s).
    { intros s [[r Hr]|Hs]; [apply (Hsn r s Hr)|lia]. }
    constructor; unfold top; sim.
    - apply (i_hist st I).
    - apply (i_hp st I).
    - intros e He. apply (i_ver st I). apply Sub. exact He.
    - apply (i_z st I).
    - apply (i_frz st I).
    - apply (i_fl st I).
    - apply (i_fc st I).
    - intros x y Hx Hy. apply (i_l1 st I x y (Sub x Hx) Hy).
    - intros f x y F Fl Hx Hy. apply (i_l2 st I f x y F Fl (Sub x Hx) Hy).
    - intros k s Hs. rewrite <- (i_a st I k s Hs). apply cutget_ver. apply Hres. apply Pm. exact Hs.
    - intros Fl k s Hs. rewrite (cutget_ver _ _ v' (d_ver st)) by (apply Hres; apply Pm; exact Hs).
      rewrite (i_b st I Fl k s Hs). symmetry. apply Hres. apply Pm. exact Hs.
    - intros r. apply (rinv_frame st); sim; auto; try lia.
      + apply (i_rd st I).
      + apply hist_same.
      + intros P Sle Hin [M [D [E C]]]. unfold mems_ok; sim. split; [exact M|]. split; [exact D|]. split; [exact E|].
        intros k. unfold cap_ok in *; sim. rewrite <- (C k). apply cutget_ver. apply Hres. apply (Hsn r). exact Hin.
    - apply (i_rlog st I).
  Qed.

  (* ---- transaction commit: tables first, sequence number second ---- *)
  Lemma inv_txn st w es st' : inv st -> step st (ATxnInstall w es) = Some st' -> inv st'.
  Proof.
    intros I H. apply step_txn in H as [Hw [Ht [Hm [F [Hes ->]]]]].
    assert (Above : forall s, s <= d_seq st -> forall e, In e es -> s < e_seq e).
    { intros s Hs e He. specialize (Hes e He). lia. }
    assert (Hx : exists tl, d_hist st ++ es = d_hist st ++ tl /\ forall e, In e tl -> d_seq st < e_seq e).
    { exists es. split; [reflexivity|]. intros e He. specialize (Hes e He). lia. }
    constructor; unfold top, prot; sim.
    - intros e He. apply in_app_or in He as [He|He]; [pose proof (i_hist st I e He); unfold top in *; lia|].
      specialize (Hes e He). lia.
    - apply (i_hp st I).
    - intros e He. apply in_app_or in He as [He|He]; [pose proof (i_ver st I e He); unfold top in *; lia|].
      specialize (Hes e He). lia.
    - apply (i_z st I).
    - apply (i_frz st I).
    - apply (i_fl st I).
    - apply (i_fc st I).
    - intros x y _ Hy. rewrite Hm in Hy. destruct Hy.
    - congruence.
    - intros k s Hs. pose proof (i_a st I k s Hs) as A. rewrite Hm, F in *. cbn [hpo] in *.
      unfold ReadCut.cutget, ReadCut.spec in *. cbn [Lsm.newest] in *.
      apply newest_append_newer; [exact A|].
      intros a x [Ha|Ha] Hx'; specialize (Hes x Hx');
        [pose proof (i_ver st I a Ha)|pose proof (i_hist st I a Ha)]; unfold top in *; lia.
    - intros Fl. exfalso. apply (i_fl st I Fl). exact F.
    - intros r. apply (rinv_frame st); sim; auto; try lia.
      + apply (i_rd st I).
      + intros P Sle Hin [M [D [E C]]]. unfold mems_ok; sim. split; [exact M|]. split; [exact D|]. split; [exact E|].
        intros k. unfold cap_ok in *; sim. rewrite cutget_V_invis by (apply invisible_above; apply Above; exact Sle).
        rewrite spec_app_above by (apply Above; exact Sle). apply C.
      + intros P Sle C k. unfold cap_ok in *; sim. rewrite spec_app_above by (apply Above; exact Sle). apply C.
    - intros r s h0 k a Hin. destruct (i_rlog st I r s h0 k a Hin) as [A [B C]].
      split; [|split; [exact B|]].
      + rewrite spec_app_above by (apply Above; exact B). exact A.
      + apply hist_ext_grow; [exact C|]. apply Above. exact B.
  Qed.

  (* ---- reader steps ---- *)
  Lemma inv_reader_frame st r x snaps rlog :
    inv st ->
    (forall s, prot (with_reader st r x snaps rlog) s -> prot st s) ->
    rinv (with_reader st r x snaps rlog) r x ->
    (forall r' y, r' <> r -> rinv st r' y -> r_reg y = true -> In (r', r_s y) (d_snaps st) -> In (r', r_s y) snaps) ->
    (forall r' s h0 k a, In (r', s, h0, k, a) rlog ->
        a = spec (d_hist st) k s /\ s <= d_seq st /\ hist_ext st h0 s) ->
    inv (with_reader st r x snaps rlog).
  Proof.
    intros I Pr Rx Ro Rl. constructor; unfold top; sim.
    - apply (i_hist st I).
    - apply (i_hp st I).
    - apply (i_ver st I).
    - apply (i_z st I).
    - apply (i_frz st I).
    - apply (i_fl st I).
    - apply (i_fc st I).
    - apply (i_l1 st I).
    - apply (i_l2 st I).
    - intros k s Hs. apply (i_a st I). apply Pr. exact Hs.
    - intros Fl k s Hs. apply (i_b st I Fl). apply Pr. exact Hs.
    - intros r'. unfold upd. destruct (Nat.eqb_spec r' r) as [->|N]; [exact Rx|].
      pose proof (i_rd st I r') as R.
      apply (rinv_frame st); sim;
        [exact R|lia|apply hist_same|intros Rg Hin; apply (Ro r' _ N R Rg Hin)|auto|auto].
    - exact Rl.
  Qed.

  Lemma inv_rseq st r s st' : inv st -> step st (ARSeq r s) = Some st' -> inv st'.
  Proof.
    intros I H. apply step_rseq in H as [P [-> ->]]. apply inv_reader_frame; [exact I| | | |apply (i_rlog st I)].
    - unfold prot; sim. intros s [[r' [E|Hin]]|Hs]; [injection E as _ <-; right; lia|left; exists r'; exact Hin|right; exact Hs].
    - constructor; sim; try discriminate.
      + intros _. split; [lia|]. exists []. split; [rewrite app_nil_r; reflexivity|intros e []].
      + intros _. split; [discriminate|left; reflexivity].
    - intros r' y N R Rg Hin. right. exact Hin.
  Qed.

  Lemma inv_rmems st r st' : inv st -> step st (ARMems r) = Some st' -> inv st'.
  Proof.
    intros I H. apply step_rmems in H as [Pn [Rg ->]].
    pose proof (i_rd st I r) as R. set (x := d_rd st r) in *.
    destruct (ri_base _ _ _ R Pn) as [Sle Hx]. destruct (ri_reg _ _ _ R Rg) as [_ Hin].
    apply inv_reader_frame; [exact I| | | |apply (i_rlog st I)].
    - unfold prot; sim. auto.
    - constructor; sim; try discriminate.
      + intros _. split; [exact Sle|exact Hx].
      + intros _. split; [discriminate|exact Hin].
      + intros _. split; [exact Rg|]. split; [lia|]. split; [|split; [intros _; right; reflexivity|]].
        * intros j e Hj He. rewrite (i_z st I j Hj) in He. destruct He.
        * intros k. sim. apply (i_a st I). left. exists r. exact Hin.
    - intros r' y N _ _ Hin'. exact Hin'.
  Qed.

  Lemma inv_rversion st r st' : inv st -> step st (ARVersion r) = Some st' -> inv st'.
  Proof.
    intros I H. apply step_rversion in H as [P ->].
    pose proof (i_rd st I r) as R. set (x := d_rd st r) in *.
    destruct (ri_base _ _ _ R ltac:(congruence)) as [Sle Hx].
    destruct (ri_mems _ _ _ R P) as [Rg [M [D [E C]]]].
    apply inv_reader_frame; [exact I| | | |apply (i_rlog st I)].
    - unfold prot; sim. auto.
    - constructor; sim; try discriminate.
      + intros _. split; [exact Sle|exact Hx].
      + intros _. split; [discriminate|]. apply (ri_reg _ _ _ R Rg).
      + intros _. exact C.
    - intros r' y N _ _ Hin'. exact Hin'.
  Qed.

  Lemma rinv_same_fields st st' r x :
    rinv st r x -> d_seq st' = d_seq st -> d_hist st' = d_hist st -> d_snaps st' = d_snaps st ->
    d_hp st' = d_hp st -> d_cur st' = d_cur st -> d_frz st' = d_frz st -> d_ver st' = d_ver st ->
    rinv st' r x.
  Proof.
    intros R E1 E2 E3 E4 E5 E6 E7. destruct R as [A B C D E].
    constructor; unfold hist_ext, cap_ok in *; rewrite ?E1, ?E2, ?E3, ?E4, ?E5, ?E6, ?E7; assumption.
  Qed.

  Lemma inv_rlookup st r k ans st' : inv st -> step st (ARLookup r k ans) = Some st' -> inv st'.
  Proof.
    intros I H. apply step_rlookup in H as [a [Pa [_ ->]]].
    pose proof (i_rd st I r) as R. set (x := d_rd st r) in *.
    assert (Pn : r_ph x <> PIdle) by (destruct Pa as [[P _]|[P _]]; rewrite P; discriminate).
    destruct (ri_base _ _ _ R Pn) as [Sle Hx].
    assert (Ca : a = spec (d_hist st) k (r_s x)).
    { destruct Pa as [[P ->]|[P ->]]; [apply (ri_ver _ _ _ R P)|].
      destruct (ri_mems _ _ _ R P) as [_ [_ [_ [_ C]]]]. apply C. }
    apply inv_reader_frame; [exact I| | | |].
    - unfold prot; sim. auto.
    - apply (rinv_same_fields st); auto.
    - intros r' y N _ _ Hin'. exact Hin'.
    - intros r' s h0 k' a' [E|Hin]; [|apply (i_rlog st I r' s h0 k' a' Hin)].
      injection E as <- <- <- <- <-. split; [exact Ca|]. split; [exact Sle|exact Hx].
  Qed.

  Lemma inv_rrelease st r st' : inv st -> step st (ARRelease r) = Some st' -> inv st'.
  Proof.
    intros I H. apply step_rrelease in H as [Pn [x' [Pm [Pi [Pa [Rg [Es [Eh [Pv ->]]]]]]]]].
    pose proof (i_rd st I r) as R. set (x := d_rd st r) in *.
    destruct (ri_base _ _ _ R Pn) as [Sle Hx].
    apply inv_reader_frame; [exact I| | | |apply (i_rlog st I)].
    - unfold prot; sim. intros s [[r' Hin]|Hs]; [left; exists r'; apply (unregister_in r); exact Hin|right; exact Hs].
    - constructor; sim.
      + exact Pa.
      + intros _. rewrite Es, Eh. split; [exact Sle|exact Hx].
      + rewrite Rg. discriminate.
      + intros P. contradiction.
      + intros P. destruct (Pv P) as [P0 [Em [Ef Ev]]]. pose proof (ri_ver _ _ _ R P0) as C.
        unfold cap_ok in *; sim. rewrite Em, Ef, Ev, Es. exact C.
    - intros r' y N _ _ Hin'. apply unregister_other; assumption.
  Qed.

  Lemma inv_rdone st r st' : inv st -> step st (ARDone r) = Some st' -> inv st'.
  Proof.
    intros I H. apply step_rdone in H as ->.
    apply inv_reader_frame; [exact I| | | |apply (i_rlog st I)].
    - unfold prot; sim. auto.
    - constructor; sim; try discriminate; congruence.
    - intros r' y N _ _ Hin'. exact Hin'.
  Qed.

  Lemma inv_step st a st' : inv st -> step st a = Some st' -> inv st'.
  Proof.
    intros I H. destruct a.
    - eapply inv_ins; eauto.
    - eapply inv_publish; eauto.
    - eapply inv_rotate; eauto.
    - eapply inv_install; eauto.
    - eapply inv_drop; eauto.
    - eapply inv_rewrite; eauto.
    - eapply inv_txn; eauto.
    - eapply inv_setseq; eauto.
    - eapply inv_rseq; eauto.
    - eapply inv_rmems; eauto.
    - eapply inv_rversion; eauto.
    - eapply inv_rlookup; eauto.
    - eapply inv_rrelease; eauto.
    - eapply inv_rdone; eauto.
  Qed.

  Lemma inv_run tr : forall st st', inv st -> run st tr = Some st' -> inv st'.
  Proof.
    induction tr as [|a tr IH]; intros st st' I H; cbn [ReadCut.run] in H.
    - injection H as <-. exact I.
    - destruct (step st a) as [st1|] eqn:S; [|discriminate]. apply (IH st1); [eapply inv_step; eauto|exact H].
  Qed.

  (* read_cut: in every reachable state every answered read returned the state of the database at the
     reader's sequence number — judged on the history as it is now, and (the same thing) on the history as it
     was at the instant the reader fixed that sequence number. *)
  Theorem read_cut tr st : run init tr = Some st ->
    forall r s h0 k a, In (r, s, h0, k, a) (d_rlog st) ->
      a = spec (d_hist st) k s /\ a = spec h0 k s /\ s <= d_seq st /\
      exists tl, d_hist st = h0 ++ tl /\ forall e, In e tl -> s < e_seq e.
  Proof.
    intros H r s h0 k a Hin. pose proof (inv_run tr init st inv_init H) as I.
    destruct (i_rlog st I r s h0 k a Hin) as [A [B [tl [C D]]]].
    split; [exact A|]. split; [|split; [exact B|exists tl; split; assumption]].
    rewrite A, C. apply spec_app_above. exact D.
  Qed.

  (* the invariant behind it, for readers still in flight: the captured buffers followed by the current
     (before ARVersion) or captured (after) version answer every key as the history does at s *)
  Theorem read_cut_inflight tr st : run init tr = Some st -> forall r, rinv st r (d_rd st r).
  Proof. intros H r. apply (i_rd st (inv_run tr init st inv_init H)). Qed.

  (* ---------------------------------------------------------------- publications are the linearisation points *)
  Definition g_lo (g : group) : N := fst (fst g).
  Definition g_hi (g : group) : N := snd (fst g).
  Definition g_es (g : group) : list entry := snd g.

  (* the published groups tile (0, seq] without gaps: newest first, each starts where the previous one ended *)
  Fixpoint glchain (t : N) (gl : list group) : Prop :=
    match gl with
    | [] => t = 0
    | g :: rest => g_hi g = t /\ g_lo g < g_hi g /\ glchain (g_lo g) rest
    end.

  (* a value db.seq has taken *)
  Definition pubpt (st : state) (s : N) : Prop := s = 0 \/ exists g, In g (d_glog st) /\ g_hi g = s.

  Record inv2 (st : state) : Prop := {
    w_len : N.of_nat (length (d_pend st)) = d_wn st + d_tn st;
    w_chain : glchain (d_seq st) (d_glog st);
    w_groups : forall g e, In g (d_glog st) -> In e (g_es g) -> In e (d_hist st) /\ g_lo g < e_seq e <= g_hi g;
    w_pend : forall e, In e (d_pend st) -> In e (d_hist st) /\ d_seq st < e_seq e;
    w_cover : forall e, In e (d_hist st) -> In e (d_pend st) \/ exists g, In g (d_glog st) /\ In e (g_es g);
    w_rd : forall r, r_ph (d_rd st r) <> PIdle -> pubpt st (r_s (d_rd st r));
    w_rlog : forall r s h0 k a, In (r, s, h0, k, a) (d_rlog st) -> pubpt st s
  }.

  Lemma inv2_init : inv2 init.
  Proof.
    constructor; unfold init, pubpt; sim.
    - reflexivity.
    - reflexivity.
    - intros g e [].
    - intros e [].
    - intros e [].
    - intros r H. exfalso. apply H. reflexivity.
    - intros r s h0 k a [].
  Qed.

  Lemma glchain_bound t gl : glchain t gl -> forall g, In g gl -> g_lo g < g_hi g /\ g_hi g <= t.
  Proof.
    revert t. induction gl as [|g0 gl IH]; intros t H g Hg; [destruct Hg|].
    cbn [glchain] in H. destruct H as [A [B C]]. destruct Hg as [<-|Hg]; [lia|].
    destruct (IH _ C g Hg). lia.
  Qed.

  (* a published value of db.seq never falls strictly inside a group *)
  Lemma glchain_sep t gl s : glchain t gl -> (s = 0 \/ exists g, In g gl /\ g_hi g = s) ->
    forall g, In g gl -> g_hi g <= s \/ s <= g_lo g.
  Proof.
    revert t. induction gl as [|g0 gl IH]; intros t H Hs g Hg; [destruct Hg|].
    cbn [glchain] in H. destruct H as [A [B C]].
    destruct Hs as [->|[g1 [Hg1 E]]]; [right; lia|].
    destruct Hg as [<-|Hg].
    - destruct Hg1 as [<-|Hg1]; [left; lia|]. destruct (glchain_bound _ _ C g1 Hg1). right. lia.
    - destruct Hg1 as [<-|Hg1].
      + destruct (glchain_bound _ _ C g Hg). left. lia.
      + apply (IH _ C); [right; exists g1; split; assumption|exact Hg].
  Qed.

  (* older groups end where newer ones begin *)
  Lemma glchain_order t gl1 g2 gl2 g1 : glchain t (gl1 ++ g2 :: gl2) -> In g1 gl2 -> g_hi g1 <= g_lo g2.
  Proof.
    revert t. induction gl1 as [|g0 gl1 IH]; intros t H Hg; cbn [app glchain] in H.
    - destruct H as [_ [_ C]]. destruct (glchain_bound _ _ C g1 Hg). lia.
    - destruct H as [_ [_ C]]. apply (IH _ C Hg).
  Qed.

  Lemma pubpt_mono st st' s : (forall g, In g (d_glog st) -> In g (d_glog st')) -> pubpt st s -> pubpt st' s.
  Proof. intros H [->|[g [Hg E]]]; [left; reflexivity|right; exists g; split; [apply H; exact Hg|exact E]]. Qed.

  Lemma pubpt_seq st : inv2 st -> pubpt st (d_seq st).
  Proof.
    intros W. pose proof (w_chain st W) as C. destruct (d_glog st) as [|g gl] eqn:G; unfold pubpt; rewrite G.
    - left. exact C.
    - right. exists g. split; [left; reflexivity|]. destruct C as [A _]. exact A.
  Qed.

  (* steps that leave the writer side, the history, the readers' sequence numbers and the read log alone *)
  Lemma inv2_same st st' : inv2 st ->
    d_pend st' = d_pend st -> d_wn st' = d_wn st -> d_tn st' = d_tn st -> d_seq st' = d_seq st ->
    d_glog st' = d_glog st -> d_hist st' = d_hist st -> d_rlog st' = d_rlog st ->
    (forall r, r_ph (d_rd st' r) <> PIdle -> r_ph (d_rd st r) <> PIdle /\ r_s (d_rd st' r) = r_s (d_rd st r)) ->
    inv2 st'.
  Proof.
    intros W E1 E2 E3 E4 E5 E6 E7 E8. destruct W as [A B C D E F G].
    constructor; unfold pubpt in *; rewrite ?E1, ?E2, ?E3, ?E4, ?E5, ?E6, ?E7; try assumption.
    intros r P. destruct (E8 r P) as [P' ->]. apply F. exact P'.
  Qed.

  Lemma inv2_pub st s' : inv st -> inv2 st -> d_seq st < s' -> s' = top st ->
    inv2 (with_publish st s' (d_seq st, s', d_pend st)).
  Proof.
    intros I W Hlt Ht. unfold top in Ht.
    assert (Mono : forall s, pubpt st s -> pubpt (with_publish st s' (d_seq st, s', d_pend st)) s).
    { intros s. apply pubpt_mono. sim. intros g Hg. right. exact Hg. }
    constructor; sim.
    - reflexivity.
    - cbn [glchain g_hi g_lo fst snd]. split; [reflexivity|]. split; [exact Hlt|apply (w_chain st W)].
    - intros g e [<-|Hg] He.
      + cbn [g_es g_lo g_hi fst snd] in *. destruct (w_pend st W e He) as [A B]. split; [exact A|].
        pose proof (i_hist st I e A). unfold top in *. lia.
      + apply (w_groups st W g e Hg He).
    - intros e [].
    - intros e He. right. destruct (w_cover st W e He) as [Hp|[g [Hg Hin]]].
      + eexists. split; [left; reflexivity|exact Hp].
      + exists g. split; [right; exact Hg|exact Hin].
    - intros r P. apply Mono. apply (w_rd st W r P).
    - intros r s h0 k a Hin. apply Mono. apply (w_rlog st W r s h0 k a Hin).
  Qed.

  Lemma inv2_reader st r x snaps rlog : inv2 st ->
    (r_ph x <> PIdle -> pubpt st (r_s x)) ->
    (forall r' s h0 k a, In (r', s, h0, k, a) rlog -> pubpt st s) ->
    inv2 (with_reader st r x snaps rlog).
  Proof.
    intros W Hx Hl. destruct W as [A B C D E F G]. constructor; unfold pubpt in *; sim; try assumption.
    intros r'. unfold upd. destruct (Nat.eqb_spec r' r) as [->|N]; [exact Hx|apply F].
  Qed.

  Lemma inv2_step st a st' : inv st -> inv2 st -> step st a = Some st' -> inv2 st'.
  Proof.
    intros I W H. destruct a.
    - (* AIns *)
      apply step_ins in H as [Ht [He ->]]. constructor; unfold pubpt; sim.
      + rewrite app_length. cbn [length]. pose proof (w_len st W). lia.
      + apply (w_chain st W).
      + intros g x Hg Hx. destruct (w_groups st W g x Hg Hx) as [A B]. split; [apply in_or_app; left; exact A|exact B].
      + intros x Hx. apply in_app_or in Hx as [Hx|[<-|[]]].
        * destruct (w_pend st W x Hx) as [A B]. split; [apply in_or_app; left; exact A|exact B].
        * split; [apply in_or_app; right; left; reflexivity|lia].
      + intros x Hx. apply in_app_or in Hx as [Hx|[<-|[]]].
        * destruct (w_cover st W x Hx) as [A|A]; [left; apply in_or_app; left; exact A|right; exact A].
        * left. apply in_or_app. right. left. reflexivity.
      + apply (w_rd st W).
      + apply (w_rlog st W).
    - (* APublish *)
      apply step_publish in H as [Hn [Hp [Ht ->]]]. apply inv2_pub; [exact I|exact W|lia|unfold top; lia].
    - apply step_rotate in H as [_ [_ [_ ->]]]. apply (inv2_same st); sim; auto.
    - apply step_install in H as [f [_ [_ ->]]]. apply (inv2_same st); sim; auto.
    - apply step_drop in H as [f [_ [_ ->]]]. apply (inv2_same st); sim; auto.
    - apply step_rewrite in H as [_ ->]. apply (inv2_same st); sim; auto.
    - (* ATxnInstall *)
      apply step_txn in H as [Hw [Ht [Hm [F [Hes ->]]]]].
      assert (Pn : d_pend st = []).
      { pose proof (w_len st W) as L. destruct (d_pend st); [reflexivity|]. cbn [length] in L. lia. }
      constructor; unfold pubpt; sim.
      + lia.
      + apply (w_chain st W).
      + intros g x Hg Hx. destruct (w_groups st W g x Hg Hx) as [A B]. split; [apply in_or_app; left; exact A|exact B].
      + intros x Hx. split; [apply in_or_app; right; exact Hx|]. specialize (Hes x Hx). lia.
      + intros x Hx. apply in_app_or in Hx as [Hx|Hx]; [|left; exact Hx].
        destruct (w_cover st W x Hx) as [A|A]; [rewrite Pn in A; destruct A|right; exact A].
      + apply (w_rd st W).
      + apply (w_rlog st W).
    - (* ASetSeq *)
      apply step_setseq in H as [Hp [Hs [Hw ->]]]. apply inv2_pub; [exact I|exact W|lia|unfold top; lia].
    - (* ARSeq *)
      apply step_rseq in H as [P [-> ->]]. apply inv2_reader; [exact W| |apply (w_rlog st W)].
      sim. intros _. apply pubpt_seq. exact W.
    - apply step_rmems in H as [P [Rg ->]]. apply inv2_reader; [exact W| |apply (w_rlog st W)].
      sim. intros _. apply (w_rd st W). exact P.
    - apply step_rversion in H as [P ->]. apply inv2_reader; [exact W| |apply (w_rlog st W)].
      sim. intros _. apply (w_rd st W). rewrite P; discriminate.
    - apply step_rlookup in H as [a0 [Pa [_ ->]]].
      assert (Pp : pubpt st (r_s (d_rd st r))).
      { apply (w_rd st W). destruct Pa as [[P _]|[P _]]; rewrite P; discriminate. }
      apply inv2_reader; [exact W|intros _; exact Pp|].
      intros r' s h0 k' a [E|Hin]; [injection E as _ <- _ _ _; exact Pp|apply (w_rlog st W r' s h0 k' a Hin)].
    - apply step_rrelease in H as [Pn [x' [_ [_ [_ [_ [Es [_ [_ ->]]]]]]]]]. apply inv2_reader; [exact W| |apply (w_rlog st W)].
      intros _. rewrite Es. apply (w_rd st W). exact Pn.
    - apply step_rdone in H as ->. apply inv2_reader; [exact W| |apply (w_rlog st W)].
      sim. intros N. exfalso. apply N. reflexivity.
  Qed.

  Lemma inv12_run tr : forall st st', inv st -> inv2 st -> run st tr = Some st' -> inv st' /\ inv2 st'.
  Proof.
    induction tr as [|a tr IH]; intros st st' I W H; cbn [ReadCut.run] in H.
    - injection H as <-. split; assumption.
    - destruct (step st a) as [st1|] eqn:S; [|discriminate].
      apply (IH st1); [eapply inv_step; eauto|eapply inv2_step; eauto|exact H].
  Qed.

  Lemma seq_mono_step st a st' : step st a = Some st' -> d_seq st <= d_seq st'.
  Proof.
    intros H. destruct a.
    - apply step_ins in H as [_ [_ ->]]; sim; lia.
    - apply step_publish in H as [_ [_ [_ ->]]]; sim; lia.
    - apply step_rotate in H as [_ [_ [_ ->]]]; sim; lia.
    - apply step_install in H as [f [_ [_ ->]]]; sim; lia.
    - apply step_drop in H as [f [_ [_ ->]]]; sim; lia.
    - apply step_rewrite in H as [_ ->]; sim; lia.
    - apply step_txn in H as [_ [_ [_ [_ [_ ->]]]]]; sim; lia.
    - apply step_setseq in H as [? [? [? ->]]]; sim; lia.
    - apply step_rseq in H as [_ [_ ->]]; sim; lia.
    - apply step_rmems in H as [_ [_ ->]]; sim; lia.
    - apply step_rversion in H as [_ ->]; sim; lia.
    - apply step_rlookup in H as [a0 [_ [_ ->]]]; sim; lia.
    - apply step_rrelease in H as [_ [x' [_ [_ [_ [_ [_ [_ [_ ->]]]]]]]]]; sim; lia.
    - apply step_rdone in H as ->; sim; lia.
  Qed.

  Lemma seq_mono_run tr : forall st st', run st tr = Some st' -> d_seq st <= d_seq st'.
  Proof.
    induction tr as [|a tr IH]; intros st st' H; cbn [ReadCut.run] in H.
    - injection H as <-. lia.
    - destruct (step st a) as [st1|] eqn:S; [|discriminate].
      pose proof (seq_mono_step _ _ _ S). specialize (IH _ _ H). lia.
  Qed.

  Lemma run_app tr1 : forall st tr2, run st (tr1 ++ tr2) =
    match run st tr1 with Some st1 => run st1 tr2 | None => None end.
  Proof.
    induction tr1 as [|a tr1 IH]; intros st tr2; cbn [app ReadCut.run]; [reflexivity|].
    destruct (step st a); [apply IH|reflexivity].
  Qed.

  Definition all_vis (s : N) (es : list entry) : Prop := forall e, In e es -> e_seq e <= s.
  Definition none_vis (s : N) (es : list entry) : Prop := forall e, In e es -> s < e_seq e.

  (* writes_linearize *)
  Theorem writes_linearize tr st : run init tr = Some st ->
    (* (1) the published groups tile (0, db.seq]; each lies wholly inside its own range; every entry ever
           written is in exactly the pending group or in a published one *)
    (glchain (d_seq st) (d_glog st) /\
     (forall g e, In g (d_glog st) -> In e (g_es g) -> In e (d_hist st) /\ g_lo g < e_seq e <= g_hi g) /\
     (forall e, In e (d_pend st) -> In e (d_hist st) /\ d_seq st < e_seq e) /\
     (forall e, In e (d_hist st) -> In e (d_pend st) \/ exists g, In g (d_glog st) /\ In e (g_es g))) /\
    (* (2) batch atomicity: a reader in flight, and every answered read, sees each published group entirely or
           not at all, and nothing of the group in progress *)
    (forall r, r_ph (d_rd st r) <> PIdle ->
       (forall g, In g (d_glog st) -> all_vis (r_s (d_rd st r)) (g_es g) \/ none_vis (r_s (d_rd st r)) (g_es g)) /\
       none_vis (r_s (d_rd st r)) (d_pend st)) /\
    (forall r s h0 k a, In (r, s, h0, k, a) (d_rlog st) ->
       (forall g, In g (d_glog st) -> all_vis s (g_es g) \/ none_vis s (g_es g)) /\ none_vis s (d_pend st)) /\
    (* (3) publication order: whoever sees a group sees every group published before it *)
    (forall gl1 g2 gl2 g1 s, d_glog st = gl1 ++ g2 :: gl2 -> In g1 gl2 ->
       (exists e, In e (g_es g2) /\ e_seq e <= s) -> all_vis s (g_es g1)) /\
    (* (4) real time: a reader that fixes its sequence number now sees every group published so far *)
    (forall r s st', step st (ARSeq r s) = Some st' ->
       s = d_seq st /\ forall g, In g (d_glog st) -> all_vis s (g_es g)) /\
    (* (5) later readers never go back: db.seq only grows *)
    (forall tr' st', run st tr' = Some st' -> d_seq st <= d_seq st').
  Proof.
    intros H. destruct (inv12_run tr init st inv_init inv2_init H) as [I W].
    assert (Sep : forall s, pubpt st s -> s <= d_seq st ->
              (forall g, In g (d_glog st) -> all_vis s (g_es g) \/ none_vis s (g_es g)) /\ none_vis s (d_pend st)).
    { intros s Ps Sle. split.
      - intros g Hg. destruct (glchain_sep _ _ s (w_chain st W) Ps g Hg) as [A|A].
        + left. intros e He. destruct (w_groups st W g e Hg He) as [_ B]. lia.
        + right. intros e He. destruct (w_groups st W g e Hg He) as [_ B]. lia.
      - intros e He. destruct (w_pend st W e He). lia. }
    split; [|split; [|split; [|split; [|split]]]].
    - split; [apply (w_chain st W)|]. split; [apply (w_groups st W)|]. split; [apply (w_pend st W)|apply (w_cover st W)].
    - intros r P. apply Sep; [apply (w_rd st W r P)|]. apply (ri_base _ _ _ (i_rd st I r) P).
    - intros r s h0 k a Hin. apply Sep; [apply (w_rlog st W r s h0 k a Hin)|].
      apply (i_rlog st I r s h0 k a Hin).
    - intros gl1 g2 gl2 g1 s E Hg1 [e [He Hs]] x Hx.
      pose proof (w_chain st W) as C. rewrite E in C. pose proof (glchain_order _ _ _ _ _ C Hg1) as O.
      assert (In g2 (d_glog st)) as Hg2 by (rewrite E; apply in_or_app; right; left; reflexivity).
      assert (In g1 (d_glog st)) as Hg1' by (rewrite E; apply in_or_app; right; right; exact Hg1).
      destruct (w_groups st W g2 e Hg2 He) as [_ B2]. destruct (w_groups st W g1 x Hg1' Hx) as [_ B1]. lia.
    - intros r s st' S. apply step_rseq in S as [_ [-> _]]. split; [reflexivity|].
      intros g Hg e He. destruct (w_groups st W g e Hg He) as [_ B].
      destruct (glchain_bound _ _ (w_chain st W) g Hg). lia.
    - intros tr' st' R. apply (seq_mono_run tr' st st' R).
  Qed.

  (* a client's successive reads: the second ARSeq never fixes a smaller sequence number *)
  Theorem reads_monotone tr1 r1 s1 tr2 r2 s2 tr3 st :
    run init (tr1 ++ ARSeq r1 s1 :: tr2 ++ ARSeq r2 s2 :: tr3) = Some st -> s1 <= s2.
  Proof.
    rewrite run_app. destruct (run init tr1) as [st1|] eqn:R1; [|discriminate]. cbn [ReadCut.run].
    destruct (step st1 (ARSeq r1 s1)) as [st2|] eqn:S1; [|discriminate].
    rewrite run_app. destruct (run st2 tr2) as [st3|] eqn:R2; [|discriminate]. cbn [ReadCut.run].
    destruct (step st3 (ARSeq r2 s2)) as [st4|] eqn:S2; [|discriminate]. intros _.
    apply step_rseq in S1 as [_ [-> E1]]. apply step_rseq in S2 as [_ [-> _]].
    pose proof (seq_mono_run _ _ _ R2). subst st2. sim. exact H.
  Qed.

  (* the instant: the (s, h0) of every answered read are db.seq and the history at the reader's own ARSeq *)
  Definition origin (tr : list action) (r : nat) (s : N) (h0 : list entry) : Prop :=
    exists tr1 tr2 st1, tr = tr1 ++ ARSeq r s :: tr2 /\ run init tr1 = Some st1 /\ d_seq st1 = s /\ d_hist st1 = h0.

  Lemma origin_snoc tr a r s h0 : origin tr r s h0 -> origin (tr ++ [a]) r s h0.
  Proof.
    intros [tr1 [tr2 [st1 [E R]]]]. exists tr1, (tr2 ++ [a]), st1. split; [|exact R].
    rewrite E, <- app_assoc. reflexivity.
  Qed.

  Definition oinv (tr : list action) (st : state) : Prop :=
    (forall r, r_ph (d_rd st r) <> PIdle -> origin tr r (r_s (d_rd st r)) (r_h0 (d_rd st r))) /\
    (forall r s h0 k a, In (r, s, h0, k, a) (d_rlog st) -> origin tr r s h0).

  Lemma oinv_same tr a st st' : oinv tr st -> d_rd st' = d_rd st -> d_rlog st' = d_rlog st -> oinv (tr ++ [a]) st'.
  Proof.
    intros [A B] E1 E2. split; rewrite ?E1, ?E2.
    - intros r P. apply origin_snoc. apply A. exact P.
    - intros r s h0 k x Hin. apply origin_snoc. apply (B r s h0 k x Hin).
  Qed.

  Lemma oinv_reader tr a st r x snaps rlog : oinv tr st ->
    (r_ph x <> PIdle -> origin (tr ++ [a]) r (r_s x) (r_h0 x)) ->
    (forall r' s h0 k y, In (r', s, h0, k, y) rlog -> origin (tr ++ [a]) r' s h0) ->
    oinv (tr ++ [a]) (with_reader st r x snaps rlog).
  Proof.
    intros [A B] Hx Hl. split; sim; [|exact Hl].
    intros r'. unfold upd. destruct (Nat.eqb_spec r' r) as [->|N]; [exact Hx|].
    intros P. apply origin_snoc. apply A. exact P.
  Qed.

  Lemma oinv_step tr st a st' : run init tr = Some st -> oinv tr st -> step st a = Some st' -> oinv (tr ++ [a]) st'.
  Proof.
    intros R O H. pose proof O as [OA OB].
    assert (Keep : forall r' s h0 k y, In (r', s, h0, k, y) (d_rlog st) -> origin (tr ++ [a]) r' s h0).
    { intros r' s h0 k y Hin. apply origin_snoc. apply (OB r' s h0 k y Hin). }
    destruct a.
    - apply step_ins in H as [_ [_ ->]]. apply (oinv_same tr _ st); auto.
    - apply step_publish in H as [_ [_ [_ ->]]]. apply (oinv_same tr _ st); auto.
    - apply step_rotate in H as [_ [_ [_ ->]]]. apply (oinv_same tr _ st); auto.
    - apply step_install in H as [f [_ [_ ->]]]. apply (oinv_same tr _ st); auto.
    - apply step_drop in H as [f [_ [_ ->]]]. apply (oinv_same tr _ st); auto.
    - apply step_rewrite in H as [_ ->]. apply (oinv_same tr _ st); auto.
    - apply step_txn in H as [_ [_ [_ [_ [_ ->]]]]]. apply (oinv_same tr _ st); auto.
    - apply step_setseq in H as [_ [_ [_ ->]]]. apply (oinv_same tr _ st); auto.
    - apply step_rseq in H as [P [-> ->]]. apply oinv_reader; [exact O| |exact Keep].
      sim. intros _. exists tr, [], st. auto.
    - apply step_rmems in H as [P [Rg ->]]. apply oinv_reader; [exact O| |exact Keep].
      sim. intros _. apply origin_snoc. apply OA. exact P.
    - apply step_rversion in H as [P ->]. apply oinv_reader; [exact O| |exact Keep].
      sim. intros _. apply origin_snoc. apply OA. rewrite P; discriminate.
    - apply step_rlookup in H as [a0 [Pa [_ ->]]].
      assert (Or : origin (tr ++ [ARLookup r k ans]) r (r_s (d_rd st r)) (r_h0 (d_rd st r))).
      { apply origin_snoc. apply OA. destruct Pa as [[P _]|[P _]]; rewrite P; discriminate. }
      apply oinv_reader; [exact O|intros _; exact Or|].
      intros r' s h0 k' y [E|Hin]; [injection E as <- <- <- _ _; exact Or|apply (Keep r' s h0 k' y Hin)].
    - apply step_rrelease in H as [Pn [x' [_ [_ [_ [_ [Es [Eh [_ ->]]]]]]]]]. apply oinv_reader; [exact O| |exact Keep].
      intros _. rewrite Es, Eh. apply origin_snoc. apply OA. exact Pn.
    - apply step_rdone in H as ->. apply oinv_reader; [exact O| |exact Keep].
      sim. intros N. exfalso. apply N. reflexivity.
  Qed.

  Lemma run_snoc tr a st : run st (tr ++ [a]) = match run st tr with Some st1 => step st1 a | None => None end.
  Proof.
    rewrite run_app. destruct (run st tr) as [st1|]; [|reflexivity]. cbn [ReadCut.run].
    destruct (step st1 a); reflexivity.
  Qed.

  Theorem read_instant tr : forall st, run init tr = Some st ->
    forall r s h0 k a, In (r, s, h0, k, a) (d_rlog st) ->
    exists tr1 tr2 st1, tr = tr1 ++ ARSeq r s :: tr2 /\ run init tr1 = Some st1 /\ d_seq st1 = s /\ d_hist st1 = h0.
  Proof.
    assert (forall st, run init tr = Some st -> oinv tr st) as K.
    { induction tr as [|a tr IH] using rev_ind; intros st R.
      - cbn in R. injection R as <-. split; unfold init; sim.
        + intros r N. exfalso. apply N. reflexivity.
        + intros r s h0 k a [].
      - rewrite run_snoc in R. destruct (run init tr) as [st1|] eqn:R1; [|discriminate].
        apply (oinv_step tr st1 a st R1 (IH st1 eq_refl) R). }
    intros st R r s h0 k a Hin. destruct (K st R) as [_ B]. apply (B r s h0 k a Hin).
  Qed.

  Lemma opt_bytes_eqb_refl a : opt_bytes_eqb a a = true.
  Proof. destruct a; cbn; [apply beq_eq; reflexivity|reflexivity]. Qed.

  (* the executable violation test never fires on the LTS *)
  Theorem no_violation tr st : run init tr = Some st -> violation c p st = false.
  Proof.
    intros H. unfold violation. destruct (existsb (wrong_read c p st) (d_rlog st)) eqn:E; [|reflexivity].
    apply existsb_exists in E as [[[[[r s] h0] k] a] [Hin W]]. unfold wrong_read in W.
    destruct (read_cut tr st H r s h0 k a Hin) as [A _]. rewrite <- A, opt_bytes_eqb_refl in W. discriminate.
  Qed.

  (* the alternative LTS is the same system: it differs from `step` only in the two actions of the reversed pair *)
  Lemma stepv_agrees v st a :
    match v, a with
    | VReaderVersionFirst, (ARVersion _ | ARMems _) => True
    | VDropBeforeInstall, (ADropFrozen | AInstallTable _) => True
    | VPublishBeforeInsert, (APublish _ _ | AIns _ _) => True
    | VSetSeqBeforeInstall, (ASetSeq _ _ | ATxnInstall _ _) => True
    | _, _ => stepv c p v st a = step st a
    end.
  Proof. destruct v, a; try exact I; reflexivity. Qed.
End Proofs.

(* ---------------------------------------------------------------- order_matters: concrete witnesses *)
Definition ex_e (k s v : N) : entry := {| e_uk := [k]; e_seq := s; e_kind := keyTypeVal kp; e_val := [v] |}.

(* the reader takes the version, a flush installs and drops, then the reader takes the buffers: the entry is in
   neither capture *)
Definition tr_reader_swapped : list action :=
  [AIns 0 (ex_e 1 1 10); APublish 0 1; ARSeq 7 1; ARVersion 7; ARotate 0; AInstallTable [ex_e 1 1 10]; ADropFrozen;
   ARMems 7; ARLookup 7 [1] None].

(* the flusher drops the frozen memdb, a reader runs, then the table is installed *)
Definition tr_drop_first : list action :=
  [AIns 0 (ex_e 1 1 10); APublish 0 1; ARotate 0; ADropFrozen; ARSeq 7 1; ARMems 7; ARVersion 7; ARLookup 7 [1] None;
   AInstallTable [ex_e 1 1 10]].

(* db.seq advanced before the group is in the memdb: the reader sees half of a two-key batch *)
Definition tr_publish_first : list action :=
  [APublish 0 2; AIns 0 (ex_e 1 1 10); ARSeq 7 2; ARMems 7; ARVersion 7; ARLookup 7 [1] (Some [10]); ARLookup 7 [2] None;
   AIns 0 (ex_e 2 2 10)].

(* db.seq set before the transaction's tables are in the version *)
Definition tr_setseq_first : list action :=
  [ASetSeq 0 1; ARSeq 7 1; ARMems 7; ARVersion 7; ARLookup 7 [1] None; ATxnInstall 0 [ex_e 1 1 10]].

Definition violates (v : variant) (tr : list action) : bool :=
  match runv bytewise kp v init tr with Some st => violation bytewise kp st | None => false end.

Lemma order_matters_witnesses :
  violates VReaderVersionFirst tr_reader_swapped = true /\
  violates VDropBeforeInstall tr_drop_first = true /\
  violates VPublishBeforeInsert tr_publish_first = true /\
  violates VSetSeqBeforeInstall tr_setseq_first = true /\
  (* and the LTS of the code refuses each of these traces: this is what the trace-inclusion check detects *)
  accepts bytewise kp tr_reader_swapped = false /\ accepts bytewise kp tr_drop_first = false /\
  accepts bytewise kp tr_publish_first = false /\ accepts bytewise kp tr_setseq_first = false.
Proof. vm_compute. repeat split. Qed.

Theorem order_matters :
  (exists tr st, runv bytewise kp VReaderVersionFirst init tr = Some st /\ violation bytewise kp st = true) /\
  (exists tr st, runv bytewise kp VDropBeforeInstall init tr = Some st /\ violation bytewise kp st = true) /\
  (exists tr st, runv bytewise kp VPublishBeforeInsert init tr = Some st /\ violation bytewise kp st = true) /\
  (exists tr st, runv bytewise kp VSetSeqBeforeInstall init tr = Some st /\ violation bytewise kp st = true).
Proof.
  assert (K : forall v tr, violates v tr = true ->
            exists tr st, runv bytewise kp v init tr = Some st /\ violation bytewise kp st = true).
  { intros v tr H. unfold violates in H. destruct (runv bytewise kp v init tr) as [st|] eqn:R; [|discriminate].
    exists tr, st. split; [exact R|exact H]. }
  destruct order_matters_witnesses as [A [B [C [D _]]]].
  split; [|split; [|split]]; eapply K; eassumption.
Qed.

(* non-vacuity of read_cut: the reader's three steps separated by a rotation, by the flush's install and by the
   drop, in three different ways; every trace is accepted and the answers are the published value *)
Definition tr_good1 : list action :=
  [AIns 0 (ex_e 1 1 10); APublish 0 1; ARSeq 7 1; ARotate 0; ARMems 7; AInstallTable [ex_e 1 1 10]; ADropFrozen;
   ARVersion 7; ARLookup 7 [1] (Some [10]); ARRelease 7; ARDone 7].
Definition tr_good2 : list action :=
  [AIns 0 (ex_e 1 1 10); APublish 0 1; ARSeq 7 1; ARMems 7; ARotate 0; AInstallTable [ex_e 1 1 10]; ADropFrozen;
   AIns 1 (ex_e 1 2 20); ARVersion 7; APublish 1 1; ARLookup 7 [1] (Some [10]); ARRelease 7; ARDone 7].
Definition tr_good3 : list action :=
  [AIns 0 (ex_e 1 1 10); AIns 0 (ex_e 2 2 10); APublish 0 2; ARotate 0; ARSeq 7 2; AInstallTable [ex_e 2 2 10; ex_e 1 1 10];
   ARMems 7; ADropFrozen; ATxnInstall 3 [ex_e 1 3 30]; ARVersion 7; ASetSeq 3 3; ARRelease 7;
   AInstallRewrite 3 [ex_e 2 2 10; ex_e 1 3 30];
   ARLookup 7 [1] (Some [10]); ARLookup 7 [2] (Some [10]); ARDone 7;
   ARSeq 8 3; ARMems 8; ARVersion 8; ARLookup 8 [1] (Some [30]); ARLookup 8 [2] (Some [10]); ARRelease 8; ARDone 8].

Lemma good_traces_accepted :
  accepts bytewise kp tr_good1 = true /\ accepts bytewise kp tr_good2 = true /\ accepts bytewise kp tr_good3 = true.
Proof. vm_compute. repeat split. Qed.
