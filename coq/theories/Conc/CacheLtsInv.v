(* Conc/CacheLtsInv.v — the invariant of the interleaved semantics (Conc/CacheLts.v) for the OPEN cache:
   every state reachable by any interleaving of Get/Release/Delete/Evict/EvictNS/EvictAll/SetCapacity
   actions of any number of goroutines — at the granularity "one critical section or atomic instruction
   per action", in particular with the decrement of a reference count and its zero-check as separate
   actions — satisfies the structural, reference-census, value and delFunc invariants of
   Conc/CacheInv.v, with  p = references held by pending instructions  and  zq = nodes whose zero-check
   is pending.  Close is not an action here (see CacheLtsProofs.v for what is shown about it).
   Proof file. *)
From GL Require Import Conc.Cache Conc.CacheLemmas Conc.CacheInv Conc.CacheProofs Conc.CacheTheorems Conc.CacheLts.
From Coq Require Import Lia.

(* ---------------------------------------------------------------- goroutine tables *)

Definition pendf (l : list (N * thread)) : N -> Z := fun x => pend_ref x l.

Lemma instr_ref_nonneg x i : (0 <= instr_ref x i)%Z.
Proof. destruct i; cbn [instr_ref]; try lia. all: destruct (x0 =? x)%N. all: lia. Qed.
Lemma code_ref_cons x i k : code_ref x (i :: k) = (instr_ref x i + code_ref x k)%Z.
Proof. reflexivity. Qed.
Lemma pend_ref_cons x p l : pend_ref x (p :: l) = (code_ref x (t_code (snd p)) + pend_ref x l)%Z.
Proof. reflexivity. Qed.
Lemma code_ref_nonneg x k : (0 <= code_ref x k)%Z.
Proof. induction k as [|i k IH]; [cbn; lia|]. rewrite code_ref_cons. pose proof (instr_ref_nonneg x i). lia. Qed.
Lemma pend_ref_nonneg x l : (0 <= pend_ref x l)%Z.
Proof. induction l as [|p l IH]; [cbn; lia|]. rewrite pend_ref_cons. pose proof (code_ref_nonneg x (t_code (snd p))). lia. Qed.

Lemma code_ref_app x a b : code_ref x (a ++ b) = (code_ref x a + code_ref x b)%Z.
Proof. induction a as [|i a IH]; [change (code_ref x b = (0 + code_ref x b)%Z); lia|]. cbn [app]. rewrite !code_ref_cons, IH. lia. Qed.

Lemma code_ref_decs x ext ev : code_ref x (decs ext ev) = Z.of_nat (count_occ N.eq_dec ev x).
Proof.
  induction ev as [|y ev IH]; [reflexivity|].
  change (decs ext (y :: ev)) with (IDec y ext :: decs ext ev). rewrite code_ref_cons, IH.
  cbn [instr_ref count_occ]. destruct (N.eq_dec y x) as [->|ne].
  - rewrite N.eqb_refl. lia.
  - apply N.eqb_neq in ne. rewrite ne. lia.
Qed.

Definition others (t : N) (l : list (N * thread)) : list (N * thread) := filter (fun p => negb (fst p =? t)) l.

Lemma pend_ref_others x t l : NoDup (map fst l) ->
  pend_ref x l = (code_ref x (t_code (get_thr t l)) + pend_ref x (others t l))%Z.
Proof.
  unfold get_thr, others. induction l as [|p l IH]; intro Hnd; [reflexivity|].
  cbn [map] in Hnd. inversion Hnd as [|? ? Hnot Hnd']; subst. cbn [find filter].
  destruct (N.eqb_spec (fst p) t) as [e|ne]; cbn [negb].
  - assert (filter (fun q => negb (fst q =? t)) l = l) as ->.
    { apply filter_all_id. intros q Hq. apply negb_true_iff, N.eqb_neq. intro e'. apply Hnot. rewrite e, <- e'. now apply in_map. }
    rewrite pend_ref_cons. reflexivity.
  - rewrite !pend_ref_cons, IH by exact Hnd'. lia.
Qed.

Lemma pend_ref_set x t th l : pend_ref x (set_thr t th l) = (code_ref x (t_code th) + pend_ref x (others t l))%Z.
Proof. reflexivity. Qed.

Lemma nodup_set t th l : NoDup (map fst l) -> NoDup (map fst (set_thr t th l)).
Proof.
  intro H. unfold set_thr. cbn. constructor.
  - intro Hin. apply in_map_iff in Hin. destruct Hin as (q & e & Hq). apply filter_In in Hq. destruct Hq as [_ Hq].
    apply negb_true_iff, N.eqb_neq in Hq. congruence.
  - now apply nodup_map_filter.
Qed.

Definition code_zero (x : N) (k : list instr) : bool := existsb (is_zero x) k.

Lemma zero_pending_others x t l : NoDup (map fst l) ->
  zero_pending l x = code_zero x (t_code (get_thr t l)) || zero_pending (others t l) x.
Proof.
  unfold zero_pending, get_thr, others, code_zero. induction l as [|p l IH]; cbn; intro Hnd; [reflexivity|].
  inversion Hnd as [|? ? Hnot Hnd']; subst. destruct (N.eqb_spec (fst p) t) as [e|ne]; cbn.
  - assert (filter (fun q => negb (fst q =? t)) l = l) as ->.
    { apply filter_all_id. intros q Hq. apply negb_true_iff, N.eqb_neq. intro e'. apply Hnot. rewrite e, <- e'. now apply in_map. }
    reflexivity.
  - rewrite IH by exact Hnd'. rewrite !orb_assoc. f_equal. apply orb_comm.
Qed.

Lemma zero_pending_set x t th l : zero_pending (set_thr t th l) x = code_zero x (t_code th) || zero_pending (others t l) x.
Proof. reflexivity. Qed.

Lemma code_zero_app x a b : code_zero x (a ++ b) = code_zero x a || code_zero x b.
Proof. unfold code_zero. apply existsb_app. Qed.

Lemma code_zero_decs x ext ev : code_zero x (decs ext ev) = false.
Proof. unfold code_zero, decs. induction ev; cbn; auto. Qed.

Lemma get_thr_in t l p : In p (others t l) -> In p l /\ fst p <> t.
Proof. unfold others. intro H. apply filter_In in H. destruct H as [A B]. apply negb_true_iff, N.eqb_neq in B. auto. Qed.

Lemma in_set_thr t th l p : In p (set_thr t th l) <-> p = (t, th) \/ In p (others t l).
Proof. unfold set_thr. cbn. split; intros [H|H]; auto. Qed.

Lemma get_thr_code_in t l : NoDup (map fst l) -> t_code (get_thr t l) <> [] -> In (t, get_thr t l) l.
Proof.
  unfold get_thr. intros _ H. destruct (find (fun p => fst p =? t) l) as [p|] eqn:F; [|cbn in H; congruence].
  apply find_some in F. destruct F as [Hin e]. apply N.eqb_eq in e. destruct p; cbn in *. subst. exact Hin.
Qed.

(* ---------------------------------------------------------------- invariant plumbing *)

Lemma Inv_zq_weaken zq zq' p s : (forall y, zq y = true -> zq' y = true) -> Inv zq p s -> Inv zq' p s.
Proof. intros W [A B C D]. split; auto. unfold InvR in *. eapply RInv_zq_weaken; eauto. Qed.

Lemma Inv_zq_ext zq zq' p s : (forall y, zq y = zq' y) -> Inv zq p s -> Inv zq' p s.
Proof. intros E. apply Inv_zq_weaken. intros y Hy. now rewrite <- E. Qed.

(* a node whose zero-check is no longer pending may leave zq when its count is positive again *)
Lemma Inv_zq_drop zq zr p s x :
  (forall y, zq y = zr y || (y =? x)) -> (forall n, In n (s_nodes s) -> n_id n = x -> zr x = false -> (0 < n_ref n)%Z) ->
  Inv zq p s -> Inv zr p s.
Proof.
  intros E Hx [A B C D]. split; auto. unfold InvR in *. destruct B as [P PD R PO FC HN HF HO HV ST S0]. split; auto.
  intros Hf n Hn Hq Hz. destruct (N.eq_dec (n_id n) x) as [e|ne].
  - apply Hx; auto. now rewrite <- e.
  - apply PO; auto. rewrite E, Hz. apply N.eqb_neq in ne. now rewrite ne.
Qed.

Definition valued (s : state) (x : N) : Prop := exists n, In n (s_nodes s) /\ n_id n = x /\ n_val n <> None.

Definition instr_ok (s : state) (i : instr) (rest : list instr) : Prop :=
  match i with
  | IPromote x | IHandle x => valued s x
  | IZero x ns key _ => x < s_next_nid s /\ forall n, In n (s_nodes s) -> n_id n = x -> n_ns n = ns /\ n_key n = key
  | IDelReg x | IBan x => In (IDec x false) rest
  | _ => True
  end.

Fixpoint code_ok (s : state) (k : list instr) : Prop :=
  match k with [] => True | i :: k' => instr_ok s i k' /\ code_ok s k' end.

Fixpoint prefix_ok (s : state) (new k : list instr) : Prop :=
  match new with [] => True | i :: n' => instr_ok s i (n' ++ k) /\ prefix_ok s n' k end.

Lemma code_ok_app s new k : prefix_ok s new k -> code_ok s k -> code_ok s (new ++ k).
Proof. induction new as [|i n IH]; cbn; auto. intros [A B] C. split; auto. Qed.

Lemma prefix_ok_decs s ext ev k : prefix_ok s (decs ext ev) k.
Proof. induction ev; cbn; auto. Qed.

Lemma code_ref_in_dec x k : In (IDec x false) k -> (1 <= code_ref x k)%Z.
Proof.
  induction k as [|i k IH]; [intros []|]. intros [->|H]; rewrite code_ref_cons.
  - cbn [instr_ref]. rewrite N.eqb_refl. pose proof (code_ref_nonneg x k). lia.
  - pose proof (instr_ref_nonneg x i). specialize (IH H). lia.
Qed.

(* the instructions other goroutines still hold stay well-formed across a step *)
Lemma code_ok_transfer zq p s s' k :
  Inv zq p s -> Inv zq p s' \/ True -> Ext s s' -> s_closed s' = false ->
  (forall x, valued s x -> (exists n', In n' (s_nodes s') /\ n_id n' = x) -> valued s' x) -> True ->
  code_ok s k -> (forall x, (0 < code_ref x k)%Z -> exists n', In n' (s_nodes s') /\ n_id n' = x) ->
  code_ok s' k.
Proof.
  intros H _ (E1 & E2 & E3) Hc Hv _. pose proof (inv_s _ _ _ H) as HS. unfold InvS in HS.
  induction k as [|i k IH]; cbn [code_ok]; auto. intros [Hi Hk] Hex. split.
  - destruct i; cbn [instr_ok] in *; auto.
    + apply Hv; auto. apply Hex. rewrite code_ref_cons. cbn [instr_ref]. rewrite N.eqb_refl. pose proof (code_ref_nonneg x k). lia.
    + apply Hv; auto. apply Hex. rewrite code_ref_cons. cbn [instr_ref]. rewrite N.eqb_refl. pose proof (code_ref_nonneg x k). lia.
    + destruct Hi as [Hlt Hkey]. split; [lia|]. intros n' Hn' Hx'.
      destruct (E3 n' Hn') as (m & Hm & i' & kk & _); [lia|]. unfold keyof in kk. inversion kk.
      destruct (Hkey m Hm) as [a b]; [congruence|]. split; congruence.
  - apply IH; auto. intros y Hy. apply Hex. rewrite code_ref_cons. pose proof (instr_ref_nonneg y i). lia.
Qed.

Lemma valued_ext zq p s s' x :
  Inv zq p s -> Ext s s' -> s_closed s' = false -> valued s x ->
  (exists n', In n' (s_nodes s') /\ n_id n' = x) -> valued s' x.
Proof.
  intros H (E1 & E2 & E3) Hc (n & Hn & Hx & Hv) (n' & Hn' & Hx'). pose proof (inv_s _ _ _ H) as HS. unfold InvS in HS.
  destruct (E3 n' Hn') as (m & Hm & i & _ & _ & v).
  { rewrite Hx', <- Hx. apply (si_fresh _ _ _ _ HS n Hn). }
  assert (m = n) as -> by (eapply same_id_eq; eauto; [apply (si_ids _ _ _ _ HS)|congruence]).
  exists n'. split; auto. split; auto. destruct (v Hv) as [e|e]; congruence.
Qed.

Lemma code_ok_step zq p s s' k :
  Inv zq p s -> Ext s s' -> s_closed s' = false -> code_ok s k ->
  (forall x, (0 < code_ref x k)%Z -> exists n', In n' (s_nodes s') /\ n_id n' = x) -> code_ok s' k.
Proof.
  intros H E Hc Hk Hex. eapply code_ok_transfer; eauto. intros x Hv Hx. eapply valued_ext; eauto.
Qed.

(* ---------------------------------------------------------------- one instruction *)

Section Step.
  Variable zr : N -> bool.      (* zero-checks pending elsewhere (other goroutines, rest of this code) *)
  Variable q : N -> Z.          (* references held elsewhere *)
  Hypothesis Hq : forall y, (0 <= q y)%Z.

  Definition post (g' : state) (new : list instr) : Prop :=
    Inv (fun y => code_zero y new || zr y) (fun y => (q y + code_ref y new)%Z) g' /\ CapOk g' /\ s_closed g' = false.

  Lemma post_intro g' new p' :
    (forall y, code_zero y new = false) -> Inv zr p' g' -> (forall y, p' y = (q y + code_ref y new)%Z) ->
    CapOk g' -> s_closed g' = false -> post g' new.
  Proof.
    intros Z H E C O. split; [|split]; auto. eapply Inv_zq_ext; [|eapply Inv_pext; [exact E|exact H]].
    intro y. now rewrite Z.
  Qed.


  (* ---- INode *)
  Lemma step_node g x sf g' new k :
    Inv zr (fun y => (q y + instr_ref y (INode x sf))%Z) g -> CapOk g -> s_closed g = false ->
    exec (INode x sf) g = (g', new) ->
    post g' new /\ Ext g g' /\ prefix_ok g' new k.
  Proof.
    intros H Hcap Hc E.
    destruct (node_of_pend _ _ _ x H) as (n & Hn & Hx). { cbn [instr_ref]. rewrite N.eqb_refl. specialize (Hq x). lia. }
    pose proof (inv_s _ _ _ H) as HS. unfold InvS in HS.
    cbn [exec] in E. rewrite <- Hx, (find_id_in _ n (si_ids _ _ _ _ HS) Hn), Hx in E.
    assert (forall z, valued z x -> prefix_ok z (if s_cacher g then [IPromote x] else [IHandle x]) k) as PO.
    { intros z Hv. destruct (s_cacher g); cbn; auto. }
    assert (forall y, code_zero y (if s_cacher g then [IPromote x] else [IHandle x]) = false) as ZF
      by (intro y; destruct (s_cacher g); reflexivity).
    assert (forall y, (q y + instr_ref y (INode x sf))%Z = (q y + code_ref y (if s_cacher g then [IPromote x] else [IHandle x]))%Z) as RF.
    { intro y. destruct (s_cacher g); cbn; lia. }
    destruct (n_val n) as [v|] eqn:V.
    - inversion E; subst g' new. split; [|split].
      + eapply post_intro; eauto.
      + apply ExtN_refl.
      + apply PO. exists n. split; auto. split; auto. congruence.
    - destruct sf as [|sz [|]]; inversion E; subst g' new; clear E.
      + split; [|split; [apply ExtN_refl|cbn; auto]].
        eapply post_intro; eauto. intro y. cbn. lia.
      + destruct (construct_ok _ _ g x n sz H Hc Hn Hx V) as (A & A'). cbv zeta in A, A'.
        split; [|split; [exact A'|]].
        * eapply post_intro; eauto.
        * apply PO. exists (nd_val (Some (s_next_vid g)) sz n). split; [unfold upd_node; sred; apply in_upd_same; auto|].
          split; [exact Hx|cbn; discriminate].
      + destruct (setnil_ok _ _ g x n H Hc Hn Hx V) as (A & A'). cbv zeta in A, A'.
        split; [|split; [exact A'|cbn; auto]].
        eapply post_intro; eauto. intro y. cbn. lia.
  Qed.

  Lemma padds_code y ev p : padds ev p y = (p y + code_ref y (decs true ev))%Z.
  Proof. unfold padds. now rewrite code_ref_decs. Qed.

  (* ---- IPromote *)
  Lemma step_promote g x g' new k :
    Inv zr (fun y => (q y + instr_ref y (IPromote x))%Z) g -> CapOk g -> s_closed g = false -> valued g x ->
    exec (IPromote x) g = (g', new) ->
    post g' new /\ Ext g g' /\ (forall z, valued z x -> prefix_ok z new k).
  Proof.
    intros H Hcap Hc (n & Hn & Hx & Hv) E.
    pose proof (forced_false_of_open _ _ _ H Hc) as Hfo.
    pose proof H as [HS HR HL HP]. unfold InvS, InvR, InvL in *.
    assert (forall ev z, valued z x -> prefix_ok z (decs true ev ++ [IHandle x]) k) as PO.
    { intros ev z Hz. induction ev; cbn; auto. }
    cbn [exec] in E. unfold promote_locked in E.
    rewrite <- Hx, (find_id_in _ n (si_ids _ _ _ _ HS) Hn), Hx in E.
    destruct (n_lru n) eqn:L.
    - destruct (n_size n <=? s_cap g) eqn:Csz.
      + pose proof (ri_ref _ _ _ _ _ _ _ _ _ HR Hfo n Hn) as Er. rewrite Hx in Er. cbn [instr_ref] in Er. rewrite N.eqb_refl in Er.
        pose proof (hcount_nonneg x (s_handles g)). pose proof (rcount_nonneg n). pose proof (Hq x).
        assert (n_ref n + 1 <=? 1 = false)%Z as Eq1 by (apply Z.leb_gt; lia). rewrite Eq1 in E.
        match type of E with context [run_evict_loop ?z] => change z with (promote_link x n g) in E end.
        unfold run_evict_loop in E.
        destruct (evict_loop (s_order (promote_link x n g)) (promote_link x n g)) as [s3 ev] eqn:E3.
        injection E as <- <-.
        assert (Inv zr (fun y => (q y + instr_ref y (IPromote x))%Z) (promote_link x n g)) as HP2 by (apply promote_link_ok; auto).
        destruct (evict_loop_ok _ _ _ _ _ _ HP2 eq_refl E3) as (A & B & D).
        split; [|split; [|apply PO]].
        * eapply post_intro; [| exact A | | exact B |].
          -- intro y. rewrite code_zero_app, code_zero_decs. reflexivity.
          -- intro y. rewrite padds_code, code_ref_app. cbn [instr_ref code_ref fold_right]. lia.
          -- destruct D as (_ & e & _). unfold promote_link, upd_node in e. sred. congruence.
        * eapply Ext_trans; [|apply (evict_loop_ext _ _ _ _ _ _ HP2 eq_refl E3)].
          unfold Ext, promote_link, upd_node. sred. apply ExtN_upd; [intro m; repeat split|].
          intros m Hm Hmx. assert (m = n) as -> by (eapply same_id_eq; eauto; [apply (si_ids _ _ _ _ HS)|congruence]).
          split; [rewrite L; discriminate|auto].
      + injection E as <- <-. split; [|split; [apply ExtN_refl|apply (PO [])]].
        eapply post_intro; eauto. intro y. cbn. lia.
    - (* linked: move to the most recent end *)
      assert (In x (s_order g)) as Hin.
      { apply (si_ord _ _ _ _ HS). exists n. repeat split; auto. unfold resident. now rewrite L. }
      unfold order_remove in E. rewrite (proj2 (in_order_true x (s_order g)) Hin) in E. sred.
      injection E as <- <-. split; [|split; [unfold Ext; sred; apply ExtN_refl|apply (PO [])]].
      eapply post_intro; [reflexivity| | | |].
      + split; unfold InvS, InvR, InvL; sred; eauto. now apply SInv_touch.
      + intro y. cbn. lia.
      + exact Hcap.
      + exact Hc.
    - injection E as <- <-. split; [|split; [apply ExtN_refl|apply (PO [])]].
      eapply post_intro; eauto. intro y. cbn. lia.
  Qed.

  (* ---- IHandle *)
  Lemma step_handle g x g' new :
    Inv zr (fun y => (q y + instr_ref y (IHandle x))%Z) g -> CapOk g -> s_closed g = false -> valued g x ->
    exec (IHandle x) g = (g', new) ->
    post g' new /\ Ext g g' /\ new = [].
  Proof.
    intros H Hcap Hc (n & Hn & Hx & Hv) E.
    pose proof H as [HS HR HL HP]. unfold InvS, InvR, InvL in *.
    cbn [exec] in E. rewrite <- Hx, (find_id_in _ n (si_ids _ _ _ _ HS) Hn), Hx in E.
    destruct (n_val n) as [v|] eqn:V; [|congruence]. injection E as <- <-.
    split; [|split; [unfold Ext; sred; apply ExtN_refl|reflexivity]].
    eapply post_intro; [reflexivity| | | exact Hcap | exact Hc].
    - split; unfold InvS, InvR, InvL; sred; eauto.
      eapply (RInv_hadd _ _ _ _ _ _ _ _ _ x n); eauto.
      + cbn [instr_ref]. rewrite N.eqb_refl. specialize (Hq x). lia.
      + intros _. congruence.
      + apply (si_ids _ _ _ _ HS).
    - intro y. unfold padd. cbn [instr_ref code_ref fold_right]. rewrite (N.eqb_sym y x). destruct (x =? y); lia.
  Qed.

  (* ---- IDec: the atomic decrement; when it returns 0 the zero-check becomes pending *)
  Lemma step_dec g x ext g' new k :
    Inv zr (fun y => (q y + instr_ref y (IDec x ext))%Z) g -> CapOk g -> s_closed g = false ->
    exec (IDec x ext) g = (g', new) ->
    post g' new /\ Ext g g' /\ prefix_ok g' new k.
  Proof.
    intros H Hcap Hc E.
    pose proof (forced_false_of_open _ _ _ H Hc) as Hfo.
    destruct (node_of_pend _ _ _ x H) as (n & Hn & Hx). { cbn [instr_ref]. rewrite N.eqb_refl. specialize (Hq x). lia. }
    pose proof H as [HS HR HL HP]. unfold InvS, InvR, InvL in *.
    cbn [exec] in E. rewrite <- Hx, (find_id_in _ n (si_ids _ _ _ _ HS) Hn), Hx in E.
    assert (Inv zr (padd x 1 q) g) as H1.
    { eapply Inv_pext; [|exact H]. intro y. unfold padd. cbn [instr_ref]. rewrite (N.eqb_sym y x). destruct (x =? y); lia. }
    destruct (Z.eqb_spec (n_ref n - 1) 0) as [e|ne]; injection E as <- <-.
    - (* hit zero *)
      split; [|split; [apply ref_upd_ext|]].
      + split; [|split]; [|exact Hcap|exact Hc].
        pose proof (ri_ref _ _ _ _ _ _ _ _ _ HR Hfo n Hn) as Er. rewrite Hx in Er. cbn [instr_ref] in Er. rewrite N.eqb_refl in Er.
        split; unfold InvS, InvR, InvL; unfold upd_node; sred; auto.
        * eapply (SInv_upd _ _ _ _ x _ n); eauto with cache; try reflexivity.
          intro Hr. cbn. apply (si_resval _ _ _ _ HS n Hn Hr).
        * eapply (RInv_upd _ (fun y => (q y + instr_ref y (IDec x ext))%Z) _ _ _ _ _ _ _ _ _ x _ n);
            [eapply RInv_zq_weaken; [|exact HR]|apply (si_ids _ _ _ _ HS)|exact Hn|exact Hx|auto with cache| | | | | | | ].
          -- intros y Hy. cbn in Hy. rewrite Hy. apply orb_true_r.
          -- intro y. cbn. specialize (Hq y). lia.
          -- intros y ney. cbn [instr_ref code_ref fold_right]. apply N.eqb_neq in ney. rewrite N.eqb_sym, ney. lia.
          -- intros _. change (n_ref n - 1 = hcount x (s_handles g) + rcount n + (q x + code_ref x [IZero x (n_ns n) (n_key n) ext]))%Z.
             cbn. lia.
          -- intros _ _ Hz. exfalso. cbn in Hz. rewrite Hx, N.eqb_refl in Hz. discriminate.
          -- intros _ Hh. cbn. apply (ri_hval _ _ _ _ _ _ _ _ _ HR Hfo n Hn). now rewrite Hx.
          -- intros _. unfold scontrib. cbn. lia.
          -- intros _. cbn. apply (ri_size0 _ _ _ _ _ _ _ _ _ HR Hc n Hn).
        * apply LInv_upd_same; auto with cache.
      + cbn. split; auto. split.
        * unfold upd_node. sred. rewrite <- Hx. apply (si_fresh _ _ _ _ HS n Hn).
        * unfold upd_node. sred. intros m Hm Hmx. apply in_upd in Hm. destruct Hm as (m0 & Hm0 & ->).
          assert (m0 = n) as ->.
          { destruct (N.eqb_spec (n_id m0) x) as [e0|ne0]; eapply same_id_eq; eauto; try apply (si_ids _ _ _ _ HS); cbn in Hmx; congruence. }
          rewrite Hx, N.eqb_refl. cbn. auto.
    - split; [|split; [apply ref_upd_ext|cbn; auto]].
      eapply post_intro; [reflexivity|apply dec_ok; eauto| |exact Hcap|exact Hc].
      intro y. cbn. lia.
  Qed.

  (* removing, under the bucket lock, a node whose count is 0 *)
  Lemma delete_zero_ok zq p g m :
    Inv zq p g -> s_closed g = false -> In m (s_nodes g) -> n_ref m = 0%Z ->
    Inv zq p (cache_delete (n_ns m) (n_key m) g).
  Proof.
    intros H Hc Hm Hr. pose proof (forced_false_of_open _ _ _ H Hc) as Hfo.
    pose proof H as [HS HR HL HP]. unfold InvS, InvR, InvL in *.
    destruct (RInv_ref0 _ _ _ _ _ _ _ _ _ _ HR Hm Hfo Hr) as (H0 & Hres & Hp).
    unfold cache_delete. rewrite (SInv_find_key _ _ _ _ _ HS Hm), Hr. cbn [Z.eqb].
    split; unfold InvS, InvR, InvL; sred; auto.
    - apply SInv_remove; auto.
    - eapply RInv_remove; eauto. apply (si_ids _ _ _ _ HS).
    - apply (LInv_fin (s_nodes g) _ (s_log g) _ _ _ _ m false); auto. apply (si_ids _ _ _ _ HS).
      + intros m' Hm'. apply CacheLemmas.in_remove in Hm'. left. exact Hm'.
      + intros m0 Hm0 ne. apply CacheLemmas.in_remove. auto.
  Qed.

  (* ---- IZero on the open cache: Cache.delete(n): look the key up again, re-check ref == 0 *)
  Lemma step_zero g x ns key ext g' new :
    Inv (fun y => (y =? x) || zr y) q g -> CapOk g -> s_closed g = false ->
    instr_ok g (IZero x ns key ext) [] ->
    exec (IZero x ns key ext) g = (g', new) ->
    (Inv zr q g' /\ CapOk g' /\ s_closed g' = false) /\ Ext g g' /\ new = [].
  Proof.
    intros H Hcap Hc [Hlt Hkey] E. pose proof (forced_false_of_open _ _ _ H Hc) as Hfo.
    pose proof H as [HS HR HL HP]. unfold InvS, InvR, InvL in *.
    cbn [exec] in E. rewrite Hc, andb_false_r in E. injection E as <- <-.
    split; [|split; [apply cache_delete_ext|reflexivity]].
    destruct (cache_delete_same ns key g) as (a1 & a2 & a3 & a4 & _).
    split; [|split; [eapply capok_same; eauto|congruence]].
    assert (Inv (fun y => (y =? x) || zr y) q (cache_delete ns key g) /\
            forall n', In n' (s_nodes (cache_delete ns key g)) -> n_id n' = x -> (0 < n_ref n')%Z) as (A & B).
    { unfold cache_delete at 1 2. destruct (find_key ns key (s_nodes g)) as [m|] eqn:F.
      - destruct (find_key_some _ _ _ _ F) as (Hm & Hns & Hk).
        destruct (Z.eqb_spec (n_ref m) 0) as [e|ne].
        + split.
          * pose proof (delete_zero_ok _ _ g m H Hc Hm e) as D. unfold cache_delete in D.
            rewrite Hns, Hk, F, e in D. exact D.
          * sred. intros n' Hn' Hx'. apply CacheLemmas.in_remove in Hn'. destruct Hn' as [Hn' ne'].
            destruct (Hkey n' Hn' Hx') as [kn kk].
            assert (n' = m).
            { pose proof (SInv_find_key _ _ _ _ _ HS Hn') as Fk. rewrite kn, kk in Fk. congruence. }
            congruence.
        + split; auto. intros n' Hn' Hx'. destruct (Hkey n' Hn' Hx') as [kn kk].
          assert (n' = m).
          { pose proof (SInv_find_key _ _ _ _ _ HS Hn') as Fk. rewrite kn, kk in Fk. congruence. }
          subst n'. pose proof (ri_ref _ _ _ _ _ _ _ _ _ HR Hfo m Hm) as Er.
          pose proof (hcount_nonneg (n_id m) (s_handles g)). pose proof (rcount_nonneg m). specialize (Hq (n_id m)). lia.
      - split; auto. intros n' Hn' Hx'. destruct (Hkey n' Hn' Hx') as [kn kk].
        pose proof (SInv_find_key _ _ _ _ _ HS Hn') as Fk. rewrite kn, kk in Fk. congruence. }
    apply (Inv_zq_drop (fun y => (y =? x) || zr y) zr q (cache_delete ns key g) x);
      [intro y; apply orb_comm|intros n' Hn' Hx' _; apply B; auto|exact A].
    Unshelve. exact zr.
  Qed.

  (* ---- IDelReg *)
  Lemma step_delreg g x g' new :
    Inv zr (fun y => (q y + instr_ref y (IDelReg x))%Z) g -> CapOk g -> s_closed g = false ->
    (1 <= q x)%Z ->
    exec (IDelReg x) g = (g', new) ->
    post g' new /\ Ext g g' /\ new = [].
  Proof.
    intros H Hcap Hc Hqx E.
    destruct (node_of_pend _ _ _ x H) as (n & Hn & Hx). { cbn [instr_ref]. lia. }
    pose proof (inv_s _ _ _ H) as HS. unfold InvS in HS.
    cbn [exec] in E. rewrite <- Hx, (find_id_in _ n (si_ids _ _ _ _ HS) Hn), Hx in E. injection E as <- <-.
    destruct (delreg_ok _ _ g x n H Hc Hn Hx) as (A & A'). cbv zeta in A, A'.
    split; [|split; [exact A'|reflexivity]].
    eapply post_intro; [reflexivity|exact A| |exact Hcap|exact Hc]. intro y. cbn. lia.
  Qed.

  (* the locked parts of Ban and Evict: a linked node is unlinked, its lru handle is to be released *)
  Lemma unlink_ok g x n l :
    Inv zr q g -> s_closed g = false -> In n (s_nodes g) -> n_id n = x -> n_lru n = LResident -> l <> LResident ->
    Inv zr (padd x 1 q)
      (set_used (s_used (order_remove x g) - Z.of_N (n_size n))%Z (upd_node x (nd_lru l) (order_remove x g))) /\
    s_panic (order_remove x g) = false.
  Proof.
    intros H Hc Hn Hx L Hl. pose proof (forced_false_of_open _ _ _ H Hc) as Hfo.
    pose proof H as [HS HR HL HP]. unfold InvS, InvR, InvL in *.
    assert (resident n = true) as Hres by (unfold resident; now rewrite L).
    assert (In x (s_order g)) as Hin by (apply (si_ord _ _ _ _ HS); exists n; auto).
    unfold order_remove. rewrite (proj2 (in_order_true x (s_order g)) Hin). split; [|exact HP].
    split; unfold InvS, InvR, InvL; unfold upd_node; sred; auto.
    - apply SInv_unlink; auto.
    - eapply (RInv_upd zr q (padd x 1 q) _ _ _ _ _ _ _ _ x _ n); [exact HR|apply (si_ids _ _ _ _ HS)|exact Hn|exact Hx|auto with cache| | | | | | | ].
      + intro y. unfold padd. pose proof (Hq y). destruct (y =? x); lia.
      + intros y ne. now rewrite padd_other.
      + intros _. pose proof (ri_ref _ _ _ _ _ _ _ _ _ HR Hfo n Hn) as E. rewrite Hx in E. rewrite padd_same.
        unfold rcount in *. rewrite Hres in E. destruct l; try congruence; cbn; lia.
      + intros _ Hq' Hz. cbn in *. apply (ri_pos _ _ _ _ _ _ _ _ _ HR Hfo n Hn Hq' Hz).
      + intros _ Hh. cbn. apply (ri_hval _ _ _ _ _ _ _ _ _ HR Hfo n Hn). now rewrite Hx.
      + intros _. unfold scontrib. cbn. lia.
      + intros _. cbn. apply (ri_size0 _ _ _ _ _ _ _ _ _ HR Hc n Hn).
    - apply LInv_upd_same; auto with cache.
  Qed.

  Lemma unlink_ext g x n l :
    Inv zr q g -> In n (s_nodes g) -> n_id n = x -> n_lru n = LResident ->
    Ext g (set_used (s_used (order_remove x g) - Z.of_N (n_size n))%Z (upd_node x (nd_lru l) (order_remove x g))).
  Proof.
    intros H Hn Hx L. pose proof (inv_s _ _ _ H) as HS. unfold InvS in HS.
    unfold Ext, order_remove. destruct (in_order x (s_order g)); unfold upd_node; sred;
      (apply (lru_upd_ext zr x l g n); [rewrite <- Hx; apply find_id_in; auto; apply (si_ids _ _ _ _ HS)|rewrite L; discriminate|apply (si_ids _ _ _ _ HS)]).
  Qed.

  Lemma capok_unlink g x n l : CapOk g ->
    CapOk (set_used (s_used (order_remove x g) - Z.of_N (n_size n))%Z (upd_node x (nd_lru l) (order_remove x g))).
  Proof.
    unfold CapOk, order_remove. destruct (in_order x (s_order g)); unfold upd_node; sred; lia.
  Qed.

  (* ---- IBan *)
  Lemma step_ban g x g' new k :
    Inv zr (fun y => (q y + instr_ref y (IBan x))%Z) g -> CapOk g -> s_closed g = false -> (1 <= q x)%Z ->
    exec (IBan x) g = (g', new) ->
    post g' new /\ Ext g g' /\ prefix_ok g' new k.
  Proof.
    intros H0 Hcap Hc Hqx E.
    assert (Inv zr q g) as H by (eapply Inv_pext; [|exact H0]; intro y; cbn; lia).
    pose proof (forced_false_of_open _ _ _ H Hc) as Hfo.
    destruct (node_of_pend _ _ _ x H) as (n & Hn & Hx); [lia|].
    pose proof H as [HS HR HL HP]. unfold InvS, InvR, InvL in *.
    cbn [exec] in E. unfold ban_locked in E. rewrite <- Hx, (find_id_in _ n (si_ids _ _ _ _ HS) Hn), Hx in E.
    destruct (n_lru n) eqn:L; injection E as <- <-.
    - assert (resident n = false) as Hres by (unfold resident; now rewrite L).
      split; [|split; [|cbn; auto]].
      + eapply (post_intro _ _ q); [reflexivity| |intro y; cbn; lia|exact Hcap|exact Hc].
        split; unfold InvS, InvR, InvL; unfold upd_node; sred; auto.
        * eapply (SInv_upd _ _ _ _ x _ n); eauto with cache.
          -- unfold ucontrib. cbn. unfold resident in *. cbn. now rewrite L.
          -- congruence.
        * eapply (RInv_upd zr q q _ _ _ _ _ _ _ _ x _ n); [exact HR|apply (si_ids _ _ _ _ HS)|exact Hn|exact Hx|auto with cache|exact Hq|auto| | | | | ].
          -- intros _. pose proof (ri_ref _ _ _ _ _ _ _ _ _ HR Hfo n Hn) as Er. rewrite Hx in Er.
             unfold rcount in *. rewrite Hres in Er. cbn. lia.
          -- intros _ Hq' Hz. cbn in *. apply (ri_pos _ _ _ _ _ _ _ _ _ HR Hfo n Hn Hq' Hz).
          -- intros _ Hh. cbn. apply (ri_hval _ _ _ _ _ _ _ _ _ HR Hfo n Hn). now rewrite Hx.
          -- intros _. unfold scontrib. cbn. lia.
          -- intros _. cbn. apply (ri_size0 _ _ _ _ _ _ _ _ _ HR Hc n Hn).
        * apply LInv_upd_same; auto with cache.
      + unfold Ext, upd_node. sred. apply ExtN_upd; [auto with cache|]. intros m _ _. split; auto.
    - destruct (unlink_ok g x n LBanned H Hc Hn Hx L ltac:(discriminate)) as (A & _).
      split; [|split; [eapply unlink_ext; eauto|cbn; auto]].
      eapply post_intro; [reflexivity|exact A| |apply capok_unlink; exact Hcap|].
      + intro y. unfold padd. cbn [decs map code_ref fold_right instr_ref]. rewrite (N.eqb_sym y x). destruct (x =? y); lia.
      + unfold order_remove. destruct (in_order x (s_order g)); unfold upd_node; sred; exact Hc.
    - split; [|split; [apply ExtN_refl|cbn; auto]].
      eapply post_intro; [reflexivity|exact H| |exact Hcap|exact Hc]. intro y. cbn. lia.
  Qed.

  (* ---- IEvict (possibly on a stale pointer: the node may be gone) *)
  Lemma step_evict g x g' new k :
    Inv zr (fun y => (q y + instr_ref y (IEvict x))%Z) g -> CapOk g -> s_closed g = false ->
    exec (IEvict x) g = (g', new) ->
    post g' new /\ Ext g g' /\ prefix_ok g' new k.
  Proof.
    intros H0 Hcap Hc E.
    assert (Inv zr q g) as H by (eapply Inv_pext; [|exact H0]; intro y; cbn; lia).
    cbn [exec] in E. unfold evict_locked in E.
    assert (post g [] /\ Ext g g /\ prefix_ok g [] k) as Same.
    { split; [|split; [apply ExtN_refl|cbn; auto]].
      eapply post_intro; [reflexivity|exact H| |exact Hcap|exact Hc]. intro y. cbn. lia. }
    destruct (find_id x (s_nodes g)) as [n|] eqn:F; [|injection E as <- <-; exact Same].
    destruct (find_id_some _ _ _ F) as [Hn Hx].
    destruct (n_lru n) eqn:L; injection E as <- <-; try exact Same.
    destruct (unlink_ok g x n LAbsent H Hc Hn Hx L ltac:(discriminate)) as (A & _).
    split; [|split; [eapply unlink_ext; eauto|cbn; auto]].
    eapply post_intro; [reflexivity|exact A| |apply capok_unlink; exact Hcap|].
    + intro y. unfold padd. cbn [decs map code_ref fold_right instr_ref]. rewrite (N.eqb_sym y x). destruct (x =? y); lia.
    + unfold order_remove. destruct (in_order x (s_order g)); unfold upd_node; sred; exact Hc.
  Qed.
End Step.

(* ---------------------------------------------------------------- starting an operation *)

Definition not_close (o : op) : Prop := match o with OClose _ => False | _ => True end.

Lemma code_ref_evicts y l : code_ref y (map IEvict l) = 0%Z.
Proof. induction l as [|x l IH]; [reflexivity|]. cbn [map]. rewrite code_ref_cons, IH. reflexivity. Qed.
Lemma code_zero_evicts y l : code_zero y (map IEvict l) = false.
Proof. unfold code_zero. induction l; cbn; auto. Qed.
Lemma code_ok_evicts s l : code_ok s (map IEvict l).
Proof. induction l; cbn; auto. Qed.
Lemma code_ok_decs s ext ev : code_ok s (decs ext ev).
Proof. induction ev; cbn; auto. Qed.

Lemma start_ok zr q g o b g' code rl :
  (forall y, 0 <= q y)%Z -> Inv zr q g -> CapOk g -> s_closed g = false -> not_close o ->
  start o b g = Some (g', code, rl) ->
  Inv zr (fun y => (q y + code_ref y code)%Z) g' /\ CapOk g' /\ s_closed g' = false /\ Ext g g' /\
  code_ok g' code /\ (forall y, code_zero y code = false).
Proof.
  intros Hq H Hcap Hc Hnc E.
  assert (forall s', Inv zr q s' -> CapOk s' -> s_closed s' = false -> Ext g s' ->
            Inv zr (fun y => (q y + code_ref y [])%Z) s' /\ CapOk s' /\ s_closed s' = false /\ Ext g s' /\
            code_ok s' [] /\ (forall y, code_zero y [] = false)) as Nop.
  { intros s' A B C D. split; [|split; [|split; [|split; [|split]]]]; auto; [|cbn; auto].
    eapply Inv_pext; [|exact A]. intro y. cbv beta. change (code_ref y []) with 0%Z. lia. }
  pose proof H as [HS HR HL HP]. unfold InvS, InvR, InvL in *.
  destruct o; cbn [start] in E; try contradiction.
  - (* Get *)
    rewrite Hc in E.
    destruct (bucket_get ns key match sf with SfNil => true | SfRet _ _ => false end g) as [s1 r] eqn:B.
    destruct (bucket_get_ok _ _ g _ _ _ _ _ H Hc B) as (M & U & O & Ex & D & R).
    pose proof M as (m1 & m2 & m3 & m4 & m5 & m6 & m7 & m8).
    destruct r as [x|]; injection E as <- <- <-.
    + destruct R as (H1 & n & Hn & Hx & _). split; [|split; [|split; [|split; [|split]]]]; auto.
      * eapply Inv_pext; [|exact H1]. intro y. unfold padd. cbn. rewrite (N.eqb_sym y x). destruct (x =? y); lia.
      * eapply capok_same; eauto.
      * congruence.
      * cbn. auto.
    + subst s1. apply Nop; auto; apply ExtN_refl.
  - (* Release *)
    destruct (find (fun p => fst p =? h) (s_handles g)) as [[h' x]|] eqn:F; injection E as <- <- <-.
    + destruct (find_handle_some _ _ _ F) as [Hin Hh]. cbn in Hh. subst h'. cbn [snd].
      split; [|split; [|split; [|split; [|split]]]]; auto.
      * eapply Inv_pext with (p := padd x 1 q).
        -- intro y. unfold padd. cbn. rewrite (N.eqb_sym y x). destruct (x =? y); lia.
        -- split; unfold InvS, InvR, InvL; sred; auto. apply (RInv_hdel _ _ _ _ _ _ _ _ _ h x HR Hin).
      * unfold Ext. sred. apply ExtN_refl.
      * cbn. auto.
    + apply Nop; auto; apply ExtN_refl.
  - (* Delete *)
    rewrite Hc in E.
    destruct (bucket_get ns key true g) as [s1 r] eqn:B.
    destruct (bucket_get_ok _ _ g _ _ _ _ _ H Hc B) as (M & U & O & Ex & D & R).
    pose proof M as (m1 & m2 & m3 & m4 & m5 & m6 & m7 & m8).
    destruct r as [x|]; injection E as <- <- <-.
    + destruct R as (H1 & n & Hn & Hx & _). split; [|split; [|split; [|split; [|split]]]]; auto.
      * eapply Inv_pext; [|exact H1]. intro y. unfold padd. rewrite !code_ref_app.
        destruct with_del; destruct (s_cacher s1); cbn; rewrite (N.eqb_sym y x); destruct (x =? y); lia.
      * eapply capok_same; eauto.
      * congruence.
      * destruct with_del; destruct (s_cacher s1); cbn; auto 6.
      * intro y. destruct with_del; destruct (s_cacher s1); reflexivity.
    + subst s1. destruct with_del; [|apply Nop; auto; apply ExtN_refl].
      apply Nop.
      * split; unfold InvS, InvR, InvL; sred; auto. now apply LInv_delrun_now.
      * exact Hcap.
      * exact Hc.
      * unfold Ext. sred. apply ExtN_refl.
  - (* Evict *)
    rewrite Hc in E.
    destruct (bucket_get ns key true g) as [s1 r] eqn:B.
    destruct (bucket_get_ok _ _ g _ _ _ _ _ H Hc B) as (M & U & O & Ex & D & R).
    pose proof M as (m1 & m2 & m3 & m4 & m5 & m6 & m7 & m8).
    destruct r as [x|]; injection E as <- <- <-.
    + destruct R as (H1 & n & Hn & Hx & _). split; [|split; [|split; [|split; [|split]]]]; auto.
      * eapply Inv_pext; [|exact H1]. intro y. unfold padd. rewrite !code_ref_app.
        destruct (s_cacher s1); cbn; rewrite (N.eqb_sym y x); destruct (x =? y); lia.
      * eapply capok_same; eauto.
      * congruence.
      * destruct (s_cacher s1); cbn; auto.
      * intro y. destruct (s_cacher s1); reflexivity.
    + subst s1. apply Nop; auto; apply ExtN_refl.
  - (* EvictNS *)
    rewrite Hc in E. destruct (s_cacher g); injection E as <- <- <-; [|apply Nop; auto; apply ExtN_refl].
    split; [|split; [|split; [|split; [|split]]]]; auto.
    + eapply Inv_pext; [|exact H]. intro y. rewrite code_ref_evicts. lia.
    + apply ExtN_refl.
    + apply code_ok_evicts.
    + intro y. apply code_zero_evicts.
  - (* EvictAll *)
    rewrite Hc in E. destruct (s_cacher g); injection E as <- <- <-; [|apply Nop; auto; apply ExtN_refl].
    split; [|split; [|split; [|split; [|split]]]]; auto.
    + eapply Inv_pext; [|exact H]. intro y. rewrite code_ref_evicts. lia.
    + apply ExtN_refl.
    + apply code_ok_evicts.
    + intro y. apply code_zero_evicts.
  - (* SetCapacity *)
    destruct (s_cacher g); [|injection E as <- <- <-; apply Nop; auto; apply ExtN_refl].
    unfold run_evict_loop in E.
    destruct (evict_loop (s_order (set_cap c g)) (set_cap c g)) as [s1 ev] eqn:EL. injection E as <- <- <-.
    assert (Inv zr q (set_cap c g)) as H' by (split; auto).
    destruct (evict_loop_ok _ _ _ _ _ _ H' eq_refl EL) as (A & B & D).
    split; [|split; [|split; [|split; [|split]]]]; auto.
    + eapply Inv_pext; [|exact A]. intro y. unfold padds. now rewrite code_ref_decs.
    + destruct D as (_ & e & _). sred. congruence.
    + eapply Ext_trans; [|apply (evict_loop_ext _ _ _ _ _ _ H' eq_refl EL)]. unfold Ext. sred. apply ExtN_refl.
    + apply code_ok_decs.
    + intro y. apply code_zero_decs.
Qed.

(* ---------------------------------------------------------------- the invariant of the open-cache LTS *)

Record LOk (L : lstate) : Prop := {
  lo_nd : NoDup (map fst (l_thr L));
  lo_inv : Inv (zero_pending (l_thr L)) (pendf (l_thr L)) (l_g L);
  lo_cap : CapOk (l_g L);
  lo_open : s_closed (l_g L) = false;
  lo_code : forall p, In p (l_thr L) -> code_ok (l_g L) (t_code (snd p)) }.

Lemma code_ref_le_pend x p l : In p l -> (code_ref x (t_code (snd p)) <= pend_ref x l)%Z.
Proof.
  induction l as [|a l IH]; [intros []|]. rewrite pend_ref_cons. intros [->|H].
  - pose proof (pend_ref_nonneg x l). lia.
  - specialize (IH H). pose proof (code_ref_nonneg x (t_code (snd a))). lia.
Qed.

Lemma others_sub t l p : In p (others t l) -> In p l.
Proof. unfold others. intro H. apply filter_In in H. tauto. Qed.

Lemma lok_update L t newc rl g' :
  LOk L ->
  Inv (fun y => code_zero y newc || zero_pending (others t (l_thr L)) y)
      (fun y => (pend_ref y (others t (l_thr L)) + code_ref y newc)%Z) g' ->
  CapOk g' -> s_closed g' = false -> Ext (l_g L) g' -> code_ok g' newc ->
  LOk (mkL g' (set_thr t (mkThread newc rl) (l_thr L))).
Proof.
  intros [ND HI HC HO HK] H' C' O' E' K'. destruct L as [g thr]. cbn [l_g l_thr] in *.
  assert (Inv (zero_pending (set_thr t (mkThread newc rl) thr)) (pendf (set_thr t (mkThread newc rl) thr)) g') as HI'.
  { eapply Inv_zq_ext; [|eapply Inv_pext; [|exact H']].
    - intro y. rewrite zero_pending_set. reflexivity.
    - intro y. unfold pendf. rewrite pend_ref_set. cbn [t_code]. lia. }
  split; cbn [l_g l_thr]; auto.
  - now apply nodup_set.
  - intros p Hp. apply in_set_thr in Hp. destruct Hp as [->|Hp]; [exact K'|].
    eapply code_ok_step; [exact HI|exact E'|exact O'|apply HK; eapply others_sub; eauto|].
    intros x Hx. eapply (node_of_pend _ _ _ x HI').
    unfold pendf. rewrite pend_ref_set. pose proof (code_ref_le_pend x p _ Hp). pose proof (code_ref_nonneg x newc).
    cbn [t_code]. lia.
Qed.

Lemma linit_ok cacher cap : LOk (linit cacher cap).
Proof.
  unfold linit. split; cbn [l_g l_thr].
  - constructor.
  - destruct (init_good (fun _ => false) cacher cap) as [(H & _) _].
    eapply Inv_zq_ext; [|eapply Inv_pext; [|exact H]]; intro y; reflexivity.
  - destruct (init_good (fun _ => false) cacher cap) as [(_ & C & _) _]. exact C.
  - reflexivity.
  - intros p [].
Qed.

Theorem lok_step L a L' : LOk L -> lstep_o L a = Some L' -> LOk L'.
Proof.
  intros OK E. unfold lstep_o in E. destruct (is_close a) eqn:IC; [discriminate|].
  pose proof OK as [ND HI HC HO HK]. destruct L as [g thr]. cbn [l_g l_thr] in *.
  destruct a as [t o|t]; cbn [lstep l_g l_thr] in E.
  - (* AStart *)
    destruct (t_code (get_thr t thr)) eqn:Code; [|discriminate].
    destruct (start o (rlocked_other t thr) g) as [[[g' code] rl]|] eqn:St; [|discriminate]. injection E as <-.
    assert (not_close o) as NC by (destruct o; cbn in *; auto; discriminate).
    assert (Inv (zero_pending (others t thr)) (fun y => pend_ref y (others t thr)) g) as H0.
    { eapply Inv_zq_ext; [|eapply Inv_pext; [|exact HI]].
      - intro y. rewrite (zero_pending_others y t thr ND), Code. reflexivity.
      - intro y. unfold pendf. rewrite (pend_ref_others y t thr ND), Code. cbn. lia. }
    destruct (start_ok _ _ g o _ g' code rl (fun y => pend_ref_nonneg y _) H0 HC HO NC St) as (A & B & C & D & K & Z).
    apply (lok_update (mkL g thr) t code rl g' OK); auto.
    eapply Inv_zq_ext; [|exact A]. intro y. cbn [l_thr]. now rewrite Z.
  - (* AStep *)
    destruct (t_code (get_thr t thr)) as [|i k] eqn:Code; [discriminate|].
    destruct (exec i g) as [g' new] eqn:Ex. injection E as <-.
    assert (In (t, get_thr t thr) thr) as Hin by (apply get_thr_code_in; auto; rewrite Code; discriminate).
    pose proof (HK _ Hin) as CK. cbn [snd] in CK. rewrite Code in CK. destruct CK as [Ci Ck].
    set (q := fun y => (code_ref y k + pend_ref y (others t thr))%Z).
    set (zr := fun y => code_zero y k || zero_pending (others t thr) y).
    assert (forall y, 0 <= q y)%Z as Hq.
    { intro y. subst q. cbv beta. pose proof (code_ref_nonneg y k). pose proof (pend_ref_nonneg y (others t thr)). lia. }
    assert (forall y, pendf thr y = (q y + instr_ref y i)%Z) as Pq.
    { intro y. unfold pendf. rewrite (pend_ref_others y t thr ND), Code, code_ref_cons. subst q. cbv beta. lia. }
    assert (forall y, zero_pending thr y = is_zero y i || zr y) as Zq.
    { intro y. rewrite (zero_pending_others y t thr ND), Code. subst zr. cbn [code_zero existsb]. now rewrite orb_assoc. }
    assert (forall y, (code_ref y k <= q y)%Z) as Kq.
    { intro y. subst q. cbv beta. pose proof (pend_ref_nonneg y (others t thr)). lia. }
    (* the common ending *)
    assert (forall (P : post zr q g' new) (X : Ext g g') (F : prefix_ok g' new k),
              LOk (mkL g' (set_thr t (mkThread (new ++ k) (t_rl (get_thr t thr))) thr))) as Finish.
    { intros (A & B & C) X F. apply (lok_update (mkL g thr) t (new ++ k) _ g' OK); auto.
      - eapply Inv_zq_ext; [|eapply Inv_pext; [|exact A]].
        + intro y. cbn [l_thr]. subst zr. cbv beta. rewrite code_zero_app, orb_assoc. reflexivity.
        + intro y. cbn [l_thr]. subst q. cbv beta. rewrite code_ref_app. lia.
      - apply code_ok_app; auto. eapply code_ok_step; [exact HI|exact X|exact C|exact Ck|].
        intros x Hx. eapply (node_of_pend _ _ _ x A). cbv beta. pose proof (code_ref_nonneg x new). specialize (Kq x). lia. }
    assert (~ (exists x a b c, i = IZero x a b c) -> Inv zr (fun y => (q y + instr_ref y i)%Z) g) as NZ.
    { intro Hn. eapply Inv_zq_ext; [|eapply Inv_pext; [exact Pq|exact HI]].
      intro y. rewrite Zq. destruct i; cbn; auto. exfalso. apply Hn. eauto 6. }
    destruct i.
    + destruct (step_node zr q Hq g x sf g' new k) as (P & X & F); auto. apply NZ. intros (? & ? & ? & ? & e); discriminate.
    + destruct (step_promote zr q Hq g x g' new k) as (P & X & F); auto. { apply NZ. intros (? & ? & ? & ? & e); discriminate. }
      apply Finish; auto. apply F.
      (* the promoted node still has its value *)
      destruct P as (A & _ & C). eapply valued_ext; [exact HI|exact X|exact C|exact Ci|].
      eapply (node_of_pend _ _ _ x A). cbv beta.
      assert (code_ref x new = (code_ref x new)%Z) by reflexivity.
      cbn [exec] in Ex. destruct (promote_locked x g) as [s' ev]. injection Ex as _ <-.
      rewrite code_ref_app. cbn [code_ref fold_right instr_ref]. rewrite N.eqb_refl.
      pose proof (code_ref_nonneg x (decs true ev)). specialize (Hq x). lia.
    + destruct (step_handle zr q Hq g x g' new) as (P & X & ->); auto. { apply NZ. intros (? & ? & ? & ? & e); discriminate. }
      apply Finish; auto. cbn. auto.
    + destruct (step_dec zr q Hq g x ext g' new k) as (P & X & F); auto. apply NZ. intros (? & ? & ? & ? & e); discriminate.
    + (* IZero *)
      assert (Inv (fun y => (y =? x) || zr y) q g) as HZ.
      { eapply Inv_zq_ext; [|eapply Inv_pext; [|exact HI]].
        - intro y. rewrite Zq. cbn [is_zero]. rewrite (N.eqb_sym x y). reflexivity.
        - intro y. rewrite Pq. cbn [instr_ref]. lia. }
      assert (instr_ok g (IZero x ns key ext) []) as IO by (destruct Ci as [c1 c2]; split; auto).
      destruct (step_zero zr q Hq g x ns key ext g' new HZ HC HO IO Ex) as ((A & B & C) & X & ->).
      apply Finish; [|exact X|cbn; auto]. split; [|split]; auto.
      eapply Inv_zq_ext; [|eapply Inv_pext; [|exact A]]; intro y; cbn; auto. lia.
    + destruct (step_delreg zr q g x g' new) as (P & X & ->); auto.
      { apply NZ. intros (? & ? & ? & ? & e); discriminate. }
      { cbn [instr_ok] in Ci. pose proof (code_ref_in_dec x k Ci). specialize (Kq x). lia. }
      apply Finish; auto. cbn. auto.
    + destruct (step_ban zr q Hq g x g' new k) as (P & X & F); auto.
      { apply NZ. intros (? & ? & ? & ? & e); discriminate. }
      { cbn [instr_ok] in Ci. pose proof (code_ref_in_dec x k Ci). specialize (Kq x). lia. }
    + destruct (step_evict zr q Hq g x g' new k) as (P & X & F); auto. apply NZ. intros (? & ? & ? & ? & e); discriminate.
Qed.

Theorem lreach_o_ok L : lreach_o L -> LOk L.
Proof. induction 1; [apply linit_ok|eapply lok_step; eauto]. Qed.

(* ---------------------------------------------------------------- the C17 statements over all interleavings
   of the open cache *)
Section LtsOpen.
  Variable L : lstate.
  Hypothesis R : lreach_o L.
  Let OK : LOk L := lreach_o_ok L R.
  Let HI := lo_inv L OK.
  Let g := l_g L.

  Lemma lts_open : s_closed g = false /\ s_forced g = false.
  Proof. split; [apply (lo_open L OK)|]. apply (forced_false_of_open _ _ _ HI (lo_open L OK)). Qed.

  Theorem one_live_value_lts :
    forall h1 h2 n1 n2, handle_node g h1 = Some n1 -> handle_node g h2 = Some n2 -> keyof n1 = keyof n2 ->
      n1 = n2 /\
      exists v, handle_value g h1 = Some v /\ handle_value g h2 = Some v /\
                ccn (n_id n1) (s_log g) = 1%nat /\ ccv v (s_log g) = 1%nat /\ cf v (s_log g) = 0%nat.
  Proof. apply (one_live_value_gen _ _ _ HI). apply lts_open. Qed.

  Theorem construct_once_lts : forall x v, (ccn x (s_log g) <= 1)%nat /\ (ccv v (s_log g) <= 1)%nat.
  Proof. apply (construct_once_gen _ _ _ HI). Qed.

  Theorem finalise_at_most_once_lts : forall v, (cf v (s_log g) <= 1)%nat.
  Proof. apply (finalise_at_most_once_gen _ _ _ HI). Qed.

  Theorem finalise_not_early_lts :
    forall x v sz, In (EvConstruct x v sz) (s_log g) -> (1 <= cf v (s_log g))%nat -> handles_on x (s_handles g) = 0%nat.
  Proof. apply (finalise_not_early_gen _ _ _ HI). apply lts_open. Qed.

  Theorem finalise_or_live_lts :
    forall x v sz, In (EvConstruct x v sz) (s_log g) ->
      cf v (s_log g) = 1%nat \/ (cf v (s_log g) = 0%nat /\ exists n, In n (s_nodes g) /\ n_id n = x /\ n_val n = Some v).
  Proof. apply (finalise_or_live_gen _ _ _ HI). Qed.

  Theorem delfunc_at_most_once_lts : forall d, (cdr d (s_log g) <= 1)%nat.
  Proof. apply (delfunc_at_most_once_gen _ _ _ HI). Qed.

  Theorem delfunc_not_early_lts :
    forall d x, In (EvDelReg d x) (s_log g) -> (1 <= cdr d (s_log g))%nat -> handles_on x (s_handles g) = 0%nat.
  Proof. apply (delfunc_not_early_gen _ _ _ HI). apply lts_open. Qed.

  Theorem delfunc_ran_or_pending_lts :
    forall d, d < s_next_did g ->
      cdr d (s_log g) = 1%nat \/ (cdr d (s_log g) = 0%nat /\ exists n, In n (s_nodes g) /\ In d (n_dels n)).
  Proof. apply (delfunc_ran_or_pending_gen _ _ _ HI). Qed.

  (* the charge bound holds in EVERY reachable state, i.e. whenever the lru lock is free *)
  Theorem capacity_respected_lts : s_used g = used_sum (s_nodes g) /\ (s_used g <= Z.of_N (s_cap g))%Z.
  Proof. split; [apply (used_exact_gen _ _ _ HI)|apply (lo_cap L OK)]. Qed.

  Theorem lru_list_exact_lts :
    NoDup (s_order g) /\ forall x, In x (s_order g) <-> exists n, In n (s_nodes g) /\ n_id n = x /\ resident n = true.
  Proof. apply (lru_list_exact_gen _ _ _ HI). Qed.

  Theorem unique_keys_lts : NoDup (map keyof (s_nodes g)).
  Proof. apply (unique_keys_gen _ _ _ HI). Qed.

  (* ref = outstanding handles + (1 if linked) + references held by instructions still to run *)
  Theorem ref_census_lts :
    forall n, In n (s_nodes g) ->
      n_ref n = (Z.of_nat (handles_on (n_id n) (s_handles g)) + (if resident n then 1 else 0) + pend_ref (n_id n) (l_thr L))%Z
      /\ (0 <= n_ref n)%Z.
  Proof. apply (ref_census_gen _ _ _ HI). apply lts_open. Qed.

  (* a node whose count is 0 is waiting for its zero-check *)
  Theorem zero_ref_is_pending_lts :
    forall n, In n (s_nodes g) -> n_ref n = 0%Z -> zero_pending (l_thr L) (n_id n) = true.
  Proof.
    intros n Hn Hr. destruct (zero_pending (l_thr L) (n_id n)) eqn:Z; auto. exfalso.
    pose proof (inv_r _ _ _ HI) as HR. unfold InvR in HR. destruct lts_open as [Ho Hf].
    pose proof (ri_pos _ _ _ _ _ _ _ _ _ HR Hf n Hn (or_introl Ho) Z). fold g in H. lia.
  Qed.

  Theorem no_panic_lts : s_panic g = false.
  Proof. apply (no_panic_flag_gen _ _ _ HI). Qed.
End LtsOpen.
