(* Conc/WriteMergeDataProofs.v — proofs about the data layer of the writer serialisation and merge
   protocol (Conc/WriteMergeData.v), for any number of writers, any request table, any merge-limit
   constants and every interleaving: invariant induction over [xstep], using the invariants of the
   base system (Conc/WriteMergeProofs.v: lock ownership, reply/acknowledgement counts, group
   composition). *)
From Coq Require Import List NArith Bool Arith Lia Permutation.
From GL Require Import Conc.WriteMerge Conc.WriteMergeProofs Conc.WriteMergeData.
Import ListNotations.

(* ------------------------------------------------------------------ pure facts about the loops *)

Lemma seg_len_app a b : seg_len (a ++ b) = (seg_len a + seg_len b)%N.
Proof. induction a as [|x a IH]; simpl; [reflexivity|]. rewrite IH. lia. Qed.

Lemma batches_len_concat bs : batches_len bs = seg_len (concat bs).
Proof. induction bs as [|b bs IH]; simpl; [reflexivity|]. rewrite seg_len_app, IH. reflexivity. Qed.

Lemma put_batch_app b : forall q b', put_batch q (b ++ b') = put_batch q b ++ put_batch (q + seg_len b) b'.
Proof.
  induction b as [|[i n] b IH]; intros q b'; simpl.
  - rewrite N.add_0_r. reflexivity.
  - rewrite IH. f_equal. f_equal. f_equal. lia.
Qed.

(* the putMem loop (per batch, seq += Len) numbers the records exactly as a reader of the journal
   record does (header seq, then consecutively in file order) *)
Lemma put_all_concat bs : forall q, put_all q bs = put_batch q (concat bs).
Proof.
  induction bs as [|b bs IH]; intros q; simpl; [reflexivity|]. rewrite put_batch_app, IH. reflexivity.
Qed.

Lemma put_batch_ids b : forall q, map (fun t => fst (fst t)) (put_batch q b) = seg_ids b.
Proof. induction b as [|[i n] b IH]; intros q; simpl; [reflexivity|]. rewrite IH. reflexivity. Qed.

(* consecutive: every run starts where the previous one ended *)
Fixpoint consecutive (q : N) (l : list (nat * N * N)) : Prop :=
  match l with
  | [] => True
  | (_, q', n) :: r => q' = q /\ consecutive (q + n) r
  end.

Lemma put_batch_consecutive b : forall q, consecutive q (put_batch q b).
Proof. induction b as [|[i n] b IH]; intros q; simpl; auto. Qed.

Lemma seg_ids_app a b : seg_ids (a ++ b) = seg_ids a ++ seg_ids b.
Proof. apply map_app. Qed.

(* ------------------------------------------------------------------ filters and permutations *)

Lemma filter_perm {A} (p : A -> bool) l : Permutation l (filter p l ++ filter (fun x => negb (p x)) l).
Proof.
  induction l as [|x l IH]; simpl; [constructor|].
  destruct (p x); simpl.
  - constructor. exact IH.
  - eapply perm_trans; [constructor; exact IH|]. apply Permutation_middle.
Qed.

Lemma filters_perm {A} (p : A -> bool) l1 l2 :
  filter p l1 = filter p l2 -> filter (fun x => negb (p x)) l1 = filter (fun x => negb (p x)) l2 -> Permutation l1 l2.
Proof.
  intros H1 H2. eapply perm_trans; [apply (filter_perm p)|]. rewrite H1, H2. apply Permutation_sym, filter_perm.
Qed.

Lemma existsb_perm {A} (f : A -> bool) l1 l2 : Permutation l1 l2 -> existsb f l1 = existsb f l2.
Proof.
  induction 1; simpl; auto.
  - rewrite IHPermutation. reflexivity.
  - destruct (f x), (f y); reflexivity.
  - congruence.
Qed.

(* ------------------------------------------------------------------ projection to the base system *)

Section Proj.
Variable mp : mparams.
Variable v : dvariant.
Variable rq : reqtab.

Lemma xstep_base x a x' : xstep mp v rq x (XA a) = Some x' ->
  step mp (xb x) a = Some (xb x') /\ xd x' = dstep mp v rq (xb x) (xd x) a /\ call_ok rq a = true.
Proof.
  unfold xstep. destruct (call_ok rq a); [|discriminate]. destruct (step mp (xb x) a) eqn:E; [|discriminate].
  intros H; inversion H; subst; simpl; auto.
Qed.

Lemma xstep_txn x q x' : xstep mp v rq x (XTxnSeq q) = Some x' ->
  xb x' = xb x /\ dgs (xd x') = dgs (xd x) /\ djl (xd x') = djl (xd x) /\ dmem (xd x') = dmem (xd x) /\
  dseq (xd x') = q /\ (dseq (xd x) <= q)%N /\ 0 < topen (xb x).
Proof.
  unfold xstep. destruct (topen (xb x)) eqn:Et; [discriminate|]. destruct (dseq (xd x) <=? q)%N eqn:El; [|discriminate].
  intros H; inversion H; subst; simpl. apply N.leb_le in El. repeat split; auto. lia.
Qed.

Lemma xrun_base l : forall x x', xrun mp v rq x l = Some x' -> run mp (xb x) (base_actions l) = Some (xb x').
Proof.
  induction l as [|a l IH]; simpl; intros x x' H.
  - inversion H; subst; reflexivity.
  - destruct (xstep mp v rq x a) as [x1|] eqn:E; [|discriminate]. destruct a as [a|q].
    + apply xstep_base in E. destruct E as [E _]. simpl. rewrite E. apply IH; auto.
    + apply xstep_txn in E. destruct E as [E _]. rewrite <- E. apply IH; auto.
Qed.

Definition xreachable (n : nat) (q0 : N) (x : xstate) : Prop := exists l, xrun mp v rq (xinit n q0) l = Some x.

Lemma xreachable_base n q0 x : xreachable n q0 x -> reachable mp n (xb x).
Proof. intros [l H]. exists (base_actions l). apply xrun_base in H. exact H. Qed.

Lemma xrun_app l1 : forall x l2, xrun mp v rq x (l1 ++ l2) =
  match xrun mp v rq x l1 with Some x1 => xrun mp v rq x1 l2 | None => None end.
Proof. induction l1; simpl; intros; auto. destruct (xstep mp v rq x a); auto. Qed.

Lemma xreachable_step n q0 x a x' : xreachable n q0 x -> xstep mp v rq x a = Some x' -> xreachable n q0 x'.
Proof. intros [l H] Hs. exists (l ++ [a]). rewrite xrun_app, H. simpl. rewrite Hs. reflexivity. Qed.

End Proj.

(* ------------------------------------------------------------------ list updates *)

Lemma nth_upd2_inv {A} (L : list A) i l xi xl j w :
  nth_error (upd (upd L i xi) l xl) j = Some w ->
  (j = l /\ w = xl) \/ (j <> l /\ j = i /\ w = xi) \/ (j <> l /\ j <> i /\ nth_error L j = Some w).
Proof.
  intros H. apply nth_upd_inv in H. destruct H as [[-> ->]|[Hn H]]; auto.
  apply nth_upd_inv in H. destruct H as [[-> ->]|[Hn' H]]; auto.
Qed.

Lemma nth_upd2_l {A} (L : list A) i l xi xl wl : i <> l -> nth_error L l = Some wl ->
  nth_error (upd (upd L i xi) l xl) l = Some xl.
Proof. intros Hn Hl. apply (nth_upd_same _ _ _ wl). rewrite nth_upd_other; auto. Qed.

Lemma nth_upd2_i {A} (L : list A) i l xi xl wi : i <> l -> nth_error L i = Some wi ->
  nth_error (upd (upd L i xi) l xl) i = Some xi.
Proof. intros Hn Hi. rewrite nth_upd_other; auto. apply (nth_upd_same _ _ _ wi); auto. Qed.

Lemma nth_upd2_other {A} (L : list A) i l xi xl j : j <> i -> j <> l ->
  nth_error (upd (upd L i xi) l xl) j = nth_error L j.
Proof. intros H1 H2. rewrite nth_upd_other; auto. rewrite nth_upd_other; auto. Qed.

Lemma nth_upd_some {A} (L : list A) i x j w : nth_error L j = Some w ->
  exists w', nth_error (upd L i x) j = Some w' /\ (j = i /\ w' = x \/ j <> i /\ w' = w).
Proof.
  intros H. destruct (Nat.eq_dec j i) as [->|Hn].
  - exists x. split; auto. apply (nth_upd_same _ _ _ w); auto.
  - exists w. split; auto. rewrite nth_upd_other; auto.
Qed.

(* ------------------------------------------------------------------ who carries a group *)

Definition ctx_of (p : wpc) : option lctx :=
  match p with
  | WLMerge c | WLReply c _ | WLJournal c | WLApply c | WLPublish c | WLRotate c | WLUnlock c _ _ => Some c
  | _ => None
  end.

Lemma ctx_holds p c : ctx_of p = Some c -> holdsp p = 1.
Proof. destruct p; simpl; intros H; try discriminate; reflexivity. Qed.

Lemma other_no_ctx s l wl : inv s -> nth_error (ws s) l = Some wl -> holds wl = 1 ->
  forall j w, j <> l -> nth_error (ws s) j = Some w -> ctx_of (pc w) = None.
Proof.
  intros Hv Hl Hh j w Hn Hj. destruct (only_leader s l wl Hv Hl Hh) as [Ho _].
  specialize (Ho j w Hn Hj). unfold holds in Ho. destruct (ctx_of (pc w)) eqn:E; auto.
  apply ctx_holds in E. lia.
Qed.

Lemma same_leader s l wl j w : inv s -> nth_error (ws s) l = Some wl -> holds wl = 1 ->
  nth_error (ws s) j = Some w -> holds w = 1 -> j = l /\ w = wl.
Proof.
  intros Hv Hl Hh Hj Hhj. destruct (Nat.eq_dec j l) as [->|Hn].
  - rewrite Hl in Hj. inversion Hj; auto.
  - destruct (only_leader s l wl Hv Hl Hh) as [Ho _]. specialize (Ho j w Hn Hj). lia.
Qed.

Ltac step_cases H := unfold step, getw in H; dm; inversion H; subst; clear H.

(* ------------------------------------------------------------------ M: who waits for an acknowledgement is in the leader's group *)

Definition Minv (L : list writer) : Prop := forall i w, nth_error L i = Some w -> pc w = WWaitAck ->
  exists l wl c, nth_error L l = Some wl /\ ctx_of (pc wl) = Some c /\ In i (lbatches c).

Lemma Minv_upd1 L i w w' : Minv L -> nth_error L i = Some w -> pc w' <> WWaitAck ->
  (forall c, ctx_of (pc w) = Some c -> exists c', ctx_of (pc w') = Some c' /\ incl (lbatches c) (lbatches c')) ->
  Minv (upd L i w').
Proof.
  intros HM Hi Hp Hc j wj Hj Hpj. apply nth_upd_inv in Hj. destruct Hj as [[-> ->]|[Hn Hj]]; [contradiction|].
  destruct (HM j wj Hj Hpj) as (l & wl & c & Hl & Hcl & Hin).
  destruct (Nat.eq_dec l i) as [->|Hnl].
  - rewrite Hi in Hl. inversion Hl; subst wl. destruct (Hc c Hcl) as (c' & Hc' & Hincl).
    exists i, w', c'. split; [apply (nth_upd_same _ _ _ w); auto|]. split; auto.
  - exists l, wl, c. split; auto. rewrite nth_upd_other; auto.
Qed.

Lemma no_waitack_Minv L : (forall j w, nth_error L j = Some w -> pc w <> WWaitAck) -> Minv L.
Proof. intros H i w Hi Hp. exfalso. apply (H i w Hi Hp). Qed.

Section MO.
Variable mp : mparams.

Lemma P2_reply_is_x s l wl c x i wi : inv s -> P2 (ws s) ->
  nth_error (ws s) l = Some wl -> pc wl = WLReply c x -> nth_error (ws s) i = Some wi -> pc wi = WWaitMerged -> i = x.
Proof.
  intros Hv HP Hl Hp Hi Hpi. pose proof (HP l wl Hl) as Hok. rewrite Hp in Hok. simpl in Hok.
  destruct Hok as [_ (wx & Hx & Hpx)].
  assert (Hh : holds wl = 1) by (unfold holds; rewrite Hp; reflexivity).
  assert (Hr : replydue wl = 1).
  { unfold replydue. rewrite Hp. simpl. pose proof (Forall_nth _ _ _ _ (inv_wf s Hv) Hl) as Hw. unfold wf_writer in Hw.
    rewrite Hp in Hw. simpl in Hw. destruct Hw as [Ho _]. unfold ctx_over. rewrite Ho. reflexivity. }
  exact (two_waiting_same s l wl i x wi wx Hv Hl Hh Hr Hi Hpi Hx Hpx).
Qed.

Lemma unlock_end_no_waitack s l wl c k e : inv s -> nth_error (ws s) l = Some wl -> pc wl = WLUnlock c k e ->
  (k <? lmerged c) = false -> forall j w, nth_error (ws s) j = Some w -> pc w <> WWaitAck.
Proof.
  intros Hv Hl Hp Hk. apply no_waitack.
  assert (Hh : holds wl = 1) by (unfold holds; rewrite Hp; reflexivity).
  destruct (leader_sums s l wl Hv Hl Hh) as [_ Ha]. rewrite Ha. unfold ackdue. rewrite Hp. simpl.
  apply Nat.ltb_ge in Hk. lia.
Qed.

Lemma M_selmerge s i l w wl c b : Minv (ws s) ->
  nth_error (ws s) i = Some w -> nth_error (ws s) l = Some wl -> pc w = WSelect -> pc wl = WLMerge c ->
  Minv (upd (upd (ws s) i (set_pc w WWaitMerged)) l (set_pc wl (merge_decide c i (wsize w) b))).
Proof.
  intros HM E E0 E1 E2.
  assert (Hn : i <> l) by (apply (pcs_differ _ _ _ _ _ E E0); congruence).
  eapply Minv_upd1; [eapply Minv_upd1; eauto| | |].
  - cbn [pc set_pc]. discriminate.
  - rewrite E1. cbn [ctx_of]. intros ? ?; discriminate.
  - rewrite nth_upd_other; eauto.
  - cbn [pc set_pc]. unfold merge_decide. destruct (llim c <? wsize w)%N; discriminate.
  - rewrite E2. cbn [ctx_of pc set_pc]. intros c0 Hc0; inversion Hc0; subst. unfold merge_decide.
    destruct (llim c0 <? wsize w)%N; cbn [ctx_of]; eexists; (split; [reflexivity|]); cbn [lbatches].
    + apply incl_refl.
    + apply incl_appl, incl_refl.
Qed.

Lemma M_reply s i l wi wl c x wi' : inv s -> P2 (ws s) -> Minv (ws s) ->
  nth_error (ws s) l = Some wl -> nth_error (ws s) i = Some wi -> pc wl = WLReply c x -> pc wi = WWaitMerged ->
  Minv (upd (upd (ws s) i wi') l (set_pc wl (WLMerge (after_reply c i)))).
Proof.
  intros Hv HP HM E E0 E1 E2.
  assert (Hn : i <> l) by (apply (pcs_differ _ _ _ _ _ E0 E); congruence).
  assert (Hix : i = x) by exact (P2_reply_is_x s l wl c x i wi Hv HP E E1 E0 E2). subst x.
  pose proof (HP l wl E) as Hok. rewrite E1 in Hok. simpl in Hok. destruct Hok as [Hb _].
  assert (Hh : holds wl = 1) by (unfold holds; rewrite E1; reflexivity).
  intros j wj Hj Hpj.
  exists l, (set_pc wl (WLMerge (after_reply c i))), (after_reply c i). split; [eapply nth_upd2_l; eauto|].
  split; [reflexivity|]. cbn [lbatches after_reply].
  apply nth_upd2_inv in Hj. destruct Hj as [[-> ->]|[(Hjl & -> & ->)|(Hjl & Hji & Hj)]].
  - cbn [pc set_pc] in Hpj. discriminate.
  - rewrite Hb. right. apply in_or_app. right. left. reflexivity.
  - destruct (HM j wj Hj Hpj) as (l0 & wl0 & c0 & Hl0 & Hc0 & Hin).
    destruct (same_leader s l wl l0 wl0 Hv E Hh Hl0) as [-> ->]. { unfold holds. eapply ctx_holds; eauto. }
    rewrite E1 in Hc0. simpl in Hc0. inversion Hc0; subst c0. exact Hin.
Qed.

Lemma M_ack L i l wi wl c k e : Minv L ->
  nth_error L l = Some wl -> nth_error L i = Some wi -> pc wl = WLUnlock c k e -> pc wi = WWaitAck ->
  Minv (upd (upd L i (set_pc wi (WRet e))) l (set_pc wl (WLUnlock c (S k) e))).
Proof.
  intros HM E E0 E1 E2.
  assert (Hn : i <> l) by (apply (pcs_differ _ _ _ _ _ E0 E); congruence).
  eapply Minv_upd1; [eapply Minv_upd1; eauto| | |].
  - cbn [pc set_pc]. discriminate.
  - rewrite E2. cbn [ctx_of]. intros ? ?; discriminate.
  - rewrite nth_upd_other; eauto.
  - cbn [pc set_pc]. discriminate.
  - rewrite E1. cbn [ctx_of pc set_pc]. intros c0 Hc0; inversion Hc0; subst. eexists; split; [reflexivity|apply incl_refl].
Qed.

Lemma M_handover s l o wl wo c k e p : inv s ->
  nth_error (ws s) l = Some wl -> pc wl = WLUnlock c k e -> (k <? lmerged c) = false -> p <> WWaitAck ->
  Minv (upd (upd (ws s) o (set_pc wo p)) l (set_pc wl (WRet e))).
Proof.
  intros Hv E E1 Hk Hp. apply no_waitack_Minv. intros j wj Hj. apply nth_upd2_inv in Hj.
  destruct Hj as [[-> ->]|[(Hjl & -> & ->)|(Hjl & Hji & Hj)]]; cbn [pc set_pc]; try discriminate; auto.
  exact (unlock_end_no_waitack s l wl c k e Hv E E1 Hk j wj Hj).
Qed.

Lemma M_release s l wl c k e : inv s ->
  nth_error (ws s) l = Some wl -> pc wl = WLUnlock c k e -> (k <? lmerged c) = false ->
  Minv (upd (ws s) l (set_pc wl (WRet e))).
Proof.
  intros Hv E E1 Hk. apply no_waitack_Minv. intros j wj Hj. apply nth_upd_inv in Hj.
  destruct Hj as [[-> ->]|[Hjl Hj]]; cbn [pc set_pc]; try discriminate.
  exact (unlock_end_no_waitack s l wl c k e Hv E E1 Hk j wj Hj).
Qed.

Lemma step_M s a s' : inv s -> P2 (ws s) -> Minv (ws s) -> step mp s a = Some s' -> Minv (ws s').
Proof.
  intros Hv HP HM H. destruct a; step_cases H; cbn [ws setw with_ws with_lock with_env with_logs]; try exact HM.
  all: try (eapply M_selmerge; eassumption).
  all: try (eapply M_reply; eassumption).
  all: try (eapply M_ack; eassumption).
  all: try (eapply M_handover; try eassumption; discriminate).
  all: try (eapply M_release; eassumption).
  all: eapply Minv_upd1; eauto; cbn [pc set_pc]; try discriminate;
       try (destruct (wmerge _); discriminate);
       match goal with E : pc _ = _ |- _ => rewrite E end; cbn [ctx_of];
       try (intros ? ?; discriminate);
       (intros c0 Hc0; inversion Hc0; subst; eexists; (split; [reflexivity|apply incl_refl])).
Qed.


(* ---------------------------------------------------------------- O: the request that did not fit is waiting for its reply *)

Definition Oinv (L : list writer) : Prop := forall l wl c x, nth_error L l = Some wl -> ctx_of (pc wl) = Some c ->
  lover c = Some x -> exists wx, nth_error L x = Some wx /\ pc wx = WWaitMerged.

Lemma Oinv_upd L i w w' : Oinv L -> nth_error L i = Some w -> (pc w = WWaitMerged -> pc w' = WWaitMerged) ->
  (forall c' x, ctx_of (pc w') = Some c' -> lover c' = Some x ->
     exists wx, nth_error (upd L i w') x = Some wx /\ pc wx = WWaitMerged) ->
  Oinv (upd L i w').
Proof.
  intros HO Hi H1 H2 l wl c x Hl Hc Hx. apply nth_upd_inv in Hl. destruct Hl as [[-> ->]|[Hn Hl]].
  - eapply H2; eauto.
  - destruct (HO l wl c x Hl Hc Hx) as (wx & Hwx & Hpx).
    destruct (nth_upd_some L i w' x wx Hwx) as (wx' & Hx' & [[-> ->]|[Hne ->]]).
    + exists w'. split; auto. apply H1. rewrite Hi in Hwx. inversion Hwx; subst; auto.
    + exists wx. split; auto.
Qed.

Lemma O_keep L i w w' c x : Oinv L -> nth_error L i = Some w -> ctx_of (pc w) = Some c -> lover c = Some x ->
  exists wx, nth_error (upd L i w') x = Some wx /\ pc wx = WWaitMerged.
Proof.
  intros HO Hi Hc Hx. destruct (HO i w c x Hi Hc Hx) as (wx & Hwx & Hpx).
  destruct (nth_upd_some L i w' x wx Hwx) as (wx' & Hx' & [[-> ->]|[Hne ->]]).
  - rewrite Hi in Hwx. inversion Hwx; subst. rewrite Hpx in Hc. discriminate.
  - exists wx. auto.
Qed.

Lemma O_selmerge s i l w wl c b : Oinv (ws s) ->
  nth_error (ws s) i = Some w -> nth_error (ws s) l = Some wl -> pc w = WSelect -> pc wl = WLMerge c -> lover c = None ->
  Oinv (upd (upd (ws s) i (set_pc w WWaitMerged)) l (set_pc wl (merge_decide c i (wsize w) b))).
Proof.
  intros HO E E0 E1 E2 Hov.
  assert (Hn : i <> l) by (apply (pcs_differ _ _ _ _ _ E E0); congruence).
  assert (HO1 : Oinv (upd (ws s) i (set_pc w WWaitMerged))).
  { apply (Oinv_upd _ _ _ _ HO E).
    - rewrite E1. discriminate.
    - cbn [pc set_pc ctx_of]. intros ? ? ?; discriminate. }
  assert (El : nth_error (upd (ws s) i (set_pc w WWaitMerged)) l = Some wl) by (rewrite nth_upd_other; auto).
  apply (Oinv_upd _ _ _ _ HO1 El).
  - rewrite E2. discriminate.
  - cbn [pc set_pc]. unfold merge_decide. intros c' x Hc Hx.
    destruct (llim c <? wsize w)%N; cbn [ctx_of] in Hc; inversion Hc; subst c'; cbn [lover] in Hx.
    + inversion Hx; subst x. exists (set_pc w WWaitMerged). split; [|reflexivity]. eapply nth_upd2_i; eauto.
    + discriminate.
Qed.

Lemma O_vacuous L : (forall j w c x, nth_error L j = Some w -> ctx_of (pc w) = Some c -> lover c = Some x -> False) -> Oinv L.
Proof. intros H l wl c x Hl Hc Hx. exfalso. eapply H; eauto. Qed.

Lemma O_reply s i l wi wl c x wi' : inv s ->
  nth_error (ws s) l = Some wl -> nth_error (ws s) i = Some wi -> pc wl = WLReply c x -> pc wi = WWaitMerged -> pc wi' = WWaitAck ->
  Oinv (upd (upd (ws s) i wi') l (set_pc wl (WLMerge (after_reply c i)))).
Proof.
  intros Hv E E0 E1 E2 E3.
  assert (Hh : holds wl = 1) by (unfold holds; rewrite E1; reflexivity).
  pose proof (Forall_nth _ _ _ _ (inv_wf s Hv) E) as Hw. unfold wf_writer in Hw. rewrite E1 in Hw. simpl in Hw. destruct Hw as [Ho _].
  apply O_vacuous. intros j w0 c0 x0 Hj Hc Hx. apply nth_upd2_inv in Hj.
  destruct Hj as [[-> ->]|[(Hjl & -> & ->)|(Hjl & Hji & Hj)]].
  - cbn [pc set_pc ctx_of] in Hc. inversion Hc; subst c0. cbn [lover after_reply] in Hx. congruence.
  - rewrite E3 in Hc. discriminate.
  - rewrite (other_no_ctx s l wl Hv E Hh j w0 Hjl Hj) in Hc. discriminate.
Qed.

Lemma O_ack L i l wi wl c k e : Oinv L ->
  nth_error L l = Some wl -> nth_error L i = Some wi -> pc wl = WLUnlock c k e -> pc wi = WWaitAck ->
  Oinv (upd (upd L i (set_pc wi (WRet e))) l (set_pc wl (WLUnlock c (S k) e))).
Proof.
  intros HO E E0 E1 E2.
  assert (Hn : i <> l) by (apply (pcs_differ _ _ _ _ _ E0 E); congruence).
  assert (HO1 : Oinv (upd L i (set_pc wi (WRet e)))).
  { apply (Oinv_upd _ _ _ _ HO E0).
    - rewrite E2. discriminate.
    - cbn [pc set_pc ctx_of]. intros ? ? ?; discriminate. }
  assert (El : nth_error (upd L i (set_pc wi (WRet e))) l = Some wl) by (rewrite nth_upd_other; auto).
  apply (Oinv_upd _ _ _ _ HO1 El).
  - rewrite E1. discriminate.
  - cbn [pc set_pc ctx_of]. intros c' x Hc Hx. inversion Hc; subst c'.
    eapply O_keep; eauto. rewrite E1. reflexivity.
Qed.

Lemma O_handover s l o wl wo c k e : inv s ->
  nth_error (ws s) l = Some wl -> nth_error (ws s) o = Some wo -> pc wl = WLUnlock c k e ->
  Oinv (upd (upd (ws s) o (set_pc wo WLFlush)) l (set_pc wl (WRet e))).
Proof.
  intros Hv E E0 E1.
  assert (Hh : holds wl = 1) by (unfold holds; rewrite E1; reflexivity).
  apply O_vacuous. intros j w0 c0 x0 Hj Hc Hx. apply nth_upd2_inv in Hj.
  destruct Hj as [[-> ->]|[(Hjl & -> & ->)|(Hjl & Hji & Hj)]]; cbn [pc set_pc ctx_of] in Hc; try discriminate.
  rewrite (other_no_ctx s l wl Hv E Hh j w0 Hjl Hj) in Hc. discriminate.
Qed.

Lemma step_O s a s' : inv s -> Oinv (ws s) -> step mp s a = Some s' -> Oinv (ws s').
Proof.
  intros Hv HO H. pose proof (inv_wf s Hv) as Hw.
  destruct a; step_cases H; cbn [ws setw with_ws with_lock with_env with_logs]; try exact HO.
  all: try (eapply O_reply; try eassumption; reflexivity).
  all: try (eapply O_ack; eassumption).
  all: try (eapply O_handover; eassumption).
  all: try (eapply O_selmerge; try eassumption;
            match goal with Hl : nth_error _ ?l = Some ?wl, Ep : pc ?wl = WLMerge _ |- _ =>
              let Hx := fresh in pose proof (Forall_nth _ _ _ _ Hw Hl) as Hx; unfold wf_writer in Hx; rewrite Ep in Hx;
              simpl in Hx; destruct Hx as [Hx _]; exact Hx end).
  all: eapply Oinv_upd; eauto; cbn [pc set_pc];
       try (match goal with E : pc _ = _ |- _ => rewrite E end; discriminate);
       try (destruct (wmerge _); cbn [ctx_of lover]; intros c' x Hc Hx; inversion Hc; subst c'; discriminate);
       cbn [ctx_of]; try (intros ? ? ?; discriminate);
       (intros c' x Hc Hx; inversion Hc; subst c';
        first [ cbn [lover ctx0] in Hx; discriminate
              | eapply O_keep; eauto; match goal with E : pc _ = _ |- _ => rewrite E end; reflexivity ]).
Qed.

End MO.

(* ------------------------------------------------------------------ the leader's data locals *)

Lemma nth_upd_same_d {A} (L : list A) i x d : i < length L -> nth i (upd L i x) d = x.
Proof. revert i; induction L; intros i H; simpl in *; [lia|]. destruct i; simpl; auto. apply IHL. lia. Qed.

Lemma nth_upd_other_d {A} (L : list A) i j x d : i <> j -> nth j (upd L i x) d = nth j L d.
Proof.
  revert i j; induction L; intros i j H; simpl; [destruct i; reflexivity|].
  destruct i; destruct j; simpl; auto; try congruence.
Qed.

Lemma nth_error_lt {A} (L : list A) i w : nth_error L i = Some w -> i < length L.
Proof. intros H. apply nth_error_Some. congruence. Qed.

Lemma sum_sizes_app a b : sum_sizes (a ++ b) = (sum_sizes a + sum_sizes b)%N.
Proof. induction a as [|x a IH]; simpl; [reflexivity|]. rewrite IH. lia. Qed.

Section Data.
Variable mp : mparams.
Variable rq : reqtab.

Definition putid (i : nat) : bool := req_put (rq i).
Definition nputid (i : nat) : bool := negb (putid i).
Definition gids (g : gctx) : list nat := seg_ids (concat (gx_batches g)).

(* ourBatch holds the merged Put/Delete records (and the leader's own record when it came through
   putRec) and nothing else; no other batch holds any *)
Definition our_bs (bs : list dbatch) (o : option nat) : Prop :=
  match o with
  | None => forall j b, nth_error bs j = Some b -> Forall (fun sg => putid (fst sg) = false) b
  | Some k => k < length bs /\
              forall j b, nth_error bs j = Some b -> Forall (fun sg => putid (fst sg) = Nat.eqb j k) b
  end.

Lemma noput1 (b : list seg) : Forall (fun sg : seg => putid (fst sg) = false) b ->
  filter putid (seg_ids b) = [] /\ filter nputid (seg_ids b) = seg_ids b.
Proof.
  induction 1 as [|sg b Hsg Hb [I1 I2]]; simpl; auto. unfold nputid at 1. rewrite Hsg. simpl. rewrite I1, I2. auto.
Qed.

Lemma noput_filter bs : (forall j b, nth_error bs j = Some b -> Forall (fun sg : seg => putid (fst sg) = false) b) ->
  filter putid (seg_ids (concat bs)) = [] /\ filter nputid (seg_ids (concat bs)) = seg_ids (concat bs).
Proof.
  induction bs as [|b bs IH]; intros H; simpl; auto.
  destruct IH as [IH1 IH2]. { intros j b' Hj. apply (H (S j) b' Hj). }
  destruct (noput1 b (H 0 b eq_refl)) as [B1 B2]. rewrite seg_ids_app, !filter_app, IH1, IH2, B1, B2. auto.
Qed.

Lemma allput_filter (b : list seg) : Forall (fun sg => putid (fst sg) = true) b ->
  filter putid (seg_ids b) = seg_ids b /\ filter nputid (seg_ids b) = [].
Proof.
  induction 1 as [|sg b Hsg Hb [I1 I2]]; simpl; auto. unfold nputid at 1. rewrite Hsg. simpl. rewrite I1, I2. auto.
Qed.

Lemma app_at_length bs : forall k x, length (app_at bs k x) = length bs.
Proof. induction bs; intros k x; destruct k; simpl; auto. Qed.

Lemma app_at_forall (P : seg -> Prop) bs : forall k x, Forall P (concat bs) -> P x -> Forall P (concat (app_at bs k x)).
Proof.
  induction bs as [|b bs IH]; intros k x H Hx; destruct k; simpl in *; auto.
  - apply Forall_app in H. destruct H. apply Forall_app; split; auto. apply Forall_app; split; auto.
  - apply Forall_app in H. destruct H. apply Forall_app; split; auto.
Qed.

Lemma app_at_put bs i n : putid i = true -> forall k, k < length bs ->
  (forall j b, nth_error bs j = Some b -> Forall (fun sg : seg => putid (fst sg) = Nat.eqb j k) b) ->
  filter putid (seg_ids (concat (app_at bs k (i, n)))) = filter putid (seg_ids (concat bs)) ++ [i] /\
  filter nputid (seg_ids (concat (app_at bs k (i, n)))) = filter nputid (seg_ids (concat bs)) /\
  (forall j b, nth_error (app_at bs k (i, n)) j = Some b -> Forall (fun sg : seg => putid (fst sg) = Nat.eqb j k) b).
Proof.
  intros Hi. induction bs as [|b bs IH]; intros k Hk H; simpl in Hk; [lia|].
  destruct k as [|k]; simpl.
  - assert (Hb : Forall (fun sg : seg => putid (fst sg) = true) b) by apply (H 0 b eq_refl).
    assert (Hr : forall j b', nth_error bs j = Some b' -> Forall (fun sg : seg => putid (fst sg) = false) b').
    { intros j b' Hj. apply (H (S j) b' Hj). }
    destruct (noput_filter bs Hr) as [R1 R2]. destruct (allput_filter b Hb) as [B1 B2].
    rewrite !seg_ids_app, !filter_app, R1, R2, B1, B2. simpl. unfold nputid at 1. rewrite Hi. simpl.
    rewrite !app_nil_r. repeat split; auto.
    intros j b' Hj. destruct j; simpl in Hj.
    + inversion Hj; subst. apply Forall_app; split; auto.
    + apply (H (S j) b' Hj).
  - assert (Hb : Forall (fun sg : seg => putid (fst sg) = false) b) by apply (H 0 b eq_refl).
    destruct (IH k) as (I1 & I2 & I3); [lia| |].
    { intros j b' Hj. apply (H (S j) b' Hj). }
    rewrite !seg_ids_app, !filter_app, I1, I2. rewrite app_assoc. repeat split; auto.
    intros j b' Hj. destruct j; simpl in Hj.
    + inversion Hj; subst. exact Hb.
    + apply (I3 j b' Hj).
Qed.

Definition gpc_of (p : wpc) : option lctx :=
  match p with
  | WLMerge c | WLReply c _ | WLJournal c | WLApply c | WLPublish c => Some c
  | _ => None
  end.

Record gok (wl : writer) (c : lctx) (g : gctx) : Prop := {
  gk_put : filter putid (gids g) = filter putid (lbatches c);
  gk_bat : filter nputid (gids g) = filter nputid (lbatches c);
  gk_our : our_bs (gx_batches g) (gx_our g);
  gk_sync : gx_sync g = existsb (fun i => rq_sync (rq i)) (lbatches c);
  gk_merged : exists h, lbatches c = h :: map fst (gx_merged g);
  gk_lim : (sum_sizes (gx_merged g) + llim c)%N = gx_lim0 g;
  gk_lim0 : gx_lim0 g = merge_limit mp (wsize wl) (lfree c);
  gk_nrec : Forall (fun sg : seg => snd sg = req_nrec (rq (fst sg))) (concat (gx_batches g));
  gk_hd : exists h n b bs t, gx_batches g = ((h, n) :: b) :: bs /\ lbatches c = h :: t
}.

Definition Ginv (L : list writer) (G : list gctx) : Prop :=
  length G = length L /\
  forall l wl c, nth_error L l = Some wl -> gpc_of (pc wl) = Some c -> gok wl c (nth l G g0).

Lemma G_upd L G i w w' g' : Ginv L G -> nth_error L i = Some w ->
  (forall c, gpc_of (pc w') = Some c -> gok w' c g') -> Ginv (upd L i w') (upd G i g').
Proof.
  intros [Hlen HG] Hi Hc. split; [rewrite !upd_length; auto|].
  intros l wl c Hl Hp. apply nth_upd_inv in Hl. destruct Hl as [[-> ->]|[Hn Hl]].
  - rewrite nth_upd_same_d; auto. rewrite Hlen. eapply nth_error_lt; eauto.
  - rewrite nth_upd_other_d; auto.
Qed.

Lemma G_upd_same L G i w w' : Ginv L G -> nth_error L i = Some w ->
  (forall c, gpc_of (pc w') = Some c -> gok w' c (nth i G g0)) -> Ginv (upd L i w') G.
Proof.
  intros [Hlen HG] Hi Hc. split; [rewrite !upd_length; auto|].
  intros l wl c Hl Hp. apply nth_upd_inv in Hl. destruct Hl as [[-> ->]|[Hn Hl]]; auto.
Qed.

(* a move of the leader that keeps its group: same batches, limit, free space and own size *)
Lemma gok_keep wl wl' c c' g : gok wl c g -> lbatches c' = lbatches c -> llim c' = llim c -> lfree c' = lfree c ->
  wsize wl' = wsize wl -> gok wl' c' g.
Proof.
  intros [H1 H2 H3 H4 H5 H6 H7 H8 H9] Hb Hl Hf Hs. constructor; rewrite ?Hb, ?Hl, ?Hf, ?Hs; auto.
Qed.

Lemma gok_set_seq wl c g q : gok wl c g -> gok wl c (set_seq g q).
Proof. intros [H1 H2 H3 H4 H5 H6 H7 H8 H9]. constructor; auto. Qed.

Lemma gok_init l w free c : lbatches c = [l] -> llim c = merge_limit mp (wsize w) free -> lfree c = free ->
  gok w c (lead_init mp rq l (wsize w) free).
Proof.
  intros Hb Hl Hf. unfold lead_init. constructor; unfold gids; cbn [gx_batches gx_our gx_sync gx_merged gx_lim0 concat app seg_ids map fst]; rewrite ?Hb.
  - reflexivity.
  - reflexivity.
  - fold (putid l). destruct (putid l) eqn:Ep; cbn [our_bs length].
    + split; [lia|]. intros j b Hj. destruct j; simpl in Hj; [|destruct j; discriminate]. inversion Hj; subst.
      constructor; auto.
    + intros j b Hj. destruct j; simpl in Hj; [|destruct j; discriminate]. inversion Hj; subst. constructor; auto.
  - simpl. rewrite orb_false_r. reflexivity.
  - exists l. reflexivity.
  - simpl. rewrite Hl. reflexivity.
  - rewrite Hf. reflexivity.
  - constructor; auto.
  - exists l, (req_nrec (rq l)), [], [], []. auto.
Qed.

Lemma gok_merge wl c g i sz b : gok wl c g -> (llim c <? sz)%N = false ->
  gok wl {| lfree := lfree c; lown := b; llim := (llim c - sz)%N; lmerged := lmerged c;
            lbatches := lbatches c ++ [i]; lover := None; lreplied := lreplied c |}
      (merge_data v_real g i (rq i) sz).
Proof.
  intros [H1 H2 H3 H4 H5 H6 H7 H8 H9] Hsz. apply N.ltb_ge in Hsz. unfold merge_data.
  destruct H5 as [h H5]. destruct H9 as (hh & hn & hb & hbs & ht & H9 & H9').
  assert (Hhd1 : forall x0, exists h0 n0 b0 bs0 t0, gx_batches g ++ [x0] = ((h0, n0) :: b0) :: bs0 /\ lbatches c ++ [i] = h0 :: t0).
  { intros x0. exists hh, hn, hb, (hbs ++ [x0]), (ht ++ [i]). rewrite H9, H9'. auto. }
  assert (Hhd2 : forall k x0, exists h0 n0 b0 bs0 t0, app_at (gx_batches g) k x0 = ((h0, n0) :: b0) :: bs0 /\ lbatches c ++ [i] = h0 :: t0).
  { intros k x0. rewrite H9, H9'. destruct k; simpl.
    - exists hh, hn, (hb ++ [x0]), hbs, (ht ++ [i]). auto.
    - exists hh, hn, hb, (app_at hbs k x0), (ht ++ [i]). auto. }
  assert (Hm : exists h0, lbatches c ++ [i] = h0 :: map fst (gx_merged g ++ [(i, sz)])).
  { exists h. rewrite H5, map_app. reflexivity. }
  assert (Hlim : (sum_sizes (gx_merged g ++ [(i, sz)]) + (llim c - sz))%N = gx_lim0 g).
  { rewrite sum_sizes_app. simpl. lia. }
  assert (Hsy : gx_sync g || rq_sync (rq i) = existsb (fun i0 => rq_sync (rq i0)) (lbatches c ++ [i])).
  { rewrite existsb_app, H4. simpl. rewrite orb_false_r. reflexivity. }
  fold (putid i). destruct (putid i) eqn:Ep;
    [assert (Enp : nputid i = false) by (unfold nputid; rewrite Ep; reflexivity)
    |assert (Enp : nputid i = true) by (unfold nputid; rewrite Ep; reflexivity)].
  - destruct (gx_our g) as [k|] eqn:Eo; cbn [our_bs] in H3.
    + destruct H3 as [Hk H3]. destruct (app_at_put (gx_batches g) i 1%N Ep k Hk H3) as (A1 & A2 & A3).
      constructor; unfold gids; cbn [gx_batches gx_our gx_sync gx_merged gx_lim0 lbatches llim lfree v_real v_sync_put]; auto.
      * rewrite A1, filter_app. unfold gids in H1. rewrite H1. simpl. rewrite Ep. reflexivity.
      * rewrite A2, filter_app. unfold gids in H2. rewrite H2. simpl. rewrite Enp. rewrite app_nil_r. reflexivity.
      * cbn [our_bs]. rewrite app_at_length. split; auto.
      * apply app_at_forall; auto. simpl. unfold req_nrec. fold (putid i). rewrite Ep. reflexivity.
    + constructor; unfold gids; cbn [gx_batches gx_our gx_sync gx_merged gx_lim0 lbatches llim lfree v_real v_sync_put]; auto.
      * rewrite concat_app, seg_ids_app, !filter_app. unfold gids in H1. rewrite H1. simpl. rewrite Ep. reflexivity.
      * rewrite concat_app, seg_ids_app, !filter_app. unfold gids in H2. rewrite H2. simpl. rewrite Enp. rewrite ?app_nil_r. reflexivity.
      * cbn [our_bs]. rewrite app_length. simpl. split; [lia|]. intros j b0 Hj.
        destruct (Nat.lt_ge_cases j (length (gx_batches g))) as [Hlt|Hge].
        -- rewrite nth_error_app1 in Hj by lia. assert (E : Nat.eqb j (length (gx_batches g)) = false) by (apply Nat.eqb_neq; lia).
           rewrite E. eapply H3; eauto.
        -- rewrite nth_error_app2 in Hj by lia. destruct (j - length (gx_batches g)) eqn:Ej; simpl in Hj; [|destruct n; discriminate].
           inversion Hj; subst. assert (E : Nat.eqb j (length (gx_batches g)) = true) by (apply Nat.eqb_eq; lia).
           rewrite E. constructor; auto.
      * rewrite concat_app. apply Forall_app; split; auto. simpl. constructor; auto. simpl. unfold req_nrec. fold (putid i). rewrite Ep. reflexivity.
  - constructor; unfold gids; cbn [gx_batches gx_our gx_sync gx_merged gx_lim0 lbatches llim lfree]; auto.
    + rewrite concat_app, seg_ids_app, !filter_app. unfold gids in H1. rewrite H1. simpl. rewrite Ep. reflexivity.
    + rewrite concat_app, seg_ids_app, !filter_app. unfold gids in H2. rewrite H2. simpl. rewrite Enp. rewrite ?app_nil_r. reflexivity.
    + destruct (gx_our g) as [k|]; cbn [our_bs] in *.
      * destruct H3 as [Hk H3]. rewrite app_length. split; [lia|]. intros j b0 Hj.
        destruct (Nat.lt_ge_cases j (length (gx_batches g))) as [Hlt|Hge].
        -- rewrite nth_error_app1 in Hj by lia. eapply H3; eauto.
        -- rewrite nth_error_app2 in Hj by lia. destruct (j - length (gx_batches g)) eqn:Ej; simpl in Hj; [|destruct n; discriminate].
           inversion Hj; subst. assert (E : Nat.eqb j k = false) by (apply Nat.eqb_neq; lia). rewrite E. constructor; auto.
      * intros j b0 Hj. destruct (Nat.lt_ge_cases j (length (gx_batches g))) as [Hlt|Hge].
        -- rewrite nth_error_app1 in Hj by lia. eapply H3; eauto.
        -- rewrite nth_error_app2 in Hj by lia. destruct (j - length (gx_batches g)) eqn:Ej; simpl in Hj; [|destruct n; discriminate].
           inversion Hj; subst. constructor; auto.
    + rewrite concat_app. apply Forall_app; split; auto. simpl. constructor; auto.
Qed.


Ltac dsimp := cbn [dstep]; unfold getw;
  repeat match goal with E : nth_error (ws ?s) ?i = Some _ |- _ => rewrite E end;
  repeat match goal with E : pc ?w = _ |- _ => rewrite E end;
  cbn [dgs dseq djl dmem with_g ws setw with_ws with_lock with_env with_logs].

Lemma Ginv_old L G l wl c : Ginv L G -> nth_error L l = Some wl -> gpc_of (pc wl) = Some c -> gok wl c (nth l G g0).
Proof. intros [_ H]. apply H. Qed.

Lemma G_two L G i l wi wl wi' wl' g' : Ginv L G -> nth_error L i = Some wi -> nth_error L l = Some wl -> i <> l ->
  gpc_of (pc wi') = None -> (forall c, gpc_of (pc wl') = Some c -> gok wl' c g') ->
  Ginv (upd (upd L i wi') l wl') (upd G l g').
Proof.
  intros HG Hi Hl Hn Hpi Hc. eapply G_upd; eauto.
  - eapply G_upd_same; eauto. intros c Hc'. rewrite Hpi in Hc'. discriminate.
  - rewrite nth_upd_other; eauto.
Qed.

Lemma G_two_same L G i l wi wl wi' wl' : Ginv L G -> nth_error L i = Some wi -> nth_error L l = Some wl -> i <> l ->
  gpc_of (pc wi') = None -> (forall c, gpc_of (pc wl') = Some c -> gok wl' c (nth l G g0)) ->
  Ginv (upd (upd L i wi') l wl') G.
Proof.
  intros HG Hi Hl Hn Hpi Hc. eapply G_upd_same; eauto.
  - eapply G_upd_same; eauto. intros c Hc'. rewrite Hpi in Hc'. discriminate.
  - rewrite nth_upd_other; eauto.
Qed.

Lemma xstep_G x a x' : Ginv (ws (xb x)) (dgs (xd x)) -> xstep mp v_real rq x a = Some x' ->
  Ginv (ws (xb x')) (dgs (xd x')).
Proof.
  intros HG H. destruct a as [a|q].
  2:{ apply xstep_txn in H. destruct H as (-> & -> & _). exact HG. }
  apply xstep_base in H. destruct H as (H & Hd & _). rewrite Hd. clear Hd. destruct x as [s d]. cbn [xb xd] in *.
  destruct a; step_cases H; dsimp; try exact HG.
  - (* ACall *) eapply G_upd_same; eauto. cbn [pc gpc_of]. intros; discriminate.
  - (* ASelMerge *)
    assert (Hn : i <> l) by (apply (pcs_differ _ _ _ _ _ E E0); congruence).
    pose proof (Ginv_old _ _ l w0 c HG E0) as Hold. rewrite E2 in Hold. specialize (Hold eq_refl).
    unfold merge_decide. destruct (llim c <? wsize w)%N eqn:Elt.
    + eapply G_two_same; eauto. cbn [pc set_pc gpc_of]. intros c' Hc'; inversion Hc'; subst c'.
      eapply gok_keep; eauto.
    + cbn [dgs with_g]. eapply G_two; eauto. cbn [pc set_pc gpc_of]. intros c' Hc'; inversion Hc'; subst c'.
      unfold getg. eapply gok_keep; [eapply gok_merge; eauto| | | |]; reflexivity.
  - eapply G_upd_same; eauto. cbn [pc set_pc gpc_of]. intros; discriminate.
  - eapply G_upd_same; eauto. cbn [pc set_pc gpc_of]. intros; discriminate.
  - eapply G_upd_same; eauto. cbn [pc set_pc gpc_of]. intros; discriminate.
  - (* AFlushOk *) eapply G_upd; eauto. cbn [pc set_pc]. intros c Hc.
    destruct (wmerge w); cbn [gpc_of] in Hc; inversion Hc; subst c; apply (gok_init l (set_pc w _)); reflexivity.
  - eapply G_upd_same; eauto. cbn [pc set_pc gpc_of]. intros; discriminate.
  - eapply G_upd_same; eauto. cbn [pc set_pc gpc_of]. intros; discriminate.
  - eapply G_upd_same; eauto. cbn [pc set_pc gpc_of]. intros; discriminate.
  - (* AReplyTrue *)
    assert (Hn : i <> l) by (apply (pcs_differ _ _ _ _ _ E0 E); congruence).
    pose proof (Ginv_old _ _ l w c HG E) as Hold. rewrite E1 in Hold. specialize (Hold eq_refl).
    eapply G_two_same; eauto. cbn [pc set_pc gpc_of]. intros c' Hc'; inversion Hc'; subst c'.
    eapply gok_keep; eauto.
  - (* AMergeDone *)
    pose proof (Ginv_old _ _ l w c HG E) as Hold. rewrite E0 in Hold. specialize (Hold eq_refl).
    eapply G_upd_same; eauto. cbn [pc set_pc gpc_of]. intros c' Hc'; inversion Hc'; subst c'. eapply gok_keep; eauto.
  - (* AJournalOk *)
    pose proof (Ginv_old _ _ l w c HG E) as Hold. rewrite E0 in Hold. specialize (Hold eq_refl).
    eapply G_upd; eauto. cbn [pc set_pc gpc_of]. intros c' Hc'; inversion Hc'; subst c'. apply gok_set_seq. unfold getg.
    eapply gok_keep; eauto.
  - eapply G_upd; eauto. cbn [pc set_pc gpc_of]. intros; discriminate.
  - eapply G_upd; eauto. cbn [pc set_pc gpc_of]. intros; discriminate.
  - eapply G_upd; eauto. cbn [pc set_pc gpc_of]. intros; discriminate.
  - (* AApply *)
    pose proof (Ginv_old _ _ l w c HG E) as Hold. rewrite E0 in Hold. specialize (Hold eq_refl).
    eapply G_upd_same; eauto. cbn [pc set_pc gpc_of]. intros c' Hc'; inversion Hc'; subst c'. eapply gok_keep; eauto.
  - eapply G_upd_same; eauto. cbn [pc set_pc gpc_of]. intros; discriminate.
  - eapply G_upd_same; eauto. cbn [pc set_pc gpc_of]. intros; discriminate.
  - eapply G_upd_same; eauto. cbn [pc set_pc gpc_of]. intros; discriminate.
  - eapply G_upd_same; eauto. cbn [pc set_pc gpc_of]. intros; discriminate.
  - eapply G_upd_same; eauto. cbn [pc set_pc gpc_of]. intros; discriminate.
  - eapply G_upd_same; eauto. cbn [pc set_pc gpc_of]. intros; discriminate.
  - (* AAck *)
    assert (Hn : i <> l) by (apply (pcs_differ _ _ _ _ _ E0 E); congruence).
    eapply G_two_same; eauto. cbn [pc set_pc gpc_of]. intros; discriminate.
  - (* AHandover *)
    assert (Hn : o <> l) by (apply (pcs_differ _ _ _ _ _ E0 E); congruence).
    eapply G_two_same; eauto. cbn [pc set_pc gpc_of]. intros; discriminate.
  - eapply G_upd_same; eauto. cbn [pc set_pc gpc_of]. intros; discriminate.
  - eapply G_upd_same; eauto. cbn [pc set_pc gpc_of]. intros; discriminate.
Qed.


(* ---------------------------------------------------------------- N: no writer is claimed twice *)

Lemma gok_perm wl c g : gok wl c g -> Permutation (gids g) (lbatches c).
Proof. intros H. apply (filters_perm putid); [apply (gk_put _ _ _ H)|apply (gk_bat _ _ _ H)]. Qed.

Definition jids (JL : list drec) : list nat := concat (map rec_ids JL).

Lemma jids_app JL r : jids (JL ++ [r]) = jids JL ++ rec_ids r.
Proof. unfold jids. rewrite map_app, concat_app. simpl. rewrite app_nil_r. reflexivity. Qed.

(* the requests a leader has taken into its group and told so (the request whose `true` is still to
   be sent is counted when it is sent) *)
Definition claim_of (p : wpc) : option (list nat) :=
  match p with
  | WLMerge c | WLJournal c => Some (lbatches c)
  | WLReply c _ => Some (removelast (lbatches c))
  | _ => None
  end.

Definition sbusy (p : wpc) : bool :=
  match p with WIdle | WSelect | WLFlush | WWaitMerged => false | _ => true end.

Lemma claim_holds p cl : claim_of p = Some cl -> holdsp p = 1.
Proof. destruct p; simpl; intros H; try discriminate; reflexivity. Qed.

Record Ninv (L : list writer) (J : list nat) : Prop := {
  n_nodup : NoDup J;
  n_pre : forall l wl cl, nth_error L l = Some wl -> claim_of (pc wl) = Some cl -> NoDup (J ++ cl);
  n_busy : forall i, In i J \/ (exists l wl cl, nth_error L l = Some wl /\ claim_of (pc wl) = Some cl /\ In i cl) ->
           exists w, nth_error L i = Some w /\ sbusy (pc w) = true
}.

Lemma N_upd1 L J i w w' : Ninv L J -> nth_error L i = Some w ->
  (sbusy (pc w) = true -> sbusy (pc w') = true) ->
  (forall cl, claim_of (pc w') = Some cl -> claim_of (pc w) = Some cl) ->
  Ninv (upd L i w') J.
Proof.
  intros [H1 H2 H3] Hi Hb Hc. constructor; auto.
  - intros l wl cl Hl Hcl. apply nth_upd_inv in Hl. destruct Hl as [[-> ->]|[Hn Hl]]; eauto.
  - intros j Hj.
    assert (Hold : In j J \/ (exists l wl cl, nth_error L l = Some wl /\ claim_of (pc wl) = Some cl /\ In j cl)).
    { destruct Hj as [Hj|(l & wl & cl & Hl & Hcl & Hin)]; auto. right.
      apply nth_upd_inv in Hl. destruct Hl as [[-> ->]|[Hn Hl]]; eauto 8. }
    destruct (H3 j Hold) as (wj & Hwj & Hbj).
    destruct (nth_upd_some L i w' j wj Hwj) as (wj' & Hj' & [[-> ->]|[Hne ->]]); eauto.
    exists w'. split; auto. apply Hb. rewrite Hi in Hwj. inversion Hwj; subst; auto.
Qed.

Lemma N_two L J i l wi wl wi' wl' : Ninv L J -> nth_error L i = Some wi -> nth_error L l = Some wl -> i <> l ->
  (sbusy (pc wi) = true -> sbusy (pc wi') = true) -> (forall cl, claim_of (pc wi') = Some cl -> claim_of (pc wi) = Some cl) ->
  (sbusy (pc wl) = true -> sbusy (pc wl') = true) -> (forall cl, claim_of (pc wl') = Some cl -> claim_of (pc wl) = Some cl) ->
  Ninv (upd (upd L i wi') l wl') J.
Proof.
  intros HN Hi Hl Hn A1 A2 B1 B2. eapply N_upd1; eauto.
  - eapply N_upd1; eauto.
  - rewrite nth_upd_other; eauto.
Qed.

Lemma not_claimed L J i w : Ninv L J -> nth_error L i = Some w -> sbusy (pc w) = false ->
  ~ In i J /\ forall l wl cl, nth_error L l = Some wl -> claim_of (pc wl) = Some cl -> ~ In i cl.
Proof.
  intros [H1 H2 H3] Hi Hb. split.
  - intros Hin. destruct (H3 i (or_introl Hin)) as (w0 & Hw0 & Hb0). rewrite Hi in Hw0. inversion Hw0; subst. congruence.
  - intros l wl cl Hl Hcl Hin. destruct (H3 i) as (w0 & Hw0 & Hb0); [right; eauto 8|].
    rewrite Hi in Hw0. inversion Hw0; subst. congruence.
Qed.

Lemma NoDup_snoc {A} (l : list A) x : NoDup l -> ~ In x l -> NoDup (l ++ [x]).
Proof. apply NoDup_app_single. Qed.

(* the leader starts its group with its own request *)
Lemma N_flush s J l w w' : inv s -> Ninv (ws s) J -> nth_error (ws s) l = Some w -> pc w = WLFlush ->
  claim_of (pc w') = Some [l] -> sbusy (pc w') = true -> Ninv (upd (ws s) l w') J.
Proof.
  intros Hv HN Hl Hp Hc Hb. destruct (not_claimed _ _ l w HN Hl) as [Hn1 Hn2]. { rewrite Hp. reflexivity. }
  destruct HN as [H1 H2 H3].
  assert (Hh : holds w = 1) by (unfold holds; rewrite Hp; reflexivity).
  assert (Hoth : forall j wj cl, j <> l -> nth_error (ws s) j = Some wj -> claim_of (pc wj) = Some cl -> False).
  { intros j wj cl Hj Hwj Hcl. apply claim_holds in Hcl. destruct (only_leader s l w Hv Hl Hh) as [Ho _].
    specialize (Ho j wj Hj Hwj). unfold holds in Ho. lia. }
  constructor; auto.
  - intros j wj cl Hj Hcl. apply nth_upd_inv in Hj. destruct Hj as [[-> ->]|[Hn Hj]].
    + rewrite Hc in Hcl. inversion Hcl; subst. apply NoDup_snoc; auto.
    + exfalso. eapply Hoth; eauto.
  - intros j Hj.
    assert (Hcase : j = l \/ In j J).
    { destruct Hj as [Hj|(l0 & wl0 & cl & Hl0 & Hcl & Hin)]; auto.
      apply nth_upd_inv in Hl0. destruct Hl0 as [[-> ->]|[Hn Hl0]].
      - rewrite Hc in Hcl. inversion Hcl; subst. destruct Hin as [<-|[]]; auto.
      - exfalso. eapply Hoth; eauto. }
    destruct Hcase as [->|Hin].
    + exists w'. split; auto. apply (nth_upd_same _ _ _ w); auto.
    + destruct (H3 j (or_introl Hin)) as (wj & Hwj & Hbj).
      destruct (nth_upd_some (ws s) l w' j wj Hwj) as (wj' & Hj' & [[-> ->]|[Hne ->]]); eauto.
Qed.

(* `true` is sent: the requester becomes a member *)
Lemma N_reply s J i l wi wl c x wi' : inv s -> P2 (ws s) -> Ninv (ws s) J ->
  nth_error (ws s) l = Some wl -> nth_error (ws s) i = Some wi -> pc wl = WLReply c x -> pc wi = WWaitMerged ->
  pc wi' = WWaitAck ->
  Ninv (upd (upd (ws s) i wi') l (set_pc wl (WLMerge (after_reply c i)))) J.
Proof.
  intros Hv HP HN E E0 E1 E2 E3.
  assert (Hn : i <> l) by (apply (pcs_differ _ _ _ _ _ E0 E); congruence).
  assert (Hix : i = x) by exact (P2_reply_is_x s l wl c x i wi Hv HP E E1 E0 E2). subst x.
  pose proof (HP l wl E) as Hok. rewrite E1 in Hok. simpl in Hok. destruct Hok as [Hb _].
  assert (Hrl : removelast (lbatches c) = l :: lreplied c).
  { rewrite Hb. change (l :: lreplied c ++ [i]) with ((l :: lreplied c) ++ [i]). apply removelast_last. }
  assert (Hh : holds wl = 1) by (unfold holds; rewrite E1; reflexivity).
  destruct (not_claimed _ _ i wi HN E0) as [Hn1 Hn2]. { rewrite E2. reflexivity. }
  assert (Hoth : forall j wj cl, j <> l -> nth_error (ws s) j = Some wj -> claim_of (pc wj) = Some cl -> False).
  { intros j wj cl Hj Hwj Hcl. apply claim_holds in Hcl. destruct (only_leader s l wl Hv E Hh) as [Ho _].
    specialize (Ho j wj Hj Hwj). unfold holds in Ho. lia. }
  assert (Hcl0 : claim_of (pc wl) = Some (l :: lreplied c)) by (rewrite E1; simpl; rewrite Hrl; reflexivity).
  destruct HN as [H1 H2 H3].
  assert (Hnew : lbatches c = (l :: lreplied c) ++ [i]) by (rewrite Hb; reflexivity).
  constructor; auto.
  - intros j wj cl Hj Hcl. apply nth_upd2_inv in Hj. destruct Hj as [[-> ->]|[(Hjl & -> & ->)|(Hjl & Hji & Hj)]].
    + cbn [pc set_pc claim_of lbatches after_reply] in Hcl. inversion Hcl; subst cl. rewrite Hnew, app_assoc. apply NoDup_snoc.
      * exact (H2 l wl _ E Hcl0).
      * intros Hin. apply in_app_or in Hin. destruct Hin as [Hin|Hin]; [auto|]. exact (Hn2 l wl _ E Hcl0 Hin).
    + rewrite E3 in Hcl. discriminate.
    + exfalso. eapply Hoth; eauto.
  - intros j Hj.
    assert (Hcase : j = i \/ In j J \/ In j (l :: lreplied c)).
    { destruct Hj as [Hj|(l0 & wl0 & cl & Hl0 & Hcl & Hin)]; auto.
      apply nth_upd2_inv in Hl0. destruct Hl0 as [[-> ->]|[(Hjl & -> & ->)|(Hjl & Hji & Hl0)]].
      - cbn [pc set_pc claim_of lbatches after_reply] in Hcl. inversion Hcl; subst cl. rewrite Hnew in Hin. apply in_app_or in Hin.
        destruct Hin as [Hin|[<-|[]]]; auto.
      - rewrite E3 in Hcl. discriminate.
      - exfalso. eapply Hoth; eauto. }
    destruct Hcase as [->|Hold].
    + exists wi'. split; [eapply nth_upd2_i; eauto|]. rewrite E3. reflexivity.
    + destruct (H3 j) as (wj & Hwj & Hbj). { destruct Hold; auto. right. eauto 8. }
      destruct (Nat.eq_dec j l) as [->|Hjl].
      * exists (set_pc wl (WLMerge (after_reply c i))). split; [eapply nth_upd2_l; eauto|]. reflexivity.
      * destruct (Nat.eq_dec j i) as [->|Hji].
        -- exists wi'. split; [eapply nth_upd2_i; eauto|]. rewrite E3. reflexivity.
        -- exists wj. split; auto. rewrite nth_upd2_other; auto.
Qed.

(* the group goes to the journal: its requests move from the leader's claim to the log *)
Lemma N_journal s J l w c w' ids : inv s -> Ninv (ws s) J -> nth_error (ws s) l = Some w -> pc w = WLJournal c ->
  Permutation ids (lbatches c) -> claim_of (pc w') = None -> sbusy (pc w') = true ->
  Ninv (upd (ws s) l w') (J ++ ids).
Proof.
  intros Hv HN Hl Hp Hperm Hc Hb.
  assert (Hh : holds w = 1) by (unfold holds; rewrite Hp; reflexivity).
  assert (Hoth : forall j wj cl, j <> l -> nth_error (ws s) j = Some wj -> claim_of (pc wj) = Some cl -> False).
  { intros j wj cl Hj Hwj Hcl. apply claim_holds in Hcl. destruct (only_leader s l w Hv Hl Hh) as [Ho _].
    specialize (Ho j wj Hj Hwj). unfold holds in Ho. lia. }
  destruct HN as [H1 H2 H3].
  assert (Hnd : NoDup (J ++ ids)).
  { eapply Permutation_NoDup; [|eapply (H2 l w (lbatches c)); eauto; rewrite Hp; reflexivity].
    apply Permutation_app_head. apply Permutation_sym. exact Hperm. }
  assert (Hnone : forall j wj cl, nth_error (upd (ws s) l w') j = Some wj -> claim_of (pc wj) = Some cl -> False).
  { intros j wj cl Hj Hcl. apply nth_upd_inv in Hj. destruct Hj as [[-> ->]|[Hn Hj]].
    - rewrite Hc in Hcl. discriminate.
    - eapply Hoth; eauto. }
  constructor; auto.
  - intros j wj cl Hj Hcl. exfalso. eapply Hnone; eauto.
  - intros j Hj.
    assert (Hin : In j J \/ In j (lbatches c)).
    { destruct Hj as [Hj|(l0 & wl0 & cl & Hl0 & Hcl & _)]; [|exfalso; eapply Hnone; eauto].
      apply in_app_or in Hj. destruct Hj as [Hj|Hj]; auto. right. eapply Permutation_in; eauto. }
    destruct (H3 j) as (wj & Hwj & Hbj).
    { destruct Hin; auto. right. exists l, w, (lbatches c). rewrite Hp. auto. }
    destruct (nth_upd_some (ws s) l w' j wj Hwj) as (wj' & Hj' & [[-> ->]|[Hne ->]]); eauto.
Qed.


Ltac n1 := eapply N_upd1; eauto; cbn [pc set_pc];
  repeat match goal with E : pc _ = _ |- _ => rewrite E end; cbn [sbusy claim_of]; try (intros; discriminate); auto.

Lemma xstep_N x a x' : inv (xb x) -> P2 (ws (xb x)) -> Ginv (ws (xb x)) (dgs (xd x)) ->
  Ninv (ws (xb x)) (jids (djl (xd x))) -> xstep mp v_real rq x a = Some x' ->
  Ninv (ws (xb x')) (jids (djl (xd x'))).
Proof.
  intros Hv HP HG HN H. destruct a as [a|q].
  2:{ apply xstep_txn in H. destruct H as (-> & _ & -> & _). exact HN. }
  apply xstep_base in H. destruct H as (H & Hd & _). rewrite Hd. clear Hd. destruct x as [s d]. cbn [xb xd] in *.
  destruct a; step_cases H; dsimp; try exact HN.
  - n1.
  - (* ASelMerge *)
    assert (Hn : i <> l) by (apply (pcs_differ _ _ _ _ _ E E0); congruence).
    assert (Hj : jids (djl (if (llim c <? wsize w)%N then d else with_g d l (merge_data v_real (getg d l) i (rq i) (wsize w)))) = jids (djl d))
      by (destruct (llim c <? wsize w)%N; reflexivity).
    rewrite Hj. eapply N_two; eauto; cbn [pc set_pc]; rewrite ?E1, ?E2; cbn [sbusy claim_of]; auto; try (intros; discriminate).
    + unfold merge_decide. destruct (llim c <? wsize w)%N; reflexivity.
    + unfold merge_decide. destruct (llim c <? wsize w)%N; cbn [claim_of lbatches]; intros cl Hcl; inversion Hcl; subst; auto.
      rewrite removelast_last. reflexivity.
  - n1.
  - n1.
  - n1.
  - (* AFlushOk *) eapply N_flush; eauto; cbn [pc set_pc]; destruct (wmerge w); reflexivity.
  - n1.
  - n1.
  - n1.
  - (* AReplyTrue *) eapply N_reply; eauto.
  - (* AMergeDone *) n1.
  - (* AJournalOk *) rewrite jids_app. cbn [rec_ids dr_segs]. eapply N_journal; eauto.
    pose proof (Ginv_old _ _ l w c HG E) as Hold. rewrite E0 in Hold. apply (gok_perm _ _ _ (Hold eq_refl)).
  - rewrite jids_app. cbn [rec_ids dr_segs]. eapply N_journal; eauto.
    pose proof (Ginv_old _ _ l w c HG E) as Hold. rewrite E0 in Hold. apply (gok_perm _ _ _ (Hold eq_refl)).
  - rewrite jids_app. cbn [rec_ids dr_segs]. eapply N_journal; eauto.
    pose proof (Ginv_old _ _ l w c HG E) as Hold. rewrite E0 in Hold. apply (gok_perm _ _ _ (Hold eq_refl)).
  - rewrite jids_app. cbn [rec_ids dr_segs]. eapply N_journal; eauto.
    pose proof (Ginv_old _ _ l w c HG E) as Hold. rewrite E0 in Hold. apply (gok_perm _ _ _ (Hold eq_refl)).
  - n1.
  - n1.
  - n1.
  - n1.
  - n1.
  - n1.
  - n1.
  - (* AAck *)
    assert (Hn : i <> l) by (apply (pcs_differ _ _ _ _ _ E0 E); congruence).
    eapply N_two; eauto; cbn [pc set_pc]; rewrite ?E1, ?E2; cbn [sbusy claim_of]; auto; try (intros; discriminate).
  - (* AHandover *)
    assert (Hn : o <> l) by (apply (pcs_differ _ _ _ _ _ E0 E); congruence).
    eapply N_two; eauto; cbn [pc set_pc]; rewrite ?E1, ?E2; cbn [sbusy claim_of]; auto; try (intros; discriminate).
  - n1.
  - n1.
Qed.


(* ---------------------------------------------------------------- L, R: a nil result means the request is in a journalled record *)

Definition post_ok (p : wpc) : option lctx :=
  match p with
  | WLApply c | WLPublish c | WLRotate c | WLUnlock c _ ROk => Some c
  | _ => None
  end.

Definition lrec (JL : list drec) (l : nat) (c : lctx) : Prop :=
  exists r, In r JL /\ dr_ok r = true /\ dr_leader r = l /\ In l (rec_ids r) /\ forall i, In i (lbatches c) -> In i (rec_ids r).

Definition Linv (L : list writer) (JL : list drec) : Prop :=
  forall l wl c, nth_error L l = Some wl -> post_ok (pc wl) = Some c -> lrec JL l c.

Definition okres (p : wpc) : bool := match p with WRet ROk | WDone ROk => true | _ => false end.

Definition Rinv (L : list writer) (JL : list drec) : Prop :=
  forall i w, nth_error L i = Some w -> okres (pc w) = true -> exists r, In r JL /\ dr_ok r = true /\ In i (rec_ids r).

Lemma lrec_mono JL r l c : lrec JL l c -> lrec (JL ++ [r]) l c.
Proof. intros (r0 & H0 & H). exists r0. split; auto. apply in_or_app; auto. Qed.

Lemma Linv_mono L JL r : Linv L JL -> Linv L (JL ++ [r]).
Proof. intros H l wl c Hl Hp. apply lrec_mono. eapply H; eauto. Qed.

Lemma Rinv_mono L JL r : Rinv L JL -> Rinv L (JL ++ [r]).
Proof. intros H i w Hi Hp. destruct (H i w Hi Hp) as (r0 & H0 & H1). exists r0. split; auto. apply in_or_app; auto. Qed.

Lemma L_upd1 L JL i w w' : Linv L JL -> nth_error L i = Some w ->
  (forall c', post_ok (pc w') = Some c' -> exists c, post_ok (pc w) = Some c /\ lbatches c' = lbatches c) ->
  Linv (upd L i w') JL.
Proof.
  intros HL Hi Hc l wl c Hl Hp. apply nth_upd_inv in Hl. destruct Hl as [[-> ->]|[Hn Hl]]; [|eapply HL; eauto].
  destruct (Hc c Hp) as (c0 & Hc0 & Hb). destruct (HL i w c0 Hi Hc0) as (r & H1 & H2 & H3 & H4 & H5).
  exists r. repeat split; auto. intros j Hj. apply H5. rewrite <- Hb. exact Hj.
Qed.

Lemma L_two L JL i l wi wl wi' wl' : Linv L JL -> nth_error L i = Some wi -> nth_error L l = Some wl -> i <> l ->
  post_ok (pc wi') = None ->
  (forall c', post_ok (pc wl') = Some c' -> exists c, post_ok (pc wl) = Some c /\ lbatches c' = lbatches c) ->
  Linv (upd (upd L i wi') l wl') JL.
Proof.
  intros HL Hi Hl Hn Hpi Hc. eapply L_upd1; eauto.
  - eapply L_upd1; eauto. intros c' Hc'. rewrite Hpi in Hc'. discriminate.
  - rewrite nth_upd_other; eauto.
Qed.

Lemma R_upd1 L JL i w w' : Rinv L JL -> nth_error L i = Some w -> (okres (pc w') = true -> okres (pc w) = true) ->
  Rinv (upd L i w') JL.
Proof.
  intros HR Hi Hc j wj Hj Hp. apply nth_upd_inv in Hj. destruct Hj as [[-> ->]|[Hn Hj]]; eauto.
Qed.

Lemma R_new L JL i w w' r : Rinv L JL -> nth_error L i = Some w -> In r JL -> dr_ok r = true -> In i (rec_ids r) ->
  Rinv (upd L i w') JL.
Proof.
  intros HR Hi H1 H2 H3 j wj Hj Hp. apply nth_upd_inv in Hj. destruct Hj as [[-> ->]|[Hn Hj]]; eauto.
Qed.

Ltac l1 := eapply L_upd1; eauto; cbn [pc set_pc];
  repeat match goal with E : pc _ = _ |- _ => rewrite E end; cbn [post_ok]; try (intros; discriminate);
  try (intros c' Hc'; inversion Hc'; subst c'; eexists; split; reflexivity).

Lemma xstep_L x a x' : P2 (ws (xb x)) -> Ginv (ws (xb x)) (dgs (xd x)) ->
  Linv (ws (xb x)) (djl (xd x)) -> xstep mp v_real rq x a = Some x' ->
  Linv (ws (xb x')) (djl (xd x')).
Proof.
  intros HP HG HL H. destruct a as [a|q].
  2:{ apply xstep_txn in H. destruct H as (-> & _ & -> & _). exact HL. }
  apply xstep_base in H. destruct H as (H & Hd & _). rewrite Hd. clear Hd. destruct x as [s d]. cbn [xb xd] in *.
  destruct a; step_cases H; dsimp; try exact HL.
  - l1.
  - (* ASelMerge *)
    assert (Hn : i <> l) by (apply (pcs_differ _ _ _ _ _ E E0); congruence).
    assert (Hj : djl (if (llim c <? wsize w)%N then d else with_g d l (merge_data v_real (getg d l) i (rq i) (wsize w))) = djl d)
      by (destruct (llim c <? wsize w)%N; reflexivity).
    rewrite Hj. eapply L_two; eauto; cbn [pc set_pc post_ok]; auto.
    unfold merge_decide. destruct (llim c <? wsize w)%N; cbn [post_ok]; intros; discriminate.
  - l1.
  - l1.
  - l1.
  - l1. destruct (wmerge w); cbn [post_ok]; intros; discriminate.
  - l1.
  - l1.
  - l1.
  - (* AReplyTrue *)
    assert (Hn : i <> l) by (apply (pcs_differ _ _ _ _ _ E0 E); congruence).
    eapply L_two; eauto; cbn [pc set_pc post_ok]; auto. intros; discriminate.
  - l1.
  - (* AJournalOk *)
    pose proof (Ginv_old _ _ l w c HG E) as Hold. rewrite E0 in Hold. specialize (Hold eq_refl).
    pose proof (HP l w E) as Hok. rewrite E0 in Hok. simpl in Hok.
    intros j wj cj Hj Hpj. apply nth_upd_inv in Hj. destruct Hj as [[-> ->]|[Hnj Hj]].
    + cbn [pc set_pc post_ok] in Hpj. inversion Hpj; subst cj.
      eexists. split; [apply in_or_app; right; left; reflexivity|]. cbn [dr_ok dr_leader rec_ids dr_segs].
      assert (Hin : forall i0, In i0 (lbatches c) -> In i0 (seg_ids (concat (gx_batches (getg d l))))).
      { intros i0 Hi0. eapply Permutation_in; [apply Permutation_sym; apply (gok_perm _ _ _ Hold)|exact Hi0]. }
      repeat split; auto. apply Hin. rewrite Hok. left. reflexivity.
    + apply lrec_mono. eapply HL; eauto.
  - apply Linv_mono. l1.
  - apply Linv_mono. l1.
  - apply Linv_mono. l1.
  - l1.
  - l1.
  - l1.
  - l1.
  - l1.
  - l1.
  - l1.
  - (* AAck *)
    assert (Hn : i <> l) by (apply (pcs_differ _ _ _ _ _ E0 E); congruence).
    eapply L_two; eauto; cbn [pc set_pc post_ok]; auto. rewrite E1. cbn [post_ok].
    destruct e; try (intros; discriminate). intros c' Hc'; inversion Hc'; subst c'; eexists; split; reflexivity.
  - (* AHandover *)
    assert (Hn : o <> l) by (apply (pcs_differ _ _ _ _ _ E0 E); congruence).
    eapply L_two; eauto; cbn [pc set_pc post_ok]; auto. intros; discriminate.
  - l1.
  - l1.
Qed.

Ltac r1 := eapply R_upd1; eauto; cbn [pc set_pc];
  repeat match goal with E : pc _ = _ |- _ => rewrite E end; cbn [okres]; try (intros; discriminate); auto.

Lemma R_two L JL i l wi wl wi' wl' : Rinv L JL -> nth_error L i = Some wi -> nth_error L l = Some wl -> i <> l ->
  (okres (pc wi') = true -> okres (pc wi) = true) -> (okres (pc wl') = true -> okres (pc wl) = true) ->
  Rinv (upd (upd L i wi') l wl') JL.
Proof.
  intros HR Hi Hl Hn A B. eapply R_upd1; eauto.
  - eapply R_upd1; eauto.
  - rewrite nth_upd_other; eauto.
Qed.

Lemma xstep_R x a x' : inv (xb x) -> Minv (ws (xb x)) -> Linv (ws (xb x)) (djl (xd x)) ->
  Rinv (ws (xb x)) (djl (xd x)) -> xstep mp v_real rq x a = Some x' ->
  Rinv (ws (xb x')) (djl (xd x')).
Proof.
  intros Hv HM HL HR H. destruct a as [a|q].
  2:{ apply xstep_txn in H. destruct H as (-> & _ & -> & _). exact HR. }
  apply xstep_base in H. destruct H as (H & Hd & _). rewrite Hd. clear Hd. destruct x as [s d]. cbn [xb xd] in *.
  destruct a; step_cases H; dsimp; try exact HR.
  - r1.
  - (* ASelMerge *)
    assert (Hn : i <> l) by (apply (pcs_differ _ _ _ _ _ E E0); congruence).
    assert (Hj : djl (if (llim c <? wsize w)%N then d else with_g d l (merge_data v_real (getg d l) i (rq i) (wsize w))) = djl d)
      by (destruct (llim c <? wsize w)%N; reflexivity).
    rewrite Hj. eapply R_two; eauto; cbn [pc set_pc okres]; try (intros; discriminate).
    unfold merge_decide. destruct (llim c <? wsize w)%N; cbn [okres]; intros; discriminate.
  - r1.
  - r1.
  - r1.
  - r1. destruct (wmerge w); cbn [okres]; intros; discriminate.
  - r1.
  - r1.
  - r1.
  - (* AReplyTrue *)
    assert (Hn : i <> l) by (apply (pcs_differ _ _ _ _ _ E0 E); congruence).
    eapply R_two; eauto; cbn [pc set_pc okres]; intros; discriminate.
  - r1.
  - apply Rinv_mono. r1.
  - apply Rinv_mono. r1.
  - apply Rinv_mono. r1.
  - apply Rinv_mono. r1.
  - r1.
  - r1.
  - r1.
  - r1.
  - r1.
  - r1.
  - r1.
  - (* AAck *)
    assert (Hn : i <> l) by (apply (pcs_differ _ _ _ _ _ E0 E); congruence).
    assert (HR1 : Rinv (upd (ws s) i (set_pc w0 (WRet e))) (djl d)).
    { destruct (okres (WRet e)) eqn:Ee.
      - destruct e; try discriminate.
        destruct (HM i w0 E0 E2) as (l0 & wl0 & c0 & Hl0 & Hc0 & Hin).
        assert (Hh : holds w = 1) by (unfold holds; rewrite E1; reflexivity).
        destruct (same_leader s l w l0 wl0 Hv E Hh Hl0) as [-> ->]. { unfold holds. eapply ctx_holds; eauto. }
        rewrite E1 in Hc0. simpl in Hc0. inversion Hc0; subst c0.
        destruct (HL l w c E) as (r & R1 & R2 & R3 & R4 & R5). { rewrite E1. reflexivity. }
        eapply R_new; eauto.
      - eapply R_upd1; eauto. cbn [pc set_pc]. rewrite Ee. intros; discriminate. }
    assert (El : nth_error (upd (ws s) i (set_pc w0 (WRet e))) l = Some w) by (rewrite nth_upd_other; auto).
    apply (R_upd1 _ _ _ _ _ HR1 El). cbn [pc set_pc okres]. intros; discriminate.
  - (* AHandover *)
    assert (Hn : o <> l) by (apply (pcs_differ _ _ _ _ _ E0 E); congruence).
    assert (HR1 : Rinv (upd (ws s) o (set_pc w0 WLFlush)) (djl d)).
    { eapply R_upd1; eauto. cbn [pc set_pc okres]. intros; discriminate. }
    assert (El : nth_error (upd (ws s) o (set_pc w0 WLFlush)) l = Some w) by (rewrite nth_upd_other; auto).
    destruct (okres (WRet e)) eqn:Ee.
    + destruct e; try discriminate.
      destruct (HL l w c E) as (r & R1 & R2 & R3 & R4 & R5). { rewrite E1. reflexivity. }
      eapply R_new; eauto.
    + eapply R_upd1; eauto. cbn [pc set_pc]. rewrite Ee. intros; discriminate.
  - (* ARelease *)
    destruct (okres (WRet e)) eqn:Ee.
    + destruct e; try discriminate.
      destruct (HL l w c E) as (r & R1 & R2 & R3 & R4 & R5). { rewrite E0. reflexivity. }
      eapply R_new; eauto.
    + eapply R_upd1; eauto. cbn [pc set_pc]. rewrite Ee. intros; discriminate.
  - (* AReturn *)
    eapply R_upd1; eauto. cbn [pc set_pc]. rewrite E0. destruct e; cbn [okres]; auto.
Qed.


(* ---------------------------------------------------------------- A: memdb insertions = journal numbering; S: sequence ranges *)

Definition numbering_all (JL : list drec) : list (nat * N * N) := concat (map rec_numbering (filter dr_ok JL)).

Lemma numbering_all_snoc JL r : numbering_all (JL ++ [r]) = numbering_all JL ++ (if dr_ok r then rec_numbering r else []).
Proof.
  unfold numbering_all. rewrite filter_app. simpl. destruct (dr_ok r); simpl.
  - rewrite map_app, concat_app. simpl. rewrite app_nil_r. reflexivity.
  - rewrite !app_nil_r. reflexivity.
Qed.

Fixpoint jend (lo : N) (JL : list drec) : N :=
  match JL with [] => lo | r :: t => jend (dr_seq r + rec_count r)%N t end.
Fixpoint jsorted (lo : N) (JL : list drec) : Prop :=
  match JL with [] => True | r :: t => (lo <= dr_seq r)%N /\ jsorted (dr_seq r + rec_count r)%N t end.

Lemma jend_snoc JL : forall lo r, jend lo (JL ++ [r]) = (dr_seq r + rec_count r)%N.
Proof. induction JL; intros; simpl; auto. Qed.

Lemma jsorted_snoc JL : forall lo r, jsorted lo JL -> (jend lo JL <= dr_seq r)%N -> jsorted lo (JL ++ [r]).
Proof. induction JL; intros lo r H1 H2; simpl in *; auto. destruct H1. split; auto. Qed.

Definition isapply (p : wpc) : bool := match p with WLApply _ => true | _ => false end.
Definition ispend (p : wpc) : bool := match p with WLApply _ | WLPublish _ => true | _ => false end.

Definition Ainv (L : list writer) (d : dstate) : Prop :=
  (forall l wl, nth_error L l = Some wl -> isapply (pc wl) = true ->
     dmem d ++ put_all (gx_seq (getg d l)) (gx_batches (getg d l)) = numbering_all (djl d)) /\
  ((forall l wl, nth_error L l = Some wl -> isapply (pc wl) = false) -> dmem d = numbering_all (djl d)).

Definition Sinv (L : list writer) (d : dstate) : Prop :=
  jsorted 1 (djl d) /\
  (forall l wl, nth_error L l = Some wl -> ispend (pc wl) = true ->
     (jend 1 (djl d) <= dseq d + 1 + batches_len (gx_batches (getg d l)))%N) /\
  ((forall l wl, nth_error L l = Some wl -> ispend (pc wl) = false) -> (jend 1 (djl d) <= dseq d + 1)%N).

Lemma holder_frame (H : wpc -> bool) L i w w' :
  nth_error L i = Some w -> H (pc w) = false ->
  (forall l wl, nth_error (upd L i w') l = Some wl -> H (pc wl) = false) ->
  forall l wl, nth_error L l = Some wl -> H (pc wl) = false.
Proof.
  intros Hi Hw Hall l wl Hl. destruct (Nat.eq_dec l i) as [->|Hn].
  - rewrite Hi in Hl. inversion Hl; subst; auto.
  - apply (Hall l wl). rewrite nth_upd_other; auto.
Qed.

Lemma A_upd1 L d d' i w w' : Ainv L d -> nth_error L i = Some w -> isapply (pc w) = false -> isapply (pc w') = false ->
  dmem d' = dmem d -> djl d' = djl d ->
  (forall l wl, nth_error L l = Some wl -> isapply (pc wl) = true -> getg d' l = getg d l) ->
  Ainv (upd L i w') d'.
Proof.
  intros [A1 A2] Hi Hw Hw' Hm Hj Hg. split.
  - intros l wl Hl Hp. apply nth_upd_inv in Hl. destruct Hl as [[-> ->]|[Hn Hl]]; [congruence|].
    rewrite Hm, Hj, (Hg l wl Hl Hp). eapply A1; eauto.
  - intros Hall. rewrite Hm, Hj. apply A2. eapply holder_frame; eauto.
Qed.

Lemma S_upd1 L d d' i w w' : Sinv L d -> nth_error L i = Some w -> ispend (pc w) = false -> ispend (pc w') = false ->
  dseq d' = dseq d -> djl d' = djl d ->
  (forall l wl, nth_error L l = Some wl -> ispend (pc wl) = true -> getg d' l = getg d l) ->
  Sinv (upd L i w') d'.
Proof.
  intros (S0 & S1 & S2) Hi Hw Hw' Hm Hj Hg. split; [rewrite Hj; auto|]. split.
  - intros l wl Hl Hp. apply nth_upd_inv in Hl. destruct Hl as [[-> ->]|[Hn Hl]]; [congruence|].
    rewrite Hm, Hj, (Hg l wl Hl Hp). eapply S1; eauto.
  - intros Hall. rewrite Hm, Hj. apply S2. eapply holder_frame; eauto.
Qed.

Lemma getg_with_other d l g l0 : l <> l0 -> getg (with_g d l g) l0 = getg d l0.
Proof. intros Hn. unfold getg, with_g. cbn [dgs]. apply nth_upd_other_d; auto. Qed.

Lemma others_not (H : wpc -> bool) s l wl : (forall p, H p = true -> holdsp p = 1) ->
  inv s -> nth_error (ws s) l = Some wl -> holds wl = 1 ->
  forall j w, j <> l -> nth_error (ws s) j = Some w -> H (pc w) = false.
Proof.
  intros HH Hv Hl Hh j w Hn Hj. destruct (only_leader s l wl Hv Hl Hh) as [Ho _]. specialize (Ho j w Hn Hj).
  destruct (H (pc w)) eqn:E; auto. apply HH in E. unfold holds in Ho. lia.
Qed.

Lemma isapply_holds p : isapply p = true -> holdsp p = 1.
Proof. destruct p; simpl; intros; try discriminate; reflexivity. Qed.
Lemma ispend_holds p : ispend p = true -> holdsp p = 1.
Proof. destruct p; simpl; intros; try discriminate; reflexivity. Qed.

(* the updated writer is the only possible holder after the step *)
Lemma only_holder (H : wpc -> bool) s l wl w' : (forall p, H p = true -> holdsp p = 1) ->
  inv s -> nth_error (ws s) l = Some wl -> holds wl = 1 ->
  forall j w, nth_error (upd (ws s) l w') j = Some w -> H (pc w) = true -> j = l /\ w = w'.
Proof.
  intros HH Hv Hl Hh j w Hj Hp. apply nth_upd_inv in Hj. destruct Hj as [[-> ->]|[Hn Hj]]; auto.
  rewrite (others_not H s l wl HH Hv Hl Hh j w Hn Hj) in Hp. discriminate.
Qed.

Lemma no_holder_old (H : wpc -> bool) s l wl : (forall p, H p = true -> holdsp p = 1) ->
  inv s -> nth_error (ws s) l = Some wl -> holds wl = 1 -> H (pc wl) = false ->
  forall j w, nth_error (ws s) j = Some w -> H (pc w) = false.
Proof.
  intros HH Hv Hl Hh Hp j w Hj. destruct (Nat.eq_dec j l) as [->|Hn].
  - rewrite Hl in Hj. inversion Hj; subst; auto.
  - exact (others_not H s l wl HH Hv Hl Hh j w Hn Hj).
Qed.

Ltac a1 := eapply A_upd1; eauto; cbn [pc set_pc];
  repeat match goal with E : pc _ = _ |- _ => rewrite E end; cbn [isapply]; auto.
Ltac s1 := eapply S_upd1; eauto; cbn [pc set_pc];
  repeat match goal with E : pc _ = _ |- _ => rewrite E end; cbn [ispend]; auto.

Lemma A_two L d d' i l wi wl wi' wl' : Ainv L d -> nth_error L i = Some wi -> nth_error L l = Some wl -> i <> l ->
  isapply (pc wi) = false -> isapply (pc wi') = false -> isapply (pc wl) = false -> isapply (pc wl') = false ->
  dmem d' = dmem d -> djl d' = djl d ->
  (forall l wl, nth_error L l = Some wl -> isapply (pc wl) = true -> getg d' l = getg d l) ->
  Ainv (upd (upd L i wi') l wl') d'.
Proof.
  intros HA Hi Hl Hn A B C D Hm Hj Hg.
  assert (H1 : Ainv (upd L i wi') d) by (eapply A_upd1; eauto).
  assert (El : nth_error (upd L i wi') l = Some wl) by (rewrite nth_upd_other; auto).
  apply (A_upd1 _ d d' l wl wl' H1 El C D Hm Hj).
  intros l0 wl0 Hl0 Hp. apply nth_upd_inv in Hl0. destruct Hl0 as [[-> ->]|[Hn0 Hl0]]; [congruence|eauto].
Qed.

Lemma S_two L d d' i l wi wl wi' wl' : Sinv L d -> nth_error L i = Some wi -> nth_error L l = Some wl -> i <> l ->
  ispend (pc wi) = false -> ispend (pc wi') = false -> ispend (pc wl) = false -> ispend (pc wl') = false ->
  dseq d' = dseq d -> djl d' = djl d ->
  (forall l wl, nth_error L l = Some wl -> ispend (pc wl) = true -> getg d' l = getg d l) ->
  Sinv (upd (upd L i wi') l wl') d'.
Proof.
  intros HA Hi Hl Hn A B C D Hm Hj Hg.
  assert (H1 : Sinv (upd L i wi') d) by (eapply S_upd1; eauto).
  assert (El : nth_error (upd L i wi') l = Some wl) by (rewrite nth_upd_other; auto).
  apply (S_upd1 _ d d' l wl wl' H1 El C D Hm Hj).
  intros l0 wl0 Hl0 Hp. apply nth_upd_inv in Hl0. destruct Hl0 as [[-> ->]|[Hn0 Hl0]]; [congruence|eauto].
Qed.


Lemma getg_upd_same d l g : l < length (dgs d) -> nth l (upd (dgs d) l g) g0 = g.
Proof. apply nth_upd_same_d. Qed.

Lemma xstep_A x a x' : inv (xb x) -> Ginv (ws (xb x)) (dgs (xd x)) ->
  Ainv (ws (xb x)) (xd x) -> xstep mp v_real rq x a = Some x' -> Ainv (ws (xb x')) (xd x').
Proof.
  intros Hv HG HA H. destruct a as [a|q].
  2:{ apply xstep_txn in H. destruct H as (-> & Hg & Hj & Hm & _). destruct HA as [A1 A2].
      unfold Ainv, getg. rewrite Hg, Hj, Hm. split; auto. }
  apply xstep_base in H. destruct H as (H & Hd & _). rewrite Hd. clear Hd. destruct x as [s d]. cbn [xb xd] in *.
  destruct HG as [Hlen _].
  destruct a; step_cases H; cbn [ws setw with_ws with_lock with_env with_logs]; try exact HA.
  all: try (a1; fail).
  - (* ASelMerge *)
    assert (Hn : i <> l) by (apply (pcs_differ _ _ _ _ _ E E0); congruence).
    eapply A_two; eauto; cbn [pc set_pc]; rewrite ?E1, ?E2; cbn [isapply]; auto.
    + unfold merge_decide. destruct (llim c <? wsize w)%N; reflexivity.
    + dsimp. destruct (llim c <? wsize w)%N; reflexivity.
    + dsimp. destruct (llim c <? wsize w)%N; reflexivity.
    + intros l0 wl0 Hl0 Hp0. dsimp. destruct (llim c <? wsize w)%N; auto. apply getg_with_other.
      intros ->. rewrite E0 in Hl0. inversion Hl0; subst. rewrite E2 in Hp0. discriminate.
  - (* AFlushOk *)
    eapply A_upd1; eauto; cbn [pc set_pc]; rewrite ?E0; auto.
    + destruct (wmerge w); reflexivity.
    + dsimp. reflexivity.
    + dsimp. reflexivity.
    + intros l0 wl0 Hl0 Hp0. dsimp. apply getg_with_other.
      intros ->. rewrite E in Hl0. inversion Hl0; subst. rewrite E0 in Hp0. discriminate.
  - (* AReplyTrue *)
    assert (Hn : i <> l) by (apply (pcs_differ _ _ _ _ _ E0 E); congruence).
    eapply A_two; eauto; cbn [pc set_pc]; rewrite ?E1, ?E2; cbn [isapply]; auto.
  - (* AJournalOk *)
    assert (Hh : holds w = 1) by (unfold holds; rewrite E0; reflexivity).
    assert (Hno : forall j wj, nth_error (ws s) j = Some wj -> isapply (pc wj) = false).
    { eapply no_holder_old; eauto using isapply_holds. rewrite E0. reflexivity. }
    destruct HA as [_ A2]. specialize (A2 Hno). dsimp. split.
    + intros l0 wl0 Hl0 Hp0.
      destruct (only_holder isapply s l w _ isapply_holds Hv E Hh l0 wl0 Hl0 Hp0) as [-> ->].
      unfold getg. cbn [dgs dmem djl]. rewrite getg_upd_same by (rewrite Hlen; eapply nth_error_lt; eauto).
      rewrite numbering_all_snoc. cbn [dr_ok set_seq gx_seq gx_batches]. rewrite A2. f_equal.
      unfold rec_numbering. cbn [dr_seq dr_segs]. apply put_all_concat.
    + intros Hall. exfalso. specialize (Hall l (set_pc w (WLApply c)) (nth_upd_same _ _ _ _ E)). discriminate.
  - (* AJournalFail *)
    assert (Hh : holds w = 1) by (unfold holds; rewrite E0; reflexivity).
    assert (Hno : forall j wj, nth_error (ws s) j = Some wj -> isapply (pc wj) = false).
    { eapply no_holder_old; eauto using isapply_holds. rewrite E0. reflexivity. }
    destruct HA as [_ A2]. specialize (A2 Hno). dsimp. split.
    + intros l0 wl0 Hl0 Hp0.
      destruct (only_holder isapply s l w _ isapply_holds Hv E Hh l0 wl0 Hl0 Hp0) as [-> ->]. discriminate.
    + intros _. cbn [dmem djl]. rewrite numbering_all_snoc. cbn [dr_ok]. rewrite app_nil_r. exact A2.
  - assert (Hh : holds w = 1) by (unfold holds; rewrite E0; reflexivity).
    assert (Hno : forall j wj, nth_error (ws s) j = Some wj -> isapply (pc wj) = false).
    { eapply no_holder_old; eauto using isapply_holds. rewrite E0. reflexivity. }
    destruct HA as [_ A2]. specialize (A2 Hno). dsimp. split.
    + intros l0 wl0 Hl0 Hp0.
      destruct (only_holder isapply s l w _ isapply_holds Hv E Hh l0 wl0 Hl0 Hp0) as [-> ->]. discriminate.
    + intros _. cbn [dmem djl]. rewrite numbering_all_snoc. cbn [dr_ok]. rewrite app_nil_r. exact A2.
  - assert (Hh : holds w = 1) by (unfold holds; rewrite E0; reflexivity).
    assert (Hno : forall j wj, nth_error (ws s) j = Some wj -> isapply (pc wj) = false).
    { eapply no_holder_old; eauto using isapply_holds. rewrite E0. reflexivity. }
    destruct HA as [_ A2]. specialize (A2 Hno). dsimp. split.
    + intros l0 wl0 Hl0 Hp0.
      destruct (only_holder isapply s l w _ isapply_holds Hv E Hh l0 wl0 Hl0 Hp0) as [-> ->]. discriminate.
    + intros _. cbn [dmem djl]. rewrite numbering_all_snoc. cbn [dr_ok]. rewrite app_nil_r. exact A2.
  - (* AApply *)
    assert (Hh : holds w = 1) by (unfold holds; rewrite E0; reflexivity).
    destruct HA as [A1 _]. specialize (A1 l w E). rewrite E0 in A1. specialize (A1 eq_refl). dsimp. split.
    + intros l0 wl0 Hl0 Hp0.
      destruct (only_holder isapply s l w _ isapply_holds Hv E Hh l0 wl0 Hl0 Hp0) as [-> ->]. discriminate.
    + intros _. cbn [dmem djl]. exact A1.
  - (* AAck *)
    assert (Hn : i <> l) by (apply (pcs_differ _ _ _ _ _ E0 E); congruence).
    eapply A_two; eauto; cbn [pc set_pc]; rewrite ?E1, ?E2; cbn [isapply]; auto.
  - (* AHandover *)
    assert (Hn : o <> l) by (apply (pcs_differ _ _ _ _ _ E0 E); congruence).
    eapply A_two; eauto; cbn [pc set_pc]; rewrite ?E1, ?E2; cbn [isapply]; auto.
Qed.


Lemma xstep_S x a x' : inv (xb x) -> Ginv (ws (xb x)) (dgs (xd x)) ->
  Sinv (ws (xb x)) (xd x) -> xstep mp v_real rq x a = Some x' -> Sinv (ws (xb x')) (xd x').
Proof.
  intros Hv HG HS H. destruct a as [a|q].
  2:{ apply xstep_txn in H. destruct H as (-> & Hg & Hj & Hm & Hq & Hle & _). destruct HS as (S0 & S1 & S2).
      unfold Sinv, getg. rewrite Hg, Hj, Hq. split; auto. split.
      - intros l wl Hl Hp. specialize (S1 l wl Hl Hp). unfold getg in S1. lia.
      - intros Hall. specialize (S2 Hall). lia. }
  apply xstep_base in H. destruct H as (H & Hd & _). rewrite Hd. clear Hd. destruct x as [s d]. cbn [xb xd] in *.
  destruct HG as [Hlen _].
  destruct a; step_cases H; cbn [ws setw with_ws with_lock with_env with_logs]; try exact HS.
  all: try (s1; fail).
  - (* ASelMerge *)
    assert (Hn : i <> l) by (apply (pcs_differ _ _ _ _ _ E E0); congruence).
    eapply S_two; eauto; cbn [pc set_pc]; rewrite ?E1, ?E2; cbn [ispend]; auto.
    + unfold merge_decide. destruct (llim c <? wsize w)%N; reflexivity.
    + dsimp. destruct (llim c <? wsize w)%N; reflexivity.
    + dsimp. destruct (llim c <? wsize w)%N; reflexivity.
    + intros l0 wl0 Hl0 Hp0. dsimp. destruct (llim c <? wsize w)%N; auto. apply getg_with_other.
      intros ->. rewrite E0 in Hl0. inversion Hl0; subst. rewrite E2 in Hp0. discriminate.
  - (* AFlushOk *)
    eapply S_upd1; eauto; cbn [pc set_pc]; rewrite ?E0; auto.
    + destruct (wmerge w); reflexivity.
    + dsimp. reflexivity.
    + dsimp. reflexivity.
    + intros l0 wl0 Hl0 Hp0. dsimp. apply getg_with_other.
      intros ->. rewrite E in Hl0. inversion Hl0; subst. rewrite E0 in Hp0. discriminate.
  - (* AReplyTrue *)
    assert (Hn : i <> l) by (apply (pcs_differ _ _ _ _ _ E0 E); congruence).
    eapply S_two; eauto; cbn [pc set_pc]; rewrite ?E1, ?E2; cbn [ispend]; auto.
  - (* AJournalOk *)
    assert (Hh : holds w = 1) by (unfold holds; rewrite E0; reflexivity).
    assert (Hno : forall j wj, nth_error (ws s) j = Some wj -> ispend (pc wj) = false).
    { eapply no_holder_old; eauto using ispend_holds. rewrite E0. reflexivity. }
    destruct HS as (S0 & _ & S2). specialize (S2 Hno). dsimp. split; [|split].
    + cbn [djl]. apply jsorted_snoc; auto.
    + intros l0 wl0 Hl0 Hp0.
      destruct (only_holder ispend s l w _ ispend_holds Hv E Hh l0 wl0 Hl0 Hp0) as [-> ->].
      unfold getg. cbn [dgs dseq djl]. rewrite getg_upd_same by (rewrite Hlen; eapply nth_error_lt; eauto).
      rewrite jend_snoc. cbn [dr_seq set_seq gx_batches]. unfold rec_count. cbn [dr_segs].
      rewrite batches_len_concat. lia.
    + intros Hall. exfalso. specialize (Hall l (set_pc w (WLApply c)) (nth_upd_same _ _ _ _ E)). discriminate.
  - (* AJournalFail *)
    assert (Hh : holds w = 1) by (unfold holds; rewrite E0; reflexivity).
    assert (Hno : forall j wj, nth_error (ws s) j = Some wj -> ispend (pc wj) = false).
    { eapply no_holder_old; eauto using ispend_holds. rewrite E0. reflexivity. }
    destruct HS as (S0 & _ & S2). specialize (S2 Hno). dsimp. split; [|split].
    + cbn [djl]. apply jsorted_snoc; auto.
    + intros l0 wl0 Hl0 Hp0.
      destruct (only_holder ispend s l w _ ispend_holds Hv E Hh l0 wl0 Hl0 Hp0) as [-> ->]. discriminate.
    + intros _. cbn [dseq djl v_real v_consume]. rewrite jend_snoc. cbn [dr_seq]. unfold rec_count. cbn [dr_segs].
      rewrite batches_len_concat. lia.
  - assert (Hh : holds w = 1) by (unfold holds; rewrite E0; reflexivity).
    assert (Hno : forall j wj, nth_error (ws s) j = Some wj -> ispend (pc wj) = false).
    { eapply no_holder_old; eauto using ispend_holds. rewrite E0. reflexivity. }
    destruct HS as (S0 & _ & S2). specialize (S2 Hno). dsimp. split; [|split].
    + cbn [djl]. apply jsorted_snoc; auto.
    + intros l0 wl0 Hl0 Hp0.
      destruct (only_holder ispend s l w _ ispend_holds Hv E Hh l0 wl0 Hl0 Hp0) as [-> ->]. discriminate.
    + intros _. cbn [dseq djl v_real v_consume]. rewrite jend_snoc. cbn [dr_seq]. unfold rec_count. cbn [dr_segs].
      rewrite batches_len_concat. lia.
  - assert (Hh : holds w = 1) by (unfold holds; rewrite E0; reflexivity).
    assert (Hno : forall j wj, nth_error (ws s) j = Some wj -> ispend (pc wj) = false).
    { eapply no_holder_old; eauto using ispend_holds. rewrite E0. reflexivity. }
    destruct HS as (S0 & _ & S2). specialize (S2 Hno). dsimp. split; [|split].
    + cbn [djl]. apply jsorted_snoc; auto.
    + intros l0 wl0 Hl0 Hp0.
      destruct (only_holder ispend s l w _ ispend_holds Hv E Hh l0 wl0 Hl0 Hp0) as [-> ->]. discriminate.
    + intros _. cbn [dseq djl v_real v_consume]. rewrite jend_snoc. cbn [dr_seq]. unfold rec_count. cbn [dr_segs].
      rewrite batches_len_concat. lia.
  - (* AApply: still pending *)
    assert (Hh : holds w = 1) by (unfold holds; rewrite E0; reflexivity).
    destruct HS as (S0 & S1 & _). specialize (S1 l w E). rewrite E0 in S1. specialize (S1 eq_refl). dsimp. split; [|split]; auto.
    + intros l0 wl0 Hl0 Hp0.
      destruct (only_holder ispend s l w _ ispend_holds Hv E Hh l0 wl0 Hl0 Hp0) as [-> ->]. exact S1.
    + intros Hall. exfalso. specialize (Hall l (set_pc w (WLPublish c)) (nth_upd_same _ _ _ _ E)). discriminate.
  - (* APublish *)
    assert (Hh : holds w = 1) by (unfold holds; rewrite E0; reflexivity).
    destruct HS as (S0 & S1 & _). specialize (S1 l w E). rewrite E0 in S1. specialize (S1 eq_refl). dsimp. split; [|split]; auto.
    + intros l0 wl0 Hl0 Hp0.
      destruct (only_holder ispend s l w _ ispend_holds Hv E Hh l0 wl0 Hl0 Hp0) as [-> ->]. discriminate.
    + intros _. cbn [dseq djl]. lia.
  - (* AAck *)
    assert (Hn : i <> l) by (apply (pcs_differ _ _ _ _ _ E0 E); congruence).
    eapply S_two; eauto; cbn [pc set_pc]; rewrite ?E1, ?E2; cbn [ispend]; auto.
  - (* AHandover *)
    assert (Hn : o <> l) by (apply (pcs_differ _ _ _ _ _ E0 E); congruence).
    eapply S_two; eauto; cbn [pc set_pc]; rewrite ?E1, ?E2; cbn [ispend]; auto.
Qed.


(* ---------------------------------------------------------------- J: every record of the data log is its group of the base log *)

Definition syncof (l : list nat) : bool := existsb (fun i => rq_sync (rq i)) l.

Record rec_group (r : drec) (j : jrecd) : Prop := {
  rg_leader : dr_leader r = j_leader j;
  rg_ok : dr_ok r = j_ok j;
  rg_put : filter putid (rec_ids r) = filter putid (j_batches j);
  rg_bat : filter nputid (rec_ids r) = filter nputid (j_batches j);
  rg_hd : hd_error (rec_ids r) = hd_error (j_batches j);
  rg_sync : dr_sync r = syncof (j_batches j);
  rg_nrec : Forall (fun sg : seg => snd sg = req_nrec (rq (fst sg))) (dr_segs r)
}.

Definition Jinv (x : xstate) : Prop := Forall2 rec_group (djl (xd x)) (jlog (xb x)).

Lemma Forall2_snoc {A B} (R : A -> B -> Prop) l1 l2 a b : Forall2 R l1 l2 -> R a b -> Forall2 R (l1 ++ [a]) (l2 ++ [b]).
Proof. intros H1 H2. apply Forall2_app; auto. Qed.

Lemma gok_rec_group wl c g ok l q jr : gok wl c g ->
  rec_group {| dr_ok := ok; dr_leader := l; dr_seq := q; dr_segs := concat (gx_batches g); dr_sync := gx_sync g |}
            {| j_ok := ok; j_leader := l; j_batches := lbatches c; j_replied := jr |}.
Proof.
  intros [H1 H2 H3 H4 H5 H6 H7 H8 H9]. constructor; cbn [dr_leader dr_ok rec_ids dr_segs dr_sync j_leader j_ok j_batches]; auto.
  destruct H9 as (h & n & b & bs & t & Hb & Hl). rewrite Hb, Hl. reflexivity.
Qed.

Lemma xstep_J x a x' : Ginv (ws (xb x)) (dgs (xd x)) -> Jinv x -> xstep mp v_real rq x a = Some x' -> Jinv x'.
Proof.
  intros HG HJ H. unfold Jinv in *. destruct a as [a|q].
  2:{ apply xstep_txn in H. destruct H as (-> & _ & -> & _). exact HJ. }
  apply xstep_base in H. destruct H as (H & Hd & _). rewrite Hd. clear Hd. destruct x as [s d]. cbn [xb xd] in *.
  destruct a; step_cases H; dsimp; cbn [jlog with_logs setw with_ws with_lock with_env]; try exact HJ.
  - destruct (llim c <? wsize w)%N; exact HJ.
  - pose proof (Ginv_old _ _ l w c HG E) as Hold. rewrite E0 in Hold. specialize (Hold eq_refl).
    apply Forall2_snoc; auto. apply (gok_rec_group w); auto.
  - pose proof (Ginv_old _ _ l w c HG E) as Hold. rewrite E0 in Hold. specialize (Hold eq_refl).
    apply Forall2_snoc; auto. apply (gok_rec_group w); auto.
  - pose proof (Ginv_old _ _ l w c HG E) as Hold. rewrite E0 in Hold. specialize (Hold eq_refl).
    apply Forall2_snoc; auto. apply (gok_rec_group w); auto.
  - pose proof (Ginv_old _ _ l w c HG E) as Hold. rewrite E0 in Hold. specialize (Hold eq_refl).
    apply Forall2_snoc; auto. apply (gok_rec_group w); auto.
Qed.

(* ---------------------------------------------------------------- all invariants together *)

Record XI (x : xstate) : Prop := {
  xi_inv : inv (xb x);
  xi_P2 : P2 (ws (xb x));
  xi_jok : Forall jok (jlog (xb x));
  xi_M : Minv (ws (xb x));
  xi_O : Oinv (ws (xb x));
  xi_G : Ginv (ws (xb x)) (dgs (xd x));
  xi_N : Ninv (ws (xb x)) (jids (djl (xd x)));
  xi_L : Linv (ws (xb x)) (djl (xd x));
  xi_R : Rinv (ws (xb x)) (djl (xd x));
  xi_A : Ainv (ws (xb x)) (xd x);
  xi_S : Sinv (ws (xb x)) (xd x);
  xi_J : Jinv x
}.

Lemma idle_nth n i w : nth_error (repeat idle_writer n) i = Some w -> w = idle_writer.
Proof. intros H. apply nth_error_In in H. apply repeat_spec in H. exact H. Qed.

Lemma XI_init n q0 : XI (xinit n q0).
Proof.
  constructor; cbn [xinit xb xd init ws jlog dgs djl dmem dseq].
  - apply inv_init.
  - apply P2_init.
  - constructor.
  - intros i w Hi Hp. apply idle_nth in Hi. subst. discriminate.
  - intros l wl c x Hl Hc. apply idle_nth in Hl. subst. discriminate.
  - split; [rewrite !repeat_length; reflexivity|]. intros l wl c Hl Hc. apply idle_nth in Hl. subst. discriminate.
  - constructor.
    + constructor.
    + intros l wl cl Hl Hc. apply idle_nth in Hl. subst. discriminate.
    + intros i [[]|(l & wl & cl & Hl & Hc & _)]. apply idle_nth in Hl. subst. discriminate.
  - intros l wl c Hl Hc. apply idle_nth in Hl. subst. discriminate.
  - intros i w Hi Hp. apply idle_nth in Hi. subst. discriminate.
  - split; [|reflexivity]. intros l wl Hl Hp. apply idle_nth in Hl. subst. discriminate.
  - split; [exact I|]. split; [|intros _; simpl; lia]. intros l wl Hl Hp. apply idle_nth in Hl. subst. discriminate.
  - constructor.
Qed.

Lemma xstep_XI x a x' : XI x -> xstep mp v_real rq x a = Some x' -> XI x'.
Proof.
  intros [H1 H2 H3 H4 H5 H6 H7 H8 H9 H10 H11 H12] H.
  assert (Hb : inv (xb x') /\ P2 (ws (xb x')) /\ Forall jok (jlog (xb x')) /\ Minv (ws (xb x')) /\ Oinv (ws (xb x'))).
  { destruct a as [a|q].
    - destruct (xstep_base _ _ _ _ _ _ H) as (Hs & _ & _).
      destruct (step_P2 mp _ _ _ H1 H2 H3 Hs). split; [|split; [|split; [|split]]]; auto.
      + eapply step_inv; eauto.
      + eapply step_M; eauto.
      + eapply step_O; eauto.
    - destruct (xstep_txn _ _ _ _ _ _ H) as (-> & _). auto. }
  destruct Hb as (B1 & B2 & B3 & B4 & B5).
  constructor; auto.
  - exact (xstep_G x a x' H6 H).
  - exact (xstep_N x a x' H1 H2 H6 H7 H).
  - exact (xstep_L x a x' H2 H6 H8 H).
  - exact (xstep_R x a x' H1 H4 H8 H9 H).
  - exact (xstep_A x a x' H1 H6 H10 H).
  - exact (xstep_S x a x' H1 H6 H11 H).
  - exact (xstep_J x a x' H6 H12 H).
Qed.

Lemma xrun_XI l : forall x x', XI x -> xrun mp v_real rq x l = Some x' -> XI x'.
Proof.
  induction l as [|a l IH]; simpl; intros x x' HX H.
  - inversion H; subst; auto.
  - destruct (xstep mp v_real rq x a) as [x1|] eqn:E; [|discriminate]. apply (IH x1 x'); auto. exact (xstep_XI x a x1 HX E).
Qed.

Lemma xreachable_XI n q0 x : xreachable mp v_real rq n q0 x -> XI x.
Proof. intros [l H]. exact (xrun_XI l _ _ (XI_init n q0) H). Qed.

End Data.
