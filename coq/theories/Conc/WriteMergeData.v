(* Conc/WriteMergeData.v — the DATA carried by goleveldb's writer serialisation and merge protocol,
   layered over the transition system of Conc/WriteMerge.v (which stays as it is: every run of the
   system below projects to a run of that system, so its theorems apply unchanged).

   What is added (leveldb/db_write.go, writeLocked / writeJournal, read line by line):
     - every request carries its kind (Put / Delete / Write(batch)), its number of records and its
       EFFECTIVE sync flag (wo.GetSync() && !o.GetNoSync(), the value put into writeMerge.sync);
       its internalLen is [wsize] of the base model;
     - the leader's local variables: [batches] (a list of batches; a batch is the list of the
       requests whose records it holds, in order), [ourBatch] (an index into batches: the leader's
       own batch when the leader came through putRec, otherwise a pooled batch created — and
       appended to batches — by the FIRST merged Put/Delete; every later merged Put/Delete is
       appended to that same batch, wherever it sits in batches by then), [sync] (OR-ed with
       incoming.sync after either branch), [seq] (db.seq + 1, read just before writeJournal);
     - writeJournal(batches, seq, sync): ONE journal record = header (seq, total count) followed
       by the records of all batches in list order; the file is synced iff sync;
     - the putMem loop: batch k is inserted with the running seq, seq += batch.Len();
     - db.addSeq(batchesLen(batches)) after the loop — and, in the repaired code, also when
       writeJournal failed ("fix: consume the sequence numbers of a batch whose journal write
       failed");
     - db.seq is also moved by a committing transaction (db.setSeq(tr.seq)) while it owns the lock.

   Model file: definitions only (proofs in Conc/WriteMergeDataProofs.v). *)
From Coq Require Import List NArith Bool Arith.
From GL Require Import Conc.WriteMerge.
Import ListNotations.

Inductive wkind := KPut | KDelete | KBatch.

Record wreq := {
  rq_kind : wkind;
  rq_nrec : N;       (* Batch.Len() of a Write; a Put/Delete is one record whatever this says *)
  rq_sync : bool     (* writeMerge.sync *)
}.

Definition is_put (k : wkind) : bool := match k with KBatch => false | _ => true end.
Definition req_put (q : wreq) : bool := is_put (rq_kind q).
Definition req_nrec (q : wreq) : N := if req_put q then 1%N else rq_nrec q.

(* the requests of a run: writer i makes exactly one call (as in the base model), with request rq i *)
Definition reqtab := nat -> wreq.

(* a run of records of one request inside a batch: (writer id, number of records) *)
Definition seg := (nat * N)%type.
Definition dbatch := list seg.

(* local variables of writeLocked that carry data *)
Record gctx := {
  gx_batches : list dbatch;        (* batches *)
  gx_our : option nat;             (* ourBatch, as an index into batches; None = nil *)
  gx_sync : bool;                  (* sync *)
  gx_seq : N;                      (* seq (meaningful from "seq := db.seq + 1" on) *)
  gx_lim0 : N;                     (* history: mergeLimit when the merge loop was entered *)
  gx_merged : list (nat * N)       (* history: (writer, internalLen) of every merged request, in merge order *)
}.

Definition g0 : gctx :=
  {| gx_batches := []; gx_our := None; gx_sync := false; gx_seq := 0; gx_lim0 := 0; gx_merged := [] |}.

(* one call of writeJournal: the record it writes (or tried to write) *)
Record drec := {
  dr_ok : bool;            (* writeJournal returned nil *)
  dr_leader : nat;
  dr_seq : N;              (* header: sequence number of the first record *)
  dr_segs : list seg;      (* the records, in file order, as runs per request *)
  dr_sync : bool           (* the sync argument: journalWriter.Sync() was called (and succeeded when dr_ok) *)
}.

Record dstate := {
  dgs : list gctx;                 (* per writer: its writeLocked locals (meaningful while it leads) *)
  dseq : N;                        (* db.seq *)
  djl : list drec;                 (* journal log, one entry per call of writeJournal, in order *)
  dmem : list (nat * N * N)        (* memdb insertions, in order: (writer, seq of its first record, records) *)
}.

(* variants of the code: the code as it is = [v_real] *)
Record dvariant := {
  v_sync_put : bool;   (* sync = sync || incoming.sync also after the "merge put" branch
                          (false = seeded change C04_r2: the line moved into the "merge batch" branch) *)
  v_consume : bool     (* a failed writeJournal consumes the record's sequence numbers (the repair) *)
}.
Definition v_real : dvariant := {| v_sync_put := true; v_consume := true |}.

Definition seg_ids (b : list seg) : list nat := map fst b.
Definition seg_len (b : list seg) : N := fold_right (fun x a => (snd x + a)%N) 0%N b.      (* Batch.Len() *)
Definition batches_len (bs : list dbatch) : N := fold_right (fun b a => (seg_len b + a)%N) 0%N bs. (* batchesLen *)
Definition rec_ids (r : drec) : list nat := seg_ids (dr_segs r).
Definition rec_count (r : drec) : N := seg_len (dr_segs r).

Definition sum_sizes (l : list (nat * N)) : N := fold_right (fun x a => (snd x + a)%N) 0%N l.

(* ourBatch.appendRec: append to the batch at index k *)
Fixpoint app_at (bs : list dbatch) (k : nat) (x : seg) : list dbatch :=
  match bs, k with
  | [], _ => []
  | b :: r, O => (b ++ [x]) :: r
  | b :: r, S k' => b :: app_at r k' x
  end.

(* the body of the merge loop for a request that fits *)
Definition merge_data (v : dvariant) (g : gctx) (i : nat) (q : wreq) (sz : N) : gctx :=
  if req_put q then
    (* Merge put *)
    match gx_our g with
    | Some k =>
        {| gx_batches := app_at (gx_batches g) k (i, 1%N); gx_our := Some k;
           gx_sync := if v_sync_put v then gx_sync g || rq_sync q else gx_sync g;
           gx_seq := gx_seq g; gx_lim0 := gx_lim0 g; gx_merged := gx_merged g ++ [(i, sz)] |}
    | None =>
        {| gx_batches := gx_batches g ++ [[(i, 1%N)]]; gx_our := Some (length (gx_batches g));
           gx_sync := if v_sync_put v then gx_sync g || rq_sync q else gx_sync g;
           gx_seq := gx_seq g; gx_lim0 := gx_lim0 g; gx_merged := gx_merged g ++ [(i, sz)] |}
    end
  else
    (* Merge batch *)
    {| gx_batches := gx_batches g ++ [[(i, req_nrec q)]]; gx_our := gx_our g;
       gx_sync := gx_sync g || rq_sync q;
       gx_seq := gx_seq g; gx_lim0 := gx_lim0 g; gx_merged := gx_merged g ++ [(i, sz)] |}.

(* Batch.putMem(seq, mdb): the k-th record of the batch is inserted with seq + k *)
Fixpoint put_batch (seq : N) (b : list seg) : list (nat * N * N) :=
  match b with
  | [] => []
  | (i, n) :: r => (i, seq, n) :: put_batch (seq + n) r
  end.

(* for _, batch := range batches { batch.putMem(seq, mdb); seq += uint64(batch.Len()) } *)
Fixpoint put_all (seq : N) (bs : list dbatch) : list (nat * N * N) :=
  match bs with
  | [] => []
  | b :: r => put_batch seq b ++ put_all (seq + seg_len b) r
  end.

(* what a reader of the journal sees in a record: the records in file order, numbered from the header's seq *)
Definition rec_numbering (r : drec) : list (nat * N * N) := put_batch (dr_seq r) (dr_segs r).

Definition set_seq (g : gctx) (q : N) : gctx :=
  {| gx_batches := gx_batches g; gx_our := gx_our g; gx_sync := gx_sync g; gx_seq := q; gx_lim0 := gx_lim0 g; gx_merged := gx_merged g |}.

Definition getg (d : dstate) (l : nat) : gctx := nth l (dgs d) g0.

Definition with_g (d : dstate) (l : nat) (g : gctx) : dstate :=
  {| dgs := upd (dgs d) l g; dseq := dseq d; djl := djl d; dmem := dmem d |}.

Section DStep.
Variable mp : mparams.
Variable v : dvariant.
Variable rq : reqtab.

(* the locals after db.flush succeeded *)
Definition lead_init (l : nat) (sz free : N) : gctx :=
  {| gx_batches := [[(l, req_nrec (rq l))]];
     gx_our := if req_put (rq l) then Some 0 else None;     (* putRec: writeLocked(batch, batch, ..); Write: (batch, nil, ..) *)
     gx_sync := rq_sync (rq l);
     gx_seq := 0; gx_lim0 := merge_limit mp sz free; gx_merged := [] |}.

(* data effect of one action of the base system, read off the base state BEFORE the action *)
Definition dstep (s : state) (d : dstate) (a : action) : dstate :=
  match a with
  | AFlushOk l free =>
      match getw s l with
      | Some w => with_g d l (lead_init l (wsize w) free)
      | None => d
      end
  | ASelMerge i l =>
      match getw s i, getw s l with
      | Some w, Some wl =>
          match pc wl with
          | WLMerge c =>
              if (llim c <? wsize w)%N then d          (* does not fit: overflow = true; break merge *)
              else with_g d l (merge_data v (getg d l) i (rq i) (wsize w))
          | _ => d
          end
      | _, _ => d
      end
  | AJournalOk l =>
      let g := getg d l in
      let q := (dseq d + 1)%N in                        (* seq := db.seq + 1 *)
      {| dgs := upd (dgs d) l (set_seq g q); dseq := dseq d;
         djl := djl d ++ [{| dr_ok := true; dr_leader := l; dr_seq := q; dr_segs := concat (gx_batches g); dr_sync := gx_sync g |}];
         dmem := dmem d |}
  | AJournalFail l _ =>
      let g := getg d l in
      let q := (dseq d + 1)%N in
      {| dgs := upd (dgs d) l (set_seq g q);
         dseq := if v_consume v then (dseq d + batches_len (gx_batches g))%N else dseq d;
         djl := djl d ++ [{| dr_ok := false; dr_leader := l; dr_seq := q; dr_segs := concat (gx_batches g); dr_sync := gx_sync g |}];
         dmem := dmem d |}
  | AApply l =>
      let g := getg d l in
      {| dgs := dgs d; dseq := dseq d; djl := djl d; dmem := dmem d ++ put_all (gx_seq g) (gx_batches g) |}
  | APublish l =>
      let g := getg d l in
      {| dgs := dgs d; dseq := (dseq d + batches_len (gx_batches g))%N; djl := djl d; dmem := dmem d |}
  | _ => d
  end.

Record xstate := { xb : state; xd : dstate }.

Inductive xaction :=
| XA (a : action)        (* an action of the base system, with its data effect *)
| XTxnSeq (q : N).       (* a transaction that owns the lock commits: db.setSeq(tr.seq), tr.seq >= db.seq *)

(* a call must be of the kind its request says *)
Definition call_ok (a : action) : bool :=
  match a with
  | ACall i _ put _ => Bool.eqb put (req_put (rq i))
  | _ => true
  end.

Definition xstep (x : xstate) (a : xaction) : option xstate :=
  match a with
  | XA a =>
      if call_ok a then
        match step mp (xb x) a with
        | Some s' => Some {| xb := s'; xd := dstep (xb x) (xd x) a |}
        | None => None
        end
      else None
  | XTxnSeq q =>
      match topen (xb x) with
      | S _ => if (dseq (xd x) <=? q)%N
               then Some {| xb := xb x; xd := {| dgs := dgs (xd x); dseq := q; djl := djl (xd x); dmem := dmem (xd x) |} |}
               else None
      | O => None
      end
  end.

Fixpoint xrun (x : xstate) (l : list xaction) : option xstate :=
  match l with
  | [] => Some x
  | a :: l' => match xstep x a with Some x' => xrun x' l' | None => None end
  end.

(* n writers; db.seq = q0 when the DB was opened *)
Definition xinit (n : nat) (q0 : N) : xstate :=
  {| xb := init n; xd := {| dgs := repeat g0 n; dseq := q0; djl := []; dmem := [] |} |}.

End DStep.

(* the base actions of a run *)
Fixpoint base_actions (l : list xaction) : list action :=
  match l with
  | [] => []
  | XA a :: l' => a :: base_actions l'
  | XTxnSeq _ :: l' => base_actions l'
  end.
