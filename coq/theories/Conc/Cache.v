(* Conc/Cache.v — executable model of leveldb/cache/cache.go (Cache, Node, Handle) and
   leveldb/cache/lru.go (lru).  Model file: definitions only; proofs in Conc/CacheProofs.v and
   Conc/CacheLtsProofs.v.

   What is modelled, and how it follows the code
   ---------------------------------------------
   * The lock-striped resizable hash table (mHead / mBucket, grow / shrink with frozen
     buckets) is MODELLED AWAY: it is abstracted to one finite map (ns,key) -> node, kept as a
     list sorted by (ns,key) the way every bucket slice is sorted.  Consequently the order in
     which EvictNS / EvictAll / Close visit the nodes (bucket index = murmur32 & mask, then
     (ns,key)) is abstracted to plain (ns,key) order; the harness sorts what it observed inside
     one such operation by (ns,key) before comparing.  The quirk of enumerateNodesWithCB
     (the callback is re-run on the accumulated prefix for every bucket, so earlier nodes are
     visited again) is idempotent in the sequential semantics and is not modelled.
   * Node: ref (int32, here Z — it does go negative after Close(force)), value (option of a
     value id; None = nil), size, delFuncs (ids, in append order), CacheData (lrust:
     nil | lruNode{ban=false} | lruNode{ban=true}).
   * lru: capacity, used (Z, exact subtraction as in the code), the recency list (here: list
     of node ids, LEAST recent first, i.e. the list read from recent.prev backwards).
   * Cache: closed, statNodes, statSize (Z, exactly the code's counters), cacher nil or not.
   * Handles: live (not yet released) handles, handle id -> node id.  Releasing a handle that
     is not live (second Release, nil handle) is a no-op, as the CAS in Handle.Release makes it.
   * Go panics that the modelled code can raise ("BUG: Node.GetHandle on zero ref",
     "BUG: removing removed node", the nil dereference of the eviction loops on an empty list)
     set the sticky flag s_panic; the theorems show it is never set.
   * Sizes and capacities are N (the harness never passes negative ones; a negative capacity
     makes lru.SetCapacity dereference nil in the real code).
   * A log of events (newest first) records what user code can observe: constructor runs,
     finaliser runs (util.Releaser.Release of the value), delFunc runs; plus bookkeeping events
     used only by the theorems (node creation, delFunc registration).                          *)
From Coq Require Export List NArith ZArith Bool.
Export ListNotations.
Open Scope N_scope.

(* ------------------------------------------------------------------ data *)

Inductive lrust := LAbsent | LResident | LBanned.

Definition lrust_eqb (a b : lrust) : bool :=
  match a, b with
  | LAbsent, LAbsent | LResident, LResident | LBanned, LBanned => true
  | _, _ => false
  end.

Record node := mkNode {
  n_ns : N; n_key : N;
  n_id : N;                 (* identity of the Go object = one residency of (ns,key) *)
  n_ref : Z;
  n_val : option N;         (* id of the constructed value; None = nil *)
  n_size : N;
  n_dels : list N;          (* pending delFuncs, oldest first *)
  n_lru : lrust }.

Inductive event :=
| EvCreate (ns key nid : N)           (* bookkeeping: node allocated and linked into the map *)
| EvConstruct (nid vid size : N)      (* setFunc ran and returned the non-nil value vid *)
| EvSetNil (nid : N)                  (* setFunc ran and returned a nil value *)
| EvFinal (vid : N) (forced : bool)   (* value.Release() ran; forced = from Close(true)'s own callFinalizer *)
| EvDelReg (did nid : N)              (* bookkeeping: delFunc did appended to node nid *)
| EvDelRun (did : N).                 (* delFunc did ran *)

Record state := mkState {
  s_nodes : list node;        (* the map; after Close: the nodes that were in it, still reachable from handles *)
  s_cacher : bool;            (* Cache.cacher != nil *)
  s_cap : N;
  s_used : Z;
  s_order : list N;           (* node ids, least recently used first *)
  s_handles : list (N * N);   (* live handles: handle id, node id *)
  s_closed : bool;
  s_forced : bool;            (* closed by Close(true) *)
  s_stat_nodes : Z;
  s_stat_size : Z;
  s_next_nid : N; s_next_vid : N; s_next_hid : N; s_next_did : N;
  s_log : list event;         (* newest first *)
  s_panic : bool }.

Definition init (cacher : bool) (cap : N) : state :=
  mkState [] cacher cap 0%Z [] [] false false 0%Z 0%Z 0 0 0 0 [] false.

(* field updaters *)
Definition set_nodes (x : list node) (s : state) : state :=
  mkState x (s_cacher s) (s_cap s) (s_used s) (s_order s) (s_handles s) (s_closed s) (s_forced s)
    (s_stat_nodes s) (s_stat_size s) (s_next_nid s) (s_next_vid s) (s_next_hid s) (s_next_did s) (s_log s) (s_panic s).
Definition set_cap (x : N) (s : state) : state :=
  mkState (s_nodes s) (s_cacher s) x (s_used s) (s_order s) (s_handles s) (s_closed s) (s_forced s)
    (s_stat_nodes s) (s_stat_size s) (s_next_nid s) (s_next_vid s) (s_next_hid s) (s_next_did s) (s_log s) (s_panic s).
Definition set_used (x : Z) (s : state) : state :=
  mkState (s_nodes s) (s_cacher s) (s_cap s) x (s_order s) (s_handles s) (s_closed s) (s_forced s)
    (s_stat_nodes s) (s_stat_size s) (s_next_nid s) (s_next_vid s) (s_next_hid s) (s_next_did s) (s_log s) (s_panic s).
Definition set_order (x : list N) (s : state) : state :=
  mkState (s_nodes s) (s_cacher s) (s_cap s) (s_used s) x (s_handles s) (s_closed s) (s_forced s)
    (s_stat_nodes s) (s_stat_size s) (s_next_nid s) (s_next_vid s) (s_next_hid s) (s_next_did s) (s_log s) (s_panic s).
Definition set_handles (x : list (N * N)) (s : state) : state :=
  mkState (s_nodes s) (s_cacher s) (s_cap s) (s_used s) (s_order s) x (s_closed s) (s_forced s)
    (s_stat_nodes s) (s_stat_size s) (s_next_nid s) (s_next_vid s) (s_next_hid s) (s_next_did s) (s_log s) (s_panic s).
Definition set_closed (c f : bool) (s : state) : state :=
  mkState (s_nodes s) (s_cacher s) (s_cap s) (s_used s) (s_order s) (s_handles s) c f
    (s_stat_nodes s) (s_stat_size s) (s_next_nid s) (s_next_vid s) (s_next_hid s) (s_next_did s) (s_log s) (s_panic s).
Definition set_stats (n z : Z) (s : state) : state :=
  mkState (s_nodes s) (s_cacher s) (s_cap s) (s_used s) (s_order s) (s_handles s) (s_closed s) (s_forced s)
    n z (s_next_nid s) (s_next_vid s) (s_next_hid s) (s_next_did s) (s_log s) (s_panic s).
Definition set_next_nid (x : N) (s : state) : state :=
  mkState (s_nodes s) (s_cacher s) (s_cap s) (s_used s) (s_order s) (s_handles s) (s_closed s) (s_forced s)
    (s_stat_nodes s) (s_stat_size s) x (s_next_vid s) (s_next_hid s) (s_next_did s) (s_log s) (s_panic s).
Definition set_next_vid (x : N) (s : state) : state :=
  mkState (s_nodes s) (s_cacher s) (s_cap s) (s_used s) (s_order s) (s_handles s) (s_closed s) (s_forced s)
    (s_stat_nodes s) (s_stat_size s) (s_next_nid s) x (s_next_hid s) (s_next_did s) (s_log s) (s_panic s).
Definition set_next_hid (x : N) (s : state) : state :=
  mkState (s_nodes s) (s_cacher s) (s_cap s) (s_used s) (s_order s) (s_handles s) (s_closed s) (s_forced s)
    (s_stat_nodes s) (s_stat_size s) (s_next_nid s) (s_next_vid s) x (s_next_did s) (s_log s) (s_panic s).
Definition set_next_did (x : N) (s : state) : state :=
  mkState (s_nodes s) (s_cacher s) (s_cap s) (s_used s) (s_order s) (s_handles s) (s_closed s) (s_forced s)
    (s_stat_nodes s) (s_stat_size s) (s_next_nid s) (s_next_vid s) (s_next_hid s) x (s_log s) (s_panic s).
Definition set_log (x : list event) (s : state) : state :=
  mkState (s_nodes s) (s_cacher s) (s_cap s) (s_used s) (s_order s) (s_handles s) (s_closed s) (s_forced s)
    (s_stat_nodes s) (s_stat_size s) (s_next_nid s) (s_next_vid s) (s_next_hid s) (s_next_did s) x (s_panic s).
Definition set_panic (s : state) : state :=
  mkState (s_nodes s) (s_cacher s) (s_cap s) (s_used s) (s_order s) (s_handles s) (s_closed s) (s_forced s)
    (s_stat_nodes s) (s_stat_size s) (s_next_nid s) (s_next_vid s) (s_next_hid s) (s_next_did s) (s_log s) true.

Definition emit (e : event) (s : state) : state := set_log (e :: s_log s) s.

(* node field updaters *)
Definition nd_ref (r : Z) (n : node) : node :=
  mkNode (n_ns n) (n_key n) (n_id n) r (n_val n) (n_size n) (n_dels n) (n_lru n).
Definition nd_val (v : option N) (sz : N) (n : node) : node :=
  mkNode (n_ns n) (n_key n) (n_id n) (n_ref n) v sz (n_dels n) (n_lru n).
Definition nd_dels (d : list N) (n : node) : node :=
  mkNode (n_ns n) (n_key n) (n_id n) (n_ref n) (n_val n) (n_size n) d (n_lru n).
Definition nd_lru (l : lrust) (n : node) : node :=
  mkNode (n_ns n) (n_key n) (n_id n) (n_ref n) (n_val n) (n_size n) (n_dels n) l.

(* ------------------------------------------------------------------ the map *)

Definition key_eqb (ns key : N) (n : node) : bool := (n_ns n =? ns) && (n_key n =? key).
(* mNodes.Less *)
Definition key_ltb (ns key : N) (n : node) : bool :=
  if n_ns n =? ns then key <? n_key n else ns <? n_ns n.

Definition find_key (ns key : N) (l : list node) : option node := find (key_eqb ns key) l.
Definition find_id (nid : N) (l : list node) : option node := find (fun n => n_id n =? nid) l.
Definition upd_id (nid : N) (f : node -> node) (l : list node) : list node :=
  map (fun n => if n_id n =? nid then f n else n) l.
Definition remove_id (nid : N) (l : list node) : list node :=
  filter (fun n => negb (n_id n =? nid)) l.

(* mBucket.get's sorted insertion: before the first node with a greater (ns,key) *)
Fixpoint insert_node (x : node) (l : list node) : list node :=
  match l with
  | [] => [x]
  | y :: l' => if key_ltb (n_ns x) (n_key x) y then x :: l else y :: insert_node x l'
  end.

Definition upd_node (nid : N) (f : node -> node) (s : state) : state :=
  set_nodes (upd_id nid f (s_nodes s)) s.

Definition remove_order (nid : N) (l : list N) : list N := filter (fun x => negb (x =? nid)) l.
Definition in_order (nid : N) (l : list N) : bool := existsb (N.eqb nid) l.

(* ------------------------------------------------------------------ finalisation *)

Definition final_ev (v : option N) (forced : bool) (lg : list event) : list event :=
  match v with Some x => EvFinal x forced :: lg | None => lg end.
Definition dels_ev (ds : list N) (lg : list event) : list event := rev (map EvDelRun ds) ++ lg.

(* Cache.delete(n) -> mBucket.delete: looks the node up BY KEY, re-checks ref == 0 under the
   bucket lock, releases the value, unlinks the node, then runs the delFuncs and updates the
   counters (grow/shrink of the table is modelled away) *)
Definition cache_delete (ns key : N) (s : state) : state :=
  match find_key ns key (s_nodes s) with
  | None => s
  | Some n =>
      if (n_ref n =? 0)%Z then
        set_stats (s_stat_nodes s - 1)%Z (s_stat_size s - Z.of_N (n_size n))%Z
          (set_log (dels_ev (n_dels n) (final_ev (n_val n) false (s_log s)))
             (set_nodes (remove_id (n_id n) (s_nodes s)) s))
      else s
  end.

(* Node.callFinalizer *)
Definition call_finalizer (forced : bool) (nid : N) (s : state) : state :=
  match find_id nid (s_nodes s) with
  | None => s
  | Some n =>
      set_log (dels_ev (n_dels n) (final_ev (n_val n) forced (s_log s)))
        (upd_node nid (fun n => nd_dels [] (nd_val None (n_size n) n)) s)
  end.

(* Node.unRefInternal *)
Definition unref_internal (nid : N) (s : state) : state :=
  match find_id nid (s_nodes s) with
  | None => s
  | Some n =>
      let s1 := upd_node nid (nd_ref (n_ref n - 1)%Z) s in
      if (n_ref n - 1 =? 0)%Z then cache_delete (n_ns n) (n_key n) s1 else s1
  end.

(* Node.unRefExternal (what Handle.Release does once its CAS succeeded).  On the closed path the code
   (after "fix: cache: finalise once, and only at zero references, on a closed cache") re-reads the count
   before callFinalizer; in this sequential function nothing can intervene between the decrement and
   that re-read, so it is not written out — Conc/CacheLts.v has it as [zero_check_closed]. *)
Definition unref_external (nid : N) (s : state) : state :=
  match find_id nid (s_nodes s) with
  | None => s
  | Some n =>
      let s1 := upd_node nid (nd_ref (n_ref n - 1)%Z) s in
      if (n_ref n - 1 =? 0)%Z then
        (if s_closed s then call_finalizer false nid s1 else cache_delete (n_ns n) (n_key n) s1)
      else s1
  end.

Definition release_all (ev : list N) (s : state) : state :=
  fold_left (fun s x => unref_external x s) ev s.

(* ------------------------------------------------------------------ lru.go *)

(* lruNode.remove: panics when the node is not linked *)
Definition order_remove (nid : N) (s : state) : state :=
  if in_order nid (s_order s) then set_order (remove_order nid (s_order s)) s
  else set_panic s.

(* one iteration of the loop  for r.used > r.capacity { rn := r.recent.prev; rn.remove();
   rn.n.CacheData = nil; r.used -= rn.n.Size(); evicted = append(evicted, rn) }
   with rn.n = n, the least recently used node x, and ord' the rest of the list *)
Definition evict_one (x : N) (n : node) (ord' : list N) (s : state) : state :=
  set_order ord' (set_used (s_used s - Z.of_N (n_size n))%Z (upd_node x (nd_lru LAbsent) s)).

(* the loop itself — structural on the recency list (always called with ord = s_order s);
   returns the state and the evicted node ids in eviction order.  An empty list while
   used > capacity is the nil dereference of the real loop. *)
Fixpoint evict_loop (ord : list N) (s : state) : state * list N :=
  if (Z.of_N (s_cap s) <? s_used s)%Z then
    match ord with
    | [] => (set_panic s, [])
    | x :: ord' =>
        match find_id x (s_nodes s) with
        | None => (set_panic s, [])
        | Some n => let (s', ev) := evict_loop ord' (evict_one x n ord' s) in (s', x :: ev)
        end
    end
  else (s, []).

Definition run_evict_loop (s : state) : state * list N := evict_loop (s_order s) s.

(* lru.SetCapacity *)
Definition lru_set_capacity (c : N) (s : state) : state :=
  let (s1, ev) := run_evict_loop (set_cap c s) in
  release_all ev s1.

(* lru.Promote *)
Definition lru_promote (nid : N) (s : state) : state :=
  match find_id nid (s_nodes s) with
  | None => s
  | Some n =>
      match n_lru n with
      | LAbsent =>
          if n_size n <=? s_cap s then
            (* n.GetHandle(): panics unless the caller holds a reference *)
            let s0 := if (n_ref n + 1 <=? 1)%Z then set_panic s else s in
            let s1 := upd_node nid (fun n => nd_lru LResident (nd_ref (n_ref n + 1)%Z n)) s0 in
            let s2 := set_used (s_used s1 + Z.of_N (n_size n))%Z (set_order (s_order s1 ++ [nid]) s1) in
            let (s3, ev) := run_evict_loop s2 in
            release_all ev s3
          else s
      | LResident => set_order (remove_order nid (s_order s) ++ [nid]) (order_remove nid s)
      | LBanned => s
      end
  end.

(* lru.Ban *)
Definition lru_ban (nid : N) (s : state) : state :=
  match find_id nid (s_nodes s) with
  | None => s
  | Some n =>
      match n_lru n with
      | LAbsent => upd_node nid (nd_lru LBanned) s
      | LResident =>
          let s1 := order_remove nid s in
          let s2 := set_used (s_used s1 - Z.of_N (n_size n))%Z (upd_node nid (nd_lru LBanned) s1) in
          unref_external nid s2
      | LBanned => s
      end
  end.

(* lru.Evict *)
Definition lru_evict (nid : N) (s : state) : state :=
  match find_id nid (s_nodes s) with
  | None => s
  | Some n =>
      match n_lru n with
      | LResident =>
          let s1 := order_remove nid s in
          let s2 := set_used (s_used s1 - Z.of_N (n_size n))%Z (upd_node nid (nd_lru LAbsent) s1) in
          unref_external nid s2
      | _ => s
      end
  end.

(* ------------------------------------------------------------------ cache.go operations *)

(* mBucket.get: returns the node id (its ref already incremented) or None *)
Definition bucket_get (ns key : N) (get_only : bool) (s : state) : state * option N :=
  match find_key ns key (s_nodes s) with
  | Some n => (upd_node (n_id n) (nd_ref (n_ref n + 1)%Z) s, Some (n_id n))
  | None =>
      if get_only then (s, None)
      else
        let nid := s_next_nid s in
        let n := mkNode ns key nid 1%Z None 0 [] LAbsent in
        (emit (EvCreate ns key nid)
           (set_stats (s_stat_nodes s + 1)%Z (s_stat_size s)
              (set_next_nid (nid + 1) (set_nodes (insert_node n (s_nodes s)) s))), Some nid)
  end.

(* setFunc: nil, or a function whose result is (size, nil) or (size, fresh value) *)
Inductive setfunc := SfNil | SfRet (size : N) (nonnil : bool).

Inductive op :=
| OGet (ns key : N) (sf : setfunc)
| ORelease (h : N)
| ODelete (ns key : N) (with_del : bool)
| OEvict (ns key : N)
| OEvictNS (ns : N)
| OEvictAll
| OSetCap (c : N)
| OClose (force : bool).

Inductive out :=
| RGet (h : option (N * N))    (* nil, or (handle id, value id seen through Handle.Value) *)
| RBool (b : bool)
| RUnit
| RPanic.

(* the tail of Cache.Get once the node has a value: Promote and wrap in a Handle *)
Definition get_finish (nid : N) (s : state) : state * out :=
  let s1 := if s_cacher s then lru_promote nid s else s in
  match find_id nid (s_nodes s1) with
  | Some n =>
      match n_val n with
      | Some v =>
          let h := s_next_hid s1 in
          (set_next_hid (h + 1) (set_handles ((h, nid) :: s_handles s1) s1), RGet (Some (h, v)))
      | None => (set_panic s1, RPanic)
      end
  | None => (set_panic s1, RPanic)
  end.

Definition cache_get (ns key : N) (sf : setfunc) (s : state) : state * out :=
  if s_closed s then (s, RGet None) else
  match bucket_get ns key (match sf with SfNil => true | _ => false end) s with
  | (s1, None) => (s1, RGet None)
  | (s1, Some nid) =>
      match find_id nid (s_nodes s1) with
      | None => (set_panic s1, RPanic)
      | Some n =>
          match n_val n with
          | Some _ => get_finish nid s1
          | None =>
              match sf with
              | SfNil => (unref_internal nid s1, RGet None)
              | SfRet sz false =>
                  (unref_internal nid (emit (EvSetNil nid) (upd_node nid (nd_val None 0) s1)), RGet None)
              | SfRet sz true =>
                  let v := s_next_vid s1 in
                  let s2 := set_stats (s_stat_nodes s1) (s_stat_size s1 + Z.of_N sz)%Z
                              (emit (EvConstruct nid v sz)
                                 (set_next_vid (v + 1) (upd_node nid (nd_val (Some v) sz) s1))) in
                  get_finish nid s2
              end
          end
      end
  end.

Definition handle_release (h : N) (s : state) : state :=
  match find (fun p => fst p =? h) (s_handles s) with
  | None => s
  | Some p =>
      unref_external (snd p) (set_handles (filter (fun q => negb (fst q =? h)) (s_handles s)) s)
  end.

Definition cache_delete_op (ns key : N) (wd : bool) (s : state) : state * out :=
  if s_closed s then (s, RBool false) else
  let d := s_next_did s in
  let s0 := if wd then set_next_did (d + 1) s else s in
  match bucket_get ns key true s0 with
  | (s1, Some nid) =>
      let s2 := if wd then
                  match find_id nid (s_nodes s1) with
                  | Some n => emit (EvDelReg d nid) (upd_node nid (nd_dels (n_dels n ++ [d])) s1)
                  | None => set_panic s1
                  end
                else s1 in
      let s3 := if s_cacher s2 then lru_ban nid s2 else s2 in
      (unref_internal nid s3, RBool true)
  | (s1, None) => (if wd then emit (EvDelRun d) s1 else s1, RBool false)
  end.

Definition cache_evict_op (ns key : N) (s : state) : state * out :=
  if s_closed s then (s, RBool false) else
  match bucket_get ns key true s with
  | (s1, Some nid) =>
      let s2 := if s_cacher s1 then lru_evict nid s1 else s1 in
      (unref_internal nid s2, RBool true)
  | (s1, None) => (s1, RBool false)
  end.

Definition evict_ids (ids : list N) (s : state) : state :=
  fold_left (fun s x => lru_evict x s) ids s.

(* enumerateNodesByNS: a snapshot of bare node pointers (no references taken) *)
Definition ids_of_ns (ns : N) (l : list node) : list N :=
  map n_id (filter (fun n => n_ns n =? ns) l).

Definition cache_evict_ns (ns : N) (s : state) : state :=
  if s_closed s then s else
  if s_cacher s then evict_ids (ids_of_ns ns (s_nodes s)) s else s.

Definition cache_evict_all (s : state) : state :=
  if s_closed s then s else
  if s_cacher s then evict_ids (map n_id (s_nodes s)) s else s.

Definition close_node (force : bool) (s : state) (nid : N) : state :=
  let s1 := if force then upd_node nid (nd_ref 0%Z) s else s in
  let s2 := if s_cacher s1 then lru_evict nid s1 else s1 in
  if force then call_finalizer true nid s2 else s2.

Definition cache_close (force : bool) (s : state) : state :=
  if s_closed s then s else
  fold_left (close_node force) (map n_id (s_nodes s)) (set_closed true force s).

Definition cache_set_capacity (c : N) (s : state) : state :=
  if s_cacher s then lru_set_capacity c s else s.

Definition step_raw (s : state) (o : op) : state * out :=
  match o with
  | OGet ns key sf => cache_get ns key sf s
  | ORelease h => (handle_release h s, RUnit)
  | ODelete ns key wd => cache_delete_op ns key wd s
  | OEvict ns key => cache_evict_op ns key s
  | OEvictNS ns => (cache_evict_ns ns s, RUnit)
  | OEvictAll => (cache_evict_all s, RUnit)
  | OSetCap c => (cache_set_capacity c s, RUnit)
  | OClose f => (cache_close f s, RUnit)
  end.

(* a raised panic is what the caller sees *)
Definition step (s : state) (o : op) : state * out :=
  let (s', r) := step_raw s o in
  (s', if s_panic s' then RPanic else r).

Definition run (s : state) (ops : list op) : state :=
  fold_left (fun s o => fst (step s o)) ops s.

(* ------------------------------------------------------------------ observations *)

(* Cache.Nodes(), Cache.Size(), lru.used, Cache.Capacity() *)
Definition obs_nodes (s : state) : Z := s_stat_nodes s.
Definition obs_size (s : state) : Z := s_stat_size s.
Definition obs_used (s : state) : Z := s_used s.
Definition obs_capacity (s : state) : N := if s_cacher s then s_cap s else 0.

(* counting in the log *)
Definition is_final (v : N) (e : event) : bool :=
  match e with EvFinal x _ => x =? v | _ => false end.
Definition is_construct_v (v : N) (e : event) : bool :=
  match e with EvConstruct _ x _ => x =? v | _ => false end.
Definition is_construct_n (nid : N) (e : event) : bool :=
  match e with EvConstruct x _ _ => x =? nid | _ => false end.
Definition is_delrun (d : N) (e : event) : bool :=
  match e with EvDelRun x => x =? d | _ => false end.
Definition is_delreg (d : N) (e : event) : bool :=
  match e with EvDelReg x _ => x =? d | _ => false end.
Definition count_ev (p : event -> bool) (lg : list event) : nat := length (filter p lg).

(* handles outstanding on a node *)
Definition handles_on (nid : N) (hs : list (N * N)) : nat :=
  length (filter (fun p => snd p =? nid) hs).
Definition resident (n : node) : bool := lrust_eqb (n_lru n) LResident.
Definition used_sum (l : list node) : Z :=
  fold_right (fun n a => if resident n then (Z.of_N (n_size n) + a)%Z else a) 0%Z l.
Definition size_sum (l : list node) : Z :=
  fold_right (fun n a => (Z.of_N (n_size n) + a)%Z) 0%Z l.

(* what a live handle points to, and Handle.Value() *)
Definition handle_node (s : state) (h : N) : option node :=
  match find (fun p => fst p =? h) (s_handles s) with
  | Some p => find_id (snd p) (s_nodes s)
  | None => None
  end.
Definition handle_value (s : state) (h : N) : option N :=
  match handle_node s h with Some n => n_val n | None => None end.
